// Command check is the driver: it builds the monitor binary from /repo's
// current working tree (race detector on, verif hooks on), runs the monitor
// for one property as a set of child processes, merges what they observed,
// matches violations against known_findings.json, writes the evidence file
// and prints VIOLATION / KNOWN-FINDING lines.
//
//	check <ID> [--tier quick|thorough] [--replay file] [--overlay file.json]
//
// Exit status: 0 held on everything explored; 1 violation; 2 the check itself
// could not decide (build failure, watchdog, monitor saw nothing).
package main

import (
	"bufio"
	"bytes"
	"context"
	"encoding/json"
	"flag"
	"fmt"
	"os"
	"os/exec"
	"path/filepath"
	"regexp"
	"sort"
	"strconv"
	"strings"
	"sync"
	"syscall"
	"time"

	"verif/internal/rt"
)

type propConf struct {
	level        string // evidence level
	procsQuick   int    // number of child processes / batches
	procsThor    int
	gomaxprocs   int // per child; 0 = leave default
	timeoutQuick time.Duration
	timeoutThor  time.Duration
	raceAlarms   bool   // property quantifies over schedules: race report = violation
	memGiB       int    // ulimit -v for children, 0 = none
	race         bool   // build the monitor with the race detector
	raceKinds    string // with race=false: case kinds that still run under a race-detector build
	superBin     bool   // also build the `super` executable (VERIF_SUPER_BIN) from the same tree
}

// The race detector is on for every property whose statement quantifies over
// schedules or whose workload is concurrent (C01, C04, C05, C08, C12, C13) and
// for the pure value/format properties where it is cheap.  The lake-model
// properties (C14–C17, C19) and C09/C16 run single-client histories whose
// verdict does not depend on interleavings; under the race detector every ZNG
// reader's 512 KiB buffers cost ~7× (measured), so these monitors are built
// without -race (checkptr stays on) and explore ~7× more histories instead.
var props = map[string]propConf{
	"C01": {"exploration", 16, 16, 4, 10 * time.Minute, 60 * time.Minute, true, 0, true, "", false},
	"C02": {"exploration", 16, 16, 2, 10 * time.Minute, 60 * time.Minute, false, 0, true, "", false},
	"C03": {"exploration", 16, 16, 2, 10 * time.Minute, 60 * time.Minute, false, 0, true, "", false},
	"C04": {"exploration", 16, 16, 4, 10 * time.Minute, 60 * time.Minute, true, 0, true, "", false},
	"C05": {"exploration", 8, 8, 8, 10 * time.Minute, 60 * time.Minute, true, 0, true, "", false},
	"C06": {"exploration", 16, 16, 2, 10 * time.Minute, 60 * time.Minute, false, 0, true, "", false},
	"C07": {"exploration", 16, 16, 2, 10 * time.Minute, 60 * time.Minute, false, 0, true, "", false},
	"C08": {"exploration", 8, 8, 0, 10 * time.Minute, 60 * time.Minute, true, 0, true, "", false},
	"C09": {"exploration", 16, 16, 2, 10 * time.Minute, 60 * time.Minute, false, 0, false, "", false},
	"C10": {"exploration", 16, 16, 2, 10 * time.Minute, 60 * time.Minute, false, 0, true, "", false},
	"C11": {"exploration", 16, 16, 2, 15 * time.Minute, 90 * time.Minute, false, 6, true, "", false},
	"C12": {"exploration", 8, 8, 4, 10 * time.Minute, 60 * time.Minute, true, 0, false, "stress", false},
	"C13": {"exploration", 8, 8, 4, 10 * time.Minute, 60 * time.Minute, true, 0, false, "stress", false},
	"C14": {"exploration", 16, 16, 2, 10 * time.Minute, 60 * time.Minute, false, 0, false, "", true},
	"C15": {"exploration", 16, 16, 2, 10 * time.Minute, 60 * time.Minute, false, 0, false, "", false},
	"C16": {"exploration", 16, 16, 2, 10 * time.Minute, 60 * time.Minute, false, 0, false, "", false},
	"C17": {"fault_enumeration", 16, 16, 2, 10 * time.Minute, 60 * time.Minute, false, 0, false, "", false},
	"C18": {"fault_enumeration", 16, 16, 2, 10 * time.Minute, 60 * time.Minute, false, 0, true, "", true},
	"C19": {"exploration", 8, 8, 4, 10 * time.Minute, 60 * time.Minute, false, 0, false, "", false},
	"C20": {"exploration", 16, 16, 2, 10 * time.Minute, 60 * time.Minute, false, 0, true, "", false},
}

type finding struct {
	Property  string `json:"property"`
	ID        string `json:"id"`
	Status    string `json:"status"` // open | fixed
	Signature string `json:"signature,omitempty"`
	// Signatures lists further symptoms of the same root cause.
	Signatures []string `json:"signatures,omitempty"`
	// SignaturePrefixes covers a family of symptoms of one root cause.
	SignaturePrefixes []string `json:"signature_prefixes,omitempty"`
	What              string   `json:"what"`
	Commit            string   `json:"commit,omitempty"`
	Line              string   `json:"line,omitempty"`
	Replay            any      `json:"replay,omitempty"`
}

type findingsFile struct {
	Findings []finding `json:"findings"`
}

var verifDir string

func main() {
	if len(os.Args) < 2 {
		fmt.Fprintln(os.Stderr, "usage: check <ID> [--tier quick|thorough] [--replay file] [--overlay file]")
		os.Exit(2)
	}
	id := os.Args[1]
	fs := flag.NewFlagSet("check", flag.ExitOnError)
	tier := fs.String("tier", envOr("VERIF_TIER", "quick"), "quick|thorough")
	replay := fs.String("replay", "", "replay file written by an earlier run")
	overlay := fs.String("overlay", "", "go build -overlay file (mutation self-tests)")
	procs := fs.Int("procs", 0, "override number of child processes")
	keep := fs.Bool("keep", false, "keep the run directory")
	noEvidence := fs.Bool("no-evidence", false, "do not rewrite the evidence file (self-tests)")
	fs.Parse(os.Args[2:])
	conf, ok := props[id]
	if !ok {
		fmt.Fprintf(os.Stderr, "unknown property %q\n", id)
		os.Exit(2)
	}
	seed := uint64(1)
	if s := os.Getenv("VERIF_SEED"); s != "" {
		if v, err := strconv.ParseUint(s, 10, 64); err == nil {
			seed = v
		}
	}
	exe, _ := os.Executable()
	verifDir = filepath.Dir(filepath.Dir(exe))
	if _, err := os.Stat(filepath.Join(verifDir, "go.mod")); err != nil {
		verifDir, _ = os.Getwd()
	}
	os.Chdir(verifDir)
	start := time.Now()

	cache := filepath.Join(verifDir, ".cache")
	os.MkdirAll(filepath.Join(cache, "tmp"), 0o755)
	monBin := filepath.Join(cache, "mon-"+id)
	if *overlay != "" {
		monBin += "-ov"
	}
	if err := buildMonitor(monBin, *overlay, conf.race); err != nil {
		fmt.Printf("BUILD-FAILED property=%s\n%s\n", id, err)
		os.Exit(2)
	}

	if conf.superBin {
		// the `super` executable of the same tree (and overlay), for steps that
		// only exist as commands (`super db manage`)
		bin := filepath.Join(cache, "super-C14") // one binary for all properties that need it
		if *overlay != "" {
			bin += "-ov"
		}
		if err := buildSuper(bin, *overlay); err != nil {
			fmt.Printf("BUILD-FAILED property=%s\n%s\n", id, err)
			os.Exit(2)
		}
		os.Setenv("VERIF_SUPER_BIN", bin)
	}

	runDir := filepath.Join(cache, "run", fmt.Sprintf("%s-%s-%d-%d", id, *tier, seed, os.Getpid()))
	os.RemoveAll(runDir)
	os.MkdirAll(runDir, 0o755)
	if !*keep {
		defer os.RemoveAll(runDir)
	}

	if *replay != "" {
		code := runReplay(monBin, id, *replay, runDir, conf)
		if !*keep {
			os.RemoveAll(runDir)
		}
		os.Exit(code)
	}

	n := conf.procsQuick
	timeout := conf.timeoutQuick
	if *tier == "thorough" {
		n = conf.procsThor
		timeout = conf.timeoutThor
	}
	if *procs > 0 {
		n = *procs
	}

	type childOut struct {
		batch    int
		res      *rt.Result
		timedOut bool
		crash    *rt.Violation
	}
	// Case kinds listed in raceKinds run in extra children built with the race
	// detector; everything else runs in the (much faster) plain build.
	nrace := 0
	var skip []string
	raceBin := monBin + "-race"
	if conf.raceKinds != "" && !conf.race {
		nrace = 2
		skip = []string{"--skip-kinds", conf.raceKinds}
		if err := buildMonitor(raceBin, *overlay, true); err != nil {
			fmt.Printf("BUILD-FAILED property=%s\n%s\n", id, err)
			os.Exit(2)
		}
	}
	outs := make([]childOut, n+nrace)
	var wg sync.WaitGroup
	for b := 0; b < n+nrace; b++ {
		wg.Add(1)
		go func(b int) {
			defer wg.Done()
			run := func(to time.Duration) (*rt.Result, bool, *rt.Violation) {
				if b >= n {
					return runChild(raceBin, id, *tier, seed, b-n, nrace, filepath.Join(runDir, "race"), conf, to, "--only-kinds", conf.raceKinds)
				}
				return runChild(monBin, id, *tier, seed, b, n, runDir, conf, to, skip...)
			}
			res, timedOut, crash := run(timeout)
			if timedOut {
				// One retry with a larger allowance, in a fresh process.
				res, timedOut, crash = run(3 * timeout)
			}
			outs[b] = childOut{b, res, timedOut, crash}
		}(b)
	}
	wg.Wait()

	// merge
	merged := rt.Result{Counters: map[string]int64{}, Notes: map[string]string{}}
	nontriv := map[uint64]struct{}{}
	var inconclusive []string
	for _, o := range outs {
		if o.timedOut {
			inconclusive = append(inconclusive, fmt.Sprintf("batch %d: watchdog fired twice", o.batch))
		}
		if o.crash != nil {
			merged.Violations = append(merged.Violations, *o.crash)
		}
		if o.res == nil {
			continue
		}
		merged.Evaluations += o.res.Evaluations
		for _, h := range o.res.Nontrivial {
			nontriv[h] = struct{}{}
		}
		for k, v := range o.res.Counters {
			if strings.HasPrefix(k, "max_") {
				if v > merged.Counters[k] {
					merged.Counters[k] = v
				}
			} else {
				merged.Counters[k] += v
			}
		}
		for k, v := range o.res.Notes {
			merged.Notes[k] = v
		}
		for _, s := range o.res.Samples {
			if len(merged.Samples) < 5 {
				merged.Samples = append(merged.Samples, s)
			}
		}
		merged.Violations = append(merged.Violations, o.res.Violations...)
		inconclusive = append(inconclusive, o.res.Inconclusive...)
	}

	// race detector reports
	races := append(parseRaceLogs(runDir), parseRaceLogs(filepath.Join(runDir, "race"))...)
	raceCounted := 0
	var raceSamples []string
	for _, r := range races {
		if !r.inRepo {
			continue
		}
		raceCounted++
		if len(raceSamples) < 3 {
			raceSamples = append(raceSamples, r.sig)
		}
		if conf.raceAlarms {
			merged.Violations = append(merged.Violations, rt.Violation{
				Signature: "race:" + r.sig, Detail: r.text, Kind: "race", Seed: seed,
			})
		}
	}

	// known findings
	ff := loadFindings()
	open := map[string]finding{}
	for _, f := range ff.Findings {
		if f.Property == id && f.Status == "open" {
			if f.Signature != "" {
				open[f.Signature] = f
			}
			for _, sg := range f.Signatures {
				open[sg] = f
			}
		}
	}
	knownSeen := map[string]int{}
	var fresh []rt.Violation
	freshBySig := map[string]int{}
	for _, v := range merged.Violations {
		if _, ok := open[v.Signature]; !ok {
			for _, f := range ff.Findings {
				if f.Property != id || f.Status != "open" {
					continue
				}
				for _, pfx := range f.SignaturePrefixes {
					if strings.HasPrefix(v.Signature, pfx) {
						open[v.Signature] = f
					}
				}
			}
		}
		if _, ok := open[v.Signature]; ok {
			knownSeen[v.Signature]++
			continue
		}
		if freshBySig[v.Signature] == 0 {
			fresh = append(fresh, v)
		}
		freshBySig[v.Signature]++
	}
	var knownSigs []string
	for s := range knownSeen {
		knownSigs = append(knownSigs, s)
	}
	sort.Strings(knownSigs)
	printed := map[string]bool{}
	for _, s := range knownSigs {
		f := open[s]
		if printed[f.ID] {
			continue
		}
		printed[f.ID] = true
		n := 0
		for s2, c := range knownSeen {
			if open[s2].ID == f.ID {
				n += c
			}
		}
		fmt.Printf("KNOWN-FINDING: property=%s %s [%s; seen %d×]\n", id, f.What, f.ID, n)
	}

	replayDir := filepath.Join(cache, "replays")
	os.MkdirAll(replayDir, 0o755)
	sort.Slice(fresh, func(i, j int) bool { return fresh[i].Signature < fresh[j].Signature })
	for i, v := range fresh {
		path := filepath.Join(replayDir, fmt.Sprintf("%s-%s-seed%d-%d.json", id, *tier, seed, i))
		b, _ := json.MarshalIndent(map[string]any{
			"property": id, "tier": *tier, "seed": v.Seed, "kind": v.Kind, "index": v.Index,
			"signature": v.Signature, "occurrences": freshBySig[v.Signature], "desc": v.Desc, "detail": v.Detail,
		}, "", " ")
		os.WriteFile(path, b, 0o644)
		fmt.Printf("VIOLATION property=%s replay=%s\n", id, path)
		fmt.Printf("  signature: %s (%d×)\n", v.Signature, freshBySig[v.Signature])
		for _, l := range strings.SplitN(v.Detail, "\n", 12)[:min(11, strings.Count(v.Detail, "\n")+1)] {
			fmt.Printf("  | %s\n", l)
		}
	}

	distinct := len(nontriv)
	wall := time.Since(start).Seconds()
	if !*noEvidence {
		writeEvidence(id, *tier, seed, conf, &merged, distinct, raceCounted, len(races), raceSamples, knownSeen, len(fresh), inconclusive, wall)
	}
	fmt.Printf("property=%s tier=%s seed=%d evaluations=%d distinct_nontrivial=%d violations=%d known=%d races(repo/all)=%d/%d wall=%.0fs\n",
		id, *tier, seed, merged.Evaluations, distinct, len(fresh), len(knownSeen), raceCounted, len(races), wall)
	if !*keep {
		// os.Exit below skips the deferred removal; replay files live in .cache/replays
		os.RemoveAll(runDir)
	}
	if len(fresh) > 0 {
		os.Exit(1)
	}
	if len(inconclusive) > 0 {
		for _, s := range inconclusive {
			fmt.Printf("INCONCLUSIVE property=%s %s\n", id, s)
		}
		os.Exit(2)
	}
	if distinct < 2 || merged.Evaluations == 0 {
		fmt.Printf("INCONCLUSIVE property=%s the monitor observed too little (evaluations=%d distinct_nontrivial=%d)\n", id, merged.Evaluations, distinct)
		os.Exit(2)
	}
}

func envOr(k, d string) string {
	if v := os.Getenv(k); v != "" {
		return v
	}
	return d
}

func goEnv() []string {
	env := os.Environ()
	env = append(env, "GOFLAGS=-mod=mod", "GOPROXY=off", "GOSUMDB=off", "GOTOOLCHAIN=local", "GONOSUMDB=*", "GONOSUMCHECK=1")
	return env
}

func buildMonitor(out, overlay string, race bool) error {
	// Serialize builds of the same output between concurrent check runs.
	lock, err := os.OpenFile(out+".lock", os.O_CREATE|os.O_RDWR, 0o644)
	if err == nil {
		syscall.Flock(int(lock.Fd()), syscall.LOCK_EX)
		defer func() { syscall.Flock(int(lock.Fd()), syscall.LOCK_UN); lock.Close() }()
	}
	args := []string{"build", "-tags", "verif", "-o", out}
	if race {
		args = append(args, "-race")
	} else {
		args = append(args, "-gcflags=all=-d=checkptr")
	}
	if overlay != "" {
		abs, _ := filepath.Abs(overlay)
		args = append(args, "-overlay", abs)
	}
	args = append(args, "./mon")
	cmd := exec.Command("go", args...)
	cmd.Dir = verifDir
	cmd.Env = goEnv()
	var buf bytes.Buffer
	cmd.Stdout = &buf
	cmd.Stderr = &buf
	if err := cmd.Run(); err != nil {
		return fmt.Errorf("go %s: %v\n%s", strings.Join(args, " "), err, buf.String())
	}
	return nil
}

func buildSuper(out, overlay string) error {
	lock, err := os.OpenFile(out+".lock", os.O_CREATE|os.O_RDWR, 0o644)
	if err == nil {
		syscall.Flock(int(lock.Fd()), syscall.LOCK_EX)
		defer func() { syscall.Flock(int(lock.Fd()), syscall.LOCK_UN); lock.Close() }()
	}
	args := []string{"build", "-o", out}
	if overlay != "" {
		abs, _ := filepath.Abs(overlay)
		args = append(args, "-overlay", abs)
	}
	args = append(args, "github.com/brimdata/super/cmd/super")
	cmd := exec.Command("go", args...)
	cmd.Dir = verifDir
	cmd.Env = goEnv()
	var buf bytes.Buffer
	cmd.Stdout = &buf
	cmd.Stderr = &buf
	if err := cmd.Run(); err != nil {
		return fmt.Errorf("go %s: %v\n%s", strings.Join(args, " "), err, buf.String())
	}
	return nil
}

func childCmd(ctx context.Context, monBin, runDir string, conf propConf, tag string, args ...string) (*exec.Cmd, *os.File) {
	var cmd *exec.Cmd
	if conf.memGiB > 0 {
		sh := fmt.Sprintf("ulimit -v %d; exec \"$0\" \"$@\"", conf.memGiB*1024*1024)
		cmd = exec.CommandContext(ctx, "/bin/sh", append([]string{"-c", sh, monBin}, args...)...)
	} else {
		cmd = exec.CommandContext(ctx, monBin, args...)
	}
	cmd.Cancel = func() error { return cmd.Process.Signal(syscall.SIGQUIT) }
	cmd.WaitDelay = 20 * time.Second
	tmp := filepath.Join(runDir, "tmp-"+tag)
	os.MkdirAll(tmp, 0o755)
	env := os.Environ()
	env = append(env,
		"GORACE=halt_on_error=0 exitcode=0 history_size=3 log_path="+filepath.Join(runDir, "race-"+tag),
		"GOTRACEBACK=all",
		"TMPDIR="+tmp,
		"VERIF_DIR="+verifDir,
	)
	if conf.gomaxprocs > 0 && os.Getenv("VERIF_KEEP_GOMAXPROCS") == "" {
		env = append(env, fmt.Sprintf("GOMAXPROCS=%d", conf.gomaxprocs))
	}
	cmd.Env = env
	out, _ := os.Create(filepath.Join(runDir, "out-"+tag+".txt"))
	cmd.Stdout = out
	cmd.Stderr = out
	return cmd, out
}

func runChild(monBin, id, tier string, seed uint64, batch, n int, runDir string, conf propConf, timeout time.Duration, extra ...string) (*rt.Result, bool, *rt.Violation) {
	os.MkdirAll(runDir, 0o755)
	ctx, cancel := context.WithTimeout(context.Background(), timeout)
	defer cancel()
	tag := strconv.Itoa(batch)
	os.Remove(filepath.Join(runDir, "result."+tag+".json"))
	cmd, out := childCmd(ctx, monBin, runDir, conf, tag,
		append([]string{id, "--tier", tier, "--seed", strconv.FormatUint(seed, 10), "--batch", tag, "--nbatches", strconv.Itoa(n), "--out", runDir}, extra...)...)
	err := cmd.Run()
	out.Close()
	os.RemoveAll(filepath.Join(runDir, "tmp-"+tag))
	if ctx.Err() == context.DeadlineExceeded {
		return nil, true, nil
	}
	var res *rt.Result
	if b, rerr := os.ReadFile(filepath.Join(runDir, "result."+tag+".json")); rerr == nil {
		res = new(rt.Result)
		if json.Unmarshal(b, res) != nil || !res.Complete {
			res = nil
		}
	}
	if res != nil && err == nil {
		return res, false, nil
	}
	// The child died: the last begun-but-not-ended case is the witness.
	kind, index, desc := lastOpenCase(filepath.Join(runDir, "cases."+tag+".jsonl"))
	outText, _ := os.ReadFile(filepath.Join(runDir, "out-"+tag+".txt"))
	sig := crashSignature(string(outText))
	tail := string(outText)
	if len(tail) > 5000 {
		tail = tail[:5000]
	}
	v := &rt.Violation{Signature: "crash:" + sig, Kind: kind, Index: index, Seed: seed, Desc: desc,
		Detail: fmt.Sprintf("monitor child %d died (%v) while running case %s/%d\n%s", batch, err, kind, index, tail)}
	return res, false, v
}

func lastOpenCase(path string) (string, int, any) {
	f, err := os.Open(path)
	if err != nil {
		return "unknown", -1, nil
	}
	defer f.Close()
	sc := bufio.NewScanner(f)
	sc.Buffer(make([]byte, 1<<20), 1<<26)
	kind, index := "unknown", -1
	var desc any
	open := false
	for sc.Scan() {
		var m map[string]any
		if json.Unmarshal(sc.Bytes(), &m) != nil {
			continue
		}
		switch m["ev"] {
		case "begin":
			kind, _ = m["kind"].(string)
			if f, ok := m["index"].(float64); ok {
				index = int(f)
			}
			desc = nil
			open = true
		case "desc":
			desc = m["desc"]
		case "end":
			open = false
		}
	}
	if !open {
		return "after-last-case", index, nil
	}
	return kind, index, desc
}

var numRE = regexp.MustCompile(`0x[0-9a-fA-F]+|\d+`)

func crashSignature(out string) string {
	for _, line := range strings.Split(out, "\n") {
		if strings.HasPrefix(line, "fatal error:") || strings.HasPrefix(line, "panic:") {
			msg := numRE.ReplaceAllString(line, "N")
			if len(msg) > 100 {
				msg = msg[:100]
			}
			rest := out[strings.Index(out, line):]
			return rt.InnermostRepoFrame(rest) + ":" + msg
		}
	}
	if strings.Contains(out, "SIGQUIT") {
		return "sigquit"
	}
	return "exit-without-result"
}

type raceReport struct {
	sig    string
	text   string
	inRepo bool
}

func parseRaceLogs(runDir string) []raceReport {
	files, _ := filepath.Glob(filepath.Join(runDir, "race-*"))
	seen := map[string]bool{}
	var out []raceReport
	for _, f := range files {
		b, err := os.ReadFile(f)
		if err != nil {
			continue
		}
		blocks := strings.Split(string(b), "==================")
		for _, blk := range blocks {
			if !strings.Contains(blk, "WARNING: DATA RACE") {
				continue
			}
			r := classifyRace(blk)
			if seen[r.sig] {
				continue
			}
			seen[r.sig] = true
			out = append(out, r)
		}
	}
	return out
}

// classifyRace takes the first non-runtime frame of each of the two access
// stacks; the report counts when at least one is inside the code under test.
func classifyRace(blk string) raceReport {
	var tops []string
	lines := strings.Split(blk, "\n")
	for i := 0; i < len(lines); i++ {
		l := lines[i]
		isAccess := (strings.Contains(l, "rite at 0x") || strings.Contains(l, "ead at 0x") || strings.Contains(l, "revious write") || strings.Contains(l, "revious read")) && strings.Contains(l, "by ")
		if !isAccess {
			continue
		}
		top := ""
		for j := i + 1; j < len(lines) && strings.TrimSpace(lines[j]) != ""; j += 2 {
			fn := strings.TrimSpace(lines[j])
			if strings.HasPrefix(fn, "runtime.") || strings.HasPrefix(fn, "sync.") || strings.HasPrefix(fn, "sync/atomic.") || strings.HasPrefix(fn, "internal/") {
				continue
			}
			if k := strings.LastIndex(fn, "("); k > 0 {
				fn = fn[:k]
			}
			top = fn
			break
		}
		tops = append(tops, top)
		if len(tops) == 2 {
			break
		}
	}
	sort.Strings(tops)
	inRepo := false
	for _, t := range tops {
		if strings.HasPrefix(t, "github.com/brimdata/super") {
			inRepo = true
		}
	}
	sig := strings.Join(tops, "|")
	sig = strings.ReplaceAll(sig, "github.com/brimdata/super/", "")
	if len(blk) > 6000 {
		blk = blk[:6000]
	}
	return raceReport{sig: sig, text: blk, inRepo: inRepo}
}

func loadFindings() findingsFile {
	var ff findingsFile
	b, err := os.ReadFile(filepath.Join(verifDir, "known_findings.json"))
	if err == nil {
		json.Unmarshal(b, &ff)
	}
	// VERIF_FINDINGS names an additional file (used while triaging, never by
	// the registered commands).
	if extra := os.Getenv("VERIF_FINDINGS"); extra != "" {
		var ef findingsFile
		if b, err := os.ReadFile(extra); err == nil && json.Unmarshal(b, &ef) == nil {
			ff.Findings = append(ff.Findings, ef.Findings...)
		}
	}
	return ff
}

func writeEvidence(id, tier string, seed uint64, conf propConf, m *rt.Result, distinct, raceRepo, raceAll int, raceSamples []string, known map[string]int, nviol int, inconclusive []string, wall float64) {
	cov := map[string]any{
		"evaluations":         m.Evaluations,
		"distinct_nontrivial": distinct,
		"rule":                m.Notes["rule"],
		"samples":             m.Samples,
		"observed":            m.Counters,
		"race_detector":       map[string]any{"reports_in_repo_code": raceRepo, "reports_total": raceAll, "samples": raceSamples, "alarms": conf.raceAlarms},
		"known_finding_hits":  known,
	}
	if m.Notes["exhaustive"] == "true" {
		cov["exhaustive"] = true
	}
	if g := m.Notes["granularity"]; g != "" {
		cov["granularity"] = g
	}
	if len(inconclusive) > 0 {
		cov["inconclusive"] = inconclusive
	}
	if m.Samples == nil {
		cov["samples"] = []any{}
	}
	var assumptions []string
	if a := m.Notes["assumptions"]; a != "" {
		assumptions = strings.Split(a, "\n")
	}
	assumptions = append(assumptions,
		"decides only the executions produced in this run (race detector + monitors over the real code built from /repo's working tree with -race -tags verif)")
	ev := map[string]any{
		"property_id": id, "tier": tier, "seed": seed, "level": conf.level,
		"coverage": cov, "assumptions": assumptions, "wall_s": wall, "violations": nviol,
	}
	b, _ := json.MarshalIndent(ev, "", " ")
	os.MkdirAll(filepath.Join(verifDir, "evidence"), 0o755)
	os.WriteFile(filepath.Join(verifDir, "evidence", id+".json"), append(b, '\n'), 0o644)
}

func runReplay(monBin, id, file, runDir string, conf propConf) int {
	b, err := os.ReadFile(file)
	if err != nil {
		fmt.Fprintln(os.Stderr, err)
		return 2
	}
	var rp struct {
		Tier  string `json:"tier"`
		Seed  uint64 `json:"seed"`
		Kind  string `json:"kind"`
		Index int    `json:"index"`
	}
	if err := json.Unmarshal(b, &rp); err != nil {
		fmt.Fprintln(os.Stderr, err)
		return 2
	}
	ctx, cancel := context.WithTimeout(context.Background(), 30*time.Minute)
	defer cancel()
	cmd, out := childCmd(ctx, monBin, runDir, conf, "replay",
		id, "--tier", rp.Tier, "--seed", strconv.FormatUint(rp.Seed, 10), "--out", runDir,
		"--replay-kind", rp.Kind, "--replay-index", strconv.Itoa(rp.Index))
	out.Close()
	cmd.Stdout = os.Stdout
	cmd.Stderr = os.Stderr
	err = cmd.Run()
	var res rt.Result
	if rb, rerr := os.ReadFile(filepath.Join(runDir, "result.0.json")); rerr == nil {
		json.Unmarshal(rb, &res)
	}
	if err != nil || len(res.Violations) > 0 {
		fmt.Printf("VIOLATION property=%s replay=%s\n", id, file)
		return 1
	}
	fmt.Printf("replay of %s/%d: no violation\n", rp.Kind, rp.Index)
	return 0
}

package main

import (
	"context"
	"encoding/json"
	"fmt"
	"os"

	zed "github.com/brimdata/super"
	"github.com/brimdata/super/zson"

	"github.com/brimdata/super/pkg/verifhook"

	"verif/internal/lk"
	"verif/internal/store"
)

func main() {
	ctx := context.Background()
	var desc struct {
		Pool lk.PoolSpec `json:"pool"`
		Ops  []lk.Op     `json:"ops"`
	}
	b, _ := os.ReadFile(os.Args[1])
	if err := json.Unmarshal(b, &desc); err != nil {
		panic(err)
	}
	for iter := 0; iter < 40; iter++ {
		eng := store.New(store.NewMem(), false)
		l, err := lk.Create(ctx, eng)
		if err != nil {
			panic(err)
		}
		id, err := l.CreatePool(ctx, desc.Pool)
		if err != nil {
			panic(err)
		}
		m := lk.NewModel(desc.Pool, id)
		for step, op := range desc.Ops[:19] {
			if step == 18 {
				objs, _ := l.Objects(ctx, "p", "main")
				var before []string
				for i, o := range objs {
					vals, _ := lk.ReadObjectFile(zed.NewContext(), eng.B, id, o.ID)
					s := ""
					for _, v := range vals {
						s += zson.FormatValue(v) + " "
					}
					before = append(before, fmt.Sprintf("  obj[%d] %s count=%d: %s", i, o.ID, o.Count, s))
				}
				var parts []int
				verifhook.SetAtObj(func(point string, obj any, n int) {
					if point == "meta.slicer.partition" {
						parts = append(parts, n)
					}
				})
				os.Setenv("SLICERDBG", "1")
				fmt.Fprintln(os.Stderr, "---- iter", iter)
				out := m.Exec(ctx, l, eng.B, op)
				os.Setenv("SLICERDBG", "")
				verifhook.SetAtObj(nil)
				before = append(before, fmt.Sprint("  partitions during compact: ", parts))
				for _, o := range objs {
					before = append(before, fmt.Sprintf("  listing %s min=%s max=%s", o.ID, o.Min.Type+":"+fmt.Sprintf("%x", o.Min.Bytes), o.Max.Type+":"+fmt.Sprintf("%x", o.Max.Bytes)))
				}
				objs2, _ := l.Objects(ctx, "p", "main")
				bad := false
				var after []string
				for i, o := range objs2 {
					vals, _ := lk.ReadObjectFile(zed.NewContext(), eng.B, id, o.ID)
					s := ""
					for _, v := range vals {
						s += zson.FormatValue(v) + " "
					}
					after = append(after, fmt.Sprintf("  obj[%d] %s count=%d: %s", i, o.ID, o.Count, s))
				}
				for _, p := range out.Problems {
					_ = p
				}
				vals, _ := l.QueryVals(ctx, "from p")
				seenMissing := false
				for _, v := range vals {
					k := v.Deref("k")
					if k == nil || k.IsNull() {
						if !seenMissing {
							seenMissing = true
						}
					} else if seenMissing {
						// fine in desc: nulls first
					}
				}
				// detect: a non-null key before a null/missing key in desc order
				nonnull := false
				for _, v := range vals {
					k := v.Deref("k")
					if k == nil || k.IsNull() {
						if nonnull {
							bad = true
						}
					} else {
						nonnull = true
					}
				}
				if bad {
					fmt.Println("ITER", iter, "BAD after", op)
					for _, s := range before {
						fmt.Println(s)
					}
					fmt.Println(" after:")
					for _, s := range after {
						fmt.Println(s)
					}
					os.Exit(0)
				}
				continue
			}
			m.Exec(ctx, l, eng.B, op)
		}
	}
	fmt.Println("not reproduced")
}

package gen

import (
	zed "github.com/brimdata/super"
	"github.com/brimdata/super/zcode"
)

// RewriteLeaves rebuilds the value (typ, body) with every non-null primitive
// leaf replaced by fn(primitiveType, leafBytes).  Sets and maps are brought
// back to their spec-normal form afterwards (a rewrite may change the order
// or merge elements).  Enum selectors and union tags are kept.  The type of
// the value does not change.
func RewriteLeaves(typ zed.Type, body zcode.Bytes, fn func(zed.Type, zcode.Bytes) zcode.Bytes) zcode.Bytes {
	var b zcode.Builder
	rewriteLeaves(&b, typ, body, fn)
	it := b.Bytes().Iter()
	return it.Next()
}

func rewriteLeaves(b *zcode.Builder, typ zed.Type, body zcode.Bytes, fn func(zed.Type, zcode.Bytes) zcode.Bytes) {
	if body == nil {
		b.Append(nil)
		return
	}
	switch t := typ.(type) {
	case *zed.TypeNamed:
		rewriteLeaves(b, t.Type, body, fn)
	case *zed.TypeError:
		rewriteLeaves(b, t.Type, body, fn)
	case *zed.TypeRecord:
		b.BeginContainer()
		it := body.Iter()
		for _, f := range t.Fields {
			rewriteLeaves(b, f.Type, it.Next(), fn)
		}
		b.EndContainer()
	case *zed.TypeArray:
		b.BeginContainer()
		for it := body.Iter(); !it.Done(); {
			rewriteLeaves(b, t.Type, it.Next(), fn)
		}
		b.EndContainer()
	case *zed.TypeSet:
		b.BeginContainer()
		for it := body.Iter(); !it.Done(); {
			rewriteLeaves(b, t.Type, it.Next(), fn)
		}
		b.TransformContainer(zed.NormalizeSet)
		b.EndContainer()
	case *zed.TypeMap:
		b.BeginContainer()
		for it := body.Iter(); !it.Done(); {
			rewriteLeaves(b, t.KeyType, it.Next(), fn)
			rewriteLeaves(b, t.ValType, it.Next(), fn)
		}
		b.TransformContainer(zed.NormalizeMap)
		b.EndContainer()
	case *zed.TypeUnion:
		it := body.Iter()
		tagBytes := it.Next()
		tag := int(zed.DecodeInt(tagBytes))
		b.BeginContainer()
		b.Append(tagBytes)
		rewriteLeaves(b, t.Types[tag], it.Next(), fn)
		b.EndContainer()
	case *zed.TypeEnum:
		b.Append(body)
	default:
		b.Append(fn(typ, body))
	}
}

// WalkLeaves calls fn for every position of the value: (type at that
// position, body, depth).  Containers are reported before their children;
// null positions are reported with a nil body.
func WalkLeaves(typ zed.Type, body zcode.Bytes, depth int, fn func(typ zed.Type, body zcode.Bytes, depth int)) {
	fn(typ, body, depth)
	if body == nil {
		return
	}
	switch t := typ.(type) {
	case *zed.TypeNamed:
		WalkLeaves(t.Type, body, depth+1, fn)
	case *zed.TypeError:
		WalkLeaves(t.Type, body, depth+1, fn)
	case *zed.TypeRecord:
		it := body.Iter()
		for _, f := range t.Fields {
			WalkLeaves(f.Type, it.Next(), depth+1, fn)
		}
	case *zed.TypeArray:
		for it := body.Iter(); !it.Done(); {
			WalkLeaves(t.Type, it.Next(), depth+1, fn)
		}
	case *zed.TypeSet:
		for it := body.Iter(); !it.Done(); {
			WalkLeaves(t.Type, it.Next(), depth+1, fn)
		}
	case *zed.TypeMap:
		for it := body.Iter(); !it.Done(); {
			WalkLeaves(t.KeyType, it.Next(), depth+1, fn)
			WalkLeaves(t.ValType, it.Next(), depth+1, fn)
		}
	case *zed.TypeUnion:
		it := body.Iter()
		tag := int(zed.DecodeInt(it.Next()))
		WalkLeaves(t.Types[tag], it.Next(), depth+1, fn)
	}
}

// WalkType calls fn for typ and every type nested inside it, in
// left-to-right depth-first order (a named type before its underlying type).
func WalkType(typ zed.Type, fn func(zed.Type)) {
	fn(typ)
	switch t := typ.(type) {
	case *zed.TypeNamed:
		WalkType(t.Type, fn)
	case *zed.TypeError:
		WalkType(t.Type, fn)
	case *zed.TypeRecord:
		for _, f := range t.Fields {
			WalkType(f.Type, fn)
		}
	case *zed.TypeArray:
		WalkType(t.Type, fn)
	case *zed.TypeSet:
		WalkType(t.Type, fn)
	case *zed.TypeMap:
		WalkType(t.KeyType, fn)
		WalkType(t.ValType, fn)
	case *zed.TypeUnion:
		for _, m := range t.Types {
			WalkType(m, fn)
		}
	}
}

// TypeMap describes a structural re-mapping of types: named types may be
// renamed, enum symbol lists replaced.  Everything else is rebuilt as is.
type TypeMap struct {
	Rename func(*zed.TypeNamed) string
	Enum   func([]string) []string
	// CollapseNameChains: a named type whose underlying type is itself a
	// named type keeps only the outer name.
	CollapseNameChains bool
	// Drop: a named type for which it returns true is replaced by its
	// underlying type.
	Drop func(*zed.TypeNamed) bool
}

// MapType rebuilds typ in zctx under m.
func MapType(zctx *zed.Context, typ zed.Type, m TypeMap) zed.Type {
	switch t := typ.(type) {
	case *zed.TypeNamed:
		if m.Drop != nil && m.Drop(t) {
			return MapType(zctx, t.Type, m)
		}
		under := t.Type
		if m.CollapseNameChains {
			for {
				n, ok := under.(*zed.TypeNamed)
				if !ok {
					break
				}
				under = n.Type
			}
		}
		inner := MapType(zctx, under, m)
		name := t.Name
		if m.Rename != nil {
			name = m.Rename(t)
		}
		n, err := zctx.LookupTypeNamed(name, inner)
		if err != nil {
			panic(err)
		}
		return n
	case *zed.TypeError:
		return zctx.LookupTypeError(MapType(zctx, t.Type, m))
	case *zed.TypeRecord:
		fields := make([]zed.Field, len(t.Fields))
		for i, f := range t.Fields {
			fields[i] = zed.NewField(f.Name, MapType(zctx, f.Type, m))
		}
		return zctx.MustLookupTypeRecord(fields)
	case *zed.TypeArray:
		return zctx.LookupTypeArray(MapType(zctx, t.Type, m))
	case *zed.TypeSet:
		return zctx.LookupTypeSet(MapType(zctx, t.Type, m))
	case *zed.TypeMap:
		return zctx.LookupTypeMap(MapType(zctx, t.KeyType, m), MapType(zctx, t.ValType, m))
	case *zed.TypeUnion:
		types := make([]zed.Type, len(t.Types))
		for i, mem := range t.Types {
			types[i] = MapType(zctx, mem, m)
		}
		return zctx.LookupTypeUnion(types)
	case *zed.TypeEnum:
		syms := t.Symbols
		if m.Enum != nil {
			syms = m.Enum(syms)
		}
		return zctx.LookupTypeEnum(syms)
	default:
		return typ
	}
}

// Retype rebuilds the value (typ, body) as a value of MapType(zctx, typ, m):
// same structure and leaves, union tags re-computed for the canonical member
// order of the new union types, sets and maps re-normalized.
func Retype(zctx *zed.Context, typ zed.Type, body zcode.Bytes, m TypeMap) (zed.Type, zcode.Bytes) {
	dst := MapType(zctx, typ, m)
	var b zcode.Builder
	retype(&b, zctx, typ, body, m)
	it := b.Bytes().Iter()
	return dst, it.Next()
}

func retype(b *zcode.Builder, zctx *zed.Context, typ zed.Type, body zcode.Bytes, m TypeMap) {
	if body == nil {
		b.Append(nil)
		return
	}
	switch t := typ.(type) {
	case *zed.TypeNamed:
		retype(b, zctx, t.Type, body, m)
	case *zed.TypeError:
		retype(b, zctx, t.Type, body, m)
	case *zed.TypeRecord:
		b.BeginContainer()
		it := body.Iter()
		for _, f := range t.Fields {
			retype(b, zctx, f.Type, it.Next(), m)
		}
		b.EndContainer()
	case *zed.TypeArray:
		b.BeginContainer()
		for it := body.Iter(); !it.Done(); {
			retype(b, zctx, t.Type, it.Next(), m)
		}
		b.EndContainer()
	case *zed.TypeSet:
		b.BeginContainer()
		for it := body.Iter(); !it.Done(); {
			retype(b, zctx, t.Type, it.Next(), m)
		}
		b.TransformContainer(zed.NormalizeSet)
		b.EndContainer()
	case *zed.TypeMap:
		b.BeginContainer()
		for it := body.Iter(); !it.Done(); {
			retype(b, zctx, t.KeyType, it.Next(), m)
			retype(b, zctx, t.ValType, it.Next(), m)
		}
		b.TransformContainer(zed.NormalizeMap)
		b.EndContainer()
	case *zed.TypeUnion:
		it := body.Iter()
		tag := int(zed.DecodeInt(it.Next()))
		dstUnion := MapType(zctx, t, m).(*zed.TypeUnion)
		dstTag := dstUnion.TagOf(MapType(zctx, t.Types[tag], m))
		b.BeginContainer()
		b.Append(zed.EncodeInt(int64(dstTag)))
		retype(b, zctx, t.Types[tag], it.Next(), m)
		b.EndContainer()
	default:
		if typ.ID() == zed.IDType {
			// a type value: map the type it denotes the same way
			if tv, err := zctx.LookupByValue(append(zcode.Bytes{}, body...)); err == nil {
				b.Append(zed.EncodeTypeValue(MapType(zctx, tv, m)))
				return
			}
		}
		b.Append(body)
	}
}

// Rebuild rebuilds the value (typ, body); at every position hook is asked
// first with (type at the position, type of the directly enclosing position
// or nil at top level, body): if it returns replace=true the returned body
// is used for the whole position.  Sets and maps are re-normalized.
func Rebuild(typ zed.Type, body zcode.Bytes, hook func(typ, parent zed.Type, body zcode.Bytes) (zcode.Bytes, bool)) zcode.Bytes {
	var b zcode.Builder
	rebuild(&b, typ, nil, body, hook)
	it := b.Bytes().Iter()
	return it.Next()
}

func rebuild(b *zcode.Builder, typ, parent zed.Type, body zcode.Bytes, hook func(typ, parent zed.Type, body zcode.Bytes) (zcode.Bytes, bool)) {
	if nb, ok := hook(typ, parent, body); ok {
		b.Append(nb)
		return
	}
	if body == nil {
		b.Append(nil)
		return
	}
	switch t := typ.(type) {
	case *zed.TypeNamed:
		rebuild(b, t.Type, t, body, hook)
	case *zed.TypeError:
		rebuild(b, t.Type, t, body, hook)
	case *zed.TypeRecord:
		b.BeginContainer()
		it := body.Iter()
		for _, f := range t.Fields {
			rebuild(b, f.Type, t, it.Next(), hook)
		}
		b.EndContainer()
	case *zed.TypeArray:
		b.BeginContainer()
		for it := body.Iter(); !it.Done(); {
			rebuild(b, t.Type, t, it.Next(), hook)
		}
		b.EndContainer()
	case *zed.TypeSet:
		b.BeginContainer()
		for it := body.Iter(); !it.Done(); {
			rebuild(b, t.Type, t, it.Next(), hook)
		}
		b.TransformContainer(zed.NormalizeSet)
		b.EndContainer()
	case *zed.TypeMap:
		b.BeginContainer()
		for it := body.Iter(); !it.Done(); {
			rebuild(b, t.KeyType, t, it.Next(), hook)
			rebuild(b, t.ValType, t, it.Next(), hook)
		}
		b.TransformContainer(zed.NormalizeMap)
		b.EndContainer()
	case *zed.TypeUnion:
		it := body.Iter()
		tagBytes := it.Next()
		tag := int(zed.DecodeInt(tagBytes))
		b.BeginContainer()
		b.Append(tagBytes)
		rebuild(b, t.Types[tag], t, it.Next(), hook)
		b.EndContainer()
	default:
		b.Append(body)
	}
}

// UnnameType strips every type name from typ (rebuilt in zctx).  Union
// members that become equal are merged; a union left with one member
// becomes that member.
func UnnameType(zctx *zed.Context, typ zed.Type) zed.Type {
	switch t := typ.(type) {
	case *zed.TypeNamed:
		return UnnameType(zctx, t.Type)
	case *zed.TypeError:
		return zctx.LookupTypeError(UnnameType(zctx, t.Type))
	case *zed.TypeRecord:
		fields := make([]zed.Field, len(t.Fields))
		for i, f := range t.Fields {
			fields[i] = zed.NewField(f.Name, UnnameType(zctx, f.Type))
		}
		return zctx.MustLookupTypeRecord(fields)
	case *zed.TypeArray:
		return zctx.LookupTypeArray(UnnameType(zctx, t.Type))
	case *zed.TypeSet:
		return zctx.LookupTypeSet(UnnameType(zctx, t.Type))
	case *zed.TypeMap:
		return zctx.LookupTypeMap(UnnameType(zctx, t.KeyType), UnnameType(zctx, t.ValType))
	case *zed.TypeUnion:
		var types []zed.Type
		for _, m := range t.Types {
			u := UnnameType(zctx, m)
			if uu, ok := u.(*zed.TypeUnion); ok {
				types = append(types, uu.Types...)
			} else {
				types = append(types, u)
			}
		}
		types = zed.UniqueTypes(types)
		if len(types) == 1 {
			return types[0]
		}
		return zctx.LookupTypeUnion(types)
	case *zed.TypeEnum:
		return zctx.LookupTypeEnum(t.Symbols)
	default:
		return typ
	}
}

// Unname rebuilds the value (typ, body) as a value of UnnameType(typ).
func Unname(zctx *zed.Context, typ zed.Type, body zcode.Bytes) (zed.Type, zcode.Bytes) {
	var b zcode.Builder
	unname(&b, zctx, typ, body)
	it := b.Bytes().Iter()
	return UnnameType(zctx, typ), it.Next()
}

func unname(b *zcode.Builder, zctx *zed.Context, typ zed.Type, body zcode.Bytes) {
	if body == nil {
		b.Append(nil)
		return
	}
	switch t := typ.(type) {
	case *zed.TypeNamed:
		unname(b, zctx, t.Type, body)
	case *zed.TypeError:
		unname(b, zctx, t.Type, body)
	case *zed.TypeRecord:
		b.BeginContainer()
		it := body.Iter()
		for _, f := range t.Fields {
			unname(b, zctx, f.Type, it.Next())
		}
		b.EndContainer()
	case *zed.TypeArray:
		b.BeginContainer()
		for it := body.Iter(); !it.Done(); {
			unname(b, zctx, t.Type, it.Next())
		}
		b.EndContainer()
	case *zed.TypeSet:
		b.BeginContainer()
		for it := body.Iter(); !it.Done(); {
			unname(b, zctx, t.Type, it.Next())
		}
		b.TransformContainer(zed.NormalizeSet)
		b.EndContainer()
	case *zed.TypeMap:
		b.BeginContainer()
		for it := body.Iter(); !it.Done(); {
			unname(b, zctx, t.KeyType, it.Next())
			unname(b, zctx, t.ValType, it.Next())
		}
		b.TransformContainer(zed.NormalizeMap)
		b.EndContainer()
	case *zed.TypeUnion:
		it := body.Iter()
		tag := int(zed.DecodeInt(it.Next()))
		inner := it.Next()
		dst := UnnameType(zctx, t)
		mem := UnnameType(zctx, t.Types[tag])
		du, ok := dst.(*zed.TypeUnion)
		if !ok {
			// the union collapsed to its single member
			unname(b, zctx, t.Types[tag], inner)
			return
		}
		if mu, isUnion := mem.(*zed.TypeUnion); isUnion {
			// a named union member was flattened into the parent: re-tag
			// the inner union value directly in the parent
			if inner == nil {
				b.Append(nil)
				return
			}
			var ib zcode.Builder
			unname(&ib, zctx, t.Types[tag], inner)
			iit := ib.Bytes().Iter()
			ibody := iit.Next()
			if ibody == nil {
				b.Append(nil)
				return
			}
			uit := ibody.Iter()
			itag := int(zed.DecodeInt(uit.Next()))
			b.BeginContainer()
			b.Append(zed.EncodeInt(int64(du.TagOf(mu.Types[itag]))))
			b.Append(uit.Next())
			b.EndContainer()
			return
		}
		b.BeginContainer()
		b.Append(zed.EncodeInt(int64(du.TagOf(mem))))
		unname(b, zctx, t.Types[tag], inner)
		b.EndContainer()
	default:
		if typ.ID() == zed.IDType {
			if tv, err := zctx.LookupByValue(append(zcode.Bytes{}, body...)); err == nil {
				b.Append(zed.EncodeTypeValue(UnnameType(zctx, tv)))
				return
			}
		}
		b.Append(body)
	}
}

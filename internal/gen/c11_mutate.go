package gen

import (
	"encoding/binary"
	"fmt"
	"strings"

	"verif/internal/rt"
)

// MutOpts steers the structured byte mutator of C11.
type MutOpts struct {
	Hot      []int  // offsets of structural bytes (frame headers, typedefs, tags, metadata): chosen half of the time
	Text     bool   // textual format: adds character-level and nesting operators
	MaxNest  int    // bound for inserted nesting runs
	Other    []byte // a second valid encoding for splicing (may be nil)
	MaxBytes int    // result is cut to this length (0 = 1 MiB)
}

var hugeUvarints = [][]byte{
	{0xff, 0xff, 0xff, 0xff, 0x0f},                                     // 2^32-1
	{0xff, 0xff, 0xff, 0xff, 0xff, 0xff, 0xff, 0xff, 0x7f},             // 2^63-1
	{0xff, 0xff, 0xff, 0xff, 0xff, 0xff, 0xff, 0xff, 0xff, 0x01},       // 2^64-1
	{0x80, 0x80, 0x80, 0x80, 0x80, 0x80, 0x80, 0x80, 0x80, 0x01},       // 2^63
	{0x80, 0x80, 0x80, 0x80, 0x80, 0x80, 0x80, 0x80, 0x80, 0x80, 0x80}, // overlong
	{0x80, 0x80, 0x40},             // 1 MiB
	{0x81, 0x80, 0x80, 0x20},       // 64 MiB + 1
	{0xff, 0xff, 0xff, 0xff, 0x07}, // 2^31-1
}

var interestingBytes = []byte{0x00, 0x01, 0x7f, 0x80, 0xff, 0xfe, 0x40, 0x10, 0x20, 0x0f, 0xf0, '\n', '"', '{', '[', '|', '<', '(', ':', ',', '\\'}

var textTokens = []string{"{", "}", "[", "]", "|[", "]|", "|{", "}|", "(", ")", "<", ">", ":", ",", "\"", "'", "\\", "\\u", "\\x", "\n", "\r\n", "\t", "//", "/*", "*/",
	"null", "true", "NaN", "+Inf", "-Inf", "error(", "1e999999", "-", "--", "0x", "0x1g", "::", "1.2.3.4/99", "2020-13-45T99:99:99Z", "1y2d3h",
	"99999999999999999999999999999999999999", "-0", "1e-999999", ".", "..", "=", "=>", "(=", "@", "#", "#fields\t", "#types\t", "#separator \\x09", "#path\t",
	"\x00", "\xff\xfe", "\xc3\x28", "\xef\xbb\xbf", " ", "\"\"\"", "<int64>", "(int64)", "(=0)", "(0)", "(=foo)", "{\"type\":", "{\"value\":", "[\"0\",", "\"kind\":\"record\"", "\"id\":9999999"}

func (o *MutOpts) pickOff(r *rt.Rand, n int) int {
	if n <= 0 {
		return 0
	}
	if len(o.Hot) > 0 && r.Bool() {
		off := rt.Pick(r, o.Hot)
		if off >= 0 && off < n {
			return off
		}
	}
	switch r.Intn(4) {
	case 0: // near the start
		return r.Intn(min(n, 24))
	case 1: // near the end
		return n - 1 - r.Intn(min(n, 16))
	}
	return r.Intn(n)
}

// Mutate applies 1–3 structured mutation operators to a copy of seed and
// returns the mutant with a description of the operators applied.
func Mutate(r *rt.Rand, seed []byte, o MutOpts) ([]byte, []string) {
	b := append([]byte(nil), seed...)
	var ops []string
	nops := 1
	if r.Chance(1, 3) {
		nops = r.Range(2, 3)
	}
	maxNest := o.MaxNest
	if maxNest == 0 {
		maxNest = 2000
	}
	for k := 0; k < nops; k++ {
		nop := 10
		if o.Text {
			nop = 14
		}
		switch op := r.Intn(nop); op {
		case 0: // truncate
			if len(b) == 0 {
				continue
			}
			off := o.pickOff(r, len(b))
			b = b[:off]
			ops = append(ops, fmt.Sprintf("truncate@%d", off))
		case 1: // flip 1–4 bits
			if len(b) == 0 {
				continue
			}
			n := r.Range(1, 4)
			for j := 0; j < n; j++ {
				off := o.pickOff(r, len(b))
				bit := uint(r.Intn(8))
				b[off] ^= 1 << bit
				ops = append(ops, fmt.Sprintf("flip@%d.%d", off, bit))
			}
		case 2: // set a byte to an interesting value
			if len(b) == 0 {
				continue
			}
			off := o.pickOff(r, len(b))
			v := rt.Pick(r, interestingBytes)
			if r.Chance(1, 4) {
				v = byte(r.Uint64())
			}
			b[off] = v
			ops = append(ops, fmt.Sprintf("set@%d=%#x", off, v))
		case 3: // insert random bytes
			off := o.pickOff(r, len(b)+1)
			n := r.Range(1, 8)
			ins := make([]byte, n)
			for j := range ins {
				ins[j] = byte(r.Uint64())
			}
			b = splice(b, off, 0, ins)
			ops = append(ops, fmt.Sprintf("insert@%d:%x", off, ins))
		case 4: // delete a range
			if len(b) == 0 {
				continue
			}
			off := o.pickOff(r, len(b))
			n := min(r.Range(1, 8), len(b)-off)
			b = splice(b, off, n, nil)
			ops = append(ops, fmt.Sprintf("delete@%d+%d", off, n))
		case 5: // duplicate a chunk somewhere else
			if len(b) < 2 {
				continue
			}
			a := o.pickOff(r, len(b))
			n := min(r.Range(1, 64), len(b)-a)
			chunk := append([]byte(nil), b[a:a+n]...)
			at := o.pickOff(r, len(b)+1)
			b = splice(b, at, 0, chunk)
			ops = append(ops, fmt.Sprintf("dup[%d:%d]@%d", a, a+n, at))
		case 6: // overwrite with a huge uvarint
			off := o.pickOff(r, len(b)+1)
			u := rt.Pick(r, hugeUvarints)
			del := min(r.Intn(3), len(b)-off)
			b = splice(b, off, del, u)
			ops = append(ops, fmt.Sprintf("uvarint@%d-%d:%x", off, del, u))
		case 7: // off by one
			if len(b) == 0 {
				continue
			}
			off := o.pickOff(r, len(b))
			if r.Bool() {
				b[off]++
			} else {
				b[off]--
			}
			ops = append(ops, fmt.Sprintf("±1@%d", off))
		case 8: // splice with another valid encoding
			if len(o.Other) == 0 || len(b) == 0 {
				continue
			}
			a := o.pickOff(r, len(b))
			c := r.Intn(len(o.Other))
			b = append(b[:a:a], o.Other[c:]...)
			ops = append(ops, fmt.Sprintf("splice[:%d]+other[%d:]", a, c))
		case 9: // overwrite a 4- or 8-byte little-endian field (VNG header sizes, lz4 lengths)
			if len(b) < 8 {
				continue
			}
			off := o.pickOff(r, len(b)-7)
			var v uint64
			switch r.Intn(4) {
			case 0:
				v = 0
			case 1:
				v = 1 << uint(r.Intn(63))
			case 2:
				v = ^uint64(0) >> uint(r.Intn(8))
			default:
				v = uint64(r.Intn(1 << 20))
			}
			if r.Bool() {
				binary.LittleEndian.PutUint32(b[off:], uint32(v))
			} else {
				binary.LittleEndian.PutUint64(b[off:], v)
			}
			ops = append(ops, fmt.Sprintf("le@%d=%#x", off, v))
		case 10: // replace one character by a structural token
			off := o.pickOff(r, len(b)+1)
			tok := rt.Pick(r, textTokens)
			del := min(r.Intn(2), len(b)-off)
			b = splice(b, off, del, []byte(tok))
			ops = append(ops, fmt.Sprintf("token@%d-%d:%q", off, del, tok))
		case 11: // nesting run
			off := o.pickOff(r, len(b)+1)
			open := rt.Pick(r, []string{"[", "{a:", "(", "|[", "|{1:", "<", "error(", "{\"a\":", "[[", "not ", "-", "!", "a.", "f(", "{...", "[...", "case ", "(=>", "<[", "<{a:", "<|["})
			n := r.Range(2, maxNest)
			if r.Chance(3, 4) {
				n = r.Range(2, 64)
			}
			b = splice(b, off, 0, []byte(strings.Repeat(open, n)))
			ops = append(ops, fmt.Sprintf("nest@%d:%q×%d", off, open, n))
		case 12: // long token
			off := o.pickOff(r, len(b)+1)
			c := rt.Pick(r, []string{"9", "a", "\"", "\\", " ", "\n", "e", ".", "\x00", "\xff", "é"})
			n := r.Range(64, 600)
			b = splice(b, off, 0, []byte(strings.Repeat(c, n)))
			ops = append(ops, fmt.Sprintf("long@%d:%q×%d", off, c, n))
		case 13: // swap two lines / chunks
			if len(b) < 4 {
				continue
			}
			a := r.Intn(len(b) - 1)
			c := r.Intn(len(b) - 1)
			if a > c {
				a, c = c, a
			}
			n := min(r.Range(1, 16), c-a, len(b)-c)
			if n <= 0 {
				continue
			}
			for j := 0; j < n; j++ {
				b[a+j], b[c+j] = b[c+j], b[a+j]
			}
			ops = append(ops, fmt.Sprintf("swap@%d,%d+%d", a, c, n))
		}
	}
	maxb := o.MaxBytes
	if maxb == 0 {
		maxb = 1 << 20
	}
	if len(b) > maxb {
		b = b[:maxb]
	}
	return b, ops
}

func splice(b []byte, off, del int, ins []byte) []byte {
	if off > len(b) {
		off = len(b)
	}
	if off+del > len(b) {
		del = len(b) - off
	}
	out := make([]byte, 0, len(b)-del+len(ins))
	out = append(out, b[:off]...)
	out = append(out, ins...)
	out = append(out, b[off+del:]...)
	return out
}

// ZNGHotspots parses the framing of a valid ZNG stream (harness-side, never
// panics) and returns the offsets of structural bytes: frame codes, length
// varints, compression headers, whole uncompressed typedef frames and the
// first bytes (type id, tag) of value frames.
func ZNGHotspots(b []byte) []int {
	var hot []int
	p := 0
	for p < len(b) && len(hot) < 4096 {
		code := b[p]
		hot = append(hot, p)
		p++
		if code == 0xff {
			continue
		}
		u, n := binary.Uvarint(b[p:])
		if n <= 0 {
			break
		}
		for j := 0; j < n; j++ {
			hot = append(hot, p+j)
		}
		p += n
		size := int(u)<<4 | int(code&0xf)
		if size < 0 || p+size > len(b) {
			break
		}
		body := p
		if code&0x40 != 0 {
			for j := 0; j < 6 && body+j < len(b); j++ {
				hot = append(hot, body+j)
			}
		} else if (code>>4)&3 == 0 { // types frame
			for j := 0; j < size && j < 256; j++ {
				hot = append(hot, body+j)
			}
		} else {
			for j := 0; j < size && j < 6; j++ {
				hot = append(hot, body+j)
			}
		}
		p += size
	}
	return hot
}

// PrefixHotspots marks the first n bytes.
func PrefixHotspots(n, total int) []int {
	if n > total {
		n = total
	}
	hot := make([]int, n)
	for i := range hot {
		hot[i] = i
	}
	return hot
}

// MutateText mutates query text at token level.
func MutateText(r *rt.Rand, seed string, extra []string, maxNest int) (string, []string) {
	toks := tokenize(seed)
	var ops []string
	nops := r.Range(1, 3)
	for k := 0; k < nops; k++ {
		switch op := r.Intn(9); op {
		case 0: // delete a token
			if len(toks) == 0 {
				continue
			}
			i := r.Intn(len(toks))
			ops = append(ops, fmt.Sprintf("deltok@%d:%q", i, toks[i]))
			toks = append(toks[:i:i], toks[i+1:]...)
		case 1: // duplicate a token
			if len(toks) == 0 {
				continue
			}
			i := r.Intn(len(toks))
			toks = append(toks[:i+1:i+1], toks[i:]...)
			ops = append(ops, fmt.Sprintf("duptok@%d", i))
		case 2: // swap two tokens
			if len(toks) < 2 {
				continue
			}
			i, j := r.Intn(len(toks)), r.Intn(len(toks))
			toks[i], toks[j] = toks[j], toks[i]
			ops = append(ops, fmt.Sprintf("swaptok@%d,%d", i, j))
		case 3: // replace a token by a keyword / operator / literal
			if len(toks) == 0 {
				continue
			}
			i := r.Intn(len(toks))
			t := rt.Pick(r, extra)
			ops = append(ops, fmt.Sprintf("reptok@%d:%q→%q", i, toks[i], t))
			toks[i] = t
		case 4: // insert a token
			i := r.Intn(len(toks) + 1)
			t := rt.Pick(r, extra)
			toks = append(toks[:i:i], append([]string{t}, toks[i:]...)...)
			ops = append(ops, fmt.Sprintf("instok@%d:%q", i, t))
		case 5: // truncate
			if len(toks) == 0 {
				continue
			}
			i := r.Intn(len(toks))
			toks = toks[:i]
			ops = append(ops, fmt.Sprintf("trunctok@%d", i))
		case 6: // nesting run
			i := r.Intn(len(toks) + 1)
			open := rt.Pick(r, []string{"(", "[", "{a:", "not ", "-", "!", "f(", "a[", "|[", "|{a:", "<", "<[", "<{a:", "error(", "fork (=>", "switch (case ", "over a => (", "a.", "a?b:", "[...", "{...", "yield ", "(from (", "case when "})
			n := r.Range(2, 48)
			if r.Chance(1, 5) {
				n = r.Range(48, maxNest)
			}
			t := strings.Repeat(open, n)
			toks = append(toks[:i:i], append([]string{t}, toks[i:]...)...)
			ops = append(ops, fmt.Sprintf("nest@%d:%q×%d", i, open, n))
		case 7: // byte-level damage of one token
			if len(toks) == 0 {
				continue
			}
			i := r.Intn(len(toks))
			m, bops := Mutate(r, []byte(toks[i]), MutOpts{Text: true, MaxNest: 32})
			toks[i] = string(m)
			ops = append(ops, fmt.Sprintf("bytes@%d:%v", i, bops))
		case 8: // splice in a fragment of another program
			if len(extra) == 0 {
				continue
			}
			i := r.Intn(len(toks) + 1)
			t := rt.Pick(r, extra)
			toks = append(toks[:i:i], append([]string{" | ", t, " "}, toks[i:]...)...)
			ops = append(ops, fmt.Sprintf("pipe@%d:%q", i, t))
		}
	}
	return strings.Join(toks, ""), ops
}

// tokenize splits text into identifier/number runs, whitespace runs, quoted
// strings and single punctuation characters (so that joining gives the text
// back).
func tokenize(s string) []string {
	var toks []string
	i := 0
	isWord := func(c byte) bool {
		return c == '_' || c == '$' || c >= '0' && c <= '9' || c >= 'a' && c <= 'z' || c >= 'A' && c <= 'Z' || c >= 0x80
	}
	for i < len(s) {
		c := s[i]
		j := i + 1
		switch {
		case isWord(c):
			for j < len(s) && isWord(s[j]) {
				j++
			}
		case c == ' ' || c == '\n' || c == '\t' || c == '\r':
			for j < len(s) && (s[j] == ' ' || s[j] == '\n' || s[j] == '\t' || s[j] == '\r') {
				j++
			}
		case c == '"' || c == '\'' || c == '`':
			for j < len(s) && s[j] != c {
				if s[j] == '\\' && j+1 < len(s) {
					j++
				}
				j++
			}
			if j < len(s) {
				j++
			}
		}
		toks = append(toks, s[i:j])
		i = j
	}
	return toks
}

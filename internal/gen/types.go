// Package gen holds the generators: types, values, byte mutations.  Everything
// is driven by an rt.Rand so that a case is a pure function of its seed.
package gen

import (
	"fmt"

	zed "github.com/brimdata/super"

	"verif/internal/rt"
)

var Primitives = []zed.Type{
	zed.TypeUint8, zed.TypeUint16, zed.TypeUint32, zed.TypeUint64,
	zed.TypeInt8, zed.TypeInt16, zed.TypeInt32, zed.TypeInt64,
	zed.TypeDuration, zed.TypeTime,
	zed.TypeFloat16, zed.TypeFloat32, zed.TypeFloat64,
	zed.TypeBool, zed.TypeBytes, zed.TypeString,
	zed.TypeIP, zed.TypeNet, zed.TypeType, zed.TypeNull,
}

// Common primitives get extra weight so that generated data looks like data.
var commonPrims = []zed.Type{zed.TypeInt64, zed.TypeString, zed.TypeFloat64, zed.TypeBool, zed.TypeUint64, zed.TypeTime, zed.TypeIP}

var FieldNames = []string{
	"a", "b", "c", "id", "key", "foo", "x", "y", "ts", "name", "val",
	"type", "null", "true", "false", "error", "map", "and", "or", "not", "this", "in",
	"", "a b", "a.b", "a\"b", "a'b", "a\\b", "日本", "é", "a\x00b", "a\nb", "0", "1a", "$x", "a-b", "_a", "Ünï", "a/b", "[", "{", "(",
}

var TypeNames = []string{"foo", "bar", "port", "T", "conn", "a b", "type1", "日本", "foo.bar", "x/y", "_t", "null_t", "0"}

var EnumSymbols = []string{"A", "B", "c", "foo", "bar", "a b", "", "null", "日本", "x\"y", "1"}

// TypeOpts selects which constructors the type generator may use.
type TypeOpts struct {
	NoNamed    bool
	NoUnion    bool
	NoEnum     bool
	NoError    bool
	NoMap      bool
	NoSet      bool
	NoTypeType bool // do not produce type `type`
	NoNullType bool // do not produce type `null`
	PlainNames bool // only identifier-like field / type names
	FewFields  bool
	Prims      []zed.Type // if set, restrict primitives
	TypeNames  []string
	FieldNames []string
}

type TypeGen struct {
	Zctx *zed.Context
	R    *rt.Rand
	O    TypeOpts
}

var plainFieldNames = []string{"a", "b", "c", "id", "key", "foo", "x", "y", "ts", "name", "val", "s", "n", "v"}
var plainTypeNames = []string{"foo", "bar", "port", "T", "conn"}

func (g *TypeGen) fieldNames() []string {
	if g.O.FieldNames != nil {
		return g.O.FieldNames
	}
	if g.O.PlainNames {
		return plainFieldNames
	}
	return FieldNames
}

func (g *TypeGen) typeNames() []string {
	if g.O.TypeNames != nil {
		return g.O.TypeNames
	}
	if g.O.PlainNames {
		return plainTypeNames
	}
	return TypeNames
}

func (g *TypeGen) Prim() zed.Type {
	if g.O.Prims != nil {
		return rt.Pick(g.R, g.O.Prims)
	}
	for {
		var t zed.Type
		if g.R.Chance(1, 2) {
			t = rt.Pick(g.R, commonPrims)
		} else {
			t = rt.Pick(g.R, Primitives)
		}
		if g.O.NoTypeType && t == zed.TypeType {
			continue
		}
		if g.O.NoNullType && t == zed.TypeNull {
			continue
		}
		return t
	}
}

// Type generates a type of nesting depth at most depth.
func (g *TypeGen) Type(depth int) zed.Type {
	if depth <= 0 || g.R.Chance(1, 4) {
		return g.Prim()
	}
	for {
		switch g.R.Intn(12) {
		case 0, 1, 2, 3:
			return g.Record(depth)
		case 4, 5:
			return g.Zctx.LookupTypeArray(g.Type(depth - 1))
		case 6:
			if g.O.NoSet {
				continue
			}
			return g.Zctx.LookupTypeSet(g.Type(depth - 1))
		case 7:
			if g.O.NoMap {
				continue
			}
			return g.Zctx.LookupTypeMap(g.Type(depth-1), g.Type(depth-1))
		case 8:
			if g.O.NoUnion {
				continue
			}
			return g.Union(depth)
		case 9:
			if g.O.NoEnum {
				continue
			}
			return g.Enum()
		case 10:
			if g.O.NoError {
				continue
			}
			return g.Zctx.LookupTypeError(g.Type(depth - 1))
		case 11:
			if g.O.NoNamed {
				continue
			}
			name := rt.Pick(g.R, g.typeNames())
			t, err := g.Zctx.LookupTypeNamed(name, g.Type(depth-1))
			if err != nil {
				continue
			}
			return t
		}
	}
}

func (g *TypeGen) Record(depth int) zed.Type {
	max := 5
	if g.O.FewFields {
		max = 3
	}
	n := g.R.Intn(max + 1)
	names := g.fieldNames()
	used := map[string]bool{}
	var fields []zed.Field
	for i := 0; i < n; i++ {
		name := rt.Pick(g.R, names)
		if used[name] {
			continue
		}
		used[name] = true
		fields = append(fields, zed.NewField(name, g.Type(depth-1)))
	}
	return g.Zctx.MustLookupTypeRecord(fields)
}

func (g *TypeGen) Union(depth int) zed.Type {
	for {
		n := g.R.Range(2, 4)
		var types []zed.Type
		for i := 0; i < n; i++ {
			t := g.Type(depth - 1)
			if zed.IsUnionType(t) { // unions directly inside unions are flattened by the language; avoid
				t = g.Prim()
			}
			types = append(types, t)
		}
		types = zed.UniqueTypes(types)
		if len(types) < 2 {
			continue
		}
		// UniqueTypes sorts; present the members to the context in random order.
		p := g.R.Perm(len(types))
		shuffled := make([]zed.Type, len(types))
		for i, j := range p {
			shuffled[i] = types[j]
		}
		return g.Zctx.LookupTypeUnion(shuffled)
	}
}

func (g *TypeGen) Enum() zed.Type {
	n := g.R.Range(1, 4)
	used := map[string]bool{}
	var syms []string
	pool := EnumSymbols
	if g.O.PlainNames {
		pool = []string{"A", "B", "C", "foo", "bar"}
	}
	for len(syms) < n {
		s := rt.Pick(g.R, pool)
		if used[s] {
			continue
		}
		used[s] = true
		syms = append(syms, s)
	}
	return g.Zctx.LookupTypeEnum(syms)
}

// TypeString is the harness's own structural printer (independent of the
// repo's type serialization).  With sortUnions the members of a union are
// printed in sorted order of their strings.
func TypeString(t zed.Type) string { return typeString(t, false) }

func TypeStringCanon(t zed.Type) string { return typeString(t, true) }

func typeString(t zed.Type, sortUnions bool) string {
	switch t := t.(type) {
	case *zed.TypeNamed:
		return fmt.Sprintf("named(%q=%s)", t.Name, typeString(t.Type, sortUnions))
	case *zed.TypeRecord:
		s := "rec{"
		for i, f := range t.Fields {
			if i > 0 {
				s += ","
			}
			s += fmt.Sprintf("%q:%s", f.Name, typeString(f.Type, sortUnions))
		}
		return s + "}"
	case *zed.TypeArray:
		return "arr[" + typeString(t.Type, sortUnions) + "]"
	case *zed.TypeSet:
		return "set[" + typeString(t.Type, sortUnions) + "]"
	case *zed.TypeMap:
		return "map[" + typeString(t.KeyType, sortUnions) + "=>" + typeString(t.ValType, sortUnions) + "]"
	case *zed.TypeUnion:
		parts := make([]string, len(t.Types))
		for i, m := range t.Types {
			parts[i] = typeString(m, sortUnions)
		}
		if sortUnions {
			sortStrings(parts)
		}
		s := "union("
		for i, p := range parts {
			if i > 0 {
				s += "|"
			}
			s += p
		}
		return s + ")"
	case *zed.TypeEnum:
		return fmt.Sprintf("enum%q", t.Symbols)
	case *zed.TypeError:
		return "err<" + typeString(t.Type, sortUnions) + ">"
	case nil:
		return "<nil>"
	default:
		id := t.ID()
		if id < zed.IDTypeComplex {
			return fmt.Sprintf("p%d", id)
		}
		return fmt.Sprintf("?%T", t)
	}
}

func sortStrings(s []string) {
	for i := 1; i < len(s); i++ {
		for j := i; j > 0 && s[j] < s[j-1]; j-- {
			s[j], s[j-1] = s[j-1], s[j]
		}
	}
}

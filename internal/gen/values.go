package gen

import (
	"math"
	"net/netip"
	"strings"

	zed "github.com/brimdata/super"
	"github.com/brimdata/super/pkg/nano"
	"github.com/brimdata/super/zcode"

	"verif/internal/rt"
)

// ValOpts tunes the value generator.
type ValOpts struct {
	NullNum, NullDen int  // probability of a null at each position (default 1/8)
	MaxElems         int  // container length bound (default 4)
	NoNaN            bool // never produce NaN
	NoNegZero        bool
	SmallStrings     bool
	ASCII            bool       // strings: printable ASCII only
	NoNullInUnion    bool       // never put a null inside a non-null union value
	TypeValues       []zed.Type // candidates for values of type `type`
}

type ValGen struct {
	R *rt.Rand
	O ValOpts
}

func (g *ValGen) nullHere() bool {
	if g.O.NullDen == 0 {
		return g.R.Chance(1, 8)
	}
	return g.R.Chance(g.O.NullNum, g.O.NullDen)
}

func (g *ValGen) maxElems() int {
	if g.O.MaxElems == 0 {
		return 4
	}
	return g.O.MaxElems
}

var int64s = []int64{0, 1, -1, 2, 42, 127, 128, -128, -129, 255, 256, 32767, -32768, 65535, 65536,
	1 << 31, -(1 << 31), 1<<31 - 1, 1<<32 - 1, 1 << 32, 1 << 53, 1<<53 + 1, 1<<53 - 1, -(1 << 53), -(1<<53 + 1),
	math.MaxInt64, math.MinInt64, math.MaxInt64 - 1, math.MinInt64 + 1, 1 << 62}

var uint64s = []uint64{0, 1, 2, 42, 127, 128, 255, 256, 65535, 65536, 1<<32 - 1, 1 << 32, 1 << 53, 1<<53 + 1,
	1 << 63, 1<<63 - 1, 1<<63 + 1, math.MaxUint64, math.MaxUint64 - 1}

var float64s = []float64{0, 1, -1, 0.5, -0.5, 1.5, 2, 10, 100, 1e6, 1e21, 1e-7, 123456789.125, 3.141592653589793,
	math.MaxFloat64, -math.MaxFloat64, math.SmallestNonzeroFloat64, -math.SmallestNonzeroFloat64,
	math.Inf(1), math.Inf(-1), 1 << 53, 1<<53 + 2, -(1 << 53), 9007199254740993, 1 << 63, 1 << 64, 1e100, 2.2250738585072014e-308, 0.1, 0.3}

var float32s = []float32{0, 1, -1, 0.5, 1.5, 2, 100, 16777216, 16777217, math.MaxFloat32, -math.MaxFloat32, math.SmallestNonzeroFloat32,
	float32(math.Inf(1)), float32(math.Inf(-1)), 0.1, 3.1415927, 1e10, 1e-10}

var float16s = []float32{0, 1, -1, 0.5, 1.5, 2, 100, 65504, -65504, 6.1035156e-05, 5.9604645e-08, 0.333251953125, 2048, 2049,
	float32(math.Inf(1)), float32(math.Inf(-1))}

var Strings = []string{"", "a", "b", "foo", "bar", "hello world", "foo bar", "a\"b", "a\\b", "a'b", "a\nb", "a\tb", "a\rb",
	"\x00", "a\x00b", "\x01\x1f", "\x7f", "\u00e9", "e\u0301", "\u65e5\u672c\u8a9e", "\U0001f600", "\u00a0", "\ufeff", "\\u0041", "${x}", "null", "true", "1", "1.5",
	"0x10", "-", " ", "  lead", "trail  ", "{", "}", "[", "]", "(", ")", "<", ">", "|", "//", "/*", "=>", ":=", "@", "a,b", "a;b",
	strings.Repeat("x", 300), strings.Repeat("ab", 1000), "\uff21\uff22", "\u01c5", "\u0130", "\u00df", "\u017f", "\u212a", "\u2028", "a\u0000", "\U0010ffff", "\ud7ff", "\u200b"}

var ips = []string{"0.0.0.0", "127.0.0.1", "10.1.2.3", "192.168.0.1", "255.255.255.255", "::", "::1", "fe80::1", "2001:db8::1",
	"::ffff:10.0.0.1", "ffff:ffff:ffff:ffff:ffff:ffff:ffff:ffff", "1:2:3:4:5:6:7:8", "64:ff9b::1.2.3.4"}

var nets = []string{"0.0.0.0/0", "10.0.0.0/8", "192.168.1.0/24", "1.2.3.4/32", "128.0.0.0/1", "::/0", "fe80::/10", "2001:db8::/32", "::1/128", "::ffff:10.0.0.0/104"}

func (g *ValGen) int64() int64 {
	if g.R.Chance(1, 2) {
		return rt.Pick(g.R, int64s)
	}
	if g.R.Chance(1, 2) {
		return int64(g.R.Intn(20)) - 5
	}
	return int64(g.R.Uint64())
}

func (g *ValGen) uint64() uint64 {
	if g.R.Chance(1, 2) {
		return rt.Pick(g.R, uint64s)
	}
	if g.R.Chance(1, 2) {
		return uint64(g.R.Intn(20))
	}
	return g.R.Uint64()
}

func clampInt(v int64, bits uint) int64 {
	lo, hi := -(int64(1) << (bits - 1)), int64(1)<<(bits-1)-1
	if v < lo || v > hi {
		if v&1 == 0 {
			return lo + (v & 3)
		}
		return hi - (v & 3)
	}
	return v
}

func clampUint(v uint64, bits uint) uint64 {
	hi := uint64(1)<<bits - 1
	if v > hi {
		return hi - (v & 3)
	}
	return v
}

func (g *ValGen) float64() float64 {
	switch g.R.Intn(8) {
	case 0:
		if !g.O.NoNaN {
			if g.R.Bool() {
				return math.NaN()
			}
			return math.Float64frombits(0x7ff8000000000001 | g.R.Uint64()&0xfffff)
		}
	case 1:
		if !g.O.NoNegZero {
			return math.Copysign(0, -1)
		}
	case 2:
		f := math.Float64frombits(g.R.Uint64())
		if math.IsNaN(f) {
			return 1.25
		}
		return f
	case 3:
		return float64(g.R.Intn(2000)-1000) / 8
	}
	return rt.Pick(g.R, float64s)
}

func (g *ValGen) String() string {
	if g.O.ASCII {
		n := g.R.Intn(8)
		b := make([]byte, n)
		for i := range b {
			b[i] = byte('a' + g.R.Intn(26))
		}
		return string(b)
	}
	if g.O.SmallStrings {
		for {
			s := rt.Pick(g.R, Strings)
			if len(s) < 40 {
				return s
			}
		}
	}
	if g.R.Chance(1, 6) {
		n := g.R.Intn(12)
		var sb strings.Builder
		for i := 0; i < n; i++ {
			switch g.R.Intn(6) {
			case 0:
				sb.WriteRune(rune(g.R.Intn(0x7f)))
			case 1:
				sb.WriteRune(rune(0x80 + g.R.Intn(0x700)))
			case 2:
				r := rune(0x800 + g.R.Intn(0xf000))
				if r >= 0xd800 && r <= 0xdfff {
					r = 'x'
				}
				sb.WriteRune(r)
			case 3:
				sb.WriteRune(rune(0x10000 + g.R.Intn(0xfffff)))
			default:
				sb.WriteByte(byte('a' + g.R.Intn(26)))
			}
		}
		return sb.String()
	}
	return rt.Pick(g.R, Strings)
}

func (g *ValGen) Bytes() []byte {
	switch g.R.Intn(5) {
	case 0:
		return []byte{}
	case 1:
		return []byte{0}
	case 2:
		return []byte{0xff, 0xfe, 0x80, 0x00}
	case 3:
		n := g.R.Intn(600)
		b := make([]byte, n)
		for i := range b {
			b[i] = byte(g.R.Uint64())
		}
		return b
	}
	return []byte(rt.Pick(g.R, Strings))
}

// PrimBytes returns the non-null ZNG encoding of a generated value of
// primitive type t.
func (g *ValGen) PrimBytes(t zed.Type) zcode.Bytes {
	switch t.ID() {
	case zed.IDUint8:
		return zed.EncodeUint(clampUint(g.uint64(), 8))
	case zed.IDUint16:
		return zed.EncodeUint(clampUint(g.uint64(), 16))
	case zed.IDUint32:
		return zed.EncodeUint(clampUint(g.uint64(), 32))
	case zed.IDUint64:
		return zed.EncodeUint(g.uint64())
	case zed.IDInt8:
		return zed.EncodeInt(clampInt(g.int64(), 8))
	case zed.IDInt16:
		return zed.EncodeInt(clampInt(g.int64(), 16))
	case zed.IDInt32:
		return zed.EncodeInt(clampInt(g.int64(), 32))
	case zed.IDInt64:
		return zed.EncodeInt(g.int64())
	case zed.IDDuration:
		return zed.EncodeDuration(nano.Duration(g.int64()))
	case zed.IDTime:
		return zed.EncodeTime(nano.Ts(g.int64()))
	case zed.IDFloat16:
		f := rt.Pick(g.R, float16s)
		if g.R.Chance(1, 10) && !g.O.NoNaN {
			f = float32(math.NaN())
		} else if g.R.Chance(1, 10) && !g.O.NoNegZero {
			f = float32(math.Copysign(0, -1))
		}
		return zed.EncodeFloat16(f)
	case zed.IDFloat32:
		f := rt.Pick(g.R, float32s)
		if g.R.Chance(1, 10) && !g.O.NoNaN {
			f = float32(math.NaN())
		} else if g.R.Chance(1, 10) && !g.O.NoNegZero {
			f = float32(math.Copysign(0, -1))
		} else if g.R.Chance(1, 5) {
			f = math.Float32frombits(uint32(g.R.Uint64()))
			if f != f {
				f = 2.5
			}
		}
		return zed.EncodeFloat32(f)
	case zed.IDFloat64:
		return zed.EncodeFloat64(g.float64())
	case zed.IDBool:
		return zed.EncodeBool(g.R.Bool())
	case zed.IDBytes:
		return zed.EncodeBytes(g.Bytes())
	case zed.IDString:
		return zed.EncodeString(g.String())
	case zed.IDIP:
		return zed.EncodeIP(netip.MustParseAddr(rt.Pick(g.R, ips)))
	case zed.IDNet:
		return zed.EncodeNet(netip.MustParsePrefix(rt.Pick(g.R, nets)))
	case zed.IDType:
		if len(g.O.TypeValues) > 0 && g.R.Chance(2, 3) {
			return zed.EncodeTypeValue(rt.Pick(g.R, g.O.TypeValues))
		}
		return zed.EncodeTypeValue(rt.Pick(g.R, Primitives))
	case zed.IDNull:
		return nil
	}
	panic("gen: unknown primitive")
}

// Build appends a generated value of type t to b.
func (g *ValGen) Build(b *zcode.Builder, t zed.Type) {
	if g.nullHere() {
		b.Append(nil)
		return
	}
	g.BuildNonNull(b, t)
}

func (g *ValGen) BuildNonNull(b *zcode.Builder, t zed.Type) {
	switch t := t.(type) {
	case *zed.TypeNamed:
		g.BuildNonNull(b, t.Type)
	case *zed.TypeError:
		g.BuildNonNull(b, t.Type)
	case *zed.TypeRecord:
		b.BeginContainer()
		for _, f := range t.Fields {
			g.Build(b, f.Type)
		}
		b.EndContainer()
	case *zed.TypeArray:
		b.BeginContainer()
		n := g.R.Intn(g.maxElems() + 1)
		for i := 0; i < n; i++ {
			g.Build(b, t.Type)
		}
		b.EndContainer()
	case *zed.TypeSet:
		b.BeginContainer()
		n := g.R.Intn(g.maxElems() + 1)
		for i := 0; i < n; i++ {
			g.Build(b, t.Type)
		}
		b.TransformContainer(zed.NormalizeSet)
		b.EndContainer()
	case *zed.TypeMap:
		b.BeginContainer()
		n := g.R.Intn(g.maxElems() + 1)
		for i := 0; i < n; i++ {
			g.Build(b, t.KeyType)
			g.Build(b, t.ValType)
		}
		b.TransformContainer(zed.NormalizeMap)
		b.EndContainer()
	case *zed.TypeUnion:
		tag := g.R.Intn(len(t.Types))
		b.BeginContainer()
		b.Append(zed.EncodeInt(int64(tag)))
		if g.O.NoNullInUnion || zed.TypeUnder(t.Types[tag]) == zed.TypeNull {
			if zed.TypeUnder(t.Types[tag]) == zed.TypeNull {
				b.Append(nil)
			} else {
				g.BuildNonNull(b, t.Types[tag])
			}
		} else {
			g.Build(b, t.Types[tag])
		}
		b.EndContainer()
	case *zed.TypeEnum:
		b.Append(zed.EncodeUint(uint64(g.R.Intn(len(t.Symbols)))))
	default:
		b.Append(g.PrimBytes(t))
	}
}

// Value generates one top-level value of type t.
func (g *ValGen) Value(t zed.Type) zed.Value {
	var b zcode.Builder
	g.Build(&b, t)
	it := b.Bytes().Iter()
	return zed.NewValue(t, it.Next())
}

// Rec is the harness's own representation of a value for comparison:
// structural type string, null flag and bytes.
type Rec struct {
	Type  string
	Null  bool
	Bytes string
}

func RecOf(v zed.Value) Rec {
	return Rec{Type: TypeString(v.Type()), Null: v.IsNull(), Bytes: string(v.Bytes())}
}

func RecsOf(vals []zed.Value) []Rec {
	out := make([]Rec, len(vals))
	for i, v := range vals {
		out[i] = RecOf(v)
	}
	return out
}

// Sequence generates nVals values over nTypes generated types (depth ≤ depth)
// in zctx.  Types repeat so that streams contain runs of equal types.
func Sequence(r *rt.Rand, zctx *zed.Context, topts TypeOpts, vopts ValOpts, depth, nTypes, nVals int) []zed.Value {
	tg := &TypeGen{Zctx: zctx, R: r, O: topts}
	types := make([]zed.Type, 0, nTypes)
	for i := 0; i < nTypes; i++ {
		types = append(types, tg.Type(depth))
	}
	vopts.TypeValues = types
	vg := &ValGen{R: r, O: vopts}
	vals := make([]zed.Value, 0, nVals)
	if len(types) == 0 {
		return vals
	}
	cur := rt.Pick(r, types)
	for i := 0; i < nVals; i++ {
		if r.Chance(1, 3) {
			cur = rt.Pick(r, types)
		}
		vals = append(vals, vg.Value(cur))
	}
	return vals
}

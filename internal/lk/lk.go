// Package lk wraps the repo's lake API for the lake monitors: create/open on an
// instrumented engine, load / query helpers that copy results out into harness
// records, and independent readers of what actually sits in storage.
package lk

import (
	"bytes"
	"context"
	"fmt"
	"hash/fnv"
	"io/fs"
	"os"
	"path/filepath"
	"strings"
	"sync"

	zed "github.com/brimdata/super"
	"github.com/brimdata/super/api"
	"github.com/brimdata/super/compiler"
	"github.com/brimdata/super/compiler/optimizer/demand"
	"github.com/brimdata/super/compiler/parser"
	"github.com/brimdata/super/lake"
	lakeapi "github.com/brimdata/super/lake/api"
	"github.com/brimdata/super/order"
	"github.com/brimdata/super/pkg/storage"
	"github.com/brimdata/super/runtime"
	"github.com/brimdata/super/zbuf"
	"github.com/brimdata/super/zio/vngio"
	"github.com/brimdata/super/zio/zngio"
	"github.com/segmentio/ksuid"

	"verif/internal/gen"
)

var RootURI = storage.MustParseURI("file:///lake")

// newMu serializes construction of lake compilers: building one creates a
// storage.NewRemoteEngine whose aws-sdk session setup races with itself
// (third-party code; not under test).
var newMu sync.Mutex

// Lake is one handle ("process": its own lake.Root and caches) on an engine.
type Lake struct {
	Eng  storage.Engine
	Root *lake.Root
	API  lakeapi.Interface
	// LoadVia, if set, replaces API.Load (the service monitor loads through
	// raw HTTP with a chosen content type).
	LoadVia func(ctx context.Context, zctx *zed.Context, pool ksuid.KSUID, branch string, vals []zed.Value) (ksuid.KSUID, error)
}

func wrap(root *lake.Root, eng storage.Engine) *Lake {
	newMu.Lock()
	defer newMu.Unlock()
	return &Lake{Eng: eng, Root: root, API: lakeapi.FromRoot(root)}
}

func Create(ctx context.Context, eng storage.Engine) (*Lake, error) {
	root, err := lake.Create(ctx, eng, nil, RootURI)
	if err != nil {
		return nil, err
	}
	return wrap(root, eng), nil
}

func Open(ctx context.Context, eng storage.Engine) (*Lake, error) {
	root, err := lake.Open(ctx, eng, nil, RootURI)
	if err != nil {
		return nil, err
	}
	return wrap(root, eng), nil
}

// PoolSpec describes a pool to create.
type PoolSpec struct {
	Name   string `json:"name"`
	Key    string `json:"key"`   // "k", "a.b", "this"
	Order  string `json:"order"` // asc | desc
	Thresh int64  `json:"thresh"`
	Stride int    `json:"stride"`
}

func (l *Lake) CreatePool(ctx context.Context, p PoolSpec) (ksuid.KSUID, error) {
	sk, err := order.ParseSortKeys(p.Key + ":" + p.Order)
	if err != nil {
		return ksuid.Nil, err
	}
	return l.API.CreatePool(ctx, p.Name, sk, p.Stride, p.Thresh)
}

// sliceReader is a zio.Reader over values.
type sliceReader struct {
	vals []zed.Value
	i    int
}

func (s *sliceReader) Read() (*zed.Value, error) {
	if s.i >= len(s.vals) {
		return nil, nil
	}
	v := &s.vals[s.i]
	s.i++
	return v, nil
}

func (l *Lake) Load(ctx context.Context, zctx *zed.Context, pool ksuid.KSUID, branch string, vals []zed.Value) (ksuid.KSUID, error) {
	if l.LoadVia != nil {
		return l.LoadVia(ctx, zctx, pool, branch, vals)
	}
	return l.API.Load(ctx, zctx, pool, branch, &sliceReader{vals: vals}, api.CommitMessage{Author: "verif"})
}

// Pull drains a puller into harness records (values are copied out before the
// batch is released).
func Pull(p zbuf.Puller) ([]gen.Rec, error) {
	var out []gen.Rec
	for {
		b, err := p.Pull(false)
		if err != nil {
			if _, ok := err.(*zbuf.Control); ok {
				continue
			}
			return out, err
		}
		if b == nil {
			return out, nil
		}
		out = append(out, gen.RecsOf(b.Values())...)
		b.Unref()
	}
}

// Query runs src through the lake API (default parallelism) and returns the
// results as records.
func (l *Lake) Query(ctx context.Context, src string) ([]gen.Rec, error) {
	q, err := l.API.Query(ctx, nil, src)
	if err != nil {
		return nil, err
	}
	defer q.Pull(true)
	return Pull(q)
}

// QueryVals is like Query but returns deep copies of the values in zctx's
// own context of the query (for callers that need to inspect fields).
func (l *Lake) QueryVals(ctx context.Context, src string) ([]zed.Value, error) {
	q, err := l.API.Query(ctx, nil, src)
	if err != nil {
		return nil, err
	}
	defer q.Pull(true)
	var out []zed.Value
	for {
		b, err := q.Pull(false)
		if err != nil {
			if _, ok := err.(*zbuf.Control); ok {
				continue
			}
			return out, err
		}
		if b == nil {
			return out, nil
		}
		for _, v := range b.Values() {
			out = append(out, v.Copy())
		}
		b.Unref()
	}
}

// QueryPar runs src with an explicit degree of parallelism.
func (l *Lake) QueryPar(ctx context.Context, src string, par int) ([]gen.Rec, error) {
	ast, sset, err := parser.ParseSuperPipe(nil, src)
	if err != nil {
		return nil, err
	}
	_ = sset
	rctx := runtime.NewContext(ctx, zed.NewContext())
	defer rctx.Cancel()
	newMu.Lock()
	c := compiler.NewLakeCompiler(l.Root)
	newMu.Unlock()
	q, err := c.NewLakeQuery(rctx, ast, par, nil)
	if err != nil {
		return nil, err
	}
	defer q.Pull(true)
	return Pull(q)
}

// ObjInfo is one row of `from pool@rev:objects`.
type ObjInfo struct {
	ID    ksuid.KSUID
	Count uint64
	Size  int64
	Min   gen.Rec
	Max   gen.Rec
}

// Objects lists the data objects of pool@rev as the metadata reports them.
func (l *Lake) Objects(ctx context.Context, pool, rev string) ([]ObjInfo, error) {
	return l.listMeta(ctx, pool, rev, "objects")
}

// Vectors lists the data objects of pool@rev that the metadata says have a
// vector (VNG) object.
func (l *Lake) Vectors(ctx context.Context, pool, rev string) ([]ObjInfo, error) {
	return l.listMeta(ctx, pool, rev, "vectors")
}

func VectorPath(pool, id ksuid.KSUID) string {
	return fmt.Sprintf("%s/%s/data/%s.vng", RootURI.Path, pool, id)
}

// VectorStatus reads the vector object of a data object straight from storage
// (VNG reader only; no lake code) and compares it with the data object's file:
// "ok <n> values #<hash>", "differs-from-data-object (…)" or "ERR <class>".
func VectorStatus(b Backing, pool, id ksuid.KSUID) (status string) {
	defer func() {
		if x := recover(); x != nil {
			status = "ERR vng reader panics"
		}
	}()
	raw, ok := b.Get(VectorPath(pool, id))
	if !ok {
		return "ERR vector file does not exist"
	}
	zctx := zed.NewContext()
	zr, err := vngio.NewReader(zctx, bytes.NewReader(raw), demand.All())
	if err != nil {
		return "ERR vector file does not open: " + errWords(err)
	}
	var vecs []gen.Rec
	for {
		v, err := zr.Read()
		if err != nil {
			return "ERR vector file does not decode: " + errWords(err)
		}
		if v == nil {
			break
		}
		vecs = append(vecs, gen.RecOf(*v))
	}
	vals, err := ReadObjectFile(zctx, b, pool, id)
	if err != nil {
		return "ERR data object unreadable"
	}
	rows := gen.RecsOf(vals)
	if len(rows) != len(vecs) {
		return fmt.Sprintf("differs-from-data-object (%d values, data object has %d)", len(vecs), len(rows))
	}
	h := fnv.New64a()
	for i := range rows {
		if rows[i].Type != vecs[i].Type || rows[i].Bytes != vecs[i].Bytes || rows[i].Null != vecs[i].Null {
			return fmt.Sprintf("differs-from-data-object (value %d)", i)
		}
		fmt.Fprintf(h, "%s|%x|%v;", rows[i].Type, rows[i].Bytes, rows[i].Null)
	}
	return fmt.Sprintf("ok %d values #%016x", len(rows), h.Sum64())
}

// CheckVNG decodes a VNG object completely.
func CheckVNG(raw []byte) (err error) {
	defer func() {
		if x := recover(); x != nil {
			err = fmt.Errorf("vng reader panics: %v", x)
		}
	}()
	zr, err := vngio.NewReader(zed.NewContext(), bytes.NewReader(raw), demand.All())
	if err != nil {
		return err
	}
	for {
		v, err := zr.Read()
		if v == nil || err != nil {
			return err
		}
	}
}

func errWords(err error) string {
	var sb strings.Builder
	for _, r := range err.Error() {
		if (r >= 'a' && r <= 'z') || (r >= 'A' && r <= 'Z') || r == ' ' {
			sb.WriteRune(r)
		}
	}
	out := strings.Join(strings.Fields(sb.String()), " ")
	if len(out) > 60 {
		out = out[:60]
	}
	return out
}

func (l *Lake) listMeta(ctx context.Context, pool, rev, meta string) ([]ObjInfo, error) {
	vals, err := l.QueryVals(ctx, fmt.Sprintf("from %s@%s:%s", quoteName(pool), rev, meta))
	if err != nil {
		return nil, err
	}
	var out []ObjInfo
	for i := range vals {
		v := &vals[i]
		var o ObjInfo
		idv := v.Deref("id")
		if idv == nil || len(idv.Bytes()) != 20 {
			return nil, fmt.Errorf("objects listing: bad id in %s", gen.TypeString(v.Type()))
		}
		copy(o.ID[:], idv.Bytes())
		if c := v.Deref("count"); c != nil {
			o.Count = c.Uint()
		}
		if s := v.Deref("size"); s != nil {
			o.Size = s.Int()
		}
		if m := v.Deref("min"); m != nil {
			o.Min = gen.RecOf(*m)
		}
		if m := v.Deref("max"); m != nil {
			o.Max = gen.RecOf(*m)
		}
		out = append(out, o)
	}
	return out, nil
}

func quoteName(s string) string {
	if strings.ContainsAny(s, " '\"@:/") {
		return "'" + s + "'"
	}
	return s
}

// Backing is what the independent readers need from a storage back end.
type Backing interface {
	Get(path string) ([]byte, bool)
	Paths() []string
}

// DataPath returns the storage path of a data object file.
func DataPath(pool, id ksuid.KSUID) string {
	return fmt.Sprintf("%s/%s/data/%s.zng", RootURI.Path, pool, id)
}

// ReadObjectFile decodes a data object straight from storage (ZNG reader
// only; no lake code).
func ReadObjectFile(zctx *zed.Context, b Backing, pool, id ksuid.KSUID) ([]zed.Value, error) {
	data, ok := b.Get(DataPath(pool, id))
	if !ok {
		return nil, fmt.Errorf("data object %s: no such file", id)
	}
	return ReadZNG(zctx, data)
}

func ReadZNG(zctx *zed.Context, data []byte) ([]zed.Value, error) {
	zr := zngio.NewReaderWithOpts(zctx, bytes.NewReader(data), zngio.ReaderOpts{Threads: 1, Validate: true})
	defer zr.Close()
	var out []zed.Value
	for {
		v, err := zr.Read()
		if err != nil {
			return out, err
		}
		if v == nil {
			return out, nil
		}
		out = append(out, v.Copy())
	}
}

// DataObjectIDs lists the ids of all data object files of a pool present in
// storage.
func DataObjectIDs(b Backing, pool ksuid.KSUID) []ksuid.KSUID {
	pfx := fmt.Sprintf("%s/%s/data/", RootURI.Path, pool)
	var out []ksuid.KSUID
	for _, p := range b.Paths() {
		if !strings.HasPrefix(p, pfx) || !strings.HasSuffix(p, ".zng") || strings.HasSuffix(p, "-seek.zng") {
			continue
		}
		id, err := ksuid.Parse(strings.TrimSuffix(p[len(pfx):], ".zng"))
		if err == nil {
			out = append(out, id)
		}
	}
	return out
}

// Msg is the commit message used by the harness.
var Msg = api.CommitMessage{Author: "verif"}

// NewZctx returns a fresh type context.
func NewZctx() *zed.Context { return zed.NewContext() }

// FromAPI wraps an existing lake API handle (local or remote).
func FromAPI(a lakeapi.Interface) *Lake { return &Lake{API: a, Root: a.Root()} }

// DirBacking exposes a lake directory on disk through the Backing interface,
// mapping it onto the harness's canonical root path.
type DirBacking struct{ Dir string }

func (d DirBacking) Get(path string) ([]byte, bool) {
	rel := strings.TrimPrefix(path, RootURI.Path)
	b, err := os.ReadFile(filepath.Join(d.Dir, rel))
	return b, err == nil
}

func (d DirBacking) Paths() []string {
	var out []string
	filepath.WalkDir(d.Dir, func(p string, e fs.DirEntry, err error) error {
		if err == nil && !e.IsDir() {
			rel, _ := filepath.Rel(d.Dir, p)
			out = append(out, RootURI.Path+"/"+filepath.ToSlash(rel))
		}
		return nil
	})
	return out
}

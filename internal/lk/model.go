package lk

import (
	"bytes"
	"context"
	"errors"
	"fmt"
	"os"
	"os/exec"
	"sort"
	"strings"
	"time"

	zed "github.com/brimdata/super"
	"github.com/brimdata/super/api"
	"github.com/brimdata/super/compiler"
	"github.com/brimdata/super/runtime"
	"github.com/brimdata/super/zio"
	"github.com/brimdata/super/zson"
	"github.com/segmentio/ksuid"

	"verif/internal/gen"
)

// Op is one step of a lake history (JSON-able so that it can be logged and
// replayed).  Object and commit references are indices into what the model
// knows at that point, so that a history is meaningful independently of the
// random ids the lake assigns.
type Op struct {
	Kind    string   `json:"op"` // load delete delete-where compact add-vectors del-vectors vacuum create-branch merge revert
	Branch  string   `json:"branch,omitempty"`
	Vals    []string `json:"vals,omitempty"`    // load: ZSON text of the values
	Objs    []int    `json:"objs,omitempty"`    // delete/compact/vectors: indices into the branch's objects ordered by content
	Pred    string   `json:"pred,omitempty"`    // delete-where
	Vectors bool     `json:"vectors,omitempty"` // compact: also write vectors
	From    string   `json:"from,omitempty"`    // create-branch: source branch
	Back    int      `json:"back,omitempty"`    // create-branch: how many commits behind From's tip
	Child   string   `json:"child,omitempty"`   // merge
	Commit  int      `json:"commit,omitempty"`  // revert: index into all commits created so far (creation order)
	Any     bool     `json:"any,omitempty"`     // delete/vectors: Objs index into every object the pool has held and not vacuumed, live on the branch or not
}

func (o Op) String() string {
	switch o.Kind {
	case "load":
		return fmt.Sprintf("load(%s, %d values)", o.Branch, len(o.Vals))
	case "delete", "compact", "add-vectors", "del-vectors":
		return fmt.Sprintf("%s(%s, objs %v)", o.Kind, o.Branch, o.Objs)
	case "delete-where":
		return fmt.Sprintf("delete-where(%s, %s)", o.Branch, o.Pred)
	case "create-branch":
		return fmt.Sprintf("create-branch(%s from %s~%d)", o.Branch, o.From, o.Back)
	case "merge":
		return fmt.Sprintf("merge(%s into %s)", o.Child, o.Branch)
	case "revert":
		return fmt.Sprintf("revert(%s, commit #%d)", o.Branch, o.Commit)
	}
	return fmt.Sprintf("%s(%s)", o.Kind, o.Branch)
}

type MCommit struct {
	ID     ksuid.KSUID
	Parent ksuid.KSUID
	Adds   []ksuid.KSUID
	Dels   []ksuid.KSUID
	Kind   string
}

// Model is the reference model of one pool: object contents, the commit graph
// at object-id level, and the branch tips.
type Model struct {
	Spec     PoolSpec
	PoolID   ksuid.KSUID
	Zctx     *zed.Context
	Objects  map[ksuid.KSUID][]zed.Value
	Vacuumed map[ksuid.KSUID]bool
	Commits  map[ksuid.KSUID]*MCommit
	Order    []ksuid.KSUID // commits in creation order
	Branches map[string]ksuid.KSUID

	contentKeys map[ksuid.KSUID]string // pickObjs' order
}

func NewModel(spec PoolSpec, id ksuid.KSUID) *Model {
	return &Model{Spec: spec, PoolID: id, Zctx: zed.NewContext(),
		Objects: map[ksuid.KSUID][]zed.Value{}, Vacuumed: map[ksuid.KSUID]bool{},
		Commits: map[ksuid.KSUID]*MCommit{}, Branches: map[string]ksuid.KSUID{"main": ksuid.Nil}}
}

// Clone copies the model (crash enumeration: before/after comparison).
func (m *Model) Clone() *Model {
	c := *m
	c.Objects = map[ksuid.KSUID][]zed.Value{}
	for k, v := range m.Objects {
		c.Objects[k] = v
	}
	c.Vacuumed = map[ksuid.KSUID]bool{}
	for k, v := range m.Vacuumed {
		c.Vacuumed[k] = v
	}
	c.Commits = map[ksuid.KSUID]*MCommit{}
	for k, v := range m.Commits {
		c.Commits[k] = v
	}
	c.Order = append([]ksuid.KSUID(nil), m.Order...)
	c.Branches = map[string]ksuid.KSUID{}
	for k, v := range m.Branches {
		c.Branches[k] = v
	}
	return &c
}

// Path returns the commit chain leaf→root.
func (m *Model) Path(leaf ksuid.KSUID) []ksuid.KSUID {
	var out []ksuid.KSUID
	for at := leaf; at != ksuid.Nil; {
		out = append(out, at)
		c := m.Commits[at]
		if c == nil {
			break
		}
		at = c.Parent
	}
	return out
}

// State replays the chain of commit and returns the set of live object ids.
func (m *Model) State(commit ksuid.KSUID) map[ksuid.KSUID]bool {
	path := m.Path(commit)
	st := map[ksuid.KSUID]bool{}
	for i := len(path) - 1; i >= 0; i-- {
		c := m.Commits[path[i]]
		if c == nil {
			continue
		}
		for _, id := range c.Dels {
			delete(st, id)
		}
		for _, id := range c.Adds {
			st[id] = true
		}
	}
	return st
}

func SortedIDs(st map[ksuid.KSUID]bool) []ksuid.KSUID {
	ids := make([]ksuid.KSUID, 0, len(st))
	for id := range st {
		ids = append(ids, id)
	}
	sort.Slice(ids, func(i, j int) bool { return bytes.Compare(ids[i][:], ids[j][:]) < 0 })
	return ids
}

// Values returns the values the model predicts at commit.
func (m *Model) Values(commit ksuid.KSUID) []zed.Value {
	var out []zed.Value
	for _, id := range SortedIDs(m.State(commit)) {
		out = append(out, m.Objects[id]...)
	}
	return out
}

// NeedsVacuumed reports whether commit's state references a vacuumed object.
func (m *Model) NeedsVacuumed(commit ksuid.KSUID) bool {
	for id := range m.State(commit) {
		if m.Vacuumed[id] {
			return true
		}
	}
	return false
}

func (m *Model) addCommit(c *MCommit, branch string) {
	m.Commits[c.ID] = c
	m.Order = append(m.Order, c.ID)
	m.Branches[branch] = c.ID
}

// learnObjects reads the contents of data objects not seen before.
func (m *Model) learnObjects(b Backing, ids []ksuid.KSUID) error {
	for _, id := range ids {
		if _, ok := m.Objects[id]; ok {
			continue
		}
		vals, err := ReadObjectFile(m.Zctx, b, m.PoolID, id)
		if err != nil {
			return fmt.Errorf("data object %s: %w", id, err)
		}
		m.Objects[id] = vals
	}
	return nil
}

func idSet(ids []ksuid.KSUID) map[ksuid.KSUID]bool {
	s := map[ksuid.KSUID]bool{}
	for _, id := range ids {
		s[id] = true
	}
	return s
}

// Problem is a model/implementation disagreement.
type Problem struct {
	Sig    string
	Detail string
}

// Outcome of executing one op.
type Outcome struct {
	Err      error
	Commit   ksuid.KSUID
	Problems []Problem
	Skipped  bool // op not applicable in the current state (e.g. no objects)
}

// ParseVals parses ZSON texts into zctx.
func ParseVals(zctx *zed.Context, texts []string) ([]zed.Value, error) {
	out := make([]zed.Value, 0, len(texts))
	for _, t := range texts {
		v, err := zson.ParseValue(zctx, t)
		if err != nil {
			return nil, fmt.Errorf("%s: %w", t, err)
		}
		out = append(out, v)
	}
	return out, nil
}

// EvalWhere returns, for each value, whether `where pred` keeps it, using
// the sequential runtime on an in-memory reader (no lake, no pruning).  The
// operator preserves order, so outputs are matched back to inputs in order.
func EvalWhere(ctx context.Context, zctx *zed.Context, vals []zed.Value, pred string) ([]bool, error) {
	keep := make([]bool, len(vals))
	if len(vals) == 0 {
		return keep, nil
	}
	prog, sset, err := compiler.Parse("where " + pred)
	if err != nil {
		return nil, err
	}
	rd := &sliceReader{vals: vals}
	q, err := runtime.CompileQuery(ctx, zctx, compiler.NewCompiler(), prog, sset, []zio.Reader{rd})
	if err != nil {
		return nil, err
	}
	defer q.Pull(true)
	recs, err := Pull(q)
	if err != nil {
		return nil, err
	}
	in := recsOfVals(vals)
	j := 0
	for i := range in {
		if j < len(recs) && in[i] == recs[j] {
			keep[i] = true
			j++
		}
	}
	if j != len(recs) {
		return nil, fmt.Errorf("where %s: output is not a subsequence of the input", pred)
	}
	return keep, nil
}

func recsOfVals(vals []zed.Value) []gen.Rec { return gen.RecsOf(vals) }

func multisetDiff(want, got []gen.Rec) string {
	m := map[gen.Rec]int{}
	for _, r := range want {
		m[r]++
	}
	for _, r := range got {
		m[r]--
	}
	var missing, extra []string
	nm, ne := 0, 0
	for r, n := range m {
		if n > 0 {
			nm += n
			if len(missing) < 3 {
				missing = append(missing, fmt.Sprintf("%d× %x::%s", n, r.Bytes, r.Type))
			}
		}
		if n < 0 {
			ne -= n
			if len(extra) < 3 {
				extra = append(extra, fmt.Sprintf("%d× %x::%s", -n, r.Bytes, r.Type))
			}
		}
	}
	if nm == 0 && ne == 0 {
		return ""
	}
	return fmt.Sprintf("want %d values, got %d; %d missing e.g. %v; %d unexpected e.g. %v", len(want), len(got), nm, missing, ne, extra)
}

var msg = api.CommitMessage{Author: "verif"}

// pickObjs maps indices to object ids of the branch's current state.
// pickObjs resolves object indices against the branch's live objects ordered
// by content (then id).  Object ids are random within one second, so an order
// by id would differ between two lakes that are given the same history (C19's
// twins) and between two runs.
func (m *Model) pickObjs(branch string, idx []int, any ...bool) []ksuid.KSUID {
	ids := SortedIDs(m.State(m.Branches[branch]))
	if len(any) > 0 && any[0] {
		all := map[ksuid.KSUID]bool{}
		for id := range m.Objects {
			if !m.Vacuumed[id] {
				all[id] = true
			}
		}
		ids = SortedIDs(all)
	}
	if m.contentKeys == nil {
		m.contentKeys = map[ksuid.KSUID]string{}
	}
	key := func(id ksuid.KSUID) string {
		if k, ok := m.contentKeys[id]; ok {
			return k
		}
		var sb strings.Builder
		for _, v := range m.Objects[id] {
			sb.WriteString(zson.FormatValue(v))
			sb.WriteByte('\n')
		}
		m.contentKeys[id] = sb.String()
		return sb.String()
	}
	sort.SliceStable(ids, func(i, j int) bool { return key(ids[i]) < key(ids[j]) })
	var out []ksuid.KSUID
	for _, i := range idx {
		if len(ids) == 0 {
			break
		}
		out = append(out, ids[((i%len(ids))+len(ids))%len(ids)])
	}
	return out
}

func dedup(ids []ksuid.KSUID) []ksuid.KSUID {
	seen := map[ksuid.KSUID]bool{}
	var out []ksuid.KSUID
	for _, id := range ids {
		if !seen[id] {
			seen[id] = true
			out = append(out, id)
		}
	}
	return out
}

// Exec applies op to the lake through handle l, predicts the effect with the
// model, and compares.  The model is only advanced when the lake reported
// success.  b gives independent access to storage.
func (m *Model) Exec(ctx context.Context, l *Lake, b Backing, op Op) Outcome {
	var out Outcome
	prob := func(sig, format string, args ...any) {
		out.Problems = append(out.Problems, Problem{sig, fmt.Sprintf("op %s: ", op) + fmt.Sprintf(format, args...)})
	}
	tip, ok := m.Branches[op.Branch]
	if !ok && op.Kind != "create-branch" {
		out.Skipped = true
		return out
	}
	before := idSet(DataObjectIDs(b, m.PoolID))
	newFiles := func() []ksuid.KSUID {
		var ids []ksuid.KSUID
		for _, id := range DataObjectIDs(b, m.PoolID) {
			if !before[id] {
				ids = append(ids, id)
			}
		}
		return ids
	}
	switch op.Kind {
	case "load":
		vals, err := ParseVals(m.Zctx, op.Vals)
		if err != nil {
			out.Err = err
			out.Skipped = true
			return out
		}
		commit, err := l.Load(ctx, m.Zctx, m.PoolID, op.Branch, vals)
		out.Err, out.Commit = err, commit
		if err != nil {
			if len(vals) == 0 {
				return out // an empty load is refused; nothing to check
			}
			return out
		}
		adds := newFiles()
		if err := m.learnObjects(b, adds); err != nil {
			prob("load:unreadable-object", "%v", err)
			return out
		}
		var got []zed.Value
		for _, id := range adds {
			got = append(got, m.Objects[id]...)
		}
		if d := multisetDiff(recsOfVals(vals), recsOfVals(got)); d != "" {
			prob("load:objects-differ-from-input", "new data objects do not hold the loaded values: %s", d)
		}
		m.addCommit(&MCommit{ID: commit, Parent: tip, Adds: adds, Kind: "load"}, op.Branch)
	case "delete":
		ids := m.pickObjs(op.Branch, op.Objs, op.Any)
		if len(ids) == 0 {
			out.Skipped = true
			return out
		}
		commit, err := l.API.Delete(ctx, m.PoolID, op.Branch, ids, msg)
		out.Err, out.Commit = err, commit
		if err != nil {
			return out
		}
		m.addCommit(&MCommit{ID: commit, Parent: tip, Dels: dedup(ids), Kind: "delete"}, op.Branch)
	case "delete-where":
		old := m.Values(tip)
		keepIf, err := EvalWhere(ctx, m.Zctx, old, op.Pred)
		if err != nil {
			out.Err = err
			out.Skipped = true
			return out
		}
		var expect []zed.Value
		ndel := 0
		for i, v := range old {
			if keepIf[i] {
				ndel++
			} else {
				expect = append(expect, v)
			}
		}
		commit, err := l.API.DeleteWhere(ctx, m.PoolID, op.Branch, op.Pred, msg)
		out.Err, out.Commit = err, commit
		if err != nil {
			if ndel > 0 && !strings.Contains(err.Error(), "empty") {
				// An error is a reported failure; the caller checks that nothing changed.
			}
			if ndel > 0 && strings.Contains(err.Error(), "empty") {
				prob("delete-where:nothing-deleted", "predicate is true for %d values but the lake reports %v", ndel, err)
			}
			return out
		}
		adds := newFiles()
		if err := m.learnObjects(b, adds); err != nil {
			prob("delete-where:unreadable-object", "%v", err)
			return out
		}
		// Which old objects survive is learned from the listing; the multiset is predicted.
		listing, lerr := l.Objects(ctx, m.Spec.Name, commit.String())
		if lerr != nil {
			prob("delete-where:listing-failed", "%v", lerr)
			return out
		}
		oldState := m.State(tip)
		newState := map[ksuid.KSUID]bool{}
		for _, o := range listing {
			newState[o.ID] = true
		}
		var dels, realAdds []ksuid.KSUID
		for id := range oldState {
			if !newState[id] {
				dels = append(dels, id)
			}
		}
		for id := range newState {
			if !oldState[id] {
				realAdds = append(realAdds, id)
			}
		}
		if err := m.learnObjects(b, realAdds); err != nil {
			prob("delete-where:unreadable-object", "%v", err)
			return out
		}
		m.addCommit(&MCommit{ID: commit, Parent: tip, Adds: realAdds, Dels: dels, Kind: "delete-where"}, op.Branch)
		if d := multisetDiff(recsOfVals(expect), recsOfVals(m.Values(commit))); d != "" {
			prob("delete-where:wrong-values-removed", "after delete -where %q the objects hold the wrong values: %s", op.Pred, d)
			// Keep the model on the predicted contents?  No: the model follows the lake's
			// objects so that later steps are judged on their own.
		}
	case "compact":
		ids := dedup(m.pickObjs(op.Branch, op.Objs))
		if len(ids) < 2 {
			out.Skipped = true
			return out
		}
		commit, err := l.API.Compact(ctx, m.PoolID, op.Branch, ids, op.Vectors, msg)
		out.Err, out.Commit = err, commit
		if err != nil {
			return out
		}
		adds := newFiles()
		if err := m.learnObjects(b, adds); err != nil {
			prob("compact:unreadable-object", "%v", err)
			return out
		}
		var in, outv []zed.Value
		for _, id := range ids {
			in = append(in, m.Objects[id]...)
		}
		for _, id := range adds {
			outv = append(outv, m.Objects[id]...)
		}
		if d := multisetDiff(recsOfVals(in), recsOfVals(outv)); d != "" {
			prob("compact:values-changed", "compacted objects do not hold the values of their sources: %s", d)
		}
		m.addCommit(&MCommit{ID: commit, Parent: tip, Adds: adds, Dels: ids, Kind: "compact"}, op.Branch)
	case "manage":
		// `super db manage`: the compaction planner lives in cmd/super/internal and
		// is reachable only through the binary, on a lake in a real directory.
		bin := os.Getenv("VERIF_SUPER_BIN")
		rd, isDir := b.(interface{ RealDir() string })
		if bin == "" || !isDir || op.Branch != "main" {
			out.Skipped = true
			return out
		}
		args := []string{"db", "manage", "-lake", rd.RealDir() + RootURI.Path, "-pool", m.Spec.Name}
		if op.Vectors {
			args = append(args, "-vectors")
		}
		cctx, cancel := context.WithTimeout(ctx, 5*time.Minute)
		text, err := exec.CommandContext(cctx, bin, args...).CombinedOutput()
		cancel()
		if err != nil {
			out.Err = fmt.Errorf("super %s: %v: %s", strings.Join(args, " "), err, text)
			prob("manage:command-failed", "%v", out.Err)
			return out
		}
		newTip, err := l.API.CommitObject(ctx, m.PoolID, op.Branch)
		if err != nil {
			prob("manage:branch-unreadable", "after manage: %v", err)
			return out
		}
		if newTip == tip {
			return out // nothing to do for the planner
		}
		listed, err := l.Objects(ctx, m.Spec.Name, op.Branch)
		if err != nil {
			prob("manage:branch-unreadable", "object listing after manage: %v", err)
			return out
		}
		old := m.State(tip)
		now := map[ksuid.KSUID]bool{}
		var adds, dels []ksuid.KSUID
		for _, o := range listed {
			now[o.ID] = true
			if !old[o.ID] {
				adds = append(adds, o.ID)
			}
		}
		for _, id := range SortedIDs(old) {
			if !now[id] {
				dels = append(dels, id)
			}
		}
		if err := m.learnObjects(b, adds); err != nil {
			prob("manage:unreadable-object", "%v", err)
			return out
		}
		var in, outv []zed.Value
		for _, id := range dels {
			in = append(in, m.Objects[id]...)
		}
		for _, id := range adds {
			outv = append(outv, m.Objects[id]...)
		}
		if d := multisetDiff(recsOfVals(in), recsOfVals(outv)); d != "" {
			prob("manage:values-changed", "objects written by manage do not hold the values of the objects it removed: %s", d)
		}
		out.Commit = newTip
		// one model commit stands for the run of compaction commits manage made
		m.addCommit(&MCommit{ID: newTip, Parent: tip, Adds: adds, Dels: dels, Kind: "compact"}, op.Branch)
	case "add-vectors", "del-vectors":
		ids := dedup(m.pickObjs(op.Branch, op.Objs, op.Any))
		if len(ids) == 0 {
			out.Skipped = true
			return out
		}
		var commit ksuid.KSUID
		var err error
		if op.Kind == "add-vectors" {
			commit, err = l.API.AddVectors(ctx, m.Spec.Name, op.Branch, ids, msg)
		} else {
			commit, err = l.API.DeleteVectors(ctx, m.Spec.Name, op.Branch, ids, msg)
		}
		out.Err, out.Commit = err, commit
		if err != nil {
			return out
		}
		m.addCommit(&MCommit{ID: commit, Parent: tip, Kind: op.Kind}, op.Branch)
		// post-condition: the branch lists a vector for exactly these ids more
		// (or fewer), and a listed vector has its file
		if listed, lerr := l.Vectors(ctx, m.Spec.Name, op.Branch); lerr != nil {
			prob("vectors:listing-unreadable", "%s@%s:vectors after %s: %v", m.Spec.Name, op.Branch, op.Kind, lerr)
		} else {
			has := map[ksuid.KSUID]bool{}
			for _, o := range listed {
				has[o.ID] = true
				if _, ok := b.Get(VectorPath(m.PoolID, o.ID)); !ok {
					prob("vectors:listed-vector-has-no-file", "%s@%s lists a vector for %s after %s but its file does not exist", m.Spec.Name, op.Branch, o.ID, op.Kind)
				}
			}
			for _, id := range ids {
				if has[id] != (op.Kind == "add-vectors") {
					prob("vectors:"+op.Kind+"-not-reflected-in-listing", "%s of %s acknowledged, but %s@%s:vectors lists it: %v", op.Kind, id, m.Spec.Name, op.Branch, has[id])
				}
			}
		}
	case "vacuum":
		if tip == ksuid.Nil {
			out.Skipped = true
			return out
		}
		gone, err := l.API.Vacuum(ctx, m.Spec.Name, op.Branch, false)
		out.Err = err
		if err != nil {
			return out
		}
		live := m.State(tip)
		// objects vacuumed by an earlier vacuum and brought back by a revert have
		// no file already (outside the claim: explicitly vacuumed)
		already := map[ksuid.KSUID]bool{}
		for id := range m.Vacuumed {
			already[id] = true
		}
		for _, id := range gone {
			if live[id] {
				prob("vacuum:removed-live-object", "vacuum removed %s which the branch tip still references", id)
			}
			m.Vacuumed[id] = true
		}
		for id := range live {
			if already[id] {
				continue
			}
			if _, ok := b.Get(DataPath(m.PoolID, id)); !ok {
				prob("vacuum:live-object-file-missing", "object %s referenced by the tip has no file after vacuum", id)
			}
		}
	case "create-branch":
		from, ok := m.Branches[op.From]
		if !ok {
			out.Skipped = true
			return out
		}
		if _, exists := m.Branches[op.Branch]; exists {
			out.Skipped = true
			return out
		}
		path := m.Path(from)
		at := from
		if op.Back > 0 && len(path) > 0 {
			at = path[min(op.Back, len(path)-1)]
		}
		err := l.API.CreateBranch(ctx, m.PoolID, op.Branch, at)
		out.Err = err
		if err != nil {
			return out
		}
		m.Branches[op.Branch] = at
	case "merge":
		child, ok := m.Branches[op.Child]
		if !ok || op.Child == op.Branch {
			out.Skipped = true
			return out
		}
		commit, err := l.API.MergeBranch(ctx, m.PoolID, op.Child, op.Branch, msg)
		out.Err, out.Commit = err, commit
		if err != nil {
			return out
		}
		// Predicted: parent ∪ child adds since ancestor ∖ child deletes since ancestor.
		anc := m.commonAncestor(tip, child)
		ancState := m.State(anc)
		childState := m.State(child)
		parentState := m.State(tip)
		var adds, dels []ksuid.KSUID
		for id := range childState {
			if !ancState[id] && !parentState[id] {
				adds = append(adds, id)
			}
		}
		for id := range ancState {
			if !childState[id] && parentState[id] {
				dels = append(dels, id)
			}
		}
		m.addCommit(&MCommit{ID: commit, Parent: tip, Adds: adds, Dels: dels, Kind: "merge"}, op.Branch)
	case "revert":
		if len(m.Order) == 0 {
			out.Skipped = true
			return out
		}
		target := m.Order[((op.Commit%len(m.Order))+len(m.Order))%len(m.Order)]
		commit, err := l.API.Revert(ctx, m.PoolID, op.Branch, target, msg)
		out.Err, out.Commit = err, commit
		if err != nil {
			return out
		}
		tc := m.Commits[target]
		st := m.State(tip)
		var adds, dels []ksuid.KSUID
		for _, id := range tc.Adds {
			if st[id] {
				dels = append(dels, id)
			}
		}
		for _, id := range tc.Dels {
			if !st[id] {
				adds = append(adds, id)
			}
		}
		m.addCommit(&MCommit{ID: commit, Parent: tip, Adds: adds, Dels: dels, Kind: "revert"}, op.Branch)
	default:
		out.Err = errors.New("unknown op " + op.Kind)
		out.Skipped = true
	}
	return out
}

func (m *Model) commonAncestor(a, b ksuid.KSUID) ksuid.KSUID {
	inA := idSet(m.Path(a))
	for _, id := range m.Path(b) {
		if inA[id] {
			return id
		}
	}
	return ksuid.Nil
}

// CheckRev compares `from pool@rev` (rev = branch name or commit id) with the
// model's prediction for commit, and the metadata listing with the model's
// object set.
func (m *Model) CheckRev(ctx context.Context, l *Lake, rev string, commit ksuid.KSUID) []Problem {
	var out []Problem
	if m.NeedsVacuumed(commit) {
		return nil // its objects were explicitly vacuumed: outside the claim
	}
	want := recsOfVals(m.Values(commit))
	got, err := l.Query(ctx, fmt.Sprintf("from %s@%s", quoteName(m.Spec.Name), rev))
	if err != nil {
		return append(out, Problem{"unreadable", fmt.Sprintf("query of %s@%s failed: %v", m.Spec.Name, rev, err)})
	}
	if d := multisetDiff(want, got); d != "" {
		out = append(out, Problem{"contents-differ-from-model", fmt.Sprintf("%s@%s: %s", m.Spec.Name, rev, d)})
	}
	if commit == ksuid.Nil {
		return out
	}
	listing, err := l.Objects(ctx, m.Spec.Name, rev)
	if err != nil {
		return append(out, Problem{"unreadable", fmt.Sprintf("object listing of %s@%s failed: %v", m.Spec.Name, rev, err)})
	}
	st := m.State(commit)
	seen := map[ksuid.KSUID]bool{}
	for _, o := range listing {
		if seen[o.ID] {
			out = append(out, Problem{"listing:duplicate-object", fmt.Sprintf("%s@%s lists %s twice", m.Spec.Name, rev, o.ID)})
		}
		seen[o.ID] = true
		if !st[o.ID] {
			out = append(out, Problem{"listing:unexpected-object", fmt.Sprintf("%s@%s lists %s which the model does not expect", m.Spec.Name, rev, o.ID)})
		}
	}
	for id := range st {
		if !seen[id] {
			out = append(out, Problem{"listing:missing-object", fmt.Sprintf("%s@%s does not list %s", m.Spec.Name, rev, id)})
		}
	}
	return out
}

// CheckAll checks every branch.
func (m *Model) CheckAll(ctx context.Context, l *Lake) []Problem {
	var out []Problem
	names := make([]string, 0, len(m.Branches))
	for n := range m.Branches {
		names = append(names, n)
	}
	sort.Strings(names)
	for _, n := range names {
		out = append(out, m.CheckRev(ctx, l, n, m.Branches[n])...)
	}
	return out
}

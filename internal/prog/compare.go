package prog

import (
	"fmt"
	"sort"
	"strings"

	zed "github.com/brimdata/super"
	"github.com/brimdata/super/order"
	"github.com/brimdata/super/runtime/sam/expr"
	"github.com/brimdata/super/zbuf"
	"github.com/brimdata/super/zcode"
	"github.com/brimdata/super/zson"

	"verif/internal/gen"
)

// Drain pulls p to the end and returns deep copies of all values.
func Drain(p zbuf.Puller) ([]zed.Value, error) {
	var out []zed.Value
	for {
		b, err := p.Pull(false)
		if err != nil {
			return out, err
		}
		if b == nil {
			return out, nil
		}
		for _, v := range b.Values() {
			out = append(out, v.Copy())
		}
		b.Unref()
	}
}

// FormatValue renders a value for descriptions only (never for deciding).
func FormatValue(v zed.Value) (s string) {
	defer func() {
		if r := recover(); r != nil {
			s = fmt.Sprintf("<unformattable %s %x>", gen.TypeString(v.Type()), v.Bytes())
		}
	}()
	s = zson.FormatValue(v)
	if len(s) > 400 {
		s = s[:400] + "…"
	}
	return s
}

func FormatValues(vals []zed.Value, max int) []string {
	var out []string
	for i, v := range vals {
		if i >= max {
			out = append(out, fmt.Sprintf("… (%d more)", len(vals)-max))
			break
		}
		out = append(out, FormatValue(v))
	}
	return out
}

// CanonType prints a type modulo record-field order and union-member order
// (the normal form of fuse() results).
func CanonType(t zed.Type) string {
	switch t := t.(type) {
	case *zed.TypeNamed:
		return fmt.Sprintf("named(%q=%s)", t.Name, CanonType(t.Type))
	case *zed.TypeRecord:
		parts := make([]string, len(t.Fields))
		for i, f := range t.Fields {
			parts[i] = fmt.Sprintf("%q:%s", f.Name, CanonType(f.Type))
		}
		sort.Strings(parts)
		return "rec{" + strings.Join(parts, ",") + "}"
	case *zed.TypeArray:
		return "arr[" + CanonType(t.Type) + "]"
	case *zed.TypeSet:
		return "set[" + CanonType(t.Type) + "]"
	case *zed.TypeMap:
		return "map[" + CanonType(t.KeyType) + "=>" + CanonType(t.ValType) + "]"
	case *zed.TypeUnion:
		parts := make([]string, len(t.Types))
		for i, m := range t.Types {
			parts[i] = CanonType(m)
		}
		sort.Strings(parts)
		return "union(" + strings.Join(parts, "|") + ")"
	case *zed.TypeError:
		return "err<" + CanonType(t.Type) + ">"
	default:
		return gen.TypeString(t)
	}
}

func rawKey(t zed.Type, b zcode.Bytes) string {
	if b == nil {
		return gen.TypeString(t) + "\x00N"
	}
	return gen.TypeString(t) + "\x00V" + string(b)
}

// normKey gives the comparison key of one (type, bytes) under normal form n.
func normKey(t zed.Type, b zcode.Bytes, n Norm) (key string) {
	defer func() {
		// a structurally invalid value (seen: collect() results built across
		// type contexts) is compared by its raw bytes
		if r := recover(); r != nil {
			key = "invalid:" + rawKey(t, b)
		}
	}()
	switch n {
	case NormAny:
		return "<any>"
	case NormMultiset:
		u := zed.TypeUnder(t)
		arr, ok := u.(*zed.TypeArray)
		if !ok || b == nil {
			return rawKey(t, b)
		}
		var elems []string
		for it := b.Iter(); !it.Done(); {
			et, eb := arr.Type, it.Next()
			if union, ok := zed.TypeUnder(et).(*zed.TypeUnion); ok && eb != nil {
				et, eb = union.Untag(eb)
			}
			elems = append(elems, rawKey(et, eb))
		}
		sort.Strings(elems)
		return "multiset[" + strings.Join(elems, "\x01") + "]"
	case NormFuseType:
		if zed.TypeUnder(t) != zed.TypeType || b == nil {
			return rawKey(t, b)
		}
		typ, err := zed.NewContext().LookupByValue(b)
		if err != nil {
			return rawKey(t, b)
		}
		return "type:" + CanonType(typ)
	}
	return rawKey(t, b)
}

// Key gives the comparison key of an output value of p: (structural type
// string, null-ness, bytes) with the program's normal forms applied to the
// top-level fields named in p.Norm.
func Key(p *Program, v zed.Value) string {
	if len(p.Norm) == 0 {
		return rawKey(v.Type(), v.Bytes())
	}
	if n, ok := p.Norm[""]; ok {
		if _, isRec := zed.TypeUnder(v.Type()).(*zed.TypeRecord); !isRec {
			return normKey(v.Type(), v.Bytes(), n)
		}
	}
	rec, ok := zed.TypeUnder(v.Type()).(*zed.TypeRecord)
	if !ok || v.IsNull() {
		return rawKey(v.Type(), v.Bytes())
	}
	hit := false
	for _, f := range rec.Fields {
		if _, ok := p.Norm[f.Name]; ok {
			hit = true
		}
	}
	if !hit {
		return rawKey(v.Type(), v.Bytes())
	}
	var sb strings.Builder
	sb.WriteString("rec{")
	it := v.Bytes().Iter()
	for _, f := range rec.Fields {
		fb := it.Next()
		fmt.Fprintf(&sb, "%q:", f.Name)
		if n, ok := p.Norm[f.Name]; ok {
			sb.WriteString(normKey(f.Type, fb, n))
		} else {
			sb.WriteString(rawKey(f.Type, fb))
		}
		sb.WriteString("\x02")
	}
	sb.WriteString("}")
	return sb.String()
}

func multisetDiff(want, got []string, wv, gv []zed.Value) string {
	m := map[string]int{}
	ex := map[string]zed.Value{}
	for i, k := range want {
		m[k]++
		ex[k] = wv[i]
	}
	for i, k := range got {
		m[k]--
		if _, ok := ex[k]; !ok {
			ex[k] = gv[i]
		}
	}
	var missing, extra []string
	keys := make([]string, 0, len(m))
	for k := range m {
		keys = append(keys, k)
	}
	sort.Strings(keys)
	for _, k := range keys {
		n := m[k]
		if n > 0 && len(missing) < 3 {
			missing = append(missing, fmt.Sprintf("%d× %s", n, FormatValue(ex[k])))
		}
		if n < 0 && len(extra) < 3 {
			extra = append(extra, fmt.Sprintf("%d× %s", -n, FormatValue(ex[k])))
		}
	}
	if len(missing) == 0 && len(extra) == 0 {
		return ""
	}
	return fmt.Sprintf("multisets differ (want %d values, got %d): missing %v, unexpected %v", len(want), len(got), missing, extra)
}

// tieRuns splits vals into maximal runs of consecutive values whose sort keys
// compare equal (the repo's own comparator is used only to decide ties).
func tieRuns(zctx *zed.Context, keys []SortKey, vals []zed.Value) [][2]int {
	var sortExprs []expr.SortEvaluator
	for _, k := range keys {
		sortExprs = append(sortExprs, expr.NewSortEvaluator(expr.NewDottedExpr(zctx, k.Path), order.Asc))
	}
	cmp := expr.NewComparator(true, sortExprs...).WithMissingAsNull()
	var runs [][2]int
	start := 0
	for i := 1; i <= len(vals); i++ {
		if i == len(vals) || cmp.Compare(vals[i-1], vals[i]) != 0 {
			runs = append(runs, [2]int{start, i})
			start = i
		}
	}
	return runs
}

// Compare compares two outputs of p in p's compare mode and returns "" when
// they are equal, else a description of the first difference.  zctx is any
// context (used for the missing value of the tie comparator).
func Compare(p *Program, zctx *zed.Context, want, got []zed.Value) string {
	wk := make([]string, len(want))
	for i, v := range want {
		wk[i] = Key(p, v)
	}
	gk := make([]string, len(got))
	for i, v := range got {
		gk[i] = Key(p, v)
	}
	switch p.Mode {
	case ModeAmbiguous:
		return ""
	case ModeMultiset:
		return multisetDiff(wk, gk, want, got)
	case ModeSequence:
		n := min(len(wk), len(gk))
		for i := 0; i < n; i++ {
			if wk[i] != gk[i] {
				if d := multisetDiff(wk, gk, want, got); d == "" {
					return fmt.Sprintf("same multiset, different order; first at position %d:\n want %s\n got  %s", i, FormatValue(want[i]), FormatValue(got[i]))
				}
				return fmt.Sprintf("value %d differs:\n want %s\n got  %s", i, FormatValue(want[i]), FormatValue(got[i]))
			}
		}
		if len(wk) != len(gk) {
			return fmt.Sprintf("length differs: want %d values, got %d", len(wk), len(gk))
		}
		return ""
	case ModeSorted:
		if d := multisetDiff(wk, gk, want, got); d != "" {
			return d
		}
		wr := tieRuns(zctx, p.SortKeys, want)
		gr := tieRuns(zctx, p.SortKeys, got)
		for i := 0; i < len(wr) && i < len(gr); i++ {
			if wr[i] != gr[i] {
				return fmt.Sprintf("same multiset, but run %d of equal sort keys (%v) spans [%d,%d) in want and [%d,%d) in got:\n want[%d]=%s\n got[%d]=%s",
					i, p.SortKeys, wr[i][0], wr[i][1], gr[i][0], gr[i][1], wr[i][0], FormatValue(want[wr[i][0]]), gr[i][0], FormatValue(got[gr[i][0]]))
			}
			a := append([]string(nil), wk[wr[i][0]:wr[i][1]]...)
			b := append([]string(nil), gk[gr[i][0]:gr[i][1]]...)
			sort.Strings(a)
			sort.Strings(b)
			for j := range a {
				if a[j] != b[j] {
					return fmt.Sprintf("same multiset, but run %d of equal sort keys (%v) [%d,%d) holds different values:\n want[%d]=%s\n got[%d]=%s",
						i, p.SortKeys, wr[i][0], wr[i][1], wr[i][0], FormatValue(want[wr[i][0]]), gr[i][0], FormatValue(got[gr[i][0]]))
				}
			}
		}
		if len(wr) != len(gr) {
			return fmt.Sprintf("same multiset, different number of sort-key runs: want %d, got %d", len(wr), len(gr))
		}
		return ""
	}
	return "unknown compare mode"
}

// SameMultiset reports whether the two outputs are equal as multisets under
// p's normal forms (used by monitors to classify an order-only difference).
func SameMultiset(p *Program, want, got []zed.Value) bool {
	q := *p
	q.Mode = ModeMultiset
	return Compare(&q, nil, want, got) == ""
}

package prog

import (
	"bufio"
	"encoding/json"
	"flag"
	"io/fs"
	"os"
	"path/filepath"
	"sort"
	"strings"

	zed "github.com/brimdata/super"
	"github.com/brimdata/super/cli/inputflags"
	"github.com/brimdata/super/compiler/ast/dag"
	"github.com/brimdata/super/compiler/optimizer/demand"
	"github.com/brimdata/super/zio/anyio"
	"github.com/brimdata/super/ztest"
)

// RepoDir is where the code under test lives (for the corpus files).
func RepoDir() string {
	if d := os.Getenv("VERIF_REPO"); d != "" {
		return d
	}
	return "/repo"
}

// CorpusEntry is one program of the repo's own corpus.  Mode and normal
// forms are not known before the program is analyzed: call ModeOfDAG on the
// analyzed DAG (compiler.NewJob(...).Entry()) and store the result with
// SetMode.
type CorpusEntry struct {
	Name       string // path relative to the repo, or valid.zed:<line>
	Text       string
	Input      string // inline input ("" for valid.zed programs)
	InputFlags []string
}

// LoadCorpus returns the in-process ztest programs (YAML files with a `zed:`
// program and inline `input:`; script tests, skipped and tagged tests are left
// out) followed by the lines of compiler/parser/valid.zed, in a stable order.
func LoadCorpus(repo string) ([]CorpusEntry, error) {
	var out []CorpusEntry
	var files []string
	err := filepath.WalkDir(repo, func(path string, d fs.DirEntry, err error) error {
		if err != nil {
			return nil
		}
		if d.IsDir() {
			if n := d.Name(); n == ".git" || n == "node_modules" {
				return filepath.SkipDir
			}
			return nil
		}
		if strings.HasSuffix(path, ".yaml") && strings.Contains(path, "ztests") {
			files = append(files, path)
		}
		return nil
	})
	if err != nil {
		return nil, err
	}
	sort.Strings(files)
	for _, f := range files {
		z, err := ztest.FromYAMLFile(f)
		if err != nil || z.Zed == "" || z.Script != "" || z.Skip != "" || z.Tag != "" {
			continue
		}
		rel, _ := filepath.Rel(repo, f)
		out = append(out, CorpusEntry{Name: rel, Text: z.Zed, Input: z.Input, InputFlags: strings.Fields(z.InputFlags)})
	}
	vf, err := os.Open(filepath.Join(repo, "compiler/parser/valid.zed"))
	if err != nil {
		return out, nil
	}
	defer vf.Close()
	sc := bufio.NewScanner(vf)
	for line := 1; sc.Scan(); line++ {
		t := strings.TrimSpace(sc.Text())
		if t == "" {
			continue
		}
		out = append(out, CorpusEntry{Name: "compiler/parser/valid.zed:" + itoa(line), Text: t})
	}
	return out, nil
}

func itoa(n int) string {
	b, _ := json.Marshal(n)
	return string(b)
}

// ReadInput decodes the entry's inline input into zctx exactly as the ztest
// runner would (format auto-detection, input flags).
func (e *CorpusEntry) ReadInput(zctx *zed.Context) ([]zed.Value, error) {
	var inflags inputflags.Flags
	var flags flag.FlagSet
	inflags.SetFlags(&flags, true)
	if err := flags.Parse(e.InputFlags); err != nil {
		return nil, err
	}
	r, err := anyio.GzipReader(strings.NewReader(e.Input))
	if err != nil {
		return nil, err
	}
	zrc, err := anyio.NewReaderWithOpts(zctx, r, demand.All(), inflags.Options())
	if err != nil {
		return nil, err
	}
	defer zrc.Close()
	var out []zed.Value
	for {
		v, err := zrc.Read()
		if err != nil {
			return out, err
		}
		if v == nil {
			return out, nil
		}
		out = append(out, v.Copy())
	}
}

type dagState struct {
	ord       Order
	keys      []SortKey
	ambiguous bool
	norm      map[string]Norm
}

func hasAgg(op any) bool {
	b, err := json.Marshal(op)
	return err == nil && strings.Contains(string(b), `"kind":"Agg"`)
}

// ModeOfDAG derives the compare mode of an arbitrary analyzed program from
// its DAG with the same order-state algebra Gen uses, conservatively: an
// operator the algebra does not know turns a sorted state into a multiset;
// head/tail/uniq/top on anything but a defined sequence make the program
// ambiguous (only its error-ness is comparable).  input is the order-state of
// the source (OrdSeq for file/stream input).
func ModeOfDAG(seq dag.Seq, input Order) *Program {
	st := &dagState{ord: input, norm: map[string]Norm{}}
	walkDAG(seq, st)
	p := &Program{Norm: st.norm}
	switch {
	case st.ambiguous:
		p.Mode = ModeAmbiguous
	case st.ord == OrdSeq:
		p.Mode = ModeSequence
	case st.ord == OrdSorted:
		p.Mode = ModeSorted
		p.SortKeys = st.keys
	default:
		p.Mode = ModeMultiset
	}
	if len(p.Norm) == 0 {
		p.Norm = nil
	}
	p.ModeName = p.Mode.String()
	return p
}

func (s *dagState) perValue() {
	if s.ord == OrdSorted {
		s.ord, s.keys = OrdMulti, nil
	}
	if len(s.norm) > 0 {
		// a normal-formed field may have been moved or inspected
		s.ambiguous = true
	}
}

func walkDAG(seq dag.Seq, st *dagState) {
	for i := 0; i < len(seq); i++ {
		switch op := seq[i].(type) {
		case *dag.DefaultScan, *dag.FileScan, *dag.HTTPScan, *dag.Pass, *dag.Output:
		case *dag.PoolScan, *dag.Lister, *dag.SeqScan, *dag.Slicer, *dag.CommitMetaScan, *dag.LakeMetaScan, *dag.PoolMetaScan, *dag.DeleteScan, *dag.Deleter:
		case *dag.Filter:
			if hasAgg(op) && st.ord != OrdSeq {
				st.ambiguous = true
			}
		case *dag.Head, *dag.Tail, *dag.Uniq:
			if st.ord != OrdSeq {
				st.ambiguous = true
			}
			if _, ok := op.(*dag.Uniq); ok && len(st.norm) > 0 {
				st.ambiguous = true
			}
		case *dag.Top:
			st.ambiguous = true
		case *dag.Sort:
			var keys []SortKey
			ok := len(op.Args) > 0
			for _, a := range op.Args {
				this, isThis := a.Key.(*dag.This)
				if !isThis {
					ok = false
					break
				}
				if _, tainted := st.norm[strings.Join(this.Path, ".")]; tainted {
					st.ambiguous = true
				}
				keys = append(keys, SortKey{Path: this.Path, Desc: bool(a.Order) != op.Reverse})
			}
			switch {
			case st.ord == OrdSeq:
			case ok:
				st.ord, st.keys = OrdSorted, keys
			default:
				// guessed or computed key: the harness cannot tell ties
				st.ord, st.keys = OrdMulti, nil
				if len(op.Args) == 0 {
					// the key is guessed from the first value, which is not defined here
					st.ambiguous = true
				}
			}
		case *dag.Summarize:
			defined := st.ord == OrdSeq
			if len(st.norm) > 0 {
				st.ambiguous = true
			}
			st.norm = map[string]Norm{}
			for _, a := range op.Aggs {
				agg, ok := a.RHS.(*dag.Agg)
				lhs, ok2 := a.LHS.(*dag.This)
				if !ok || !ok2 {
					continue
				}
				var n Norm
				switch agg.Name {
				case "collect", "collect_map":
					n = NormMultiset
				case "any":
					n = NormAny
				case "fuse":
					n = NormFuseType
				}
				if agg.Name == "collect_map" {
					n = NormNone // a map is normalized by key
				}
				if n != NormNone && (!defined || op.Limit != 0) {
					if len(lhs.Path) == 1 {
						st.norm[lhs.Path[0]] = n
					} else {
						st.ambiguous = true
					}
				}
			}
			if len(op.Keys) == 0 {
				st.ord, st.keys = OrdSeq, nil
				if len(op.Aggs) == 1 && len(st.norm) == 1 {
					// a single aggregate without keys may be emitted bare
					for _, n := range st.norm {
						st.norm[""] = n
					}
				}
			} else {
				st.ord, st.keys = OrdMulti, nil
			}
		case *dag.Fork:
			walkPaths(op.Paths, st)
		case *dag.Scatter:
			walkPaths(op.Paths, st)
		case *dag.Switch:
			var paths []dag.Seq
			for _, c := range op.Cases {
				paths = append(paths, c.Path)
			}
			walkPaths(paths, st)
		case *dag.Mirror:
			walkPaths([]dag.Seq{op.Main, op.Mirror}, st)
		case *dag.Combine, *dag.Join:
			st.ord, st.keys = OrdMulti, nil
			if len(st.norm) > 0 {
				st.ambiguous = true
			}
		case *dag.Merge:
			if this, ok := op.Expr.(*dag.This); ok {
				st.ord, st.keys = OrdSorted, []SortKey{{Path: this.Path, Desc: bool(op.Order)}}
			} else {
				st.ord, st.keys = OrdMulti, nil
			}
		case *dag.Scope:
			walkDAG(op.Body, st)
		case *dag.Over:
			if hasAgg(op.Exprs) && st.ord != OrdSeq {
				st.ambiguous = true
			}
			st.perValue()
			if op.Body != nil {
				inner := &dagState{ord: OrdSeq, norm: map[string]Norm{}}
				walkDAG(op.Body, inner)
				if inner.ambiguous {
					st.ambiguous = true
				}
				if inner.ord != OrdSeq {
					st.ord, st.keys = OrdMulti, nil
				}
				for k, v := range inner.norm {
					st.norm[k] = v
				}
			}
		default:
			// cut, drop, put, rename, yield, fuse, shape, explode, load, vectorize, …
			if hasAgg(op) && st.ord != OrdSeq {
				st.ambiguous = true
			}
			st.perValue()
		}
	}
}

func walkPaths(paths []dag.Seq, st *dagState) {
	if len(paths) == 1 {
		walkDAG(paths[0], st)
		return
	}
	norm := map[string]Norm{}
	for k, v := range st.norm {
		norm[k] = v
	}
	for _, p := range paths {
		leg := &dagState{ord: st.ord, keys: st.keys, norm: map[string]Norm{}}
		for k, v := range st.norm {
			leg.norm[k] = v
		}
		walkDAG(p, leg)
		if leg.ambiguous {
			st.ambiguous = true
		}
		for k, v := range leg.norm {
			if k == "" {
				continue
			}
			norm[k] = v
		}
		if n, ok := leg.norm[""]; ok {
			norm[""] = n
		}
	}
	st.norm = norm
	st.ord, st.keys = OrdMulti, nil
}

// Package prog generates query programs together with what an oracle needs to
// compare two of their outputs, generates matching input data, and loads the
// repo's own program corpus.  It is shared by the query monitors (C04, C07,
// C10 now; C08/C09 on lake pools later).
//
// # Order-state
//
// The generator walks a grammar while tracking, at every point of the program,
// what the language defines about the order of the sequence there:
//
//	OrdSeq    the whole sequence is defined: the input of a file/stream, a
//	          stable `sort` of a defined sequence, a `sort`/`merge` whose key
//	          list is total (contains a unique, present, non-null,
//	          single-class field), anything behind order-preserving per-value
//	          operators (where, search, cut, drop, put, rename, yield, over,
//	          fuse, pass, head, tail, uniq)
//	OrdSorted sorted on a key list, the order inside runs of equal keys is not
//	          defined: `sort`/`merge` of a multiset on a non-total key; kept by
//	          per-value operators that leave the key fields alone
//	OrdMulti  only the multiset is defined: after summarize (with keys), fork,
//	          switch, join, an unordered pool scan
//
// head, tail and uniq are emitted only in OrdSeq.  To decide totality the
// generator keeps, per top-level field, whether it is present in every row,
// never null, of one comparable class (compare()==0 ⇒ identical) and unique;
// the general input alphabet (see input.go) is built so that these facts hold:
// id is unique, s/g/ts are present single-class duplicate keys, k/n/t are
// nullable / missing / mixed-type keys.  A group-by on one present
// single-class key makes that key unique again, so `count() by s | sort s |
// head 2` is generated while `count() by n | sort n | head 2` is not.
//
// Every Program carries its compare mode (ModeSequence, ModeSorted with the
// sort keys, ModeMultiset; ModeAmbiguous only for corpus programs that apply
// head/tail/uniq/top to an undefined order) and the normal forms of DESIGN
// §2.4 for result fields whose inner order the language leaves open: collect()
// arrays as multisets (NormMultiset), any() by presence only (NormAny; a
// monitor that knows the groups checks membership itself, as C10 does), fuse()
// type values modulo record-field and union-member order (NormFuseType).
// Fields under a normal form are passed through by later operators but never
// inspected by generated expressions.  Float aggregates only ever see
// multiples of 1/8 (sums are exact, so re-association cannot change a bit);
// results of avg are not fed to further float aggregates.  now() and other
// non-deterministic functions are never generated.
//
// # API
//
//	Gen(r, Opts) *Program                  one program; Opts.Family "general" (default) or "search";
//	                                       Opts.InputOrder/InputKeys = order-state of the source
//	                                       (OrdSeq for streams; OrdSorted+pool key or OrdMulti for
//	                                       `from pool`), Opts.From = source prefix, Opts.Sorted = the
//	                                       general-alphabet field the input really is sorted on
//	GenInput(r, zctx, n, InputOpts) []zed.Value      rows over the general alphabet (InputOpts.SortedBy/Desc
//	                                       produce an input that really is sorted that way)
//	GenInputRows(...)                      same, plus the harness-side Row structs
//	GenSearchInput(r, zctx, n, token, hitDen) *SearchInput   values for the search family: the token in field
//	                                       names and values at every depth (records inside arrays, sets,
//	                                       maps, unions, errors, named types), in type values, type
//	                                       names and enum symbols; Sites names the site used per value
//	Compare(p, zctx, want, got) string     "" or the first difference, in p's mode and normal forms;
//	                                       ties of ModeSorted are decided with the repo's comparator
//	                                       (used only to find runs of equal keys)
//	SameMultiset(p, want, got) bool        equality as multisets (to classify an order-only difference)
//	Key(p, v) string                       comparison key of one output value: harness type string,
//	                                       null-ness, bytes, normal forms applied per top-level field
//	CanonType(t) string                    type printer modulo field and union-member order
//	Drain(puller) ([]zed.Value, error)     pull to the end, deep-copying every value
//	Record / Array                         small value builders
//	LoadCorpus(repo) []CorpusEntry         the ztest YAML programs with inline input and the lines of
//	                                       compiler/parser/valid.zed; CorpusEntry.ReadInput decodes the
//	                                       input exactly as the ztest runner does
//	ModeOfDAG(dag.Seq, Order) *Program     compare mode / sort keys / normal forms of an arbitrary
//	                                       analyzed program by the same order-state algebra
//
// All randomness comes from the *rt.Rand passed in; values are created in the
// zed.Context passed in, which must also be the context the query runs in
// (operators cache by type id).
//
// # What the generator leaves out, and why
//
// Seen to hang or crash the unchanged tree independently of the property
// under test (reported in the monitors' notes): uniq downstream of a
// fork/switch/join (it pulls its parent again after end of stream), the fuse
// operator inside a fork/switch leg (it ends for good after its first end of
// stream, which blocks a downstream merge), fuse() aggregates whose partial can
// be null (spill or partials merge panics), arithmetic on a null of union type
// (Value.Under never returns).
package prog

package prog

import (
	"sort"

	zed "github.com/brimdata/super"
	"github.com/brimdata/super/pkg/nano"
	"github.com/brimdata/super/zcode"

	"verif/internal/rt"
)

// The field alphabet of the "general" program family.  Every generated input
// value is a record; which of the optional fields it carries varies from row
// to row, so a sequence contains several record shapes.
//
//	id  int64    unique, present in every row, never null (a shuffled 0..n-1 plus an offset)
//	s   string   present, never null, few distinct values, mixed case and lengths
//	g   int64    present, never null, small range incl. negatives (duplicate keys)
//	k   int64    small range; may be null; may be missing
//	n   number   int64 / uint64 / float64 holding numerically equal values 0..3; null; missing
//	v   int64    small; may be null
//	f   float64  multiple of 1/8 with |f| ≤ 8 (exactly summable); may be missing
//	t   string or int64 (mixed type in one column); may be missing
//	b   bool     may be null; may be missing
//	a   [int64]  0..3 elements; may be missing
//	r   record   {x:int64,y:string} or {x:int64}; may be missing
//	ts  time     whole multiples of 20 minutes inside one day; present, never null
//
// Field classes the program generator relies on (see fieldInfo): id is
// Unique+Injective; s, g, ts are Present+NonNull+Injective (compare()==0
// implies identical value, so a group-by on them yields rows that a sort on the
// same key orders totally); k, n, t are neither.
const (
	FId = "id"
	FS  = "s"
	FG  = "g"
	FK  = "k"
	FN  = "n"
	FV  = "v"
	FF  = "f"
	FT  = "t"
	FB  = "b"
	FA  = "a"
	FR  = "r"
	FTs = "ts"
)

var sValues = []string{"a", "B", "bb", "C", "a1", "Ab", "c", "dd"}

// InputOpts tunes GenInput.
type InputOpts struct {
	// SortedBy, if non-empty, is one of "id","s","g","k","ts": the rows are
	// arranged so that the sequence really is sorted on that field in the
	// sense of the language's sort operator (and of every consumer of a
	// declared sort key): ascending = `sort <field>`, nulls last; descending
	// = exact reverse.  For "k" missing is replaced by null, and with Desc
	// neither null nor missing k is produced (the meaning of a declared
	// descending order for null keys differs between sort, group-by and
	// join; such inputs are kept out).
	SortedBy string
	Desc     bool
	// FewShapes keeps the optional fields k, v, ts-only (for spill-heavy cases).
	DistinctG int // number of distinct g values (default 7: -2..4)
	DistinctS int // number of distinct s values (default len(sValues))
}

// Row is the harness-side view of one generated record (for oracles that
// need the field values without decoding).
type Row struct {
	ID       int64
	S        string
	G        int64
	K        *int64 // nil = null or missing
	KMissing bool
	Ts       int64
}

type recBuilder struct {
	zctx   *zed.Context
	fields []zed.Field
	b      zcode.Builder
}

func (rb *recBuilder) add(name string, v zed.Value) {
	rb.fields = append(rb.fields, zed.NewField(name, v.Type()))
	if v.IsNull() {
		rb.b.Append(nil)
	} else {
		rb.b.Append(v.Bytes())
	}
}

func (rb *recBuilder) value() zed.Value {
	typ := rb.zctx.MustLookupTypeRecord(rb.fields)
	return zed.NewValue(typ, rb.b.Bytes())
}

// Record builds a record value from (name, value) pairs in zctx.
func Record(zctx *zed.Context, names []string, vals []zed.Value) zed.Value {
	rb := &recBuilder{zctx: zctx}
	for i, n := range names {
		rb.add(n, vals[i])
	}
	return rb.value()
}

// Array builds an array value of the given element type.
func Array(zctx *zed.Context, elem zed.Type, vals []zed.Value) zed.Value {
	var b zcode.Builder
	for _, v := range vals {
		if v.IsNull() {
			b.Append(nil)
		} else {
			b.Append(v.Bytes())
		}
	}
	bytes := b.Bytes()
	if bytes == nil {
		bytes = zcode.Bytes{}
	}
	return zed.NewValue(zctx.LookupTypeArray(elem), bytes)
}

// GenInput generates n rows over the general field alphabet in zctx.
func GenInput(r *rt.Rand, zctx *zed.Context, n int, o InputOpts) []zed.Value {
	vals, _ := GenInputRows(r, zctx, n, o)
	return vals
}

// GenInputRows is GenInput that also returns the harness-side rows.
func GenInputRows(r *rt.Rand, zctx *zed.Context, n int, o InputOpts) ([]zed.Value, []Row) {
	ng := o.DistinctG
	if ng <= 0 {
		ng = 7
	}
	ns := o.DistinctS
	if ns <= 0 || ns > len(sValues) {
		ns = len(sValues)
	}
	rows := make([]Row, n)
	perm := r.Perm(n)
	off := int64(r.Intn(3)) * 100
	for i := range rows {
		row := &rows[i]
		row.ID = off + int64(perm[i])
		row.S = sValues[r.Intn(ns)]
		row.G = int64(r.Intn(ng)) - 2
		switch x := r.Intn(10); {
		case x == 0:
			row.KMissing = true
		case x == 1:
			// null
		default:
			k := int64(r.Intn(9)) - 2
			row.K = &k
		}
		row.Ts = int64(r.Intn(72)) * 20 * 60 * 1e9
	}
	if o.SortedBy != "" {
		if o.SortedBy == FK {
			for i := range rows {
				rows[i].KMissing = false
				if o.Desc && rows[i].K == nil {
					k := int64(r.Intn(9)) - 2
					rows[i].K = &k
				}
			}
		}
		less := func(a, b *Row) bool {
			switch o.SortedBy {
			case FId:
				return a.ID < b.ID
			case FS:
				return a.S < b.S
			case FG:
				return a.G < b.G
			case FTs:
				return a.Ts < b.Ts
			case FK:
				if a.K == nil || b.K == nil {
					return a.K != nil && b.K == nil // nulls last
				}
				return *a.K < *b.K
			}
			return false
		}
		sort.SliceStable(rows, func(i, j int) bool {
			if o.Desc {
				return less(&rows[j], &rows[i])
			}
			return less(&rows[i], &rows[j])
		})
	}
	out := make([]zed.Value, n)
	for i := range rows {
		row := &rows[i]
		rb := &recBuilder{zctx: zctx}
		// The position of the fields varies a little as well.
		idFirst := !r.Chance(1, 6)
		if idFirst {
			rb.add(FId, zed.NewInt64(row.ID))
		}
		rb.add(FS, zed.NewString(row.S))
		rb.add(FG, zed.NewInt64(row.G))
		if !row.KMissing {
			if row.K == nil {
				rb.add(FK, zed.NullInt64)
			} else {
				rb.add(FK, zed.NewInt64(*row.K))
			}
		}
		switch r.Intn(8) {
		case 0: // missing
		case 1:
			rb.add(FN, zed.NullInt64)
		case 2, 3:
			rb.add(FN, zed.NewInt64(int64(r.Intn(4))))
		case 4, 5:
			rb.add(FN, zed.NewUint64(uint64(r.Intn(4))))
		default:
			rb.add(FN, zed.NewFloat64(float64(r.Intn(4))))
		}
		if r.Chance(1, 8) {
			rb.add(FV, zed.NullInt64)
		} else {
			rb.add(FV, zed.NewInt64(int64(r.Intn(101))-50))
		}
		if !r.Chance(1, 5) {
			rb.add(FF, zed.NewFloat64(float64(r.Intn(129)-64)/8))
		}
		switch r.Intn(5) {
		case 0:
		case 1, 2:
			rb.add(FT, zed.NewString(rt.Pick(r, []string{"x", "y", "foo", "Foo bar"})))
		default:
			rb.add(FT, zed.NewInt64(int64(r.Intn(4))))
		}
		switch r.Intn(6) {
		case 0:
		case 1:
			rb.add(FB, zed.NullBool)
		default:
			rb.add(FB, zed.NewBool(r.Bool()))
		}
		if !r.Chance(1, 4) {
			m := r.Intn(4)
			elems := make([]zed.Value, m)
			for j := range elems {
				elems[j] = zed.NewInt64(int64(r.Intn(6)))
			}
			rb.add(FA, Array(zctx, zed.TypeInt64, elems))
		}
		switch r.Intn(4) {
		case 0:
		case 1:
			rb.add(FR, Record(zctx, []string{"x"}, []zed.Value{zed.NewInt64(int64(r.Intn(5)))}))
		default:
			rb.add(FR, Record(zctx, []string{"x", "y"}, []zed.Value{zed.NewInt64(int64(r.Intn(5))), zed.NewString(rt.Pick(r, sValues))}))
		}
		rb.add(FTs, zed.NewTime(nano.Ts(row.Ts)))
		if !idFirst {
			rb.add(FId, zed.NewInt64(row.ID))
		}
		out[i] = rb.value()
	}
	return out, rows
}

package prog

import (
	"fmt"
	"sort"
	"strings"

	"verif/internal/rt"
)

// Mode says how two outputs of one program may be compared.
type Mode int

const (
	// ModeSequence: the language defines the whole output sequence.
	ModeSequence Mode = iota
	// ModeSorted: the output is sorted on Program.SortKeys but the order
	// inside a run of values whose keys compare equal is not defined
	// ("sorted-by-key + multiset").
	ModeSorted
	// ModeMultiset: only the multiset of output values is defined.
	ModeMultiset
	// ModeAmbiguous: the program applies head/tail/uniq (or a key-guessing
	// sort) to a sequence whose order the language does not define; only
	// error-ness is comparable (corpus programs only; Gen never produces it).
	ModeAmbiguous
)

func (m Mode) String() string {
	return [...]string{"sequence", "sorted-by-key+multiset", "multiset", "ambiguous"}[m]
}

// SortKey is one sort key: a field path ("this" = empty path) and direction.
type SortKey struct {
	Path []string `json:"path"`
	Desc bool     `json:"desc,omitempty"`
}

func (k SortKey) String() string {
	s := "this"
	if len(k.Path) > 0 {
		s = strings.Join(k.Path, ".")
	}
	if k.Desc {
		s += " desc"
	}
	return s
}

// Norm names the normal form a result field has to be brought into before two
// outputs are compared (DESIGN §2.4).
type Norm int

const (
	NormNone     Norm = iota
	NormMultiset      // collect(): array compared as a multiset of elements
	NormAny           // any(): which member was picked is not defined; only presence of the field is compared
	NormFuseType      // fuse(): a type value compared modulo record-field and union-member order
)

// Program is a generated (or corpus) program with everything an oracle needs
// to compare two of its outputs.
type Program struct {
	Text       string          `json:"text"`
	Mode       Mode            `json:"-"`
	ModeName   string          `json:"mode"`
	SortKeys   []SortKey       `json:"sort_keys,omitempty"` // ModeSorted: the keys of the last sort/merge
	NullsFirst bool            `json:"nulls_first,omitempty"`
	Norm       map[string]Norm `json:"norm,omitempty"` // top-level output field → normal form; "" = the whole value
	Ops        []string        `json:"ops,omitempty"`  // operators used, in generation order (evidence only)
	// Filter, for the search family: the leading filter operators alone
	// (lets a monitor find out which input values a run let through).
	Filter string `json:"filter,omitempty"`
	// Input, for corpus programs: the program's own input text and reader format.
	Input  string `json:"-"`
	Format string `json:"input_format,omitempty"`
	Name   string `json:"name,omitempty"`
}

// Order is the order-state of a sequence at one point of a program.
type Order int

const (
	OrdSeq    Order = iota // whole sequence language-defined
	OrdSorted              // sorted on keys, ties undefined
	OrdMulti               // multiset only
)

// Opts tunes Gen.
type Opts struct {
	// Family: "general" (default; the C07/C08/C09 grammar over the general
	// field alphabet) or "search" (the C04 filter/search-heavy grammar over
	// the search alphabet, see GenSearchInput).
	Family string
	MaxOps int // default 6
	// InputOrder/InputKeys describe what the language defines about the
	// order of the input: OrdSeq for files and streams, OrdSorted with the
	// pool key for an ordered pool scan, OrdMulti for an unordered one.
	InputOrder Order
	InputKeys  []SortKey
	// Sorted: the input really is sorted on this general-alphabet field (as
	// InputOpts.SortedBy/Desc); idioms that depend on a declared sort key
	// (streaming group-by, merge join without sort) then use it.
	Sorted     string
	SortedDesc bool
	// From is prefixed to the program ("from pool |").
	From string
	// Token is the searched token of the search family.
	Token  string
	NoJoin bool
}

type fieldInfo struct {
	Present   bool // every row has the field
	NonNull   bool // never null
	Injective bool // single comparable class: compare()==0 ⇒ identical (needs Present && NonNull)
	Unique    bool // no two rows hold the same value
	Kind      string
	Taint     Norm
}

type state struct {
	ord        Order
	keys       []SortKey
	nullsFirst bool
	rec        bool // values are records described by fields
	fields     map[string]fieldInfo
	scalar     string // kind of the values when !rec
	single     bool   // at most one value
	bareTaint  Norm   // !rec and the value itself needs a normal form
}

func (s *state) clone() *state {
	c := *s
	c.keys = append([]SortKey(nil), s.keys...)
	c.fields = make(map[string]fieldInfo, len(s.fields))
	for k, v := range s.fields {
		c.fields[k] = v
	}
	return &c
}

func (s *state) tainted() bool {
	if s.bareTaint != NormNone {
		return true
	}
	for _, f := range s.fields {
		if f.Taint != NormNone {
			return true
		}
	}
	return false
}

func (s *state) names(pred func(string, fieldInfo) bool) []string {
	var out []string
	for n, f := range s.fields {
		if f.Taint == NormNone && (pred == nil || pred(n, f)) {
			out = append(out, n)
		}
	}
	sort.Strings(out)
	return out
}

func (s *state) kind(kinds ...string) []string {
	return s.names(func(_ string, f fieldInfo) bool {
		for _, k := range kinds {
			if f.Kind == k {
				return true
			}
		}
		return false
	})
}

// total reports whether sorting on keys orders the rows totally.
func (s *state) total(keys []SortKey) bool {
	if s.single {
		return true
	}
	for _, k := range keys {
		if len(k.Path) != 1 {
			continue
		}
		if f, ok := s.fields[k.Path[0]]; ok && s.rec && f.Unique && f.Injective && f.Present && f.NonNull {
			return true
		}
	}
	return false
}

// touch records that the named fields were (re)written by an operator.
func (s *state) touch(names ...string) {
	if s.ord != OrdSorted {
		return
	}
	for _, n := range names {
		for _, k := range s.keys {
			if len(k.Path) == 0 || k.Path[0] == n {
				s.ord = OrdMulti
				s.keys = nil
				return
			}
		}
	}
}

func initialFields() map[string]fieldInfo {
	return map[string]fieldInfo{
		FId: {true, true, true, true, "int", 0},
		FS:  {true, true, true, false, "str", 0},
		FG:  {true, true, true, false, "int", 0},
		FK:  {false, false, false, false, "int", 0},
		FN:  {false, false, false, false, "num", 0},
		FV:  {true, false, false, false, "int", 0},
		FF:  {false, true, false, false, "float", 0},
		FT:  {false, true, false, false, "mixed", 0},
		FB:  {false, false, false, false, "bool", 0},
		FA:  {false, true, false, false, "arr", 0},
		FR:  {false, true, false, false, "rec", 0},
		FTs: {true, true, true, false, "time", 0},
	}
}

type pgen struct {
	r    *rt.Rand
	o    Opts
	ops  []string
	tmpN int
	// forked: a fork, switch or join was emitted.  uniq pulls its parent
	// again after the end of the stream, which on such a flowgraph can
	// block forever (seen on the unchanged tree); it is not emitted then.
	forked bool
	// fused: a fuse operator was emitted.  fuse ignores the done signal, and
	// a lateral scope (over … => (…)) upstream of a head then panics
	// ("non-nill done batch") inside a runtime goroutine: no over after fuse.
	fused bool
}

func (g *pgen) used(op string) { g.ops = append(g.ops, op) }

func (g *pgen) fresh(prefix string) string {
	g.tmpN++
	return fmt.Sprintf("%s%d", prefix, g.tmpN)
}

// Gen generates one program.  The returned program's Mode/SortKeys/Norm are
// what the order-state reached at the end of the program allows.
func Gen(r *rt.Rand, o Opts) *Program {
	if o.Family == "search" {
		return genSearch(r, o)
	}
	if o.MaxOps <= 0 {
		o.MaxOps = 6
	}
	g := &pgen{r: r, o: o}
	st := &state{ord: o.InputOrder, keys: append([]SortKey(nil), o.InputKeys...), rec: true, fields: initialFields()}
	var parts []string
	if r.Chance(2, 5) {
		parts = g.idiom(st)
	}
	n := r.Range(1, o.MaxOps)
	if len(parts) > 0 {
		n = r.Intn(3)
	}
	parts = append(parts, g.seq(st, n, 0)...)
	if len(parts) == 0 {
		parts = []string{"pass"}
		g.used("pass")
	}
	text := strings.Join(parts, " | ")
	if o.From != "" {
		text = o.From + " | " + text
	}
	return g.finish(text, st)
}

func (g *pgen) finish(text string, st *state) *Program {
	p := &Program{Text: text, Ops: g.ops}
	switch {
	case st.single || st.ord == OrdSeq:
		p.Mode = ModeSequence
	case st.ord == OrdSorted:
		p.Mode = ModeSorted
		p.SortKeys = st.keys
		p.NullsFirst = st.nullsFirst
	default:
		p.Mode = ModeMultiset
	}
	p.ModeName = p.Mode.String()
	if st.bareTaint != NormNone {
		p.Norm = map[string]Norm{"": st.bareTaint}
	}
	for n, f := range st.fields {
		// also for a mixture of records and scalars (st.rec false after a fork):
		// the comparison applies field taints to whatever records there are
		if f.Taint != NormNone {
			if p.Norm == nil {
				p.Norm = map[string]Norm{}
			}
			p.Norm[n] = f.Taint
		}
	}
	return p
}

// seq generates up to n operators continuing from st.
func (g *pgen) seq(st *state, n, depth int) []string {
	var parts []string
	for i := 0; i < n; i++ {
		s := g.op(st, depth, i == n-1)
		if s == "" {
			continue
		}
		parts = append(parts, s)
		if st.bareTaint != NormNone {
			break
		}
	}
	return parts
}

func (g *pgen) lit(kind string) string {
	r := g.r
	switch kind {
	case "int":
		return fmt.Sprint(r.Intn(8) - 2)
	case "num":
		return rt.Pick(r, []string{"0", "1", "2", "1.", "2.5", "3"})
	case "float":
		return rt.Pick(r, []string{"0.", "1.5", "-2.", "0.125", "4."})
	case "str":
		return fmt.Sprintf("%q", rt.Pick(r, sValues))
	case "mixed":
		return rt.Pick(r, []string{`"x"`, `"foo"`, "1", "2"})
	case "time":
		return fmt.Sprintf("1970-01-01T%02d:00:00Z", r.Intn(24))
	case "bool":
		return rt.Pick(r, []string{"true", "false"})
	}
	return "1"
}

var cmpOps = []string{"==", "!=", "<", "<=", ">", ">="}

// pred generates a boolean expression over the clean fields of st.
func (g *pgen) pred(st *state, depth int) string {
	r := g.r
	if !st.rec {
		switch st.scalar {
		case "int", "num", "float":
			return fmt.Sprintf("this %s %s", rt.Pick(r, cmpOps), g.lit("int"))
		case "str":
			return fmt.Sprintf("this %s %s", rt.Pick(r, cmpOps), g.lit("str"))
		}
		return "this != null"
	}
	if depth < 2 && r.Chance(1, 4) {
		switch r.Intn(3) {
		case 0:
			return fmt.Sprintf("%s and %s", g.pred(st, depth+1), g.pred(st, depth+1))
		case 1:
			return fmt.Sprintf("(%s or %s)", g.pred(st, depth+1), g.pred(st, depth+1))
		default:
			return fmt.Sprintf("not (%s)", g.pred(st, depth+1))
		}
	}
	names := st.names(nil)
	if len(names) == 0 {
		return "true"
	}
	for try := 0; try < 8; try++ {
		n := rt.Pick(r, names)
		f := st.fields[n]
		switch f.Kind {
		case "int":
			switch r.Intn(6) {
			case 0:
				return fmt.Sprintf("%s%%2==%d", n, r.Intn(2))
			case 1:
				return fmt.Sprintf("%s==null", n)
			case 2:
				return fmt.Sprintf("has(%s)", n)
			case 3:
				if r.Chance(1, 6) {
					// an expression that is an error for some rows
					return fmt.Sprintf("10/(%s-1)>2", n)
				}
			}
			return fmt.Sprintf("%s %s %s", n, rt.Pick(r, cmpOps), g.lit("int"))
		case "num", "float":
			return fmt.Sprintf("%s %s %s", n, rt.Pick(r, cmpOps), g.lit(f.Kind))
		case "uint":
			return fmt.Sprintf("%s %s %d", n, rt.Pick(r, cmpOps), r.Intn(5))
		case "str":
			switch r.Intn(6) {
			case 0:
				return fmt.Sprintf("%s in [%s,%s]", n, g.lit("str"), g.lit("str"))
			case 1:
				return fmt.Sprintf("grep(%q, %s)", rt.Pick(r, []string{"a", "b", "c", "B"}), n)
			case 2:
				return fmt.Sprintf("len(%s)==%d", n, r.Range(1, 2))
			case 3:
				return fmt.Sprintf("lower(%s)==%s", n, strings.ToLower(g.lit("str")))
			}
			return fmt.Sprintf("%s %s %s", n, rt.Pick(r, cmpOps), g.lit("str"))
		case "mixed":
			if r.Chance(1, 8) {
				return n // not a bool for any row
			}
			return fmt.Sprintf("%s %s %s", n, rt.Pick(r, []string{"==", "!=", ">"}), g.lit("mixed"))
		case "bool":
			switch r.Intn(4) {
			case 0:
				return n
			case 1:
				return "!" + n
			case 2:
				return fmt.Sprintf("%s==null", n)
			}
			return fmt.Sprintf("%s==%s", n, g.lit("bool"))
		case "arr":
			if r.Bool() {
				return fmt.Sprintf("len(%s)>%d", n, r.Intn(3))
			}
			return fmt.Sprintf("%d in %s", r.Intn(6), n)
		case "rec":
			switch r.Intn(3) {
			case 0:
				return fmt.Sprintf("%s.x %s %d", n, rt.Pick(r, cmpOps), r.Intn(5))
			case 1:
				return fmt.Sprintf("has(%s.y)", n)
			}
			return fmt.Sprintf("%s.y==%s", n, g.lit("str"))
		case "time":
			return fmt.Sprintf("%s %s %s", n, rt.Pick(r, []string{"<", ">=", ">", "<="}), g.lit("time"))
		}
	}
	return "true"
}

// valexpr generates a value expression over clean fields; it returns the
// expression, its kind and (for a bare field reference) the field name.
func (g *pgen) valexpr(st *state) (expr, kind, ref string) {
	r := g.r
	names := st.names(nil)
	if !st.rec {
		return "this", st.scalar, ""
	}
	if len(names) == 0 {
		return "1", "int", ""
	}
	for try := 0; try < 8; try++ {
		n := rt.Pick(r, names)
		f := st.fields[n]
		if r.Chance(1, 4) {
			return n, f.Kind, n
		}
		switch f.Kind {
		case "int":
			switch r.Intn(8) {
			case 0:
				return fmt.Sprintf("%s+%d", n, r.Range(1, 9)), "int", ""
			case 1:
				return fmt.Sprintf("-%s", n), "int", ""
			case 2:
				return fmt.Sprintf("%s%%3", n), "int", ""
			case 3:
				return fmt.Sprintf("abs(%s)", n), "int", ""
			case 4:
				return fmt.Sprintf("coalesce(%s, 0)", n), "int", ""
			case 5:
				return fmt.Sprintf("string(%s)", n), "str", ""
			case 6:
				if ints := st.kind("int"); len(ints) > 1 {
					return fmt.Sprintf("%s+%s", n, rt.Pick(r, ints)), "int", ""
				}
			}
			return fmt.Sprintf("%s*2", n), "int", ""
		case "num":
			return fmt.Sprintf("%s+1", n), "num", ""
		case "uint":
			return fmt.Sprintf("%s+1", n), "num", ""
		case "float":
			if r.Bool() {
				return fmt.Sprintf("round(%s)", n), "float", ""
			}
			return fmt.Sprintf("%s*2.", n), "float", ""
		case "str":
			switch r.Intn(4) {
			case 0:
				return fmt.Sprintf("lower(%s)", n), "str", ""
			case 1:
				return fmt.Sprintf("len(%s)", n), "int", ""
			case 2:
				return fmt.Sprintf("%s+\"x\"", n), "str", ""
			}
			return fmt.Sprintf("upper(%s)", n), "str", ""
		case "mixed":
			return fmt.Sprintf("typeof(%s)", n), "type", ""
		case "bool":
			return fmt.Sprintf("!%s", n), "bool", ""
		case "arr":
			switch r.Intn(3) {
			case 0:
				return fmt.Sprintf("len(%s)", n), "int", ""
			case 1:
				return fmt.Sprintf("%s[0]", n), "int", ""
			}
			return n, "arr", n
		case "rec":
			if r.Bool() {
				return fmt.Sprintf("%s.x", n), "int", ""
			}
			return fmt.Sprintf("%s.y", n), "str", ""
		case "time":
			return fmt.Sprintf("bucket(%s, 2h)", n), "time", ""
		}
	}
	n := names[0]
	return n, st.fields[n].Kind, n
}

func derived(kind string) fieldInfo { return fieldInfo{Kind: kind} }

// op generates one operator and updates st.
func (g *pgen) op(st *state, depth int, last bool) string {
	r := g.r
	if !st.rec {
		return g.scalarOp(st, last)
	}
	taint := st.tainted()
	for try := 0; try < 20; try++ {
		switch x := r.Intn(100); {
		case x < 20:
			g.used("where")
			kw := "where "
			if r.Chance(1, 5) {
				kw = ""
			}
			p := g.pred(st, 0)
			if kw == "" && !strings.ContainsAny(p, "=<>(") {
				kw = "where "
			}
			return kw + p
		case x < 24:
			if taint {
				continue
			}
			g.used("search")
			return "search " + rt.Pick(r, []string{"a", "bb", "foo", "x", "B or c", "not a1", "1"})
		case x < 32:
			return g.cut(st)
		case x < 37:
			return g.drop(st)
		case x < 47:
			return g.put(st)
		case x < 51:
			return g.rename(st)
		case x < 55:
			if taint {
				continue
			}
			return g.yield(st, last)
		case x < 66:
			return g.sort(st)
		case x < 71:
			if st.ord != OrdSeq && !st.single {
				continue
			}
			g.used("head")
			return fmt.Sprintf("head %d", r.Range(1, 12))
		case x < 74:
			if st.ord != OrdSeq && !st.single {
				continue
			}
			g.used("tail")
			return fmt.Sprintf("tail %d", r.Range(1, 12))
		case x < 76:
			// uniq inside a fork/switch leg never terminates (it pulls
			// its parent again after the end of the stream): top level only
			if (st.ord != OrdSeq && !st.single) || taint || depth > 0 || g.forked {
				continue
			}
			g.used("uniq")
			if r.Bool() {
				st.fields = map[string]fieldInfo{"value": derived("rec"), "count": derived("uint")}
				return "uniq -c"
			}
			return "uniq"
		case x < 79:
			// fuse ends for good after its first end-of-stream; inside a
			// fork/switch leg that blocks the flowgraph when a merge
			// re-arms its parents (seen on the unchanged tree: `fork (=>
			// fuse => pass) | merge b` never terminates): top level only
			// On an undefined order the field order of the fused type is
			// undefined as well: defined sequences only.
			if taint || depth > 0 || (st.ord != OrdSeq && !st.single) {
				continue
			}
			g.used("fuse")
			g.fused = true
			for n, f := range st.fields {
				switch f.Kind {
				case "int", "str", "float", "bool", "arr", "time", "uint", "rec":
				default:
					// A column of varying type that is absent in some
					// rows becomes a null of union type, on which
					// Value.Under() never returns (arithmetic,
					// comparison and math aggregates hang): such
					// columns are not referenced after a fuse.
					delete(st.fields, n)
					continue
				}
				if !f.Present {
					f.NonNull, f.Injective = false, false
					st.fields[n] = f
				}
			}
			// fuse may wrap columns of mixed type in a union: a sort key
			// keeps its order (values unchanged), so the state stays.
			return "fuse"
		case x < 89:
			return g.summarize(st, last, false)
		case x < 93:
			if depth > 0 {
				continue
			}
			return g.fork(st, depth)
		case x < 95:
			if depth > 0 {
				continue
			}
			return g.switchOp(st, depth)
		case x < 97:
			if taint || g.fused {
				continue
			}
			return g.over(st)
		case x < 99:
			if depth > 0 || g.o.NoJoin {
				continue
			}
			return g.join(st)
		default:
			g.used("pass")
			return "pass"
		}
	}
	g.used("pass")
	return "pass"
}

func (g *pgen) scalarOp(st *state, last bool) string {
	r := g.r
	if st.bareTaint != NormNone {
		return ""
	}
	switch r.Intn(7) {
	case 0:
		g.used("where")
		return "where " + g.pred(st, 0)
	case 1:
		g.used("sort")
		desc := r.Chance(1, 3)
		if st.ord != OrdSeq && !st.single {
			st.ord = OrdSorted
			st.keys = []SortKey{{Desc: desc}}
			st.nullsFirst = false
		}
		if desc {
			return "sort this desc"
		}
		return "sort this"
	case 2:
		if st.ord != OrdSeq && !st.single {
			return "pass"
		}
		g.used("head")
		return fmt.Sprintf("head %d", r.Range(1, 9))
	case 3:
		if (st.ord != OrdSeq && !st.single) || g.forked {
			return "pass"
		}
		g.used("uniq")
		st.scalar = "any"
		if r.Chance(1, 3) {
			st.rec = true
			st.fields = map[string]fieldInfo{"value": derived(st.scalar), "count": derived("uint")}
			return "uniq -c"
		}
		return "uniq"
	case 4:
		g.used("summarize")
		st.single = true
		st.scalar = "uint"
		st.ord = OrdSeq
		return "count()"
	case 5:
		g.used("yield")
		k := st.scalar
		st.rec = true
		st.fields = map[string]fieldInfo{"x": derived(k)}
		st.touch("x")
		return "yield {x:this}"
	}
	g.used("summarize")
	st.ord = OrdMulti
	st.keys = nil
	st.rec = true
	st.fields = map[string]fieldInfo{"c": derived("uint"), "key": derived(st.scalar)}
	return "c:=count() by key:=this"
}

func (g *pgen) cut(st *state) string {
	r := g.r
	g.used("cut")
	all := st.names(nil)
	// tainted fields may be passed through as a whole
	for n, f := range st.fields {
		if f.Taint != NormNone {
			all = append(all, n)
		}
	}
	sort.Strings(all)
	if len(all) == 0 {
		return "pass"
	}
	p := r.Perm(len(all))
	k := r.Range(1, min(4, len(all)))
	nf := map[string]fieldInfo{}
	var args []string
	for _, i := range p[:k] {
		n := all[i]
		nf[n] = st.fields[n]
		args = append(args, n)
	}
	// keep the unique id most of the time so that later operators can order totally
	if _, ok := nf[FId]; !ok && r.Chance(2, 3) {
		if f, ok := st.fields[FId]; ok && f.Unique {
			nf[FId] = f
			args = append(args, FId)
		}
	}
	if r.Chance(1, 4) && !st.tainted() {
		e, kind, _ := g.valexpr(st)
		name := g.fresh("c")
		nf[name] = derived(kind)
		args = append(args, name+":="+e)
	}
	// a sort key that is cut away leaves only the multiset
	if st.ord == OrdSorted {
		for _, k := range st.keys {
			if len(k.Path) != 1 {
				st.ord, st.keys = OrdMulti, nil
				break
			}
			if _, ok := nf[k.Path[0]]; !ok {
				st.ord, st.keys = OrdMulti, nil
				break
			}
		}
	}
	st.fields = nf
	return "cut " + strings.Join(args, ",")
}

func (g *pgen) drop(st *state) string {
	r := g.r
	var all []string
	for n := range st.fields {
		if n != FId || r.Chance(1, 5) {
			all = append(all, n)
		}
	}
	sort.Strings(all)
	if len(all) < 2 {
		g.used("pass")
		return "pass"
	}
	g.used("drop")
	p := r.Perm(len(all))
	k := r.Range(1, min(3, len(all)-1))
	var args []string
	for _, i := range p[:k] {
		n := all[i]
		st.touch(n)
		delete(st.fields, n)
		args = append(args, n)
	}
	return "drop " + strings.Join(args, ",")
}

func (g *pgen) put(st *state) string {
	r := g.r
	g.used("put")
	k := 1
	if r.Chance(1, 4) {
		k = 2
	}
	var args []string
	seen := map[string]bool{}
	clean := st.names(nil)
	for i := 0; i < k; i++ {
		// the right-hand sides are evaluated on the input record, so
		// the state is updated only after all are generated
		e, kind, ref := g.valexpr(st)
		var name string
		if r.Chance(1, 3) && len(clean) > 0 {
			name = rt.Pick(r, clean) // overwrite an existing field
		} else {
			name = g.fresh("p")
		}
		if seen[name] {
			continue
		}
		seen[name] = true
		fi := derived(kind)
		if ref != "" && ref != name {
			fi = st.fields[ref]
		} else if ref == name {
			continue
		}
		defer func(name string, fi fieldInfo) {
			st.touch(name)
			st.fields[name] = fi
		}(name, fi)
		args = append(args, name+":="+e)
	}
	if len(args) == 0 {
		return "pass"
	}
	if r.Chance(1, 3) && len(args) == 1 {
		return args[0] // implied put
	}
	return "put " + strings.Join(args, ",")
}

func (g *pgen) rename(st *state) string {
	r := g.r
	var all []string
	for n := range st.fields {
		all = append(all, n)
	}
	sort.Strings(all)
	if len(all) == 0 {
		g.used("pass")
		return "pass"
	}
	g.used("rename")
	old := rt.Pick(r, all)
	nw := g.fresh("q")
	f := st.fields[old]
	delete(st.fields, old)
	st.fields[nw] = f
	for i, k := range st.keys {
		if len(k.Path) == 1 && k.Path[0] == old {
			st.keys[i].Path = []string{nw}
		}
	}
	return fmt.Sprintf("rename %s:=%s", nw, old)
}

func (g *pgen) yield(st *state, last bool) string {
	r := g.r
	g.used("yield")
	switch r.Intn(5) {
	case 0:
		return "yield this"
	case 1:
		if !last {
			return "yield this"
		}
		// a scalar per row
		e, kind, _ := g.valexpr(st)
		st.touch("")
		if st.ord == OrdSorted {
			st.ord, st.keys = OrdMulti, nil
		}
		st.rec = false
		st.scalar = kind
		st.fields = map[string]fieldInfo{}
		return "yield " + e
	}
	// a record literal
	names := st.names(nil)
	if len(names) == 0 {
		return "yield this"
	}
	nf := map[string]fieldInfo{}
	var elems []string
	p := r.Perm(len(names))
	k := r.Range(1, min(4, len(names)))
	for _, i := range p[:k] {
		n := names[i]
		nf[n] = st.fields[n]
		// a field that is missing in the input makes the record
		// literal carry error("missing") in that field: no longer the
		// original column
		if !nf[n].Present {
			nf[n] = derived("any")
		}
		elems = append(elems, n)
	}
	if f, ok := st.fields[FId]; ok && f.Unique && r.Chance(2, 3) {
		if _, ok := nf[FId]; !ok {
			nf[FId] = f
			elems = append(elems, FId)
		}
	}
	if r.Bool() {
		e, kind, _ := g.valexpr(st)
		name := g.fresh("y")
		nf[name] = derived(kind)
		elems = append(elems, name+":"+e)
	}
	if st.ord == OrdSorted {
		for _, k := range st.keys {
			if len(k.Path) != 1 {
				st.ord, st.keys = OrdMulti, nil
				break
			}
			if f, ok := nf[k.Path[0]]; !ok || f.Kind == "any" {
				st.ord, st.keys = OrdMulti, nil
				break
			}
		}
	}
	st.fields = nf
	return "yield {" + strings.Join(elems, ",") + "}"
}

func (g *pgen) sortKeys(st *state, wantTotal bool) ([]SortKey, []string) {
	r := g.r
	cands := st.names(func(_ string, f fieldInfo) bool { return f.Kind != "rec" && f.Kind != "any" })
	if len(cands) == 0 {
		return nil, nil
	}
	n := 1
	if r.Chance(1, 3) {
		n = 2
	}
	var keys []SortKey
	var txt []string
	seen := map[string]bool{}
	for i := 0; i < n; i++ {
		f := rt.Pick(r, cands)
		if seen[f] {
			continue
		}
		seen[f] = true
		k := SortKey{Path: []string{f}, Desc: r.Chance(1, 3)}
		keys = append(keys, k)
		txt = append(txt, k.String())
	}
	if wantTotal && !st.total(keys) {
		uniq := st.names(func(_ string, f fieldInfo) bool { return f.Unique && f.Injective && f.Present && f.NonNull })
		if len(uniq) > 0 && !seen[uniq[0]] {
			k := SortKey{Path: []string{uniq[0]}, Desc: r.Chance(1, 4)}
			keys = append(keys, k)
			txt = append(txt, k.String())
		}
	}
	return keys, txt
}

func (g *pgen) sort(st *state) string {
	r := g.r
	keys, txt := g.sortKeys(st, r.Chance(1, 2))
	if len(keys) == 0 {
		g.used("pass")
		return "pass"
	}
	g.used("sort")
	flags := ""
	nullsFirst := false
	reverse := false
	if r.Chance(1, 6) {
		flags += " -nulls first"
		nullsFirst = true
	}
	if r.Chance(1, 8) {
		flags += " -r"
		reverse = true
	}
	if reverse {
		for i := range keys {
			keys[i].Desc = !keys[i].Desc
		}
	}
	switch {
	case st.ord == OrdSeq || st.single:
		// stable sort of a defined sequence is a defined sequence
	case st.total(keys):
		st.ord, st.keys = OrdSeq, nil
	default:
		st.ord, st.keys, st.nullsFirst = OrdSorted, keys, nullsFirst
	}
	return "sort" + flags + " " + strings.Join(txt, ", ")
}

type aggSpec struct {
	text string
	kind string
	norm Norm
}

// complexArg reports whether an aggregate keeps values of a complex type
// (records, arrays): a spilled group-by reads them back in the spill file's
// private type context, and collect() then builds invalid union values
// (C10 finding); such aggregates are generated without `with -limit`.
func (g *pgen) complexArg(st *state, a aggSpec) bool {
	if !strings.HasPrefix(a.text, "collect(") && !strings.HasPrefix(a.text, "any(") && !strings.HasPrefix(a.text, "union(") {
		return false
	}
	arg := a.text[strings.Index(a.text, "(")+1:]
	if i := strings.Index(arg, ")"); i >= 0 {
		arg = arg[:i]
	}
	switch st.fields[arg].Kind {
	case "int", "str", "float", "bool", "time", "uint", "num", "mixed":
		return false
	}
	return true
}

// agg generates one aggregate call over clean fields.
func (g *pgen) agg(st *state) aggSpec {
	r := g.r
	ints := st.kind("int")
	floats := st.kind("float")
	nums := st.kind("num")
	strs := st.kind("str")
	bools := st.kind("bool")
	uints := st.kind("uint")
	where := ""
	if r.Chance(1, 6) {
		where = " where " + g.pred(st, 1)
	}
	if !st.rec {
		switch r.Intn(3) {
		case 0:
			return aggSpec{"count()", "uint", 0}
		case 1:
			return aggSpec{"collect(this)", "arr", NormMultiset}
		}
		return aggSpec{"max(this)", st.scalar, 0}
	}
	for try := 0; try < 10; try++ {
		switch r.Intn(14) {
		case 0, 1, 2:
			return aggSpec{"count()" + where, "uint", 0}
		case 3:
			if len(ints) > 0 {
				return aggSpec{fmt.Sprintf("sum(%s)%s", rt.Pick(r, ints), where), "int", 0}
			}
		case 4:
			if len(ints) > 0 {
				return aggSpec{fmt.Sprintf("%s(%s)%s", rt.Pick(r, []string{"min", "max"}), rt.Pick(r, ints), where), "int", 0}
			}
		case 5:
			if len(floats) > 0 {
				fn := rt.Pick(r, []string{"sum", "avg", "min", "max"})
				kind := "float"
				if fn == "avg" {
					kind = "quotient" // not exactly summable any more
				}
				return aggSpec{fmt.Sprintf("%s(%s)%s", fn, rt.Pick(r, floats), where), kind, 0}
			}
		case 6:
			if len(nums) > 0 {
				return aggSpec{fmt.Sprintf("%s(%s)", rt.Pick(r, []string{"min", "max"}), rt.Pick(r, nums)), "num", 0}
			}
		case 7:
			if all := st.names(nil); len(all) > 0 {
				return aggSpec{fmt.Sprintf("collect(%s)%s", rt.Pick(r, all), where), "arr", NormMultiset}
			}
		case 8:
			if all := append(strs, ints...); len(all) > 0 {
				return aggSpec{fmt.Sprintf("union(%s)", rt.Pick(r, all)), "set", 0}
			}
		case 9:
			if all := st.names(nil); len(all) > 0 {
				return aggSpec{fmt.Sprintf("any(%s)", rt.Pick(r, all)), "any", NormAny}
			}
		case 10:
			if len(bools) > 0 {
				return aggSpec{fmt.Sprintf("%s(%s)", rt.Pick(r, []string{"and", "or"}), rt.Pick(r, bools)), "bool", 0}
			}
		case 11:
			if all := append(strs, ints...); len(all) > 0 {
				return aggSpec{fmt.Sprintf("dcount(%s)", rt.Pick(r, all)), "uint", 0}
			}
		case 12:
			// fuse() over a group without any value yields a null
			// partial, and merging a null fuse partial (spill, or the
			// optimizer's partials split after a fork) panics in a
			// runtime goroutine (C10 finding): only always-present
			// arguments, no where clause.
			if all := st.names(func(_ string, f fieldInfo) bool { return f.Present }); len(all) > 0 && !g.forked {
				return aggSpec{fmt.Sprintf("fuse(%s)", rt.Pick(r, all)), "type", NormFuseType}
			}
		case 13:
			if len(uints) > 0 {
				return aggSpec{fmt.Sprintf("sum(%s)", rt.Pick(r, uints)), "uint", 0}
			}
			if len(ints) > 0 {
				return aggSpec{fmt.Sprintf("avg(%s)", rt.Pick(r, ints)), "quotient", 0}
			}
		}
	}
	return aggSpec{"count()", "uint", 0}
}

// summarize generates a group-by.  streaming selects a key shape that the
// optimizer's sort-key propagation looks at (`by K:=f(K)` on the declared
// sort key).
func (g *pgen) summarize(st *state, last, streaming bool) string {
	r := g.r
	g.used("summarize")
	nk := r.Intn(3)
	if streaming {
		nk = r.Range(1, 2)
	}
	nf := map[string]fieldInfo{}
	var keyTxt []string
	limitOK := true
	if st.rec {
		cands := st.names(func(_ string, f fieldInfo) bool { return f.Kind != "any" })
		seen := map[string]bool{}
		for i := 0; i < nk && len(cands) > 0; i++ {
			n := rt.Pick(r, cands)
			if i == 0 && streaming && g.o.Sorted != "" {
				if _, ok := st.fields[g.o.Sorted]; ok {
					n = g.o.Sorted
				}
			}
			if seen[n] {
				continue
			}
			seen[n] = true
			f := st.fields[n]
			fi := fieldInfo{Present: true, Kind: f.Kind}
			if !(f.Present && f.NonNull && f.Injective) {
				limitOK = false
			}
			computed := r.Chance(1, 4) || (streaming && i == 0 && r.Chance(3, 4))
			if !computed {
				if f.Present && f.NonNull && f.Injective && nk == 1 {
					fi.NonNull, fi.Injective, fi.Unique = true, true, true
				}
				nf[n] = fi
				keyTxt = append(keyTxt, n)
				continue
			}
			var e string
			switch f.Kind {
			case "int":
				e = rt.Pick(r, []string{"abs(%s)", "%s%%3", "-%s", "round(%s)", "floor(%s)", "ceil(%s)", "%s/2", "bucket(%s,2)", "abs(%s-1)"})
			case "str":
				e = rt.Pick(r, []string{"lower(%s)", "len(%s)", "upper(%s)", "%s+\"\""})
				if strings.HasPrefix(e, "len") {
					fi.Kind = "int"
				}
			case "time":
				e = rt.Pick(r, []string{"bucket(%s,1h)", "bucket(%s,3h)", "every(1h)", "every(2h)"})
			case "float":
				e = rt.Pick(r, []string{"round(%s)", "floor(%s)", "ceil(%s)", "abs(%s)"})
			case "num":
				e = rt.Pick(r, []string{"%s+0", "typeof(%s)"})
				if strings.HasPrefix(e, "typeof") {
					fi.Kind = "type"
				}
			default:
				e = "typeof(%s)"
				fi.Kind = "type"
			}
			if strings.HasPrefix(e, "every") {
				if n != FTs {
					e = "bucket(%s,1h)"
				} else {
					// every(d) is bucket(ts,d) and names its key ts
					nf[FTs] = fi
					keyTxt = append(keyTxt, e)
					continue
				}
			}
			name := n
			if !streaming && r.Bool() {
				name = g.fresh("k")
			}
			if strings.Contains(e, "%s") {
				e = fmt.Sprintf(e, n)
			}
			limitOK = limitOK && !strings.Contains(e, "typeof")
			nf[name] = fi
			keyTxt = append(keyTxt, name+":="+e)
		}
	}
	na := r.Range(1, 3)
	if len(keyTxt) > 0 && r.Chance(1, 8) {
		na = 0
	}
	var aggTxt []string
	var bare aggSpec
	for i := 0; i < na; i++ {
		a := g.agg(st)
		if a.norm != NormNone && !last && r.Chance(2, 3) {
			a = aggSpec{"count()", "uint", 0}
		}
		if g.complexArg(st, a) {
			limitOK = false
		}
		name := g.fresh("m")
		if na == 1 && len(keyTxt) == 0 && r.Bool() {
			// a single unnamed aggregate without keys yields the bare value
			bare = a
			aggTxt = append(aggTxt, a.text)
			continue
		}
		nf[name] = fieldInfo{Present: true, Kind: a.kind, Taint: a.norm}
		aggTxt = append(aggTxt, name+":="+a.text)
	}
	text := strings.Join(aggTxt, ", ")
	if len(keyTxt) > 0 {
		if text != "" {
			text += " "
		}
		text += "by " + strings.Join(keyTxt, ", ")
	}
	if len(aggTxt) == 0 || r.Chance(1, 3) {
		text = "summarize " + text
	}
	if limitOK && len(keyTxt) > 0 && r.Chance(1, 5) && !strings.Contains(text, "fuse(") {
		// spills only where a spilled table groups exactly like an
		// in-memory one (keys from one comparable class)
		text += fmt.Sprintf(" with -limit %d", r.Range(1, 5))
	}
	st.keys = nil
	st.fields = nf
	if len(keyTxt) == 0 {
		st.single = true
		st.ord = OrdSeq
		if bare.text != "" {
			st.rec = false
			st.scalar = bare.kind
			st.bareTaint = bare.norm
			st.fields = map[string]fieldInfo{}
		}
	} else {
		st.ord = OrdMulti
	}
	return text
}

// leg generates a fork/switch leg starting from a copy of st.
func (g *pgen) leg(st *state, n int) (string, *state) {
	ls := st.clone()
	parts := g.seq(ls, n, 1)
	if len(parts) == 0 {
		parts = []string{"pass"}
	}
	return strings.Join(parts, " | "), ls
}

// join returns the state after the legs are combined.
func combine(legs []*state, dup bool) *state {
	out := &state{ord: OrdMulti, rec: true, fields: map[string]fieldInfo{}}
	for _, l := range legs {
		if !l.rec {
			out.rec = false
			out.scalar = "any"
			if l.bareTaint != NormNone {
				out.bareTaint = l.bareTaint
			}
		}
	}
	if !out.rec {
		// a mixture of records and scalars: nothing is known about fields;
		// taints by name are still honoured by the comparison
		for _, l := range legs {
			for n, f := range l.fields {
				if f.Taint != NormNone {
					out.fields[n] = fieldInfo{Kind: "any", Taint: f.Taint}
				}
			}
		}
		return out
	}
	for n, f := range legs[0].fields {
		ok := true
		for _, l := range legs[1:] {
			lf, has := l.fields[n]
			if !has {
				ok = false
				break
			}
			f.Present = f.Present && lf.Present
			f.NonNull = f.NonNull && lf.NonNull
			f.Injective = f.Injective && lf.Injective && f.Kind == lf.Kind
			f.Unique = f.Unique && lf.Unique
			if f.Kind != lf.Kind {
				f.Kind = "any"
			}
			if lf.Taint != f.Taint {
				if f.Taint == NormNone {
					f.Taint = lf.Taint
				} else if lf.Taint != NormNone {
					f.Taint = NormAny
				}
			}
		}
		if dup {
			f.Unique = false
		}
		if ok {
			out.fields[n] = f
		}
	}
	// a field that is tainted in one leg and absent in another keeps its taint
	for _, l := range legs {
		for n, f := range l.fields {
			if _, ok := out.fields[n]; !ok && f.Taint != NormNone {
				out.fields[n] = fieldInfo{Kind: "any", Taint: f.Taint}
			}
		}
	}
	return out
}

func (g *pgen) fork(st *state, depth int) string {
	r := g.r
	g.used("fork")
	g.forked = true
	nlegs := r.Range(2, 3)
	var txt []string
	var legs []*state
	for i := 0; i < nlegs; i++ {
		t, ls := g.leg(st, r.Intn(3))
		txt = append(txt, "=> "+t)
		legs = append(legs, ls)
	}
	*st = *combine(legs, true)
	return "fork (" + strings.Join(txt, " ") + ")"
}

func (g *pgen) switchOp(st *state, depth int) string {
	r := g.r
	g.used("switch")
	g.forked = true
	ncases := r.Range(1, 3)
	var txt []string
	var legs []*state
	exprForm := r.Chance(1, 3)
	sw := "switch ("
	if exprForm {
		if _, ok := st.fields[FG]; ok && st.fields[FG].Taint == NormNone {
			sw = "switch g ("
		} else {
			exprForm = false
		}
	}
	for i := 0; i < ncases; i++ {
		t, ls := g.leg(st, r.Intn(3))
		if exprForm {
			txt = append(txt, fmt.Sprintf("case %d => %s", i, t))
		} else {
			txt = append(txt, fmt.Sprintf("case %s => %s", g.pred(st, 1), t))
		}
		legs = append(legs, ls)
	}
	if r.Chance(2, 3) {
		t, ls := g.leg(st, r.Intn(2))
		txt = append(txt, "default => "+t)
		legs = append(legs, ls)
	}
	*st = *combine(legs, false)
	return sw + strings.Join(txt, " ") + ")"
}

func (g *pgen) over(st *state) string {
	r := g.r
	arrs := st.kind("arr")
	if len(arrs) == 0 {
		g.used("pass")
		return "pass"
	}
	g.used("over")
	a := rt.Pick(r, arrs)
	keep := st.ord
	if keep == OrdSorted {
		keep = OrdMulti
	}
	switch r.Intn(3) {
	case 0:
		st.rec, st.scalar, st.fields = false, "int", map[string]fieldInfo{}
		st.ord, st.keys = keep, nil
		return "over " + a
	case 1:
		f := st.fields[FId]
		if _, ok := st.fields[FId]; !ok || f.Taint != NormNone {
			st.rec, st.scalar, st.fields = false, "int", map[string]fieldInfo{}
			st.ord, st.keys = keep, nil
			return "over " + a
		}
		f.Unique = false
		st.fields = map[string]fieldInfo{FId: f, "e": derived("int")}
		st.ord, st.keys = keep, nil
		return fmt.Sprintf("over %s with id => (yield {id,e:this})", a)
	}
	st.rec, st.scalar, st.fields = false, "int", map[string]fieldInfo{}
	st.ord, st.keys = keep, nil
	return fmt.Sprintf("over %s => (sum(this))", a)
}

var joinStyles = []string{"", "inner ", "left ", "right ", "anti "}

func (g *pgen) join(st *state) string {
	r := g.r
	keys := st.names(func(n string, f fieldInfo) bool {
		return f.Kind == "int" || f.Kind == "str" || f.Kind == "num"
	})
	if len(keys) == 0 {
		g.used("pass")
		return "pass"
	}
	g.used("join")
	g.forked = true
	lk := rt.Pick(r, keys)
	rk := lk
	if r.Chance(1, 3) {
		same := st.kind(st.fields[lk].Kind)
		rk = rt.Pick(r, same)
	}
	style := rt.Pick(r, joinStyles)
	legFor := func(key string) string {
		var parts []string
		if r.Chance(2, 3) {
			parts = append(parts, "where "+g.pred(st, 1))
		}
		if r.Chance(1, 2) {
			s := "sort " + key
			if r.Chance(1, 4) {
				s += " desc"
			}
			parts = append(parts, s)
		}
		if len(parts) == 0 {
			return "pass"
		}
		return strings.Join(parts, " | ")
	}
	ll, rl := legFor(lk), legFor(rk)
	args := ""
	if style != "anti " {
		if vs := st.names(nil); len(vs) > 0 && r.Chance(3, 4) {
			v := rt.Pick(r, vs)
			args = fmt.Sprintf(" j%s:=%s", g.fresh(""), v)
		}
	}
	on := fmt.Sprintf("on %s=%s", lk, rk)
	if lk == rk && r.Bool() {
		on = "on " + lk
	}
	// The join's output: left rows (right rows for a right join) with the
	// assigned fields spliced in; multiplicities are arbitrary.
	nf := map[string]fieldInfo{}
	for n, f := range st.fields {
		f.Unique = false
		nf[n] = f
	}
	if args != "" {
		name := strings.TrimSpace(strings.SplitN(args, ":=", 2)[0])
		nf[name] = derived("any")
	}
	st.fields = nf
	st.ord, st.keys = OrdMulti, nil
	if r.Chance(1, 4) {
		// the sub-query form: the left input is the pipeline so far
		if ll != "pass" {
			return fmt.Sprintf("%s | %sjoin (%s) %s%s", ll, style, rl, on, args)
		}
		return fmt.Sprintf("%sjoin (%s) %s%s", style, rl, on, args)
	}
	return fmt.Sprintf("fork (=> %s => %s) | %sjoin %s%s", ll, rl, style, on, args)
}

// idiom emits one of the operator patterns the optimizer rewrites, with the
// order-state bookkeeping that makes the rewrite's effect observable.
func (g *pgen) idiom(st *state) []string {
	r := g.r
	switch r.Intn(6) {
	case 0:
		// filters around a head/tail: adjacent filters are merged, filters
		// separated by head must not be.
		g.used("where")
		g.used("head")
		g.used("where")
		mid := fmt.Sprintf("head %d", r.Range(1, 10))
		if r.Chance(1, 4) {
			mid = fmt.Sprintf("tail %d", r.Range(1, 10))
		}
		parts := []string{"where " + g.pred(st, 1), mid, "where " + g.pred(st, 1)}
		if r.Chance(1, 3) {
			parts = append([]string{"where " + g.pred(st, 1)}, parts...)
		}
		if st.ord != OrdSeq {
			parts = append([]string{"sort id"}, parts...)
			st.ord, st.keys = OrdSeq, nil
		}
		return parts
	case 1:
		// legs sorted on a key, merged on it, then an operator that may or
		// may not disturb the key
		g.used("fork")
		g.used("sort")
		g.used("merge")
		g.forked = true
		key := rt.Pick(r, []string{FId, FId, FG, FS, FK, FTs})
		nlegs := r.Range(2, 3)
		var legs []string
		for i := 0; i < nlegs; i++ {
			l := ""
			if r.Chance(3, 4) {
				if key == FId || r.Bool() {
					l = fmt.Sprintf("where id%%%d==%d | ", nlegs, i)
				} else {
					l = "where " + g.pred(st, 1) + " | "
				}
			}
			legs = append(legs, "=> "+l+"sort "+key)
		}
		disjoint := true
		for _, l := range legs {
			if !strings.Contains(l, "where id%") {
				disjoint = false
			}
		}
		parts := []string{"fork (" + strings.Join(legs, " ") + ")", "merge " + key}
		f := st.fields[key]
		if !disjoint {
			for n, fi := range st.fields {
				fi.Unique = false
				st.fields[n] = fi
			}
		}
		if key == FId && disjoint && f.Unique {
			st.ord, st.keys = OrdSeq, nil
		} else {
			st.ord, st.keys, st.nullsFirst = OrdSorted, []SortKey{{Path: []string{key}}}, false
		}
		// follow with an operator on the merged stream
		switch r.Intn(5) {
		case 0:
			e := rt.Pick(r, []string{"-%s", "%s%%3", "100-%s", "abs(%s-3)"})
			if key == FS {
				e = rt.Pick(r, []string{"len(%s)", "lower(%s)"})
			} else if key == FTs {
				e = "bucket(%s,4h)"
			}
			g.used("put")
			st.touch(key)
			fi := st.fields[key]
			fi.Unique, fi.Injective = false, false
			st.fields[key] = fi
			parts = append(parts, fmt.Sprintf("put %s:=%s", key, fmt.Sprintf(e, key)))
		case 1:
			parts = append(parts, g.cut(st))
		case 2:
			g.used("where")
			parts = append(parts, "where "+g.pred(st, 1))
		case 3:
			parts = append(parts, g.rename(st))
		}
		return parts
	case 2:
		// group-by whose first key is (a function of) the declared sort key
		var parts []string
		if r.Chance(1, 3) {
			g.used("where")
			parts = append(parts, "where "+g.pred(st, 1))
		}
		parts = append(parts, g.summarize(st, false, true))
		return parts
	case 3:
		// fork followed by an operator the optimizer lifts into the legs
		t := g.fork(st, 0)
		parts := []string{t}
		switch r.Intn(4) {
		case 0:
			if st.rec {
				parts = append(parts, g.summarize(st, false, false))
			}
		case 1:
			if st.rec {
				parts = append(parts, g.sort(st))
			}
		case 2:
			if st.rec {
				parts = append(parts, g.put(st))
			}
		default:
			if st.rec {
				g.used("where")
				parts = append(parts, "where "+g.pred(st, 1))
			}
		}
		return parts
	case 4:
		if g.o.NoJoin {
			return nil
		}
		return []string{g.join(st)}
	default:
		// leading filters and passes
		g.used("where")
		parts := []string{"where " + g.pred(st, 0)}
		if r.Bool() {
			g.used("pass")
			parts = append(parts, "pass")
		}
		g.used("where")
		parts = append(parts, "where "+g.pred(st, 1))
		return parts
	}
}

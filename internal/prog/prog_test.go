package prog

import (
	"context"
	"testing"

	zed "github.com/brimdata/super"
	"github.com/brimdata/super/compiler"
	"github.com/brimdata/super/compiler/data"
	"github.com/brimdata/super/runtime"
	"github.com/brimdata/super/zbuf"

	"verif/internal/rt"
)

func run(t *testing.T, zctx *zed.Context, text string, vals []zed.Value) ([]zed.Value, error) {
	seq, _, err := compiler.Parse(text)
	if err != nil {
		t.Fatalf("parse %q: %v", text, err)
	}
	rctx := runtime.NewContext(context.Background(), zctx)
	defer rctx.Cancel()
	job, err := compiler.NewJob(rctx, seq, data.NewSource(nil, nil), nil)
	if err != nil {
		t.Fatalf("analyze %q: %v", text, err)
	}
	if err := job.Optimize(); err != nil {
		return nil, err
	}
	if err := job.Build(zbuf.NewArray(vals)); err != nil {
		t.Fatalf("build %q: %v", text, err)
	}
	return Drain(job.Puller())
}

// Every generated program must parse, analyze and build.
func TestGeneratedProgramsCompile(t *testing.T) {
	for i := 0; i < 1500; i++ {
		r := rt.NewRand(uint64(i) + 1)
		zctx := zed.NewContext()
		o := Opts{}
		if i%3 == 1 {
			o.Sorted = FG
		}
		p := Gen(r, o)
		vals := GenInput(r, zctx, 20, InputOpts{SortedBy: o.Sorted})
		if _, err := run(t, zctx, p.Text, vals); err != nil {
			t.Logf("runtime error (allowed) %q: %v", p.Text, err)
		}
	}
}

func TestSearchFamily(t *testing.T) {
	for i := 0; i < 600; i++ {
		r := rt.NewRand(uint64(i) + 1)
		zctx := zed.NewContext()
		tok := rt.Pick(r, SearchTokens)
		in, err := GenSearchInput(r, zctx, 40, tok, 2)
		if err != nil {
			t.Fatal(err)
		}
		p := Gen(r, Opts{Family: "search", Token: tok})
		if _, err := run(t, zctx, p.Text, in.Values); err != nil {
			t.Logf("runtime error (allowed) %q: %v", p.Text, err)
		}
	}
}

func TestCorpusLoads(t *testing.T) {
	c, err := LoadCorpus(RepoDir())
	if err != nil {
		t.Fatal(err)
	}
	if len(c) < 400 {
		t.Fatalf("only %d corpus programs", len(c))
	}
	t.Logf("%d corpus programs", len(c))
}

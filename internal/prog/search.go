package prog

import (
	"fmt"
	"strings"

	zed "github.com/brimdata/super"
	"github.com/brimdata/super/zson"

	"verif/internal/rt"
)

// SearchTokens are the tokens the search family looks for.  All are valid
// keywords (letters, '_', '.', no leading digit) so that they can be used
// unquoted, as a glob stem, inside a regular expression and as a field name.
var SearchTokens = []string{"foo", "needle", "Bar", "ab", "x.y", "tok_en", "zq"}

// searchSite is one place a token can be put; %[1]s = token, %[2]d = id,
// %[3]s = the token in another letter case, %[4]s = a decoy (a string that
// shares a prefix with the token but does not contain it).
var searchSites = []struct {
	name string
	tmpl string
}{
	{"value:top-string", `{id:%[2]d,s:"%[1]s"}`},
	{"value:top-string-infix", `{id:%[2]d,s:"xx%[3]syy",n:1}`},
	{"value:othercase", `{id:%[2]d,s:"%[3]s"}`},
	{"name:top", `{id:%[2]d,"%[1]s":1}`},
	{"name:top-infix-othercase", `{id:%[2]d,"pre%[3]spost":"v"}`},
	{"name:rec-in-rec", `{id:%[2]d,r:{"%[1]s":1,z:"q"}}`},
	{"name:rec-in-rec-in-rec", `{id:%[2]d,r:{q:{"%[1]s":[1,2]}}}`},
	{"name:rec-in-array", `{id:%[2]d,a:[{"%[1]s":1}]}`},
	{"name:rec-in-array-2nd-elem", `{id:%[2]d,a:[{u:1},{"%[1]s":2}]}`},
	{"name:rec-in-set", `{id:%[2]d,st:|[{"%[1]s":1}]|}`},
	{"name:rec-in-map-value", `{id:%[2]d,m:|{"k":{"%[1]s":1}}|}`},
	{"name:rec-in-map-key", `{id:%[2]d,m:|{{"%[1]s":1}:"v"}|}`},
	{"name:rec-in-union", `{id:%[2]d,u:{"%[1]s":1}((int64,{"%[1]s":int64}))}`},
	{"name:rec-in-error", `{id:%[2]d,e:error({"%[1]s":1})}`},
	{"name:rec-in-named", `{id:%[2]d,nr:{"%[1]s":1}(=nrec_%[5]s)}`},
	{"name:rec-in-array-in-rec", `{id:%[2]d,r:{a:[{"%[1]s":"v"}]}}`},
	{"name:top-array-of-rec", `[{"%[1]s":%[2]d}]`},
	{"name:top-named-rec", `{id:%[2]d,"%[1]s":"v"}(=top_%[5]s)`},
	{"name:top-union", `{"%[1]s":%[2]d}((string,{"%[1]s":int64}))`},
	{"value:in-array", `{id:%[2]d,a:["p","%[1]s"]}`},
	{"value:in-set", `{id:%[2]d,st:|["%[1]s","q"]|}`},
	{"value:in-map-key", `{id:%[2]d,m:|{"%[1]s":1}|}`},
	{"value:in-map-value", `{id:%[2]d,m:|{"k":"%[1]s"}|}`},
	{"value:in-union", `{id:%[2]d,u:"%[1]s"((int64,string))}`},
	{"value:in-error", `{id:%[2]d,e:error("%[1]s")}`},
	{"value:in-named", `{id:%[2]d,ns:"%[1]s"(=nstr)}`},
	{"value:in-rec-in-array", `{id:%[2]d,a:[{v:"%[1]s"}]}`},
	{"value:top-string-value", `"%[1]s %[2]d"`},
	{"value:nested-s", `{id:%[2]d,r:{s:"%[1]s"}}`},
	{"typevalue:field-name", `{id:%[2]d,t:<{"%[1]s":int64}>}`},
	{"typevalue:type-name", `{id:%[2]d,t:<%[5]s_t=int64>}`},
	{"typename", `{id:%[2]d,v:1(=%[5]s_n)}`},
	{"enum-symbol", `{id:%[2]d,en:%%%[5]s(enum(%[5]s,other))}`},
	{"bytes", `{id:%[2]d,by:0x666f6f}`},
	{"decoy", `{id:%[2]d,s:"%[4]s","%[4]s":1,a:[{"%[4]s":1}]}`},
}

// Plain rows that never contain a token.
var searchPlain = []string{
	`{id:%[2]d,s:"plain",n:%[2]d}`,
	`{id:%[2]d,s:"other",ip:10.0.0.%[6]d,b:true}`,
	`{id:%[2]d,ip:10.0.0.1,b:false,a:[1,2,3]}`,
	`{id:%[2]d,r:{s:"inn"},t:<{a:int64}>}`,
	`{id:%[2]d,n:80,f:1.5,u:1((int64,string))}`,
	`{id:%[2]d,s:"Z",m:|{"k":"v"}|,ns:"q"(=nstr)}`,
	`{id:%[2]d,t:<int64>,d:1h,ts:2020-01-01T00:00:00Z}`,
	`%[2]d`,
	`{id:%[2]d,s:null(string),a:null([int64])}`,
	`{id:%[2]d,n:80.,s:"80"}`,
}

func otherCase(s string) string {
	u := strings.ToUpper(s)
	if u == s {
		return strings.ToLower(s)
	}
	return u
}

func ident(s string) string {
	return strings.Map(func(r rune) rune {
		if r >= 'a' && r <= 'z' || r >= 'A' && r <= 'Z' || r >= '0' && r <= '9' || r == '_' {
			return r
		}
		return '_'
	}, s)
}

// SearchInput describes a generated input of the search family.
type SearchInput struct {
	Values []zed.Value
	Sites  []string // names of the token sites used, one per value ("" = plain)
	Text   []string // ZSON of each value as generated (description only)
}

// GenSearchInput generates n values for the search family: mostly plain rows,
// and with probability ~1/hitDen a row that carries token at one of the sites
// (field names and values at every depth: records inside arrays, sets, maps,
// unions, errors and named types; type values; type names; enum symbols).
func GenSearchInput(r *rt.Rand, zctx *zed.Context, n int, token string, hitDen int) (*SearchInput, error) {
	if hitDen <= 0 {
		hitDen = 6
	}
	in := &SearchInput{}
	decoy := token[:len(token)-1] + "_"
	for i := 0; i < n; i++ {
		var tmpl, site string
		if r.Chance(1, hitDen) {
			s := rt.Pick(r, searchSites)
			tmpl, site = s.tmpl, s.name
		} else {
			tmpl = rt.Pick(r, searchPlain)
		}
		text := fmt.Sprintf(tmpl, token, i, otherCase(token), decoy, ident(token), i%200)
		// drop unused-argument noise from Sprintf
		if k := strings.Index(text, "%!(EXTRA"); k >= 0 {
			text = text[:k]
		}
		v, err := zson.ParseValue(zctx, text)
		if err != nil {
			return nil, fmt.Errorf("search input %q: %w", text, err)
		}
		in.Values = append(in.Values, v)
		in.Sites = append(in.Sites, site)
		in.Text = append(in.Text, text)
	}
	return in, nil
}

// genSearch generates a program of the C04 family: a filter/search term
// (possibly combined with and/or/not) optionally followed by type functions,
// shaping and aggregations.  The input order-state is o.InputOrder.
func genSearch(r *rt.Rand, o Opts) *Program {
	g := &pgen{r: r, o: o}
	tok := o.Token
	if tok == "" {
		tok = rt.Pick(r, SearchTokens)
	}
	q := func(s string) string { return fmt.Sprintf("%q", s) }
	other := rt.Pick(r, []string{"plain", "other", "Z", "inn", "q"})
	term := func() string {
		switch r.Intn(30) {
		case 0, 1, 2, 3:
			g.used("search:keyword")
			return tok
		case 4:
			g.used("search:string")
			return q(tok)
		case 5:
			g.used("search:keyword-othercase")
			return otherCase(tok)
		case 6:
			g.used("search:glob")
			return rt.Pick(r, []string{tok + "*", "*" + tok, "*" + tok + "*", tok[:1] + "*" + tok[len(tok)-1:]})
		case 7:
			g.used("search:regexp")
			return "/" + strings.ReplaceAll(tok, ".", `\.`) + "/"
		case 8, 9:
			g.used("field==literal")
			return "s==" + q(tok)
		case 10:
			g.used("field==literal")
			return rt.Pick(r, []string{"r.s==" + q(tok), "ns==" + q(tok), "u==" + q(tok), "s==" + q(other)})
		case 11, 12:
			g.used("literal-in-field")
			return q(tok) + " in " + rt.Pick(r, []string{"a", "st", "this", "m", "r"})
		case 13:
			g.used("field==literal")
			return rt.Pick(r, []string{"ip==10.0.0.1", "b==true", "b==false", "by==0x666f6f", "d==1h", "t==<int64>", "t==<{a:int64}>"})
		case 14:
			g.used("literal-in-field")
			return rt.Pick(r, []string{"10.0.0.1 in this", "true in this", "0x666f6f in this", "<int64> in this"})
		case 15:
			g.used("search:nonstring-literal")
			return rt.Pick(r, []string{"80", "10.0.0.1", "1.5", "10.0.0.0/24", "1h", "true"})
		case 16:
			g.used("field==literal")
			return fmt.Sprintf("t==<{%s:int64}>", q(tok))
		case 17:
			g.used("has")
			return fmt.Sprintf("has(%s)", fieldRef(tok))
		case 18:
			g.used("is")
			return rt.Pick(r, []string{"is(<int64>)", "is(s, <string>)", fmt.Sprintf("is(<{id:int64,s:string}>)")})
		case 19:
			g.used("typeof")
			return rt.Pick(r, []string{"typeof(this)==<{id:int64,s:string}>", "typeof(s)==<string>", "typeof(id)==<int64>"})
		case 20:
			g.used("len")
			return rt.Pick(r, []string{"len(a)>1", "len(this)==2", "len(s)>3"})
		case 21:
			g.used("nameof")
			return rt.Pick(r, []string{fmt.Sprintf("nameof(this)==%s", q("top_"+ident(tok))), `nameof(ns)=="nstr"`, `(has(ns) and typename("nstr")==typeof(ns))`})
		case 22:
			g.used("under")
			return rt.Pick(r, []string{"under(ns)==" + q(tok), "typeunder(ns)==<string>", "under(u)==" + q(tok)})
		case 23:
			g.used("fields")
			return fmt.Sprintf("[%s] in fields(this)", q(tok))
		case 24:
			g.used("grep")
			return fmt.Sprintf("grep(%s, %s)", q(tok), rt.Pick(r, []string{"s", "this", "a", "r"}))
		case 25:
			g.used("field==literal")
			return "n==80"
		case 26:
			g.used("compare")
			return rt.Pick(r, []string{"id>3", "id%3==0", "n>=80"})
		default:
			g.used("search:keyword")
			return tok
		}
	}
	var expr string
	switch r.Intn(10) {
	case 0:
		expr = term() + " and " + term()
	case 1:
		expr = term() + " or " + term()
	case 2:
		expr = "not " + term()
	case 3:
		g.used("search:keyword")
		expr = tok + " " + rt.Pick(r, []string{other, "id", q("v"), tok}) // implied and
	case 4:
		expr = fmt.Sprintf("(%s or %s) and not %s", term(), term(), term())
	default:
		expr = term()
	}
	var parts []string
	// `where` takes boolean expressions only; everything else is search syntax.
	if strings.ContainsAny(expr, "=<>(") && !strings.Contains(expr, "/") && !strings.Contains(expr, "*") && !hasBareWord(expr, tok) && r.Bool() {
		parts = append(parts, "where "+expr)
	} else {
		parts = append(parts, "search "+expr)
	}
	st := &state{ord: o.InputOrder, keys: o.InputKeys}
	if r.Chance(1, 4) {
		// a second filter: merged with the first by the optimizer
		parts = append(parts, "search "+term())
	}
	p := &Program{}
	filter := strings.Join(parts, " | ")
	norm := map[string]Norm{}
	switch r.Intn(16) {
	case 0:
		g.used("cut")
		parts = append(parts, "cut id,s")
	case 1:
		g.used("put")
		parts = append(parts, "put ty:=typeof(this)")
	case 2:
		g.used("yield:typeof")
		parts = append(parts, "yield typeof(this)")
	case 3:
		g.used("yield:typevalue")
		parts = append(parts, rt.Pick(r, []string{"yield t", "yield {id,t}", "yield <{a:int64,b:string}>", "yield typeof(t)"}))
	case 4:
		g.used("count")
		parts = append(parts, "count()")
		st.single = true
	case 5:
		g.used("count-by-typeof")
		parts = append(parts, "count() by typeof(this)")
		st.ord = OrdMulti
	case 6:
		g.used("collect")
		parts = append(parts, "ids:=collect(id)")
		st.single = true
	case 7:
		g.used("union-by-key")
		parts = append(parts, rt.Pick(r, []string{"union(id) by typeof(this)", "u:=union(s) by b", "collect(id) by t", "count() by t", "count() by s"}))
		st.ord = OrdMulti
		norm["collect"] = NormMultiset
	case 8:
		g.used("shape")
		parts = append(parts, rt.Pick(r, []string{
			"yield shape(this, <{id:int64,s:string}>)", "yield cast(this, <{id:string}>)", "yield crop(this, <{id:int64}>)",
			"yield fill(this, <{id:int64,zz:string}>)", "yield order(this, <{s:string,id:int64}>)"}))
	case 9:
		g.used("yield:functions")
		parts = append(parts, rt.Pick(r, []string{"yield nameof(this)", "yield fields(this)", "yield {id,l:len(this)}", "yield under(this)", "yield kind(this)", "yield {id,n:nameof(ns),k:typeunder(ns)}"}))
	case 10:
		g.used("sort-head")
		parts = append(parts, "sort id", fmt.Sprintf("head %d", r.Range(1, 5)))
		// id is unique on the rows that have it; rows without id tie as nulls
		// and head could cut inside the tie: only when input order is defined
		// is the result defined (sort is stable).
	case 11:
		g.used("tail")
		parts = append(parts, fmt.Sprintf("tail %d", r.Range(1, 6)))
	case 12:
		g.used("any-by")
		parts = append(parts, "x:=any(this) by typeof(this)")
		st.ord = OrdMulti
		norm["x"] = NormAny
	case 13:
		g.used("fuse")
		parts = append(parts, rt.Pick(r, []string{"fuse", "f:=fuse(this)"}))
		if strings.HasPrefix(parts[len(parts)-1], "f:=") {
			norm["f"] = NormNone // the input order is defined, so is the fused type
			st.single = true
		}
	}
	if st.ord != OrdSeq && !st.single {
		// head/tail above are emitted for a defined input order only
		for i, s := range parts {
			if strings.HasPrefix(s, "head ") || strings.HasPrefix(s, "tail ") {
				parts[i] = "pass"
			}
		}
	}
	text := strings.Join(parts, " | ")
	if o.From != "" {
		text = o.From + " | " + text
	}
	st.rec = false
	out := g.finish(text, st)
	for k, v := range norm {
		if v != NormNone {
			if out.Norm == nil {
				out.Norm = map[string]Norm{}
			}
			out.Norm[k] = v
		}
	}
	*p = *out
	p.Filter = filter
	return p
}

func fieldRef(tok string) string {
	if strings.ContainsAny(tok, ".") {
		return fmt.Sprintf("this[%q]", tok)
	}
	return tok
}

// hasBareWord reports whether expr contains tok as a bare search keyword
// (not inside quotes or a function argument), which only search syntax allows.
func hasBareWord(expr, tok string) bool {
	for _, w := range strings.Fields(expr) {
		w = strings.Trim(w, "()")
		if w == tok || w == otherCase(tok) {
			return true
		}
		if strings.HasSuffix(w, "*") || strings.HasPrefix(w, "*") {
			return true
		}
	}
	return false
}

// Package rt is the runtime shared by all monitors: case selection (batching,
// replay), the begin/end case log written before each case executes, panic
// capture, violation / counter / sample collection, and the result file the
// driver merges.
package rt

import (
	"encoding/json"
	"fmt"
	"hash/fnv"
	"os"
	"regexp"
	"runtime"
	"sort"
	"strings"
	"sync"
	"time"
)

// Rand is a splitmix64 PRNG; every case gets its own, derived from
// (seed, kind, index), so a case is replayable on its own.
type Rand struct{ s uint64 }

func NewRand(seed uint64) *Rand { return &Rand{s: seed} }

func (r *Rand) Uint64() uint64 {
	r.s += 0x9e3779b97f4a7c15
	z := r.s
	z = (z ^ (z >> 30)) * 0xbf58476d1ce4e5b9
	z = (z ^ (z >> 27)) * 0x94d049bb133111eb
	return z ^ (z >> 31)
}

// Intn returns a value in [0,n).
func (r *Rand) Intn(n int) int {
	if n <= 0 {
		return 0
	}
	return int(r.Uint64() % uint64(n))
}

// Range returns a value in [lo,hi].
func (r *Rand) Range(lo, hi int) int { return lo + r.Intn(hi-lo+1) }

func (r *Rand) Bool() bool { return r.Uint64()&1 == 1 }

// Chance is true with probability num/den.
func (r *Rand) Chance(num, den int) bool { return r.Intn(den) < num }

func (r *Rand) Perm(n int) []int {
	p := make([]int, n)
	for i := range p {
		p[i] = i
	}
	for i := n - 1; i > 0; i-- {
		j := r.Intn(i + 1)
		p[i], p[j] = p[j], p[i]
	}
	return p
}

func Pick[T any](r *Rand, xs []T) T { return xs[r.Intn(len(xs))] }

func mix64(z uint64) uint64 {
	z += 0x9e3779b97f4a7c15
	z = (z ^ (z >> 30)) * 0xbf58476d1ce4e5b9
	z = (z ^ (z >> 27)) * 0x94d049bb133111eb
	return z ^ (z >> 31)
}

func hash64(parts ...string) uint64 {
	h := fnv.New64a()
	for _, p := range parts {
		h.Write([]byte(p))
		h.Write([]byte{0})
	}
	return h.Sum64()
}

// Violation is one observed refutation of the property.
type Violation struct {
	Signature string `json:"signature"`
	Detail    string `json:"detail"`
	Kind      string `json:"kind"`
	Index     int    `json:"index"`
	Seed      uint64 `json:"seed"`
	Desc      any    `json:"desc,omitempty"`
}

// Result is what one child process reports to the driver.
type Result struct {
	Prop         string            `json:"prop"`
	Tier         string            `json:"tier"`
	Seed         uint64            `json:"seed"`
	Batch        int               `json:"batch"`
	Evaluations  int64             `json:"evaluations"`
	Nontrivial   []uint64          `json:"nontrivial"`
	Counters     map[string]int64  `json:"counters"`
	Samples      []any             `json:"samples"`
	Violations   []Violation       `json:"violations"`
	Inconclusive []string          `json:"inconclusive"`
	Notes        map[string]string `json:"notes,omitempty"`
	Complete     bool              `json:"complete"`
}

// Ctx is the per-process monitor context.
type Ctx struct {
	Prop     string
	Tier     string
	Seed     uint64
	Batch    int
	NBatches int
	OutDir   string
	// Replay, when set, restricts execution to the single case (kind,index).
	ReplayKind  string
	ReplayIndex int
	Replaying   bool
	Verbose     bool
	// OnlyKinds / SkipKinds (comma separated) restrict the case kinds this
	// process runs (the driver runs some kinds under a race-detector build).
	OnlyKinds string
	SkipKinds string

	mu      sync.Mutex
	log     *os.File
	res     Result
	nontriv map[uint64]struct{}
	serial  int
}

func NewCtx(prop, tier string, seed uint64, batch, nbatches int, outDir string) (*Ctx, error) {
	c := &Ctx{Prop: prop, Tier: tier, Seed: seed, Batch: batch, NBatches: nbatches, OutDir: outDir}
	c.res = Result{Prop: prop, Tier: tier, Seed: seed, Batch: batch, Counters: map[string]int64{}, Notes: map[string]string{}}
	c.nontriv = map[uint64]struct{}{}
	if outDir != "" {
		if err := os.MkdirAll(outDir, 0o755); err != nil {
			return nil, err
		}
		f, err := os.OpenFile(fmt.Sprintf("%s/cases.%d.jsonl", outDir, batch), os.O_CREATE|os.O_WRONLY|os.O_TRUNC, 0o644)
		if err != nil {
			return nil, err
		}
		c.log = f
	}
	return c, nil
}

func (c *Ctx) Quick() bool { return c.Tier != "thorough" }

// N picks the tier's bound.
func (c *Ctx) N(quick, thorough int) int {
	if c.Quick() {
		return quick
	}
	return thorough
}

func (c *Ctx) logLine(v any) {
	if c.log == nil {
		return
	}
	b, _ := json.Marshal(v)
	b = append(b, '\n')
	c.log.Write(b)
}

// Obs is handed to a case body.
type Obs struct {
	c     *Ctx
	Kind  string
	Index int
	desc  any
	viol  []Violation
	R     *Rand
}

// Desc records a human-readable description of the case (goes into the case
// log, into replay files and possibly into the evidence samples).
func (o *Obs) Desc(d any) {
	o.desc = d
	o.c.mu.Lock()
	o.c.logLine(map[string]any{"ev": "desc", "kind": o.Kind, "index": o.Index, "desc": d})
	o.c.mu.Unlock()
}

// Violation records a refutation.  signature names the defect class
// (stable across runs and seeds); detail is the witness.
func (o *Obs) Violation(signature, detail string) {
	if len(detail) > 6000 {
		detail = detail[:6000] + "…"
	}
	o.viol = append(o.viol, Violation{Signature: signature, Detail: detail, Kind: o.Kind, Index: o.Index, Seed: o.c.Seed, Desc: o.desc})
}

// AddEvaluations counts executions inside one case (e.g. crash points,
// schedules) as evaluations of their own.
func (o *Obs) AddEvaluations(n int64) {
	o.c.mu.Lock()
	o.c.res.Evaluations += n
	o.c.mu.Unlock()
}

func (o *Obs) Violated() bool { return len(o.viol) > 0 }

func (o *Obs) Count(name string, n int64) { o.c.Count(name, n) }

func (c *Ctx) Count(name string, n int64) {
	c.mu.Lock()
	c.res.Counters[name] += n
	c.mu.Unlock()
}

// Max keeps the maximum seen for a counter.
func (c *Ctx) Max(name string, n int64) {
	c.mu.Lock()
	if n > c.res.Counters[name] {
		c.res.Counters[name] = n
	}
	c.mu.Unlock()
}

func (c *Ctx) Note(k, v string) {
	c.mu.Lock()
	c.res.Notes[k] = v
	c.mu.Unlock()
}

// Nontrivial marks the case as non-trivial under the property's rule; key
// identifies it for distinctness.
func (o *Obs) Nontrivial(key string) {
	h := hash64(o.c.Prop, key)
	o.c.mu.Lock()
	o.c.nontriv[h] = struct{}{}
	o.c.mu.Unlock()
}

func (o *Obs) Sample(s any) { o.c.Sample(s) }

func (c *Ctx) Sample(s any) {
	c.mu.Lock()
	if len(c.res.Samples) < 4 {
		c.res.Samples = append(c.res.Samples, s)
	}
	c.mu.Unlock()
}

func (o *Obs) Inconclusive(reason string) {
	o.c.mu.Lock()
	o.c.res.Inconclusive = append(o.c.res.Inconclusive, fmt.Sprintf("%s/%d: %s", o.Kind, o.Index, reason))
	o.c.mu.Unlock()
}

// Mine reports whether case (kind,index) is to be executed by this process.
func (c *Ctx) Mine(kind string, index int) bool {
	if c.OnlyKinds != "" && !kindIn(c.OnlyKinds, kind) {
		return false
	}
	if c.SkipKinds != "" && kindIn(c.SkipKinds, kind) {
		return false
	}
	if c.Replaying {
		return kind == c.ReplayKind && index == c.ReplayIndex
	}
	if c.NBatches <= 1 {
		return true
	}
	return int(mix64(hash64(kind, fmt.Sprint(index)))%uint64(c.NBatches)) == c.Batch
}

// Case executes fn as case (kind,index) if it belongs to this process.  The
// case is logged before it runs; a panic escaping fn is recorded as a
// violation with a signature derived from the innermost repo frame.
func (c *Ctx) Case(kind string, index int, fn func(o *Obs)) {
	if !c.Mine(kind, index) {
		return
	}
	o := &Obs{c: c, Kind: kind, Index: index}
	o.R = NewRand(hash64(fmt.Sprint(c.Seed), c.Prop, kind, fmt.Sprint(index)))
	c.mu.Lock()
	c.logLine(map[string]any{"ev": "begin", "prop": c.Prop, "kind": kind, "index": index, "seed": c.Seed})
	c.mu.Unlock()
	func() {
		defer func() {
			if r := recover(); r != nil {
				sig, where := PanicSignature(r)
				o.Violation("panic:"+sig, fmt.Sprintf("panic: %v\nat %s\n%s", r, where, TrimStack(StackString(), 40)))
			}
		}()
		fn(o)
	}()
	c.mu.Lock()
	c.res.Evaluations++
	c.res.Violations = append(c.res.Violations, o.viol...)
	c.logLine(map[string]any{"ev": "end", "kind": kind, "index": index, "violations": len(o.viol)})
	c.mu.Unlock()
	if c.Verbose || c.Replaying {
		for _, v := range o.viol {
			fmt.Printf("violation signature=%q\n%s\n", v.Signature, v.Detail)
		}
	}
}

// Finish writes the result file.
func (c *Ctx) Finish() error {
	c.mu.Lock()
	defer c.mu.Unlock()
	c.res.Complete = true
	c.res.Nontrivial = c.res.Nontrivial[:0]
	for h := range c.nontriv {
		c.res.Nontrivial = append(c.res.Nontrivial, h)
	}
	sort.Slice(c.res.Nontrivial, func(i, j int) bool { return c.res.Nontrivial[i] < c.res.Nontrivial[j] })
	if c.log != nil {
		c.log.Close()
	}
	if c.OutDir == "" {
		return nil
	}
	b, err := json.Marshal(&c.res)
	if err != nil {
		return err
	}
	return os.WriteFile(fmt.Sprintf("%s/result.%d.json", c.OutDir, c.Batch), b, 0o644)
}

func (c *Ctx) ViolationCount() int {
	c.mu.Lock()
	defer c.mu.Unlock()
	return len(c.res.Violations)
}

func StackString() string {
	buf := make([]byte, 1<<16)
	n := runtime.Stack(buf, false)
	return string(buf[:n])
}

func TrimStack(s string, lines int) string {
	ls := strings.Split(s, "\n")
	if len(ls) > lines {
		ls = ls[:lines]
	}
	return strings.Join(ls, "\n")
}

var (
	numRE  = regexp.MustCompile(`0x[0-9a-fA-F]+|\d+`)
	funcRE = regexp.MustCompile(`(?m)^(github\.com/brimdata/super[^\s(]*(?:\([^)]*\))?[^\s(]*)\(`)
)

// PanicSignature gives (signature, location) for a recovered panic value: the
// innermost frame inside the code under test plus the message with numbers
// stripped.
func PanicSignature(r any) (string, string) {
	msg := numRE.ReplaceAllString(fmt.Sprint(r), "N")
	if len(msg) > 120 {
		msg = msg[:120]
	}
	stack := StackString()
	fn := InnermostRepoFrame(stack)
	return fn + ":" + msg, fn
}

// InnermostRepoFrame finds the first frame after the panic call that is in
// github.com/brimdata/super.
func InnermostRepoFrame(stack string) string {
	idx := strings.Index(stack, "panic(")
	if idx >= 0 {
		stack = stack[idx:]
	}
	for _, line := range strings.Split(stack, "\n") {
		if strings.HasPrefix(line, "github.com/brimdata/super") {
			if i := strings.LastIndex(line, "("); i > 0 {
				line = line[:i]
			}
			line = strings.TrimPrefix(line, "github.com/brimdata/super/")
			line = strings.TrimPrefix(line, "github.com/brimdata/super.")
			// strip generic instantiation noise
			line = strings.ReplaceAll(line, "[...]", "")
			return line
		}
	}
	return "unknown"
}

// Watchdog runs fn and reports false if it did not return within d.  The
// goroutine is abandoned on timeout (the child process is short-lived).
func Watchdog(d time.Duration, fn func()) (ok bool, pan any, stack string) {
	done := make(chan struct{})
	go func() {
		defer func() {
			if r := recover(); r != nil {
				pan = r
				stack = StackString()
			}
			close(done)
		}()
		fn()
	}()
	select {
	case <-done:
		return true, pan, stack
	case <-time.After(d):
		return false, nil, ""
	}
}

func kindIn(list, kind string) bool {
	for _, k := range strings.Split(list, ",") {
		if k == kind {
			return true
		}
	}
	return false
}

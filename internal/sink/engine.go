package sink

import (
	"context"
	"io"
	"io/fs"
	"sort"
	"strings"
	"sync"

	"github.com/brimdata/super/pkg/storage"
)

// Engine is a small in-memory storage.Engine (object-store semantics: a Put
// becomes visible at Close).  While a Plan is armed with Arm, every stream
// opened by Put is a failing Sink on that plan; what such a sink accepted is
// stored at Close like any other object.
type Engine struct {
	mu   sync.Mutex
	objs map[string][]byte
	plan *Plan
	puts int
}

func NewEngine() *Engine { return &Engine{objs: map[string][]byte{}} }

// Arm routes the streams of all later Put calls through plan p (nil disarms).
func (e *Engine) Arm(p *Plan) {
	e.mu.Lock()
	e.plan = p
	e.mu.Unlock()
}

// Puts is the number of Put calls made while a plan was armed.
func (e *Engine) Puts() int {
	e.mu.Lock()
	defer e.mu.Unlock()
	return e.puts
}

// Object returns the stored bytes of path, if any.
func (e *Engine) Object(path string) ([]byte, bool) {
	e.mu.Lock()
	defer e.mu.Unlock()
	b, ok := e.objs[path]
	return b, ok
}

func (e *Engine) Paths() []string {
	e.mu.Lock()
	defer e.mu.Unlock()
	var out []string
	for k := range e.objs {
		out = append(out, k)
	}
	sort.Strings(out)
	return out
}

func (e *Engine) Get(_ context.Context, u *storage.URI) (storage.Reader, error) {
	e.mu.Lock()
	defer e.mu.Unlock()
	b, ok := e.objs[u.String()]
	if !ok {
		return nil, fs.ErrNotExist
	}
	return storage.NewBytesReader(b), nil
}

type memPut struct {
	e    *Engine
	path string
	buf  []byte
	s    *Sink
}

func (m *memPut) Write(b []byte) (int, error) {
	if m.s != nil {
		return m.s.Write(b)
	}
	m.buf = append(m.buf, b...)
	return len(b), nil
}

func (m *memPut) Close() error {
	if m.s != nil {
		err := m.s.Close()
		m.e.mu.Lock()
		m.e.objs[m.path] = m.s.Bytes()
		m.e.mu.Unlock()
		return err
	}
	m.e.mu.Lock()
	m.e.objs[m.path] = m.buf
	m.e.mu.Unlock()
	return nil
}

func (e *Engine) Put(_ context.Context, u *storage.URI) (io.WriteCloser, error) {
	e.mu.Lock()
	defer e.mu.Unlock()
	m := &memPut{e: e, path: u.String()}
	if e.plan != nil {
		e.puts++
		m.s = e.plan.New(u.String())
	}
	return m, nil
}

func (e *Engine) PutIfNotExists(_ context.Context, u *storage.URI, b []byte) error {
	e.mu.Lock()
	defer e.mu.Unlock()
	if _, ok := e.objs[u.String()]; ok {
		return fs.ErrExist
	}
	e.objs[u.String()] = append([]byte(nil), b...)
	return nil
}

func (e *Engine) Delete(_ context.Context, u *storage.URI) error {
	e.mu.Lock()
	defer e.mu.Unlock()
	delete(e.objs, u.String())
	return nil
}

func (e *Engine) DeleteByPrefix(_ context.Context, u *storage.URI) error {
	e.mu.Lock()
	defer e.mu.Unlock()
	p := u.String()
	for k := range e.objs {
		if strings.HasPrefix(k, p) {
			delete(e.objs, k)
		}
	}
	return nil
}

func (e *Engine) Exists(_ context.Context, u *storage.URI) (bool, error) {
	e.mu.Lock()
	defer e.mu.Unlock()
	_, ok := e.objs[u.String()]
	return ok, nil
}

func (e *Engine) Size(_ context.Context, u *storage.URI) (int64, error) {
	e.mu.Lock()
	defer e.mu.Unlock()
	b, ok := e.objs[u.String()]
	if !ok {
		return 0, fs.ErrNotExist
	}
	return int64(len(b)), nil
}

func (e *Engine) List(_ context.Context, u *storage.URI) ([]storage.Info, error) {
	e.mu.Lock()
	defer e.mu.Unlock()
	p := u.String()
	if !strings.HasSuffix(p, "/") {
		p += "/"
	}
	var out []storage.Info
	for k, b := range e.objs {
		if strings.HasPrefix(k, p) {
			rest := strings.TrimPrefix(k, p)
			if !strings.Contains(rest, "/") {
				out = append(out, storage.Info{Name: rest, Size: int64(len(b))})
			}
		}
	}
	sort.Slice(out, func(i, j int) bool { return out[i].Name < out[j].Name })
	return out, nil
}

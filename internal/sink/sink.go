// Package sink provides the failing io.WriteCloser of DESIGN.md §2.6 (C18):
// the k-th Write call (counted over every sink that shares one Plan) fails
// one-shot, sticky or as a short write; Close may fail as well.  A sink
// records every byte it accepted and the call stack of the first injected
// fault, from which the monitor derives the violation signature.
package sink

import (
	"errors"
	"runtime"
	"strings"
	"sync"
)

type Mode int

const (
	OneShot Mode = iota // the k-th Write returns (0, err); later calls succeed
	Sticky              // the k-th and every later Write return (0, err)
	Short               // the k-th Write accepts len/2 bytes and returns (len/2, err); later calls succeed
)

func (m Mode) String() string {
	switch m {
	case OneShot:
		return "one-shot"
	case Sticky:
		return "sticky"
	case Short:
		return "short"
	}
	return "?"
}

var Modes = []Mode{OneShot, Sticky, Short}

// ErrInjected is the error every injected fault returns.
var ErrInjected = errors.New("verif: injected sink failure")

// ErrInjectedClose is returned by a failing Close.
var ErrInjectedClose = errors.New("verif: injected sink close failure")

// Plan is the fault schedule shared by all sinks of one run.
type Plan struct {
	K          int  // 1-based index of the Write call that fails; 0 = none
	Mode       Mode // what the failing call does
	CloseFails bool // every Close returns ErrInjectedClose

	mu          sync.Mutex
	calls       int      // Write calls seen so far
	writeFaults int      // Write calls that returned an error
	closeFaults int      // Close calls that returned an error
	closes      int      // Close calls seen
	afterClose  int      // Write calls on an already closed sink
	stack       []string // functions on the stack of the first failing Write (innermost first)
	closeStack  []string // same for the first failing Close
	sinks       []*Sink
}

// Sink is one io.WriteCloser governed by a Plan.
type Sink struct {
	Name   string
	p      *Plan
	buf    []byte
	closed bool
}

// New returns a new sink on plan p.
func (p *Plan) New(name string) *Sink {
	s := &Sink{Name: name, p: p}
	p.mu.Lock()
	p.sinks = append(p.sinks, s)
	p.mu.Unlock()
	return s
}

func (s *Sink) Write(b []byte) (int, error) {
	p := s.p
	p.mu.Lock()
	defer p.mu.Unlock()
	if s.closed {
		p.afterClose++
	}
	p.calls++
	fail := p.K > 0 && (p.calls == p.K || (p.Mode == Sticky && p.calls > p.K))
	if !fail {
		s.buf = append(s.buf, b...)
		return len(b), nil
	}
	p.writeFaults++
	if p.stack == nil {
		p.stack = callers()
	}
	if p.Mode == Short {
		n := len(b) / 2
		s.buf = append(s.buf, b[:n]...)
		return n, ErrInjected
	}
	return 0, ErrInjected
}

func (s *Sink) Close() error {
	p := s.p
	p.mu.Lock()
	defer p.mu.Unlock()
	p.closes++
	s.closed = true
	if p.CloseFails {
		p.closeFaults++
		if p.closeStack == nil {
			p.closeStack = callers()
		}
		return ErrInjectedClose
	}
	return nil
}

// Bytes returns what the sink accepted.
func (s *Sink) Bytes() []byte {
	s.p.mu.Lock()
	defer s.p.mu.Unlock()
	return append([]byte(nil), s.buf...)
}

func (s *Sink) Closed() bool {
	s.p.mu.Lock()
	defer s.p.mu.Unlock()
	return s.closed
}

// Calls is the number of Write calls seen on all sinks of the plan.
func (p *Plan) Calls() int {
	p.mu.Lock()
	defer p.mu.Unlock()
	return p.calls
}

// WriteFaults is the number of Write calls that were failed.
func (p *Plan) WriteFaults() int {
	p.mu.Lock()
	defer p.mu.Unlock()
	return p.writeFaults
}

// CloseFaults is the number of Close calls that were failed.
func (p *Plan) CloseFaults() int {
	p.mu.Lock()
	defer p.mu.Unlock()
	return p.closeFaults
}

func (p *Plan) Closes() int {
	p.mu.Lock()
	defer p.mu.Unlock()
	return p.closes
}

// Sinks returns the sinks created so far, in creation order.
func (p *Plan) Sinks() []*Sink {
	p.mu.Lock()
	defer p.mu.Unlock()
	return append([]*Sink(nil), p.sinks...)
}

// FaultStack returns the function names (innermost first) that were on the
// stack when the first Write fault was injected, harness frames removed.
func (p *Plan) FaultStack() []string {
	p.mu.Lock()
	defer p.mu.Unlock()
	return append([]string(nil), p.stack...)
}

func (p *Plan) CloseFaultStack() []string {
	p.mu.Lock()
	defer p.mu.Unlock()
	return append([]string(nil), p.closeStack...)
}

func callers() []string {
	pc := make([]uintptr, 64)
	n := runtime.Callers(3, pc)
	frames := runtime.CallersFrames(pc[:n])
	var out []string
	for {
		f, more := frames.Next()
		fn := f.Function
		if fn != "" && !strings.HasPrefix(fn, "verif/") && !strings.HasPrefix(fn, "main.") && !strings.HasPrefix(fn, "runtime.") {
			out = append(out, fn)
		}
		if !more {
			break
		}
	}
	return out
}

// RepoChain reduces a fault stack to the functions of the code under test
// (github.com/brimdata/super/...), innermost first, with the module prefix
// removed.
func RepoChain(stack []string) []string {
	const mod = "github.com/brimdata/super/"
	var out []string
	for _, fn := range stack {
		if strings.HasPrefix(fn, mod) {
			fn = strings.TrimPrefix(fn, mod)
			// closures: pkg.(*T).m.func1 → keep as is
			out = append(out, fn)
		}
	}
	return out
}

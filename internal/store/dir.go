package store

import (
	"context"
	"io"
	"io/fs"
	"os"
	"path/filepath"
	"sort"
	"sync"

	"github.com/brimdata/super/pkg/storage"
)

// Dir is a backing store that is a real directory: an Engine on a Dir runs
// every storage operation through the repository's own file engine
// (pkg/storage/file.go, storage.NewFileSystem) on <root>/<logical path>.  The
// instruments (operation log, gate, fail-stop crash injector, read faults) sit
// in front of it exactly as for the in-memory back ends, so that what the
// in-memory "file semantics" model shows can be confirmed against the code
// that local lakes really use, and a change to that code is observed.
//
// Crash model on a Dir: fail-stop of the process — the crashing operation and
// everything after it on that handle is not executed; file descriptors the
// handle holds are closed; what was written before stays (the operating system
// survives).  A crashing Write may be half applied (through the real
// descriptor).  The real engine's PutIfNotExists is split into its create and
// fill halves at the hook point the `verif` build has between them;
// DeleteByPrefix (os.RemoveAll) is a single operation here.
type Dir struct {
	Root string // scratch directory; logical path /lake/x is the file Root/lake/x
	mu   sync.Mutex
	kids []*Dir
}

// NewDir makes a fresh scratch directory under parent (created if needed).
func NewDir(parent string) (*Dir, error) {
	if err := os.MkdirAll(parent, 0o755); err != nil {
		return nil, err
	}
	root, err := os.MkdirTemp(parent, "realfs-")
	if err != nil {
		return nil, err
	}
	return &Dir{Root: root}, nil
}

// RealDir is the directory that holds the logical root "/".
func (d *Dir) RealDir() string { return d.Root }

func (d *Dir) real(p string) string { return filepath.Join(d.Root, filepath.FromSlash(p)) }

// URI maps a logical URI to the URI of the real file.
func (d *Dir) URI(u *storage.URI) *storage.URI {
	ru := *u
	ru.Scheme = "file"
	ru.Path = d.real(u.Path)
	return &ru
}

// Remove deletes the directory and every clone made from it.
func (d *Dir) Remove() {
	d.mu.Lock()
	kids := d.kids
	d.kids = nil
	d.mu.Unlock()
	for _, k := range kids {
		k.Remove()
	}
	os.RemoveAll(d.Root)
}

// Discard removes a backing store's scratch space, if it has any.
func Discard(b Backing) {
	if d, ok := b.(*Dir); ok {
		d.Remove()
	}
}

func (d *Dir) get(p string) ([]byte, bool) {
	b, err := os.ReadFile(d.real(p))
	if err != nil {
		return nil, false
	}
	return b, true
}

func (d *Dir) Get(p string) ([]byte, bool) { return d.get(p) }

func (d *Dir) set(p string, b []byte) {
	os.MkdirAll(filepath.Dir(d.real(p)), 0o755)
	os.WriteFile(d.real(p), b, 0o666)
}

func (d *Dir) setIfAbsent(p string, b []byte) bool {
	os.MkdirAll(filepath.Dir(d.real(p)), 0o755)
	f, err := os.OpenFile(d.real(p), os.O_WRONLY|os.O_CREATE|os.O_EXCL, 0o666)
	if err != nil {
		return false
	}
	f.Write(b)
	f.Close()
	return true
}

func (d *Dir) appendTo(p string, b []byte) {
	f, err := os.OpenFile(d.real(p), os.O_WRONLY|os.O_CREATE|os.O_APPEND, 0o666)
	if err != nil {
		return
	}
	f.Write(b)
	f.Close()
}

func (d *Dir) exists(p string) bool {
	_, err := os.Stat(d.real(p))
	return err == nil
}

func (d *Dir) del(p string) bool { return os.Remove(d.real(p)) == nil }

func (d *Dir) delPrefix(prefix string, _ bool) { os.RemoveAll(d.real(prefix)) }

func (d *Dir) list(prefix string) []storage.Info {
	ents, err := os.ReadDir(d.real(prefix))
	if err != nil {
		return nil
	}
	var out []storage.Info
	for _, e := range ents {
		var size int64
		if info, err := e.Info(); err == nil && !e.IsDir() {
			size = info.Size()
		}
		out = append(out, storage.Info{Name: e.Name(), Size: size})
	}
	sort.Slice(out, func(i, j int) bool { return out[i].Name < out[j].Name })
	return out
}

// Clone copies the directory tree into a sibling scratch directory.
func (d *Dir) Clone() Backing {
	root, err := os.MkdirTemp(filepath.Dir(d.Root), "realfs-")
	if err != nil {
		panic(err)
	}
	c := &Dir{Root: root}
	err = filepath.WalkDir(d.Root, func(p string, e fs.DirEntry, err error) error {
		if err != nil {
			return err
		}
		rel, _ := filepath.Rel(d.Root, p)
		if e.IsDir() {
			return os.MkdirAll(filepath.Join(root, rel), 0o755)
		}
		b, err := os.ReadFile(p)
		if err != nil {
			return err
		}
		return os.WriteFile(filepath.Join(root, rel), b, 0o666)
	})
	if err != nil {
		panic(err)
	}
	d.mu.Lock()
	d.kids = append(d.kids, c)
	d.mu.Unlock()
	return c
}

// Paths lists the logical paths of all files.
func (d *Dir) Paths() []string {
	var out []string
	filepath.WalkDir(d.Root, func(p string, e fs.DirEntry, err error) error {
		if err != nil || e.IsDir() {
			return nil
		}
		rel, _ := filepath.Rel(d.Root, p)
		out = append(out, "/"+filepath.ToSlash(rel))
		return nil
	})
	sort.Strings(out)
	return out
}

// realReader wraps the real engine's reader with the read-fault injector.
type realReader struct {
	storage.Reader
	e   *Engine
	cls string
}

func (r *realReader) fault() error {
	return (&memReader{e: r.e, cls: r.cls}).fault()
}

func (r *realReader) Read(p []byte) (int, error) {
	if err := r.fault(); err != nil {
		return 0, err
	}
	return r.Reader.Read(p)
}

func (r *realReader) ReadAt(p []byte, off int64) (int, error) {
	if err := r.fault(); err != nil {
		return 0, err
	}
	return r.Reader.ReadAt(p, off)
}

func (r *realReader) Size() (int64, error) { return storage.Size(r.Reader) }

// realWriter wraps the descriptor the real engine's Put returned: every Write
// and the Close are counted, gated, crashable operations.
type realWriter struct {
	e      *Engine
	ctx    context.Context
	u      *storage.URI
	w      io.WriteCloser
	closed bool
}

func (w *realWriter) shut() {
	if !w.closed {
		w.closed = true
		w.w.Close() // a dead process's descriptors are closed by the kernel
	}
}

func (w *realWriter) Write(p []byte) (int, error) {
	if w.closed {
		return 0, ErrCrashed
	}
	e := w.e
	seq, done, crash, partial := e.begin(w.ctx, "write", w.u, len(p))
	defer done()
	if crash {
		if partial && len(p) > 1 {
			w.w.Write(p[:len(p)/2])
		}
		w.shut()
		return 0, ErrCrashed
	}
	n, err := w.w.Write(p)
	e.finish(seq, err)
	return n, err
}

func (w *realWriter) Close() error {
	if w.closed {
		return nil
	}
	e := w.e
	seq, done, crash, _ := e.begin(w.ctx, "close", w.u, 0)
	defer done()
	if crash {
		w.shut()
		return ErrCrashed
	}
	w.closed = true
	err := w.w.Close()
	e.finish(seq, err)
	return err
}

func (e *Engine) realGet(ctx context.Context, u *storage.URI) (storage.Reader, error) {
	seq, done, crash, _ := e.begin(ctx, "get", u, 0)
	defer done()
	if crash {
		return nil, ErrCrashed
	}
	e.mu.Lock()
	e.gets++
	fail := e.faultGet[e.gets]
	e.mu.Unlock()
	if fail {
		e.finish(seq, ErrInjected)
		return nil, ErrInjected
	}
	r, err := e.real.Get(ctx, e.dir.URI(u))
	if err != nil {
		err = e.unreal(err)
		e.finish(seq, err)
		return nil, err
	}
	return &realReader{Reader: r, e: e, cls: Classify(u.Path)}, nil
}

// unreal is the identity: errors of the real engine are handed on untouched
// (os.IsExist / os.IsNotExist must keep working on them); monitors strip the
// scratch directory from messages where they derive signatures.
func (e *Engine) unreal(err error) error { return err }

func (e *Engine) realPut(ctx context.Context, u *storage.URI) (io.WriteCloser, error) {
	seq, done, crash, _ := e.begin(ctx, "put-open", u, 0)
	defer done()
	if crash {
		return nil, ErrCrashed
	}
	w, err := e.real.Put(ctx, e.dir.URI(u)) // creates or truncates
	if err != nil {
		err = e.unreal(err)
		e.finish(seq, err)
		return nil, err
	}
	return &realWriter{e: e, ctx: ctx, u: u, w: w}, nil
}

// pinePending maps the real path of a PutIfNotExists in flight to its state;
// the file engine's hook point "storage.file.pine-created" (build tag verif:
// reached after the exclusive create, before the write) looks the operation up
// here and turns the rest of it into a second counted, gated, crashable
// operation "pine-fill" — the same two halves the in-memory file model has.
var (
	pineMu      sync.Mutex
	pinePending = map[string]*pineOp{}
	pineOnce    sync.Once
)

type pineOp struct {
	e    *Engine
	ctx  context.Context
	u    *storage.URI
	b    []byte
	done func()
	seq  int
}

type pineCrash struct{}

func (e *Engine) realPutIfNotExists(ctx context.Context, u *storage.URI, b []byte) (err error) {
	installPineHook()
	seq, done, crash, _ := e.begin(ctx, "pine-create", u, 0)
	if crash {
		done()
		return ErrCrashed
	}
	ru := e.dir.URI(u)
	op := &pineOp{e: e, ctx: ctx, u: u, b: b, done: done, seq: seq}
	pineMu.Lock()
	pinePending[ru.Filepath()] = op
	pineMu.Unlock()
	defer func() {
		pineMu.Lock()
		delete(pinePending, ru.Filepath())
		pineMu.Unlock()
		if r := recover(); r != nil {
			if _, ok := r.(pineCrash); !ok {
				op.done()
				panic(r)
			}
			err = ErrCrashed
		}
		op.done()
	}()
	err = e.unreal(e.real.PutIfNotExists(ctx, ru, b))
	e.finish(op.seq, err)
	return err
}

func (e *Engine) realSimple(ctx context.Context, kind string, u *storage.URI, fn func(ru *storage.URI) error) error {
	seq, done, crash, _ := e.begin(ctx, kind, u, 0)
	defer done()
	if crash {
		return ErrCrashed
	}
	err := e.unreal(fn(e.dir.URI(u)))
	e.finish(seq, err)
	return err
}

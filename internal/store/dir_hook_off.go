//go:build !verif

package store

// Without the verif build tag the file engine has no hook point inside
// PutIfNotExists: it stays a single operation.
func installPineHook() {}

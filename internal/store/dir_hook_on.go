//go:build verif

package store

import (
	"os"

	"github.com/brimdata/super/pkg/verifhook"
)

func installPineHook() {
	pineOnce.Do(func() {
		verifhook.SetAtObj(func(point string, obj any, n int) {
			if point != "storage.file.pine-created" {
				return
			}
			path, _ := obj.(string)
			pineMu.Lock()
			op := pinePending[path]
			pineMu.Unlock()
			if op == nil {
				return
			}
			op.done() // the create half is over
			seq, done, crash, partial := op.e.begin(op.ctx, "pine-fill", op.u, len(op.b))
			op.done, op.seq = done, seq
			if crash {
				if partial && len(op.b) > 1 {
					os.WriteFile(path, op.b[:len(op.b)/2], 0o666)
				}
				panic(pineCrash{}) // the process dies here: the file stays as it is
			}
		})
	})
}

package store

import (
	"fmt"
	"hash/fnv"
	"sync"
)

// Segment lets Client run for N gated storage operations (N < 0: until the
// client is done).
type Segment struct {
	Client string `json:"client"`
	N      int    `json:"n"`
}

// Sched is a deterministic operation-level scheduler: segments are executed by
// strict priority — while a segment is current only its client's storage
// operations may proceed, everybody else blocks at their next storage
// operation.  After the last segment the remaining clients run to completion
// one after the other in the order given to NewSched.  No timing is involved:
// the schedule is a pure function of the segment list (up to the order of
// operations issued concurrently by one client's own helper goroutines).
type Sched struct {
	mu       sync.Mutex
	cond     *sync.Cond
	segs     []Segment
	cur      int
	left     int
	order    []string
	done     map[string]bool
	trace    []Op
	perOps   map[string]int
	exec     sync.Mutex
	disabled bool
	// OnSwitch, if set, is called (with every client parked) whenever the
	// schedule moves on to another segment.
	OnSwitch func()
}

func NewSched(order []string, segs []Segment) *Sched {
	s := &Sched{segs: segs, order: order, done: map[string]bool{}, perOps: map[string]int{}}
	s.cond = sync.NewCond(&s.mu)
	if len(segs) > 0 {
		s.left = segs[0].N
	}
	s.skipLocked()
	return s
}

// current returns the client allowed to run now ("" = nobody left).
func (s *Sched) currentLocked() string {
	if s.cur < len(s.segs) {
		return s.segs[s.cur].Client
	}
	for _, c := range s.order {
		if !s.done[c] {
			return c
		}
	}
	return ""
}

// skipLocked advances past exhausted segments and segments of finished clients.
func (s *Sched) skipLocked() {
	for s.cur < len(s.segs) {
		seg := s.segs[s.cur]
		if s.done[seg.Client] || s.left == 0 {
			s.cur++
			if s.cur < len(s.segs) {
				s.left = s.segs[s.cur].N
			}
			continue
		}
		return
	}
}

// Done tells the scheduler that the client issued its last operation.
func (s *Sched) Done(client string) {
	s.mu.Lock()
	before := s.cur
	s.done[client] = true
	s.skipLocked()
	if s.OnSwitch != nil && !s.disabled && s.cur != before {
		s.OnSwitch()
	}
	s.cond.Broadcast()
	s.mu.Unlock()
}

// Disable lets everything through (used after the scheduled phase).
func (s *Sched) Disable() {
	s.mu.Lock()
	s.disabled = true
	s.cond.Broadcast()
	s.mu.Unlock()
}

func (s *Sched) Enter(client string, op Op) func() {
	s.mu.Lock()
	for !s.disabled && !s.done[client] && s.currentLocked() != client {
		s.cond.Wait()
	}
	gated := !s.disabled && !s.done[client]
	s.mu.Unlock()
	s.exec.Lock()
	return func() {
		s.exec.Unlock()
		s.mu.Lock()
		s.trace = append(s.trace, op)
		s.perOps[client]++
		if gated && s.cur < len(s.segs) && s.segs[s.cur].Client == client && s.left > 0 {
			s.left--
			before := s.cur
			s.skipLocked()
			if s.OnSwitch != nil && s.cur != before {
				s.OnSwitch()
			}
			s.cond.Broadcast()
		}
		s.mu.Unlock()
	}
}

// Trace returns the executed schedule.
func (s *Sched) Trace() []Op {
	s.mu.Lock()
	defer s.mu.Unlock()
	return append([]Op(nil), s.trace...)
}

// OpsOf returns how many gated operations the client performed.
func (s *Sched) OpsOf(client string) int {
	s.mu.Lock()
	defer s.mu.Unlock()
	return s.perOps[client]
}

// TraceHash identifies the executed interleaving (client, kind, class per step).
func TraceHash(tr []Op) uint64 {
	h := fnv.New64a()
	for _, o := range tr {
		fmt.Fprintf(h, "%s|%s|%s;", o.Client, o.Kind, o.Class)
	}
	return h.Sum64()
}

// Switches counts client changes in a trace (≈ preemptions + hand-overs).
func Switches(tr []Op) int {
	n := 0
	for i := 1; i < len(tr); i++ {
		if tr[i].Client != tr[i-1].Client {
			n++
		}
	}
	return n
}

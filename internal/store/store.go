// Package store is the instrumented storage.Engine used by the lake monitors:
// two in-memory back ends (object-store semantics and local-file semantics), a
// wrapper for the real file engine, an operation log, a fail-stop crash
// injector, a read-fault injector and a hook for an operation-level scheduler.
package store

import (
	"bytes"
	"context"
	"errors"
	"fmt"
	"io"
	"io/fs"
	"sort"
	"strings"
	"sync"

	"github.com/brimdata/super/pkg/storage"
)

// Backing is the shared state that survives a "process" (an Engine handle).
type Backing interface {
	get(path string) ([]byte, bool)
	// create makes the path exist with empty content (file semantics) and
	// reports whether it existed before.
	set(path string, b []byte)
	// setIfAbsent is set unless the path exists, atomically (free-running
	// clients rely on it); it reports whether it set.
	setIfAbsent(path string, b []byte) bool
	appendTo(path string, b []byte)
	exists(path string) bool
	del(path string) bool
	delPrefix(prefix string, stringPrefix bool)
	list(prefix string) []storage.Info
	// Clone returns an independent copy (crash enumeration runs every crash
	// point of one victim operation against the same pre-state).
	Clone() Backing
	Paths() []string
	Get(path string) ([]byte, bool)
}

// Mem is the in-memory backing store.
type Mem struct {
	mu    sync.Mutex
	files map[string][]byte
}

func NewMem() *Mem { return &Mem{files: map[string][]byte{}} }

func (m *Mem) get(p string) ([]byte, bool) {
	m.mu.Lock()
	defer m.mu.Unlock()
	b, ok := m.files[p]
	if !ok {
		return nil, false
	}
	return bytes.Clone(b), true
}

func (m *Mem) Get(p string) ([]byte, bool) { return m.get(p) }

func (m *Mem) set(p string, b []byte) {
	m.mu.Lock()
	m.files[p] = bytes.Clone(b)
	m.mu.Unlock()
}

func (m *Mem) setIfAbsent(p string, b []byte) bool {
	m.mu.Lock()
	defer m.mu.Unlock()
	if _, ok := m.files[p]; ok {
		return false
	}
	m.files[p] = bytes.Clone(b)
	return true
}

func (m *Mem) appendTo(p string, b []byte) {
	m.mu.Lock()
	m.files[p] = append(bytes.Clone(m.files[p]), b...)
	m.mu.Unlock()
}

func (m *Mem) exists(p string) bool {
	m.mu.Lock()
	defer m.mu.Unlock()
	_, ok := m.files[p]
	return ok
}

func (m *Mem) del(p string) bool {
	m.mu.Lock()
	defer m.mu.Unlock()
	_, ok := m.files[p]
	delete(m.files, p)
	return ok
}

// delPrefix removes by string prefix (object-store semantics) or, like
// os.RemoveAll, the path itself and everything below it (file semantics).
func (m *Mem) delPrefix(prefix string, stringPrefix bool) {
	m.mu.Lock()
	defer m.mu.Unlock()
	for p := range m.files {
		if stringPrefix {
			if strings.HasPrefix(p, prefix) {
				delete(m.files, p)
			}
		} else if p == prefix || strings.HasPrefix(p, strings.TrimSuffix(prefix, "/")+"/") {
			delete(m.files, p)
		}
	}
}

func (m *Mem) list(prefix string) []storage.Info {
	m.mu.Lock()
	defer m.mu.Unlock()
	pfx := strings.TrimSuffix(prefix, "/") + "/"
	seen := map[string]int64{}
	for p, b := range m.files {
		if !strings.HasPrefix(p, pfx) {
			continue
		}
		rest := p[len(pfx):]
		if i := strings.IndexByte(rest, '/'); i >= 0 {
			seen[rest[:i]] = 0
		} else {
			seen[rest] = int64(len(b))
		}
	}
	var out []storage.Info
	for n, s := range seen {
		out = append(out, storage.Info{Name: n, Size: s})
	}
	sort.Slice(out, func(i, j int) bool { return out[i].Name < out[j].Name })
	return out
}

func (m *Mem) Clone() Backing {
	m.mu.Lock()
	defer m.mu.Unlock()
	c := NewMem()
	for p, b := range m.files {
		c.files[p] = bytes.Clone(b)
	}
	return c
}

func (m *Mem) Paths() []string {
	m.mu.Lock()
	defer m.mu.Unlock()
	var out []string
	for p := range m.files {
		out = append(out, p)
	}
	sort.Strings(out)
	return out
}

type clientKey struct{}

// WithClient tags ctx with a client id; the id travels with derived contexts
// (errgroup.WithContext etc.), which is how operations are attributed.
func WithClient(ctx context.Context, id string) context.Context {
	return context.WithValue(ctx, clientKey{}, id)
}

func ClientOf(ctx context.Context) string {
	if ctx == nil {
		return ""
	}
	if s, ok := ctx.Value(clientKey{}).(string); ok {
		return s
	}
	return ""
}

// Op is one logged storage operation.
type Op struct {
	Seq    int    `json:"seq"`
	Client string `json:"client,omitempty"`
	Kind   string `json:"kind"`  // get, put-open, write, close, pine-create, pine-fill, pine, delete, delete-prefix, exists, size, list
	Class  string `json:"class"` // path class
	Path   string `json:"path"`
	N      int    `json:"n,omitempty"`
	Err    string `json:"err,omitempty"`
}

func (o Op) String() string {
	s := fmt.Sprintf("%s:%s(%s)", o.Client, o.Kind, o.Class)
	if o.Err != "" {
		s += "!"
	}
	return s
}

// Log is a shared, thread-safe operation log.
type Log struct {
	mu  sync.Mutex
	ops []Op
}

func (l *Log) add(o Op) int {
	l.mu.Lock()
	defer l.mu.Unlock()
	o.Seq = len(l.ops)
	l.ops = append(l.ops, o)
	return o.Seq
}

func (l *Log) setErr(seq int, err error) {
	if err == nil {
		return
	}
	l.mu.Lock()
	if seq < len(l.ops) {
		l.ops[seq].Err = err.Error()
	}
	l.mu.Unlock()
}

func (l *Log) Ops() []Op {
	l.mu.Lock()
	defer l.mu.Unlock()
	return append([]Op(nil), l.ops...)
}

func (l *Log) Len() int {
	l.mu.Lock()
	defer l.mu.Unlock()
	return len(l.ops)
}

func (l *Log) Reset() {
	l.mu.Lock()
	l.ops = nil
	l.mu.Unlock()
}

// Classify names the role of a lake path.
func Classify(path string) string {
	parts := strings.Split(strings.Trim(path, "/"), "/")
	n := len(parts)
	if n == 0 {
		return "other"
	}
	last := parts[n-1]
	if last == "lake.zng" {
		return "lake-magic"
	}
	dir := ""
	if n >= 2 {
		dir = parts[n-2]
	}
	journal := func(prefix string) string {
		switch {
		case last == "HEAD":
			return prefix + "-HEAD"
		case last == "TAIL":
			return prefix + "-TAIL"
		case last == "snap.zng":
			return prefix + "-journal-snap"
		default:
			return prefix + "-journal-entry"
		}
	}
	switch dir {
	case "pools":
		return journal("pools")
	case "branches":
		return journal("branches")
	case "commits":
		if strings.HasSuffix(last, ".snap.zng") {
			return "commit-snap"
		}
		return "commit-object"
	case "data":
		switch {
		case strings.HasSuffix(last, "-seek.zng"):
			return "seek-index"
		case strings.HasSuffix(last, ".vng"):
			return "vector"
		default:
			return "data-object"
		}
	}
	switch last {
	case "pools", "branches", "commits", "data":
		return last + "-dir"
	}
	return "other"
}

// ErrCrashed is what every operation on a crashed handle returns.
var ErrCrashed = errors.New("verif: process crashed (injected)")

// ErrInjected is a read/write fault.
var ErrInjected = errors.New("verif: injected storage fault")

// Gate is implemented by the scheduler.  Enter blocks until the operation may
// proceed; the returned function must be called when the operation is done.
type Gate interface {
	Enter(client string, op Op) func()
}

// Engine is one handle ("process") on a backing store.
type Engine struct {
	B        Backing
	FileLike bool // local-file semantics: truncate at open, writes visible immediately, PutIfNotExists = create then fill
	Log      *Log
	Gate     Gate

	mu         sync.Mutex
	count      int  // visible-effect operations performed on this handle
	crashAt    int  // crash when count reaches this (1-based); 0 = never
	partial    bool // the crashing write is applied to its first half
	crashed    bool
	faultGet   map[int]bool // k-th Get fails (1-based)
	gets       int
	faultRead  int // the k-th Read call on any Get reader fails (1-based), 0 = never
	reads      int
	faultClass string // restrict read faults to this path class

	// set when B is a *Dir: operations run through the repository's own file
	// engine on the real directory (dir.go); one FileSystem per handle, like
	// one per process
	real storage.Engine
	dir  *Dir
}

var _ storage.Engine = (*Engine)(nil)

func New(b Backing, fileLike bool) *Engine {
	e := &Engine{B: b, FileLike: fileLike, Log: &Log{}}
	e.bindReal()
	return e
}

func (e *Engine) bindReal() {
	if d, ok := e.B.(*Dir); ok {
		e.dir, e.real, e.FileLike = d, storage.NewFileSystem(), true
	}
}

// Real reports whether this handle runs on the repository's file engine.
func (e *Engine) Real() bool { return e.real != nil }

// Fork returns a fresh handle (new "process") on the same backing store and log.
func (e *Engine) Fork() *Engine {
	f := &Engine{B: e.B, FileLike: e.FileLike, Log: e.Log, Gate: e.Gate}
	f.bindReal()
	return f
}

// CrashAt arms the fail-stop injector: the k-th counted operation (1-based)
// and everything after it fails with no effect.
func (e *Engine) CrashAt(k int, partial bool) {
	e.mu.Lock()
	e.crashAt, e.partial = k, partial
	e.mu.Unlock()
}

func (e *Engine) Crashed() bool {
	e.mu.Lock()
	defer e.mu.Unlock()
	return e.crashed
}

// Count returns the number of counted operations so far.
func (e *Engine) Count() int {
	e.mu.Lock()
	defer e.mu.Unlock()
	return e.count
}

// FailGet makes the k-th Get (1-based) on this handle fail.
func (e *Engine) FailGet(k int) {
	e.mu.Lock()
	if e.faultGet == nil {
		e.faultGet = map[int]bool{}
	}
	e.faultGet[k] = true
	e.mu.Unlock()
}

// FailRead makes the k-th Read/ReadAt call on readers of the given path
// class ("" = any) fail.
func (e *Engine) FailRead(k int, class string) {
	e.mu.Lock()
	e.faultRead, e.faultClass, e.reads = k, class, 0
	e.mu.Unlock()
}

// step accounts for one counted operation; it reports (crashNow, partial).
func (e *Engine) step() (bool, bool) {
	e.mu.Lock()
	defer e.mu.Unlock()
	if e.crashed {
		return true, false
	}
	e.count++
	if e.crashAt > 0 && e.count >= e.crashAt {
		e.crashed = true
		return true, e.partial
	}
	return false, false
}

func (e *Engine) begin(ctx context.Context, kind string, u *storage.URI, n int) (seq int, done func(), crash, partial bool) {
	op := Op{Client: ClientOf(ctx), Kind: kind, Class: Classify(u.Path), Path: u.Path, N: n}
	done = func() {}
	if e.Gate != nil && op.Client != "" {
		done = e.Gate.Enter(op.Client, op)
	}
	crash, partial = e.step()
	if crash {
		op.Err = ErrCrashed.Error()
	}
	seq = -1
	if e.Log != nil {
		seq = e.Log.add(op)
	}
	return
}

func (e *Engine) finish(seq int, err error) {
	if e.Log != nil && seq >= 0 {
		e.Log.setErr(seq, err)
	}
}

func notExist(u *storage.URI) error { return fmt.Errorf("%s: %w", u, fs.ErrNotExist) }

type memReader struct {
	*bytes.Reader
	size int64
	e    *Engine
	cls  string
}

func (r *memReader) fault() error {
	e := r.e
	e.mu.Lock()
	defer e.mu.Unlock()
	if e.crashed {
		return ErrCrashed
	}
	if e.faultRead > 0 && (e.faultClass == "" || e.faultClass == r.cls) {
		e.reads++
		if e.reads == e.faultRead {
			return ErrInjected
		}
	}
	return nil
}

func (r *memReader) Read(p []byte) (int, error) {
	if err := r.fault(); err != nil {
		return 0, err
	}
	return r.Reader.Read(p)
}

func (r *memReader) ReadAt(p []byte, off int64) (int, error) {
	if err := r.fault(); err != nil {
		return 0, err
	}
	return r.Reader.ReadAt(p, off)
}

func (r *memReader) Close() error         { return nil }
func (r *memReader) Size() (int64, error) { return r.size, nil }

func (e *Engine) Get(ctx context.Context, u *storage.URI) (storage.Reader, error) {
	if e.real != nil {
		return e.realGet(ctx, u)
	}
	seq, done, crash, _ := e.begin(ctx, "get", u, 0)
	defer done()
	if crash {
		return nil, ErrCrashed
	}
	e.mu.Lock()
	e.gets++
	fail := e.faultGet[e.gets]
	e.mu.Unlock()
	if fail {
		e.finish(seq, ErrInjected)
		return nil, ErrInjected
	}
	b, ok := e.B.get(u.Path)
	if !ok {
		err := notExist(u)
		e.finish(seq, err)
		return nil, err
	}
	return &memReader{Reader: bytes.NewReader(b), size: int64(len(b)), e: e, cls: Classify(u.Path)}, nil
}

type putWriter struct {
	e      *Engine
	ctx    context.Context
	u      *storage.URI
	buf    []byte
	closed bool
}

func (w *putWriter) Write(p []byte) (int, error) {
	e := w.e
	if !e.FileLike {
		// Object-store semantics: nothing is visible before Close, so a
		// write is not a schedulable or crashable event of its own.
		if e.Crashed() {
			return 0, ErrCrashed
		}
		w.buf = append(w.buf, p...)
		return len(p), nil
	}
	seq, done, crash, partial := e.begin(w.ctx, "write", w.u, len(p))
	defer done()
	if crash {
		if partial && len(p) > 1 {
			e.B.appendTo(w.u.Path, p[:len(p)/2])
		}
		return 0, ErrCrashed
	}
	e.B.appendTo(w.u.Path, p)
	e.finish(seq, nil)
	return len(p), nil
}

func (w *putWriter) Close() error {
	e := w.e
	if w.closed {
		return nil
	}
	w.closed = true
	seq, done, crash, _ := e.begin(w.ctx, "close", w.u, len(w.buf))
	defer done()
	if crash {
		return ErrCrashed
	}
	if !e.FileLike {
		e.B.set(w.u.Path, w.buf)
	}
	e.finish(seq, nil)
	return nil
}

func (e *Engine) Put(ctx context.Context, u *storage.URI) (io.WriteCloser, error) {
	if e.real != nil {
		return e.realPut(ctx, u)
	}
	w := &putWriter{e: e, ctx: ctx, u: u}
	if !e.FileLike {
		if e.Crashed() {
			return nil, ErrCrashed
		}
		return w, nil
	}
	_, done, crash, _ := e.begin(ctx, "put-open", u, 0)
	defer done()
	if crash {
		return nil, ErrCrashed
	}
	e.B.set(u.Path, nil) // create or truncate
	return w, nil
}

func (e *Engine) PutIfNotExists(ctx context.Context, u *storage.URI, b []byte) error {
	if e.real != nil {
		return e.realPutIfNotExists(ctx, u, b)
	}
	if !e.FileLike {
		seq, done, crash, _ := e.begin(ctx, "pine", u, len(b))
		defer done()
		if crash {
			return ErrCrashed
		}
		if !e.B.setIfAbsent(u.Path, b) {
			err := error(&fs.PathError{Op: "open", Path: u.Path, Err: fs.ErrExist}) // like os.OpenFile(O_EXCL): os.IsExist(err) is true
			e.finish(seq, err)
			return err
		}
		return nil
	}
	seq, done, crash, _ := e.begin(ctx, "pine-create", u, 0)
	if crash {
		done()
		return ErrCrashed
	}
	if !e.B.setIfAbsent(u.Path, nil) {
		done()
		err := error(&fs.PathError{Op: "open", Path: u.Path, Err: fs.ErrExist}) // like os.OpenFile(O_EXCL): os.IsExist(err) is true
		e.finish(seq, err)
		return err
	}
	done()
	_, done, crash, partial := e.begin(ctx, "pine-fill", u, len(b))
	defer done()
	if crash {
		if partial && len(b) > 1 {
			e.B.appendTo(u.Path, b[:len(b)/2])
		}
		return ErrCrashed
	}
	e.B.appendTo(u.Path, b)
	return nil
}

func (e *Engine) Delete(ctx context.Context, u *storage.URI) error {
	if e.real != nil {
		return e.realSimple(ctx, "delete", u, func(ru *storage.URI) error { return e.real.Delete(ctx, ru) })
	}
	seq, done, crash, _ := e.begin(ctx, "delete", u, 0)
	defer done()
	if crash {
		return ErrCrashed
	}
	if !e.B.del(u.Path) {
		err := notExist(u)
		e.finish(seq, err)
		return err
	}
	return nil
}

func (e *Engine) DeleteByPrefix(ctx context.Context, u *storage.URI) error {
	if e.real != nil {
		return e.realSimple(ctx, "delete-prefix", u, func(ru *storage.URI) error { return e.real.DeleteByPrefix(ctx, ru) })
	}
	_, done, crash, _ := e.begin(ctx, "delete-prefix", u, 0)
	defer done()
	if crash {
		return ErrCrashed
	}
	e.B.delPrefix(u.Path, !e.FileLike)
	return nil
}

func (e *Engine) Exists(ctx context.Context, u *storage.URI) (bool, error) {
	if e.real != nil {
		var ok bool
		err := e.realSimple(ctx, "exists", u, func(ru *storage.URI) (err error) { ok, err = e.real.Exists(ctx, ru); return })
		return ok, err
	}
	_, done, crash, _ := e.begin(ctx, "exists", u, 0)
	defer done()
	if crash {
		return false, ErrCrashed
	}
	return e.B.exists(u.Path), nil
}

func (e *Engine) Size(ctx context.Context, u *storage.URI) (int64, error) {
	if e.real != nil {
		var n int64
		err := e.realSimple(ctx, "size", u, func(ru *storage.URI) (err error) { n, err = e.real.Size(ctx, ru); return })
		return n, err
	}
	seq, done, crash, _ := e.begin(ctx, "size", u, 0)
	defer done()
	if crash {
		return 0, ErrCrashed
	}
	b, ok := e.B.get(u.Path)
	if !ok {
		err := notExist(u)
		e.finish(seq, err)
		return 0, err
	}
	return int64(len(b)), nil
}

func (e *Engine) List(ctx context.Context, u *storage.URI) ([]storage.Info, error) {
	if e.real != nil {
		var infos []storage.Info
		err := e.realSimple(ctx, "list", u, func(ru *storage.URI) (err error) { infos, err = e.real.List(ctx, ru); return })
		return infos, err
	}
	seq, done, crash, _ := e.begin(ctx, "list", u, 0)
	defer done()
	if crash {
		return nil, ErrCrashed
	}
	infos := e.B.list(u.Path)
	if len(infos) == 0 {
		err := notExist(u)
		e.finish(seq, err)
		return nil, err
	}
	return infos, nil
}

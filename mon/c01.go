package main

import (
	"bytes"
	"context"
	"fmt"
	"io"
	"runtime"
	"strings"
	"sync/atomic"

	zed "github.com/brimdata/super"
	"github.com/brimdata/super/pkg/verifhook"
	"github.com/brimdata/super/zbuf"
	"github.com/brimdata/super/zio/zngio"

	"verif/internal/gen"
	"verif/internal/rt"
)

func init() { register("C01", runC01) }

type c01Writer struct {
	Compress    bool  `json:"compress"`
	FrameThresh int   `json:"frame_thresh"`
	EOSAt       []int `json:"eos_at,omitempty"`
	NVals       int   `json:"nvals"`
	SharedCtx   bool  `json:"shared_ctx"`
}

type c01Reader struct {
	Threads  int    `json:"threads"`
	Size     int    `json:"size"`
	Validate bool   `json:"validate"`
	API      string `json:"api"` // read | pull | pull-late-copy
	Chunked  bool   `json:"chunked_source"`
	Procs    int    `json:"gomaxprocs"`
}

var c01Thresh = []int{1, 2, 7, 64, 300, 4096, 65536, zngio.DefaultFrameThresh, 1 << 20}

// c01WriteStreams generates 1..4 independently written streams, returns the
// concatenated bytes, the expected records and the writer configs.
func c01WriteStreams(r *rt.Rand, depth, maxVals int, big bool) ([]byte, []gen.Rec, []c01Writer, []string, int, error) {
	var buf bytes.Buffer
	var want []gen.Rec
	var confs []c01Writer
	var sample []string
	nstreams := 1
	if r.Chance(1, 2) {
		nstreams = r.Range(2, 4)
	}
	shared := zed.NewContext()
	frames := 0
	for s := 0; s < nstreams; s++ {
		zctx := zed.NewContext()
		wc := c01Writer{Compress: r.Bool(), FrameThresh: rt.Pick(r, c01Thresh)}
		if r.Chance(1, 4) {
			zctx = shared
			wc.SharedCtx = true
		}
		n := r.Intn(maxVals + 1)
		if wc.FrameThresh <= 300 && n > 24 {
			// every tiny frame costs the reader a 512 KiB buffer; keep such streams short
			n = 4 + n%21
		}
		if r.Chance(1, 10) {
			n = 0
		}
		vopts := gen.ValOpts{}
		if big && r.Chance(1, 4) {
			vopts.MaxElems = 40
		}
		vals := gen.Sequence(r, zctx, gen.TypeOpts{}, vopts, depth, r.Range(1, 8), n)
		if big && r.Chance(1, 3) && len(vals) > 0 {
			// a value crossing the 512 KiB small/big buffer boundary
			sz := zngio.DefaultFrameThresh - 40 + r.Intn(80)
			if r.Chance(1, 3) {
				sz = zngio.DefaultFrameThresh * 2
			}
			pos := r.Intn(len(vals))
			vals[pos] = zed.NewString(strings.Repeat("z", sz))
		}
		wc.NVals = len(vals)
		for i := 0; i < 2 && len(vals) > 0; i++ {
			wc.EOSAt = append(wc.EOSAt, r.Intn(len(vals)))
			if r.Bool() {
				break
			}
		}
		if r.Chance(1, 3) {
			wc.EOSAt = nil
		}
		w := zngio.NewWriterWithOpts(nopCloser{&buf}, zngio.WriterOpts{Compress: wc.Compress, FrameThresh: wc.FrameThresh})
		for i, v := range vals {
			for _, e := range wc.EOSAt {
				if e == i {
					if err := w.EndStream(); err != nil {
						return nil, nil, nil, nil, 0, fmt.Errorf("EndStream: %w", err)
					}
				}
			}
			if err := w.Write(v); err != nil {
				return nil, nil, nil, nil, 0, fmt.Errorf("Write: %w", err)
			}
		}
		if err := w.Close(); err != nil {
			return nil, nil, nil, nil, 0, fmt.Errorf("Close: %w", err)
		}
		want = append(want, gen.RecsOf(vals)...)
		confs = append(confs, wc)
		if len(sample) < 4 {
			sample = append(sample, fmtVals(vals, 2)...)
		}
		if wc.FrameThresh < 5000 {
			frames += len(vals) / 2
		}
	}
	return buf.Bytes(), want, confs, sample, frames, nil
}

func c01Read(data []byte, rc c01Reader, r *rt.Rand) ([]gen.Rec, error) {
	zctx := zed.NewContext()
	var src io.Reader = bytes.NewReader(data)
	if rc.Chunked {
		src = &chunkReader{r: bytes.NewReader(data), sizes: []int{1, 3, 17, 1, 4096, 2, 100000}}
	}
	zr := zngio.NewReaderWithOpts(zctx, src, zngio.ReaderOpts{Threads: rc.Threads, Size: rc.Size, Validate: rc.Validate})
	var got []gen.Rec
	switch rc.API {
	case "read":
		defer zr.Close()
		for {
			v, err := zr.Read()
			if err != nil {
				return got, err
			}
			if v == nil {
				return got, nil
			}
			got = append(got, gen.RecOf(*v))
		}
	default:
		sc, err := zr.NewScanner(context.Background(), nil)
		if err != nil {
			return nil, err
		}
		defer sc.Pull(true)
		var held zbuf.Batch
		for {
			b, err := sc.Pull(false)
			if err != nil {
				if _, ok := err.(*zbuf.Control); ok {
					continue
				}
				return got, err
			}
			if rc.API == "pull-late-copy" {
				// Legal use of the ownership rule: keep the reference to the
				// previous batch until its values are copied, which happens
				// only after the next Pull.
				if held != nil {
					got = append(got, gen.RecsOf(held.Values())...)
					held.Unref()
					held = nil
				}
				if b == nil {
					return got, nil
				}
				held = b
				continue
			}
			if b == nil {
				return got, nil
			}
			got = append(got, gen.RecsOf(b.Values())...)
			b.Unref()
		}
	}
}

func runC01(c *rt.Ctx) {
	c.Note("rule", "case = 1–4 independently written ZNG streams (own or shared type context, random compress/frameThresh/EOS positions) concatenated, read back under 3 reader configurations (threads 1..16, read size, validate, Read vs scanner Pull vs Pull with late copy, chunked source, GOMAXPROCS) and compared position by position on (harness type string, null, bytes); non-trivial = some stream has ≥4 values and a frame threshold ≤300 bytes (several value frames interleaved with type frames); distinct by case id")
	c.Note("granularity", "decode-worker interleavings are produced by the Go scheduler plus PRNG-chosen delays injected at the worker hook; out-of-order frame completions are counted, not enumerated")
	c.Note("assumptions", "generator produces spec-normal sets/maps and valid UTF-8 strings\npoison-on-release (verif hook) overwrites frame buffers and batch slots when they return to their pool")
	verifhook.SetPoison(true)
	h2.install()
	base := runtime.NumGoroutine()
	ncases := c.N(2000, 40000)
	for i := 0; i < ncases; i++ {
		c.Case("rt", i, func(o *rt.Obs) { c01Case(c, o, base, i) })
	}
	frames, ooo := h2.snapshot()
	c.Count("frames_decoded_by_workers", frames)
	c.Count("out_of_order_frame_completions", ooo)
	c.Count("buffers_poisoned_on_release", verifhook.Poisoned())
}

func c01Case(c *rt.Ctx, o *rt.Obs, base int, i int) {
	r := o.R
	depth := 3
	maxVals := 60
	if !c.Quick() {
		depth = 4
		if r.Chance(1, 20) {
			maxVals = 5000
		} else {
			maxVals = 300
		}
	}
	big := r.Chance(1, 40)
	data, want, wconfs, sample, _, err := c01WriteStreams(r, depth, maxVals, big)
	if err != nil {
		o.Desc(map[string]any{"writers": wconfs})
		o.Violation("write-error", err.Error())
		return
	}
	var rconfs []c01Reader
	for k := 0; k < 3; k++ {
		rc := c01Reader{
			Threads:  rt.Pick(r, []int{1, 2, 3, 8, 16}),
			Size:     rt.Pick(r, []int{0, 1, 16, 4096}),
			Validate: r.Bool(),
			API:      rt.Pick(r, []string{"read", "pull", "pull-late-copy"}),
			Chunked:  r.Chance(1, 3),
			Procs:    rt.Pick(r, []int{1, 2, 4, 16}),
		}
		rconfs = append(rconfs, rc)
	}
	o.Desc(map[string]any{"writers": wconfs, "readers": rconfs, "bytes": len(data), "values": len(want), "first_values": sample})
	if i%500 == 0 {
		o.Sample(map[string]any{"writers": wconfs, "readers": rconfs, "bytes": len(data), "values": len(want), "first_values": sample})
	}
	nontrivial := false
	for _, wc := range wconfs {
		if wc.NVals >= 4 && wc.FrameThresh <= 300 {
			nontrivial = true
		}
	}
	for _, rc := range rconfs {
		prev := runtime.GOMAXPROCS(rc.Procs)
		atomic.StoreUint64(&h2.delayMask, 0)
		if rc.Threads > 1 && r.Chance(2, 3) {
			atomic.StoreUint64(&h2.delayMask, r.Uint64()|1)
		}
		got, err := c01Read(data, rc, r)
		atomic.StoreUint64(&h2.delayMask, 0)
		runtime.GOMAXPROCS(prev)
		if err != nil {
			o.Violation("read-error", fmt.Sprintf("reader %+v returned error: %v (after %d of %d values)", rc, err, len(got), len(want)))
			continue
		}
		if d := diffRecs(want, got); d != "" {
			o.Violation("roundtrip-mismatch", fmt.Sprintf("reader %+v: %s", rc, d))
		}
	}
	if n, sample := settleGoroutines("zio/zngio.", base); n > 0 {
		o.Violation("goroutine-leak", fmt.Sprintf("%d zngio goroutines still alive after Close (baseline %d):\n%s", n, base, sample))
	}
	if nontrivial {
		o.Nontrivial(fmt.Sprint("rt/", o.Index))
	}
}

package main

import (
	"bytes"
	"fmt"
	"math"
	"net/netip"
	"regexp"
	"sort"
	"strings"
	"unicode"

	zed "github.com/brimdata/super"
	"github.com/brimdata/super/pkg/nano"
	"github.com/brimdata/super/zcode"
	"github.com/brimdata/super/zio/zsonio"
	"github.com/brimdata/super/zson"
	"golang.org/x/text/unicode/norm"

	"verif/internal/gen"
	"verif/internal/rt"
)

func init() { register("C02", runC02) }

// Signatures of the genuine defects of the unchanged tree (see
// findings_proposed/C02.json).  Each is computed from the observed failure:
// the comparison is repeated with exactly that one difference normalised
// away (or the input re-run with exactly that one trigger removed); only
// if that makes it pass does the failure get the defect's signature.
const (
	c02SigNegZero             = "zson:negative-zero-loses-sign"
	c02SigEmptyWrapped        = "zson:empty-container-at-top-level-or-inside-named-or-error-loses-element-type"
	c02SigEnumBare            = "zson:enum-symbol-needing-quotes-printed-bare"
	c02SigIP4In6              = "zson:ipv4-mapped-ipv6-address-misparsed"
	c02SigDefInUnion          = "zson:typedef-decorator-under-explicitly-typed-parent-rebinds-the-name"
	c02SigDecoratorBeforeDef  = "zson:enclosing-decorator-references-name-defined-inside-the-value"
	c02SigTypeNameBare        = "zson:type-name-needing-quotes-printed-bare-in-type-decorator"
	c02SigNameChain           = "zson:named-type-of-named-type-loses-inner-name"
	c02SigUnionUnderDecorator = "zson:union-decorated-value-under-explicit-enclosing-decorator-rejected"
	c02SigNamedEnum           = "zson:value-of-named-enum-type-rejected"
	c02SigDecoratedUnderName  = "zson:type-decorator-followed-by-name-decorator-rejected"
	c02SigTypeValueRebinds    = "zson:type-value-rebinds-name-used-by-other-decorators"
	c02SigMapKeyColon         = "zson:compact-map-entry-numeric-key-glued-to-ipv6-or-time-value"
	c02SigUnionElemKnown      = "zson:union-element-of-container-inside-known-named-type-loses-member-decorator"
	c02SigRebound             = "zson:rebound-type-name-drops-inner-decorators"
	c02SigJSONBigInt          = "json:integer-between-2^63-and-2^64-is-uint64-in-zson-float64-in-json"
	c02SigJSONSurrogate       = "json:surrogate-pair-escape-after-non-ascii-or-escape-rejected-by-zson"
	c02SigJSONDupKey          = "json:duplicate-key-first-wins-in-zson-last-wins-in-json"
)

// Type names for C02: the ZSON spec says type names may not be numeric
// ("0" would be a temporary numeric reference, by design not a named type).
var c02TypeNames = []string{"foo", "bar", "port", "T", "conn", "a b", "type1", "日本", "foo.bar", "x/y", "_t", "null_t", "a\"b", "é", "t-1", "1a"}

type c02Conf struct {
	Mode    string `json:"mode"` // value | stream | writer
	Pretty  int    `json:"pretty"`
	Persist string `json:"persist,omitempty"`
}

func (cf c02Conf) String() string {
	return fmt.Sprintf("%s/pretty=%d/persist=%q", cf.Mode, cf.Pretty, cf.Persist)
}

func c02PersistRE(s string) *regexp.Regexp {
	if s == "" {
		return nil
	}
	return regexp.MustCompile(s)
}

// c02Run formats vals under conf and parses the text back.  It returns the
// text(s), the parsed values (as many as could be read) and the first error.
func c02Run(vals []zed.Value, cf c02Conf) (text string, got []zed.Value, err error) {
	switch cf.Mode {
	case "value":
		var texts []string
		for _, v := range vals {
			s := zson.FormatValue(v)
			texts = append(texts, s)
			pv, perr := zson.ParseValue(zed.NewContext(), s)
			if perr != nil {
				return strings.Join(texts, "\n"), got, fmt.Errorf("ParseValue(%q): %w", clip(s, 400), perr)
			}
			got = append(got, pv.Copy())
		}
		return strings.Join(texts, "\n"), got, nil
	case "stream":
		f := zson.NewFormatter(cf.Pretty, true, c02PersistRE(cf.Persist))
		var sb strings.Builder
		for _, v := range vals {
			sb.WriteString(f.Format(v))
			sb.WriteString("\n")
		}
		text = sb.String()
	case "writer":
		var buf bytes.Buffer
		w := zsonio.NewWriter(nopCloser{&buf}, zsonio.WriterOpts{ColorDisabled: true, Pretty: cf.Pretty, Persist: c02PersistRE(cf.Persist)})
		for _, v := range vals {
			if werr := w.Write(v); werr != nil {
				return buf.String(), nil, fmt.Errorf("zsonio.Writer.Write: %w", werr)
			}
		}
		if cerr := w.Close(); cerr != nil {
			return buf.String(), nil, fmt.Errorf("zsonio.Writer.Close: %w", cerr)
		}
		text = buf.String()
	default:
		panic("c02: bad mode " + cf.Mode)
	}
	zr := zsonio.NewReader(zed.NewContext(), strings.NewReader(text))
	for {
		v, rerr := zr.Read()
		if rerr != nil {
			return text, got, fmt.Errorf("zsonio.Reader.Read (after %d values): %w", len(got), rerr)
		}
		if v == nil {
			return text, got, nil
		}
		got = append(got, v.Copy())
	}
}

func clip(s string, n int) string {
	if len(s) > n {
		return s[:n] + "…"
	}
	return s
}

// ---- normalisers (harness side) -------------------------------------------

var c02CanonNaN64 = zed.EncodeFloat64(math.NaN())

// c02NaN maps every NaN to one NaN (the statement: NaN equals NaN here).
func c02NaN(t zed.Type, b zcode.Bytes) zcode.Bytes {
	switch t.ID() {
	case zed.IDFloat16:
		if f := zed.DecodeFloat16(b); f != f {
			return zed.EncodeFloat16(float32(math.NaN()))
		}
	case zed.IDFloat32:
		if f := zed.DecodeFloat32(b); f != f {
			return zed.EncodeFloat32(float32(math.NaN()))
		}
	case zed.IDFloat64:
		if f := zed.DecodeFloat64(b); f != f {
			return c02CanonNaN64
		}
	}
	return b
}

func c02IsNegZero(t zed.Type, b zcode.Bytes) bool {
	switch t.ID() {
	case zed.IDFloat16:
		f := zed.DecodeFloat16(b)
		return f == 0 && math.Signbit(float64(f))
	case zed.IDFloat32:
		f := zed.DecodeFloat32(b)
		return f == 0 && math.Signbit(float64(f))
	case zed.IDFloat64:
		f := zed.DecodeFloat64(b)
		return f == 0 && math.Signbit(f)
	}
	return false
}

// c02NegZero maps -0.0 to +0.0 (used only to classify the known defect).
func c02NegZero(t zed.Type, b zcode.Bytes) zcode.Bytes {
	if c02IsNegZero(t, b) {
		switch t.ID() {
		case zed.IDFloat16:
			return zed.EncodeFloat16(0)
		case zed.IDFloat32:
			return zed.EncodeFloat32(0)
		default:
			return zed.EncodeFloat64(0)
		}
	}
	return b
}

// c02NFC brings string leaves to NFC: all text readers of the code
// normalise string values to NFC by design, so non-NFC strings are not part
// of what the round trip promises (see assumptions).
func c02NFC(t zed.Type, b zcode.Bytes) zcode.Bytes {
	if t.ID() == zed.IDString && !norm.NFC.IsNormal(b) {
		return norm.NFC.Bytes(b)
	}
	return b
}

func c02Prep(v zed.Value) zed.Value {
	if v.IsNull() {
		return v
	}
	body := gen.RewriteLeaves(v.Type(), v.Bytes(), c02NFC)
	// A union value whose member value is null (or whose member is the type
	// null) is generated as the null of the union; see assumptions.
	body = gen.Rebuild(v.Type(), body, func(t, parent zed.Type, b zcode.Bytes) (zcode.Bytes, bool) {
		if _, ok := t.(*zed.TypeUnion); ok && b != nil {
			it := b.Iter()
			it.Next()
			if it.Next() == nil {
				return nil, true
			}
		}
		return nil, false
	})
	return zed.NewValue(v.Type(), body)
}

// c02Rec is the comparison key of a value: harness type string, null flag,
// bytes with NaNs unified.
func c02Rec(v zed.Value) gen.Rec {
	if v.IsNull() {
		return gen.Rec{Type: gen.TypeString(v.Type()), Null: true}
	}
	return gen.Rec{Type: gen.TypeString(v.Type()), Bytes: string(gen.RewriteLeaves(v.Type(), v.Bytes(), c02NaN))}
}

func c02Recs(vals []zed.Value) []gen.Rec {
	out := make([]gen.Rec, len(vals))
	for i, v := range vals {
		out[i] = c02Rec(v)
	}
	return out
}

// ---- harness-side structure predicates -------------------------------------

// c02Implied is the harness's own reading of the spec's implied-type rule.
func c02Implied(t zed.Type) bool {
	switch t := t.(type) {
	case *zed.TypeRecord:
		for _, f := range t.Fields {
			if !c02Implied(f.Type) {
				return false
			}
		}
		return true
	case *zed.TypeArray:
		return c02Implied(t.Type)
	case *zed.TypeSet:
		return c02Implied(t.Type)
	case *zed.TypeMap:
		return c02Implied(t.KeyType) && c02Implied(t.ValType)
	case *zed.TypeError:
		return c02Implied(t.Type)
	case *zed.TypeNamed, *zed.TypeUnion, *zed.TypeEnum:
		return false
	}
	switch t.ID() {
	case zed.IDInt64, zed.IDDuration, zed.IDTime, zed.IDFloat64, zed.IDBool, zed.IDBytes, zed.IDString, zed.IDIP, zed.IDNet, zed.IDType, zed.IDNull:
		return true
	}
	return false
}

// c02NamedTypes lists the distinct named types occurring in the types of vals.
func c02NamedTypes(vals []zed.Value) []*zed.TypeNamed {
	seen := map[*zed.TypeNamed]bool{}
	var out []*zed.TypeNamed
	for _, v := range vals {
		gen.WalkType(v.Type(), func(t zed.Type) {
			if n, ok := t.(*zed.TypeNamed); ok && !seen[n] {
				seen[n] = true
				out = append(out, n)
			}
		})
	}
	return out
}

// c02Rebound reports whether two distinct named types in vals share a name
// and at least one of them has an underlying type that needs decorators
// (the trigger of the "hasName matches by name only" defect).
func c02Rebound(vals []zed.Value) bool {
	by := map[string][]*zed.TypeNamed{}
	for _, n := range c02NamedTypes(vals) {
		by[n.Name] = append(by[n.Name], n)
	}
	for _, l := range by {
		if len(l) < 2 {
			continue
		}
		for _, n := range l {
			if !c02Implied(n.Type) {
				return true
			}
		}
	}
	return false
}

// c02RenameApart gives every distinct named type its own name.
func c02RenameApart(vals []zed.Value) []zed.Value {
	zctx := zed.NewContext()
	ids := map[string]int{}
	// Key a named type by its harness type string (the values may come from
	// one context, so pointer identity would do, but this is context-free).
	rename := func(n *zed.TypeNamed) string {
		k := gen.TypeString(n)
		id, ok := ids[k]
		if !ok {
			id = len(ids) + 1
			ids[k] = id
		}
		return fmt.Sprintf("%s_u%d", n.Name, id)
	}
	out := make([]zed.Value, len(vals))
	for i, v := range vals {
		t, b := gen.Retype(zctx, v.Type(), v.Bytes(), gen.TypeMap{Rename: rename})
		out[i] = zed.NewValue(t, b)
	}
	return out
}

// ---- the O1 oracle -----------------------------------------------------------

func c02Equal(want, got []zed.Value) bool {
	if len(want) != len(got) {
		return false
	}
	for i := range want {
		if c02Rec(want[i]) != c02Rec(got[i]) {
			return false
		}
	}
	return true
}

// A c02Edit describes one known defect: when it can be involved (trigger,
// computed from the input and the observed error), and how exactly that one
// defect is taken out of the picture — either by removing its trigger from
// the input (apply) or by normalising its one known difference on both
// sides of the comparison (norm).
type c02Edit struct {
	sig     string
	trigger func(vals []zed.Value, err error) bool
	apply   func([]zed.Value) []zed.Value
	norm    func(zed.Value) zed.Value
}

func c02MapValues(vals []zed.Value, fn func(zed.Value) zed.Value) []zed.Value {
	out := make([]zed.Value, len(vals))
	for i, v := range vals {
		out[i] = fn(v)
	}
	return out
}

func c02AnyLeaf(vals []zed.Value, pred func(t zed.Type, b zcode.Bytes) bool) bool {
	found := false
	for _, v := range vals {
		gen.WalkLeaves(v.Type(), v.Bytes(), 0, func(t zed.Type, b zcode.Bytes, _ int) {
			if b != nil && pred(t, b) {
				found = true
			}
		})
	}
	return found
}

func c02AnyPos(vals []zed.Value, pred func(t, parent zed.Type, b zcode.Bytes) bool) bool {
	found := false
	for _, v := range vals {
		gen.Rebuild(v.Type(), v.Bytes(), func(t, parent zed.Type, b zcode.Bytes) (zcode.Bytes, bool) {
			found = found || pred(t, parent, b)
			return nil, false
		})
	}
	return found
}

func c02RewriteLeaves(vals []zed.Value, fn func(zed.Type, zcode.Bytes) zcode.Bytes) []zed.Value {
	return c02MapValues(vals, func(v zed.Value) zed.Value {
		if v.IsNull() {
			return v
		}
		return zed.NewValue(v.Type(), gen.RewriteLeaves(v.Type(), v.Bytes(), fn))
	})
}

// c02EmptyTrigger: an empty array/set/map that is the top-level value or
// whose directly enclosing type is a named type or error(...).
func c02EmptyTrigger(t, parent zed.Type, b zcode.Bytes) bool {
	if b == nil || len(b) != 0 {
		return false
	}
	switch t.(type) {
	case *zed.TypeArray, *zed.TypeSet, *zed.TypeMap:
	default:
		return false
	}
	switch parent.(type) {
	case nil, *zed.TypeNamed, *zed.TypeError:
		return true
	}
	return false
}

// c02IsIdent is the harness's reading of a ZSON identifier (spec §2.1).
func c02IsIdent(s string) bool {
	if s == "" {
		return false
	}
	for i, c := range s {
		letter := c == '_' || c == '$' || unicode.IsLetter(c)
		if !letter && (i == 0 || c < '0' || c > '9') {
			return false
		}
	}
	return true
}

// c02IsPlainTypeName: a type name that may be written without quotes
// (identifier characters, digits and dots, not starting with a digit).
func c02IsPlainTypeName(s string) bool {
	if s == "" {
		return false
	}
	for i, c := range s {
		digit := c >= '0' && c <= '9'
		ok := c == '_' || c == '$' || c == '.' || unicode.IsLetter(c) || digit
		if !ok || (i == 0 && digit) {
			return false
		}
	}
	return true
}

func c02EnumTrigger(t zed.Type, b zcode.Bytes) bool {
	e, ok := t.(*zed.TypeEnum)
	if !ok {
		return false
	}
	sel := int(zed.DecodeUint(b))
	return sel < len(e.Symbols) && !c02IsIdent(e.Symbols[sel])
}

func c02Is4In6(t zed.Type, b zcode.Bytes) bool {
	switch t.ID() {
	case zed.IDIP:
		return zed.DecodeIP(b).Is4In6()
	case zed.IDNet:
		return zed.DecodeNet(b).Addr().Is4In6()
	}
	return false
}

// c02ExplicitlyDecorated over-approximates the non-null positions whose
// value the formatter follows with a full type decorator although inner
// values carry decorators of their own: a container with union-typed
// elements (decorated unless every member was seen) and an error of a
// non-implied type.
func c02ExplicitlyDecorated(t, parent zed.Type, b zcode.Bytes) bool {
	if b == nil {
		return false
	}
	switch t := t.(type) {
	case *zed.TypeArray:
		return zed.IsUnionType(t.Type)
	case *zed.TypeSet:
		return zed.IsUnionType(t.Type)
	case *zed.TypeMap:
		return zed.IsUnionType(t.KeyType) || zed.IsUnionType(t.ValType)
	case *zed.TypeError:
		return !c02Implied(t)
	}
	return false
}

// c02DecoratedUnderName: an explicitly decorated container that is the
// direct underlying value of a named type: the formatter writes
// `value (type) (=name)` or `value (type) (name)`.
func c02DecoratedUnderName(t, parent zed.Type, b zcode.Bytes) bool {
	if _, ok := parent.(*zed.TypeNamed); !ok {
		return false
	}
	if _, isErr := t.(*zed.TypeError); isErr {
		return false
	}
	return c02ExplicitlyDecorated(t, parent, b)
}

// c02TypeValueRebinds: some `type` leaf holds a type value that defines a
// name which the types of the values bind to a different type.
func c02TypeValueRebinds(vals []zed.Value) bool {
	used := map[string]map[string]bool{}
	for _, n := range c02NamedTypes(vals) {
		if used[n.Name] == nil {
			used[n.Name] = map[string]bool{}
		}
		used[n.Name][gen.TypeString(n)] = true
	}
	found := false
	for _, v := range vals {
		gen.WalkLeaves(v.Type(), v.Bytes(), 0, func(t zed.Type, b zcode.Bytes, _ int) {
			if zed.TypeUnder(t).ID() != zed.IDType || b == nil || found {
				return
			}
			tv, err := zed.NewContext().LookupByValue(bytes.Clone(b))
			if err != nil {
				return
			}
			gen.WalkType(tv, func(t zed.Type) {
				if n, ok := t.(*zed.TypeNamed); ok {
					// the name is bound to some other type somewhere in the values' types
					for k := range used[n.Name] {
						if k != gen.TypeString(n) {
							found = true
						}
					}
				}
			})
		})
	}
	return found
}

// c02MapColon finds (and with edit=true nulls) the map values that the
// lexer glues to their key in compact output: a key spelled with digits,
// '-', '.', hex digits only (integers, floats, times, IPv4) directly followed by
// ':' and an IPv6 address, IPv6 net or time.
func c02MapColon(vals []zed.Value, hit func(), edit bool) []zed.Value {
	// resolve descends through names and union tags to what is printed
	var resolve func(t zed.Type, b zcode.Bytes) (zed.Type, zcode.Bytes)
	resolve = func(t zed.Type, b zcode.Bytes) (zed.Type, zcode.Bytes) {
		t = zed.TypeUnder(t)
		if u, ok := t.(*zed.TypeUnion); ok && b != nil {
			it := b.Iter()
			tag := int(zed.DecodeInt(it.Next()))
			return resolve(u.Types[tag], it.Next())
		}
		return t, b
	}
	keyKind := func(t zed.Type, b zcode.Bytes) bool {
		t, b = resolve(t, b)
		if b == nil {
			return false
		}
		id := t.ID()
		return zed.IsInteger(id) || zed.IsFloat(id) || id == zed.IDTime || id == zed.IDIP
	}
	valKind := func(t zed.Type, b zcode.Bytes) bool {
		t, b = resolve(t, b)
		if b == nil {
			return false
		}
		switch t.ID() {
		case zed.IDTime:
			return true
		case zed.IDIP:
			return zed.DecodeIP(b).Is6()
		case zed.IDNet:
			return zed.DecodeNet(b).Addr().Is6()
		}
		return false
	}
	return c02MapValues(vals, func(v zed.Value) zed.Value {
		if v.IsNull() {
			return v
		}
		body := gen.Rebuild(v.Type(), v.Bytes(), func(t, parent zed.Type, b zcode.Bytes) (zcode.Bytes, bool) {
			m, ok := t.(*zed.TypeMap)
			if !ok || b == nil {
				return nil, false
			}
			var nb zcode.Builder
			nb.BeginContainer()
			changed := false
			for it := b.Iter(); !it.Done(); {
				k, val := it.Next(), it.Next()
				nb.Append(k)
				if keyKind(m.KeyType, k) && valKind(m.ValType, val) {
					hit()
					changed = true
					nb.Append(nil)
				} else {
					nb.Append(val)
				}
			}
			nb.EndContainer()
			if !edit || !changed {
				return nil, false
			}
			nit := nb.Bytes().Iter()
			return nit.Next(), true
		})
		return zed.NewValue(v.Type(), body)
	})
}

// c02UnionElemNonImplied: a non-null union value that is an element (key,
// value) of an array/set/map and selects a member whose type is not implied
// by its syntax.
func c02UnionElemNonImplied(t, parent zed.Type, b zcode.Bytes) bool {
	u, ok := zed.TypeUnder(t).(*zed.TypeUnion)
	if !ok || b == nil {
		return false
	}
	switch parent.(type) {
	case *zed.TypeArray, *zed.TypeSet, *zed.TypeMap:
	default:
		return false
	}
	if _, named := t.(*zed.TypeNamed); named {
		return false
	}
	it := b.Iter()
	return !c02Implied(u.Types[int(zed.DecodeInt(it.Next()))])
}

func c02NullOfUnion(t zed.Type, b zcode.Bytes) bool {
	_, ok := t.(*zed.TypeUnion)
	return ok && b == nil
}

func c02HasNamed(vals []zed.Value) bool { return len(c02NamedTypes(vals)) > 0 }

func c02UnnameAll(vals []zed.Value) []zed.Value {
	zctx := zed.NewContext()
	return c02MapValues(vals, func(v zed.Value) zed.Value {
		t, b := gen.Unname(zctx, v.Type(), v.Bytes())
		return zed.NewValue(t, b)
	})
}

var c02Edits = []c02Edit{
	// The three edits that strip all type names come first: the minimisation
	// tries to drop edits in list order, so a more specific edit that
	// suffices on its own is preferred over them.
	{sig: c02SigDefInUnion,
		trigger: func(vals []zed.Value, err error) bool {
			if err != nil {
				return strings.Contains(err.Error(), "decorator conflict enclosing context") && c02HasNamed(vals)
			}
			found := false
			for _, v := range vals {
				gen.WalkType(v.Type(), func(t zed.Type) {
					if u, ok := t.(*zed.TypeUnion); ok {
						for _, m := range u.Types {
							if _, ok := m.(*zed.TypeNamed); ok {
								found = true
							}
						}
					}
				})
			}
			return found
		},
		apply: c02UnnameAll},
	{sig: c02SigNamedEnum,
		trigger: func(vals []zed.Value, err error) bool {
			return err != nil && strings.Contains(err.Error(), "enum value is not of type enum") &&
				c02AnyPos(vals, func(t, parent zed.Type, b zcode.Bytes) bool {
					_, isEnum := t.(*zed.TypeEnum)
					_, named := parent.(*zed.TypeNamed)
					return isEnum && named && b != nil
				})
		},
		apply: c02UnnameAll},
	{sig: c02SigDecoratorBeforeDef,
		trigger: func(vals []zed.Value, err error) bool {
			return err != nil && strings.Contains(err.Error(), "no such type name") && c02HasNamed(vals)
		},
		apply: c02UnnameAll},
	{sig: c02SigNegZero,
		trigger: func(vals []zed.Value, _ error) bool { return c02AnyLeaf(vals, c02IsNegZero) },
		apply:   func(vals []zed.Value) []zed.Value { return c02RewriteLeaves(vals, c02NegZero) }},
	{sig: c02SigEmptyWrapped,
		trigger: func(vals []zed.Value, _ error) bool { return c02AnyPos(vals, c02EmptyTrigger) },
		apply: func(vals []zed.Value) []zed.Value {
			// the empty container becomes a null of the same type
			return c02MapValues(vals, func(v zed.Value) zed.Value {
				return zed.NewValue(v.Type(), gen.Rebuild(v.Type(), v.Bytes(), func(t, parent zed.Type, b zcode.Bytes) (zcode.Bytes, bool) {
					return nil, c02EmptyTrigger(t, parent, b)
				}))
			})
		}},
	{sig: c02SigEnumBare,
		trigger: func(vals []zed.Value, _ error) bool { return c02AnyLeaf(vals, c02EnumTrigger) },
		apply: func(vals []zed.Value) []zed.Value {
			zctx := zed.NewContext()
			m := gen.TypeMap{Enum: func(syms []string) []string {
				out := make([]string, len(syms))
				for i, s := range syms {
					out[i] = s
					if !c02IsIdent(s) {
						out[i] = fmt.Sprintf("sym%d_%x", i, s)
					}
				}
				return out
			}}
			return c02MapValues(vals, func(v zed.Value) zed.Value {
				t, b := gen.Retype(zctx, v.Type(), v.Bytes(), m)
				return zed.NewValue(t, b)
			})
		}},
	{sig: c02SigIP4In6,
		trigger: func(vals []zed.Value, _ error) bool { return c02AnyLeaf(vals, c02Is4In6) },
		apply: func(vals []zed.Value) []zed.Value {
			return c02RewriteLeaves(vals, func(t zed.Type, b zcode.Bytes) zcode.Bytes {
				if !c02Is4In6(t, b) {
					return b
				}
				if t.ID() == zed.IDIP {
					return zed.EncodeIP(netip.MustParseAddr("2001:db8::ffff:a00:1"))
				}
				return zed.EncodeNet(netip.MustParsePrefix("2001:db8::ffff:a00:0/120"))
			})
		}},
	{sig: c02SigTypeNameBare,
		trigger: func(vals []zed.Value, _ error) bool {
			for _, n := range c02NamedTypes(vals) {
				if !c02IsPlainTypeName(n.Name) {
					return true
				}
			}
			return false
		},
		apply: func(vals []zed.Value) []zed.Value {
			zctx := zed.NewContext()
			m := gen.TypeMap{Rename: func(n *zed.TypeNamed) string {
				if c02IsPlainTypeName(n.Name) {
					return n.Name
				}
				return fmt.Sprintf("q_%x", n.Name)
			}}
			return c02MapValues(vals, func(v zed.Value) zed.Value {
				t, b := gen.Retype(zctx, v.Type(), v.Bytes(), m)
				return zed.NewValue(t, b)
			})
		}},
	{sig: c02SigNameChain,
		trigger: func(vals []zed.Value, _ error) bool {
			for _, n := range c02NamedTypes(vals) {
				if _, ok := n.Type.(*zed.TypeNamed); ok {
					return true
				}
			}
			return false
		},
		apply: func(vals []zed.Value) []zed.Value {
			zctx := zed.NewContext()
			return c02MapValues(vals, func(v zed.Value) zed.Value {
				t, b := gen.Retype(zctx, v.Type(), v.Bytes(), gen.TypeMap{CollapseNameChains: true})
				return zed.NewValue(t, b)
			})
		}},
	{sig: c02SigUnionUnderDecorator,
		trigger: func(vals []zed.Value, err error) bool {
			return err != nil && strings.Contains(err.Error(), "is not in union type") &&
				c02AnyPos(vals, func(t, parent zed.Type, b zcode.Bytes) bool {
					return c02ExplicitlyDecorated(t, parent, b) || c02NullOfUnion(t, b)
				})
		},
		apply: func(vals []zed.Value) []zed.Value {
			return c02MapValues(vals, func(v zed.Value) zed.Value {
				// explicitly decorated containers become nulls; then the null
				// of a union becomes a null of the union's first member
				body := gen.Rebuild(v.Type(), v.Bytes(), func(t, parent zed.Type, b zcode.Bytes) (zcode.Bytes, bool) {
					return nil, c02ExplicitlyDecorated(t, parent, b)
				})
				body = gen.Rebuild(v.Type(), body, func(t, parent zed.Type, b zcode.Bytes) (zcode.Bytes, bool) {
					if !c02NullOfUnion(t, b) {
						return nil, false
					}
					u := t.(*zed.TypeUnion)
					for tag, m := range u.Types {
						if zed.TypeUnder(m) != zed.TypeNull {
							var nb zcode.Builder
							nb.BeginContainer()
							nb.Append(zed.EncodeInt(int64(tag)))
							nb.Append(nil)
							nb.EndContainer()
							it := nb.Bytes().Iter()
							return it.Next(), true
						}
					}
					return nil, false
				})
				return zed.NewValue(v.Type(), body)
			})
		}},
	{sig: c02SigDecoratedUnderName,
		trigger: func(vals []zed.Value, err error) bool {
			return err != nil && (strings.Contains(err.Error(), "unknown ast type in Analyzer.convertAny(): <nil>") || strings.Contains(err.Error(), "decorator conflict enclosing context")) &&
				c02AnyPos(vals, c02DecoratedUnderName)
		},
		apply: func(vals []zed.Value) []zed.Value {
			return c02MapValues(vals, func(v zed.Value) zed.Value {
				return zed.NewValue(v.Type(), gen.Rebuild(v.Type(), v.Bytes(), func(t, parent zed.Type, b zcode.Bytes) (zcode.Bytes, bool) {
					return nil, c02DecoratedUnderName(t, parent, b)
				}))
			})
		}},
	{sig: c02SigTypeValueRebinds,
		trigger: func(vals []zed.Value, _ error) bool { return c02TypeValueRebinds(vals) },
		apply: func(vals []zed.Value) []zed.Value {
			return c02RewriteLeaves(vals, func(t zed.Type, b zcode.Bytes) zcode.Bytes {
				if zed.TypeUnder(t).ID() != zed.IDType {
					return b
				}
				zctx := zed.NewContext()
				tv, err := zctx.LookupByValue(bytes.Clone(b))
				if err != nil {
					return b
				}
				return zed.EncodeTypeValue(gen.UnnameType(zctx, tv))
			})
		}},
	{sig: c02SigMapKeyColon,
		trigger: func(vals []zed.Value, _ error) bool {
			found := false
			c02MapColon(vals, func() { found = true }, false)
			return found
		},
		apply: func(vals []zed.Value) []zed.Value { return c02MapColon(vals, func() {}, true) }},
	{sig: c02SigUnionElemKnown,
		trigger: func(vals []zed.Value, _ error) bool {
			return c02HasNamed(vals) && c02AnyPos(vals, c02UnionElemNonImplied)
		},
		apply: func(vals []zed.Value) []zed.Value {
			return c02MapValues(vals, func(v zed.Value) zed.Value {
				return zed.NewValue(v.Type(), gen.Rebuild(v.Type(), v.Bytes(), func(t, parent zed.Type, b zcode.Bytes) (zcode.Bytes, bool) {
					return nil, c02UnionElemNonImplied(t, parent, b)
				}))
			})
		}},
	{sig: c02SigRebound,
		trigger: func(vals []zed.Value, _ error) bool { return c02Rebound(vals) },
		apply:   c02RenameApart},
}

func c02ApplyEdits(vals []zed.Value, edits []c02Edit) []zed.Value {
	// twice: one edit can move a value into the trigger position of another
	// (a union collapsing to its member makes an empty array top-level)
	for pass := 0; pass < 2; pass++ {
		for _, e := range edits {
			if e.apply != nil {
				vals = e.apply(vals)
			}
		}
	}
	return vals
}

func c02Passes(vals []zed.Value, cf c02Conf, edits []c02Edit) (ok bool) {
	// an edit may produce a shape the type context refuses (two union
	// members becoming equal); that attempt then simply does not count
	defer func() {
		if recover() != nil {
			ok = false
		}
	}()
	in := c02ApplyEdits(vals, edits)
	_, got, err := c02Run(in, cf)
	if err != nil || len(in) != len(got) {
		return false
	}
	for i := range in {
		w, g := in[i], got[i]
		for _, e := range edits {
			if e.norm != nil {
				w, g = e.norm(w), e.norm(g)
			}
		}
		if c02Rec(w) != c02Rec(g) {
			return false
		}
	}
	return true
}

// c02Check runs one configuration over vals and reports violations.  It
// returns the produced text.
func c02Check(o *rt.Obs, vals []zed.Value, cf c02Conf) string {
	text, got, err := c02Run(vals, cf)
	o.Count("values_formatted_and_parsed", int64(len(vals)))
	if err == nil && c02Equal(vals, got) {
		return text
	}
	// Not the identity.  It is attributed to known defects only if the same
	// input with exactly their triggers removed (their one known difference
	// normalised) round-trips; the set is then minimised so that every
	// reported defect is necessary for the explanation.
	var need []c02Edit
	has := map[string]bool{}
	cur := err
	edited := vals
	for round := 0; round < 5; round++ {
		added := false
		for _, e := range c02Edits {
			// a trigger may also appear only after another edit (a union
			// collapsing to its member makes an empty array top-level)
			if !has[e.sig] && (e.trigger(vals, cur) || e.trigger(edited, cur)) {
				need = append(need, e)
				has[e.sig] = true
				added = true
			}
		}
		if !added {
			break
		}
		// the error that shows once these triggers are gone may belong to
		// another known defect that was hidden behind the first
		ok := func() (ok bool) {
			defer func() {
				if recover() != nil {
					ok = false
				}
			}()
			edited = c02ApplyEdits(vals, need)
			var got2 []zed.Value
			_, got2, cur = c02Run(edited, cf)
			return cur == nil && c02Equal(edited, got2)
		}()
		if ok {
			break
		}
	}
	if len(need) > 0 && c02Passes(vals, cf, need) {
		for i := 0; i < len(need); {
			without := append(append([]c02Edit{}, need[:i]...), need[i+1:]...)
			if c02Passes(vals, cf, without) {
				need = without
			} else {
				i++
			}
		}
		for _, e := range need {
			o.Violation(e.sig, c02Detail(cf, vals, got, text, err))
		}
		o.Count("known_defect_hits", 1)
		return text
	}
	sig := "roundtrip-mismatch"
	if err != nil {
		sig = "parse-error"
	}
	var trig []string
	for _, e := range need {
		trig = append(trig, e.sig)
	}
	d := c02Detail(cf, vals, got, text, err)
	if len(trig) > 0 {
		in := c02ApplyEdits(vals, need)
		text2, got2, err2 := c02Run(in, cf)
		d = fmt.Sprintf("(triggers of known defects present but their removal does not make it pass: %v)\n%s\n---- with the triggers removed ----\n%s", trig, d, c02Detail(cf, in, got2, text2, err2))
		for i := range in {
			if i >= len(got2) {
				break
			}
			w, g := in[i], got2[i]
			for _, e := range need {
				if e.norm != nil {
					w, g = e.norm(w), e.norm(g)
				}
			}
			if c02Rec(w) != c02Rec(g) {
				d += fmt.Sprintf("\nunder the normalisers value %d still differs:\n want %s\n got  %s", i, fmtRec(c02Rec(w)), fmtRec(c02Rec(g)))
				break
			}
		}
	}
	o.Violation(sig+":"+cf.Mode, d)
	return text
}

func c02Detail(cf c02Conf, want, got []zed.Value, text string, err error) string {
	var sb strings.Builder
	fmt.Fprintf(&sb, "config %s\n", cf)
	if err != nil {
		fmt.Fprintf(&sb, "error: %v\n", err)
	}
	w, g := c02Recs(want), c02Recs(got)
	if d := diffRecs(w, g); d != "" {
		fmt.Fprintf(&sb, "%s\n", d)
		for i := range w {
			if i >= len(g) || w[i] != g[i] {
				fmt.Fprintf(&sb, "input value %d: %s\n", i, clip(fmtVal(want[i]), 600))
				break
			}
		}
	}
	fmt.Fprintf(&sb, "text:\n%s", clip(text, 1500))
	return sb.String()
}

// ---- cases -------------------------------------------------------------------

func runC02(c *rt.Ctx) {
	c.Note("rule", "O1 case = a sequence of 1–6 generated values (all constructors, boundary primitives, shadowed type names) pushed through zson.FormatValue→ParseValue per value, one zson.Formatter.Format stream (typedefs persisting, pretty∈{0,2,4}, persist∈{none,.*,one name}) read by one zsonio.Reader, and zsonio.Writer (per-value scope) read by one zsonio.Reader; compared position by position on (harness type string, null, bytes with NaNs unified).  'pair' cases enumerate every (outer2∘outer1∘inner) combination of type constructors with null / empty / partially populated / fully populated values.  O2 case = 1–3 generated RFC 8259 documents read by jsonio.Reader and zsonio.Reader and compared the same way.  non-trivial = some value's type is not implied (the text must carry a decorator or typedef) or the text contains an escape; distinct by case id")
	c.Note("assumptions", strings.Join([]string{
		"string values are generated in NFC: zson.Build, jsonio and zeekio normalise string values to NFC on input by design (search relies on it), so a non-NFC string is not promised to survive text",
		"type names are not numeric (docs/formats/zson.md §2.2: numeric names are temporary references, not named types) and not primitive names",
		"sets/maps are generated spec-normal; record field names unique; strings valid UTF-8",
		"O2: JSON numbers whose magnitude the JSON reader rejects (beyond float64) and unpaired \\u surrogate escapes are not generated; there is no value the JSON reader produces to compare with",
		"a union value holding a null member value (tag, null) is generated as the null of the union: zed.BuildUnion itself never builds (tag, null) but the union's null, and where the union type is known from context ZSON has no spelling that tells the two apart",
		"NaN payloads are not compared (statement: NaN equals NaN here)",
	}, "\n"))
	nval := c.N(2500, 40000)
	for i := 0; i < nval; i++ {
		c.Case("val", i, func(o *rt.Obs) { c02ValCase(c, o) })
	}
	npair := c02PairCount()
	for i := 0; i < npair; i++ {
		c.Case("pair", i, func(o *rt.Obs) { c02PairCase(c, o, i) })
	}
	njson := c.N(5000, 80000)
	for i := 0; i < njson; i++ {
		c.Case("json", i, func(o *rt.Obs) { c02JSONCase(c, o) })
	}
	for i := range c02Directed {
		c.Case("directed", i, func(o *rt.Obs) { c02Directed[i].run(o) })
	}
}

func c02Confs(r *rt.Rand, vals []zed.Value) []c02Conf {
	persist := func() string {
		switch r.Intn(3) {
		case 0:
			return ""
		case 1:
			return ".*"
		}
		if named := c02NamedTypes(vals); len(named) > 0 {
			return "^" + regexp.QuoteMeta(rt.Pick(r, named).Name) + "$"
		}
		return "^foo$"
	}
	pretties := []int{0, 2, 4}
	return []c02Conf{
		{Mode: "value"},
		{Mode: "stream", Pretty: rt.Pick(r, pretties), Persist: persist()},
		{Mode: "writer", Pretty: rt.Pick(r, pretties), Persist: persist()},
	}
}

func c02Nontrivial(vals []zed.Value, texts ...string) bool {
	for _, v := range vals {
		if !c02Implied(v.Type()) {
			return true
		}
	}
	for _, t := range texts {
		if strings.Contains(t, "\\") {
			return true
		}
	}
	return false
}

func c02ValCase(c *rt.Ctx, o *rt.Obs) {
	r := o.R
	depth := 3
	if !c.Quick() && r.Chance(1, 4) {
		depth = 4
	}
	zctx := zed.NewContext()
	n := r.Range(1, 6)
	topts := gen.TypeOpts{TypeNames: c02TypeNames}
	vopts := gen.ValOpts{}
	if r.Chance(1, 3) {
		// a third of the cases stay clear of the -0.0 defect so that the
		// rest of the value is compared exactly
		vopts.NoNegZero = true
	}
	raw := gen.Sequence(r, zctx, topts, vopts, depth, r.Range(1, 4), n)
	vals := make([]zed.Value, len(raw))
	for i, v := range raw {
		vals[i] = c02Prep(v)
	}
	confs := c02Confs(r, vals)
	o.Desc(map[string]any{"values": fmtVals(vals, 6), "types": c02TypeStrings(vals), "confs": confs})
	var texts []string
	for _, cf := range confs {
		texts = append(texts, c02Check(o, vals, cf))
	}
	if c02Nontrivial(vals, texts...) {
		o.Nontrivial(fmt.Sprint("val/", o.Index))
		o.Count("cases_with_decorator_or_escape", 1)
	}
	if c02Rebound(vals) {
		o.Count("cases_with_rebound_type_name", 1)
	}
	if o.Index%1000 == 0 {
		o.Sample(map[string]any{"kind": "val", "confs": confs, "text_stream": clip(texts[1], 500)})
	}
}

func c02TypeStrings(vals []zed.Value) []string {
	seen := map[string]bool{}
	var out []string
	for _, v := range vals {
		s := gen.TypeString(v.Type())
		if !seen[s] {
			seen[s] = true
			out = append(out, clip(s, 300))
		}
	}
	return out
}

// ---- exhaustive pairs of constructors -------------------------------------------

type c02Inner struct {
	name string
	mk   func(z *zed.Context) zed.Type
}

type c02Outer struct {
	name string
	mk   func(z *zed.Context, t zed.Type) zed.Type
}

func mustNamed(z *zed.Context, name string, t zed.Type) zed.Type {
	n, err := z.LookupTypeNamed(name, t)
	if err != nil {
		panic(err)
	}
	return n
}

var c02Inners = []c02Inner{
	{"int64", func(z *zed.Context) zed.Type { return zed.TypeInt64 }},
	{"string", func(z *zed.Context) zed.Type { return zed.TypeString }},
	{"uint8", func(z *zed.Context) zed.Type { return zed.TypeUint8 }},
	{"float32", func(z *zed.Context) zed.Type { return zed.TypeFloat32 }},
	{"null", func(z *zed.Context) zed.Type { return zed.TypeNull }},
	{"type", func(z *zed.Context) zed.Type { return zed.TypeType }},
	{"ip", func(z *zed.Context) zed.Type { return zed.TypeIP }},
	{"enum", func(z *zed.Context) zed.Type { return z.LookupTypeEnum([]string{"A", "b c", "null"}) }},
	{"named-implied", func(z *zed.Context) zed.Type { return mustNamed(z, "foo", zed.TypeInt64) }},
	{"named-nonimplied", func(z *zed.Context) zed.Type { return mustNamed(z, "port", zed.TypeUint16) }},
	{"union-implied", func(z *zed.Context) zed.Type { return z.LookupTypeUnion([]zed.Type{zed.TypeInt64, zed.TypeString}) }},
	{"union-ambiguous", func(z *zed.Context) zed.Type {
		return z.LookupTypeUnion([]zed.Type{zed.TypeInt8, zed.TypeInt16, mustNamed(z, "foo", zed.TypeInt16)})
	}},
	{"union-named-and-under", func(z *zed.Context) zed.Type {
		return z.LookupTypeUnion([]zed.Type{zed.TypeString, mustNamed(z, "bar", zed.TypeString)})
	}},
	{"record-implied", func(z *zed.Context) zed.Type {
		return z.MustLookupTypeRecord([]zed.Field{zed.NewField("a", zed.TypeInt64), zed.NewField("type", zed.TypeString)})
	}},
	{"record-nonimplied", func(z *zed.Context) zed.Type {
		return z.MustLookupTypeRecord([]zed.Field{zed.NewField("a", zed.TypeUint32), zed.NewField("b c", zed.TypeString)})
	}},
	{"record-empty", func(z *zed.Context) zed.Type { return z.MustLookupTypeRecord(nil) }},
	{"array-nonimplied", func(z *zed.Context) zed.Type { return z.LookupTypeArray(zed.TypeUint8) }},
}

var c02Outers = []c02Outer{
	{"id", func(z *zed.Context, t zed.Type) zed.Type { return t }},
	{"record-field", func(z *zed.Context, t zed.Type) zed.Type {
		return z.MustLookupTypeRecord([]zed.Field{zed.NewField("x", t), zed.NewField("y", zed.TypeInt64)})
	}},
	{"array", func(z *zed.Context, t zed.Type) zed.Type { return z.LookupTypeArray(t) }},
	{"set", func(z *zed.Context, t zed.Type) zed.Type { return z.LookupTypeSet(t) }},
	{"map-key", func(z *zed.Context, t zed.Type) zed.Type { return z.LookupTypeMap(t, zed.TypeString) }},
	{"map-val", func(z *zed.Context, t zed.Type) zed.Type { return z.LookupTypeMap(zed.TypeString, t) }},
	{"map-val-uint", func(z *zed.Context, t zed.Type) zed.Type { return z.LookupTypeMap(zed.TypeUint8, t) }},
	{"union-with-bool", func(z *zed.Context, t zed.Type) zed.Type {
		if zed.IsUnionType(t) || t == zed.TypeBool {
			return nil
		}
		return z.LookupTypeUnion([]zed.Type{zed.TypeBool, t})
	}},
	{"union-with-own-name", func(z *zed.Context, t zed.Type) zed.Type {
		if zed.IsUnionType(t) {
			return nil
		}
		return z.LookupTypeUnion([]zed.Type{t, mustNamed(z, "T", t)})
	}},
	{"error", func(z *zed.Context, t zed.Type) zed.Type { return z.LookupTypeError(t) }},
	{"named", func(z *zed.Context, t zed.Type) zed.Type { return mustNamed(z, "conn", t) }},
	{"named-quoted", func(z *zed.Context, t zed.Type) zed.Type { return mustNamed(z, "a b", t) }},
}

func c02PairCount() int { return len(c02Inners) * len(c02Outers) * len(c02Outers) }

func c02PairCase(c *rt.Ctx, o *rt.Obs, idx int) {
	in := c02Inners[idx%len(c02Inners)]
	o1 := c02Outers[idx/len(c02Inners)%len(c02Outers)]
	o2 := c02Outers[idx/len(c02Inners)/len(c02Outers)]
	zctx := zed.NewContext()
	t := o1.mk(zctx, in.mk(zctx))
	if t != nil {
		t = o2.mk(zctx, t)
	}
	name := o2.name + "∘" + o1.name + "∘" + in.name
	if t == nil || (o1.name == "id" && o2.name != "id") {
		// not a legal combination (union directly in union) or a duplicate of another index
		o.Desc(map[string]any{"combo": name, "skipped": true})
		o.Count("pair_combinations_skipped", 1)
		return
	}
	// Value variants: null, all-empty containers, sparse (unions partially
	// populated), dense (several elements so every union member is likely
	// seen), never-null.
	var vals []zed.Value
	vals = append(vals, zed.NewValue(t, nil))
	for _, vo := range []gen.ValOpts{
		{MaxElems: 0, NullNum: 0, NullDen: 1, NoNegZero: true, SmallStrings: true},
		{MaxElems: 1, NullNum: 0, NullDen: 1, NoNegZero: true, SmallStrings: true},
		{MaxElems: 1, NullNum: 1, NullDen: 2, NoNegZero: true, SmallStrings: true},
		{MaxElems: 6, NullNum: 1, NullDen: 6, NoNegZero: true, SmallStrings: true},
		{MaxElems: 6, NullNum: 0, NullDen: 1, NoNegZero: true, SmallStrings: true},
	} {
		vo.TypeValues = []zed.Type{t, zed.TypeInt64}
		vg := &gen.ValGen{R: o.R, O: vo}
		vals = append(vals, c02Prep(vg.Value(t)), c02Prep(vg.Value(t)))
	}
	o.Desc(map[string]any{"combo": name, "type": gen.TypeString(t), "values": fmtVals(vals, 12)})
	o.Count("pair_combinations_run", 1)
	var texts []string
	// every value alone in every mode (so that one value's failure does not
	// hide another's), then the whole list as one stream
	for _, v := range vals {
		one := []zed.Value{v}
		texts = append(texts, c02Check(o, one, c02Conf{Mode: "value"}))
		c02Check(o, one, c02Conf{Mode: "writer", Pretty: 2})
	}
	c02Check(o, vals, c02Conf{Mode: "stream", Pretty: 0})
	c02Check(o, vals, c02Conf{Mode: "stream", Pretty: 4, Persist: ".*"})
	c02Check(o, vals, c02Conf{Mode: "writer", Pretty: 0, Persist: "^conn$"})
	if c02Nontrivial(vals, texts...) {
		o.Nontrivial("pair/" + name)
	}
	if idx%400 == 0 {
		o.Sample(map[string]any{"kind": "pair", "combo": name, "texts": texts})
	}
}

// ---- directed cases for the known defects ---------------------------------------

type c02DirectedCase struct {
	name string
	run  func(o *rt.Obs)
}

func c02RunAllModes(o *rt.Obs, vals []zed.Value) {
	o.Desc(map[string]any{"values": fmtVals(vals, 8), "types": c02TypeStrings(vals)})
	for _, cf := range []c02Conf{{Mode: "value"}, {Mode: "stream", Pretty: 0}, {Mode: "writer", Pretty: 2}} {
		c02Check(o, vals, cf)
	}
}

var c02Directed = []c02DirectedCase{
	{"negative-zero", func(o *rt.Obs) {
		nz := math.Copysign(0, -1)
		c02RunAllModes(o, []zed.Value{
			zed.NewValue(zed.TypeFloat64, zed.EncodeFloat64(nz)),
			zed.NewValue(zed.TypeFloat32, zed.EncodeFloat32(float32(nz))),
			zed.NewValue(zed.TypeFloat16, zed.EncodeFloat16(float32(nz))),
		})
	}},
	{"top-level-empty-array", func(o *rt.Obs) {
		z := zed.NewContext()
		c02RunAllModes(o, []zed.Value{
			zed.NewValue(z.LookupTypeArray(zed.TypeInt64), zcode.Bytes{}),
		})
	}},
	{"top-level-empty-set-map-named", func(o *rt.Obs) {
		z := zed.NewContext()
		c02RunAllModes(o, []zed.Value{
			zed.NewValue(z.LookupTypeSet(zed.TypeString), zcode.Bytes{}),
			zed.NewValue(z.LookupTypeMap(zed.TypeString, zed.TypeUint8), zcode.Bytes{}),
			zed.NewValue(mustNamed(z, "foo", z.LookupTypeArray(zed.TypeUint8)), zcode.Bytes{}),
		})
	}},
	{"redefined-named-type-in-union", func(o *rt.Obs) {
		// [{x:{y:63}}(=foo),{x:{abcdef:{x:{y:127}}(foo)}}(=foo)]  (zson/ztests/redefined-named-types.yaml)
		z := zed.NewContext()
		inner := z.MustLookupTypeRecord([]zed.Field{zed.NewField("y", zed.TypeInt64)})
		foo1 := mustNamed(z, "foo", z.MustLookupTypeRecord([]zed.Field{zed.NewField("x", inner)}))
		foo2 := mustNamed(z, "foo", z.MustLookupTypeRecord([]zed.Field{zed.NewField("x",
			z.MustLookupTypeRecord([]zed.Field{zed.NewField("abcdef", foo1)}))}))
		u := z.LookupTypeUnion([]zed.Type{foo1, foo2})
		var b zcode.Builder
		rec := func(n int64, wraps int) {
			for i := 0; i < wraps; i++ {
				b.BeginContainer()
			}
			b.Append(zed.EncodeInt(n))
			for i := 0; i < wraps; i++ {
				b.EndContainer()
			}
		}
		b.BeginContainer() // array
		b.BeginContainer() // union elem 1
		b.Append(zed.EncodeInt(int64(u.TagOf(foo1))))
		rec(63, 2)
		b.EndContainer()
		b.BeginContainer() // union elem 2
		b.Append(zed.EncodeInt(int64(u.TagOf(foo2))))
		rec(127, 4)
		b.EndContainer()
		b.EndContainer()
		it := b.Bytes().Iter()
		c02RunAllModes(o, []zed.Value{zed.NewValue(z.LookupTypeArray(u), it.Next())})
	}},
	{"rebound-name-across-stream", func(o *rt.Obs) {
		// 1(=foo) then {a:1(uint8)}(=foo) in one Formatter.Format stream
		z := zed.NewContext()
		foo1 := mustNamed(z, "foo", zed.TypeInt64)
		foo2 := mustNamed(z, "foo", z.MustLookupTypeRecord([]zed.Field{zed.NewField("a", zed.TypeUint8)}))
		var b zcode.Builder
		b.BeginContainer()
		b.Append(zed.EncodeUint(1))
		b.EndContainer()
		it := b.Bytes().Iter()
		vals := []zed.Value{zed.NewValue(foo1, zed.EncodeInt(1)), zed.NewValue(foo2, it.Next())}
		o.Desc(map[string]any{"values": fmtVals(vals, 8), "types": c02TypeStrings(vals)})
		c02Check(o, vals, c02Conf{Mode: "stream", Pretty: 0})
	}},
	{"empty-container-inside-error", func(o *rt.Obs) {
		// error(|{}|) of type error(|{bool:ip}|)
		z := zed.NewContext()
		c02RunAllModes(o, []zed.Value{
			zed.NewValue(z.LookupTypeError(z.LookupTypeMap(zed.TypeBool, zed.TypeIP)), zcode.Bytes{}),
		})
	}},
	{"enum-symbol-not-an-identifier", func(o *rt.Obs) {
		z := zed.NewContext()
		c02RunAllModes(o, []zed.Value{zed.NewValue(z.LookupTypeEnum([]string{"a b", "c"}), zed.EncodeUint(0))})
	}},
	{"ipv4-mapped-ipv6", func(o *rt.Obs) {
		c02RunAllModes(o, []zed.Value{
			zed.NewValue(zed.TypeIP, zed.EncodeIP(netip.MustParseAddr("::ffff:10.0.0.1"))),
			zed.NewValue(zed.TypeNet, zed.EncodeNet(netip.MustParsePrefix("::ffff:10.0.0.0/104"))),
		})
	}},
	{"type-name-needing-quotes-in-type-decorator", func(o *rt.Obs) {
		// null(["a b"=int64]) is printed as null([a b=int64])
		z := zed.NewContext()
		c02RunAllModes(o, []zed.Value{zed.NewValue(z.LookupTypeArray(mustNamed(z, "a b", zed.TypeInt64)), nil)})
	}},
	{"named-type-of-named-type", func(o *rt.Obs) {
		// 1 of type conn=foo=int64 is printed as 1(=conn)
		z := zed.NewContext()
		c02RunAllModes(o, []zed.Value{zed.NewValue(mustNamed(z, "conn", mustNamed(z, "foo", zed.TypeInt64)), zed.EncodeInt(1))})
	}},
	{"typedef-inside-explicitly-decorated-union-array", func(o *rt.Obs) {
		// {x:["a"(=bar),"b"],y:1} then {x:["["(=bar)]([(string,bar)]),y:8}
		// value mode: the decorator names bar before (=bar) was analysed;
		// writer mode (bar known from the first value): (=bar) under the
		// union parent re-binds bar to the union and picks the string member
		z := zed.NewContext()
		bar := mustNamed(z, "bar", zed.TypeString)
		u := z.LookupTypeUnion([]zed.Type{zed.TypeString, bar})
		rec := z.MustLookupTypeRecord([]zed.Field{zed.NewField("x", z.LookupTypeArray(u)), zed.NewField("y", zed.TypeInt64)})
		mk := func(y int64, elems ...[2]string) zed.Value {
			var b zcode.Builder
			b.BeginContainer()
			b.BeginContainer()
			for _, e := range elems {
				tag := u.TagOf(zed.TypeString)
				if e[0] == "bar" {
					tag = u.TagOf(bar)
				}
				b.BeginContainer()
				b.Append(zed.EncodeInt(int64(tag)))
				b.Append(zed.EncodeString(e[1]))
				b.EndContainer()
			}
			b.EndContainer()
			b.Append(zed.EncodeInt(y))
			b.EndContainer()
			it := b.Bytes().Iter()
			return zed.NewValue(rec, it.Next())
		}
		c02RunAllModes(o, []zed.Value{mk(1, [2]string{"bar", "a"}, [2]string{"string", "b"}), mk(8, [2]string{"bar", "["})})
	}},
	{"null-of-union-field-under-known-named-record", func(o *rt.Obs) {
		// null(({x:(int64,string),y:int64},T={x:(int64,string),y:int64}))
		// {x:null((int64,string)),y:null(int64)}(T)(({x:(int64,string),y:int64},T))
		z := zed.NewContext()
		u := z.LookupTypeUnion([]zed.Type{zed.TypeInt64, zed.TypeString})
		rec := z.MustLookupTypeRecord([]zed.Field{zed.NewField("x", u), zed.NewField("y", zed.TypeInt64)})
		T := mustNamed(z, "T", rec)
		U := z.LookupTypeUnion([]zed.Type{rec, T})
		var b zcode.Builder
		b.BeginContainer()
		b.Append(zed.EncodeInt(int64(U.TagOf(T))))
		b.BeginContainer()
		b.Append(nil)
		b.Append(nil)
		b.EndContainer()
		b.EndContainer()
		it := b.Bytes().Iter()
		vals := []zed.Value{zed.NewValue(U, nil), zed.NewValue(U, it.Next())}
		o.Desc(map[string]any{"values": fmtVals(vals, 8), "types": c02TypeStrings(vals)})
		c02Check(o, vals, c02Conf{Mode: "stream", Pretty: 0})
	}},
	{"value-of-named-enum", func(o *rt.Obs) {
		// %HEADS(flip=enum(HEADS,TAILS)) — the spec's own example (§2.4.6)
		z := zed.NewContext()
		c02RunAllModes(o, []zed.Value{zed.NewValue(mustNamed(z, "flip", z.LookupTypeEnum([]string{"HEADS", "TAILS"})), zed.EncodeUint(0))})
	}},
	{"decorated-map-under-type-name", func(o *rt.Obs) {
		// |{254(uint8):-32766(int16)}|(|{uint8:(int8,int16)}|)(=T)
		z := zed.NewContext()
		u := z.LookupTypeUnion([]zed.Type{zed.TypeInt8, zed.TypeInt16})
		T := mustNamed(z, "T", z.LookupTypeMap(zed.TypeUint8, u))
		var b zcode.Builder
		b.BeginContainer()
		b.Append(zed.EncodeUint(254))
		b.BeginContainer()
		b.Append(zed.EncodeInt(int64(u.TagOf(zed.TypeInt16))))
		b.Append(zed.EncodeInt(-32766))
		b.EndContainer()
		b.EndContainer()
		it := b.Bytes().Iter()
		v := zed.NewValue(T, it.Next())
		// alone: `(type)(=T)`; twice in one stream: the second is `(type)(T)`
		c02RunAllModes(o, []zed.Value{v, v})
	}},
	{"type-value-rebinds-name", func(o *rt.Obs) {
		// 1(=conn)  <conn=string>  2(conn)   in one stream
		z := zed.NewContext()
		conn := mustNamed(z, "conn", zed.TypeInt64)
		z2 := zed.NewContext()
		other := mustNamed(z2, "conn", zed.TypeString)
		vals := []zed.Value{
			zed.NewValue(conn, zed.EncodeInt(1)),
			zed.NewValue(zed.TypeType, zed.EncodeTypeValue(other)),
			zed.NewValue(conn, zed.EncodeInt(2)),
		}
		o.Desc(map[string]any{"values": fmtVals(vals, 8), "types": c02TypeStrings(vals)})
		c02Check(o, vals, c02Conf{Mode: "stream", Pretty: 0})
		c02Check(o, vals, c02Conf{Mode: "writer", Pretty: 0, Persist: ".*"})
	}},
	{"compact-map-numeric-key-time-or-ipv6-value", func(o *rt.Obs) {
		// |{1:2020-01-01T00:00:00Z}|   |{1:2::3}|
		z := zed.NewContext()
		mk := func(vt zed.Type, val zcode.Bytes) zed.Value {
			var b zcode.Builder
			b.BeginContainer()
			b.Append(zed.EncodeInt(1))
			b.Append(val)
			b.EndContainer()
			it := b.Bytes().Iter()
			return zed.NewValue(z.LookupTypeMap(zed.TypeInt64, vt), it.Next())
		}
		c02RunAllModes(o, []zed.Value{
			mk(zed.TypeTime, zed.EncodeTime(nano.Ts(1577836800000000000))),
			mk(zed.TypeIP, zed.EncodeIP(netip.MustParseAddr("2::3"))),
		})
	}},
	{"union-element-inside-known-named-type", func(o *rt.Obs) {
		// {a:[1(uint8),2]}(=T) then {a:[1(uint8)]} of the same type in one
		// stream: the second is printed {a:[1]([(uint8,int64)])}(T) and the
		// 1 reads back as the int64 member
		z := zed.NewContext()
		u := z.LookupTypeUnion([]zed.Type{zed.TypeUint8, zed.TypeInt64})
		T := mustNamed(z, "T", z.MustLookupTypeRecord([]zed.Field{zed.NewField("a", z.LookupTypeArray(u))}))
		mk := func(elems ...[2]any) zed.Value {
			var b zcode.Builder
			b.BeginContainer()
			b.BeginContainer()
			for _, e := range elems {
				b.BeginContainer()
				b.Append(zed.EncodeInt(int64(u.TagOf(e[0].(zed.Type)))))
				b.Append(e[1].(zcode.Bytes))
				b.EndContainer()
			}
			b.EndContainer()
			b.EndContainer()
			it := b.Bytes().Iter()
			return zed.NewValue(T, it.Next())
		}
		vals := []zed.Value{
			mk([2]any{zed.TypeUint8, zed.EncodeUint(1)}, [2]any{zed.TypeInt64, zed.EncodeInt(2)}),
			mk([2]any{zed.TypeUint8, zed.EncodeUint(1)}),
		}
		o.Desc(map[string]any{"values": fmtVals(vals, 8), "types": c02TypeStrings(vals)})
		c02Check(o, vals, c02Conf{Mode: "stream", Pretty: 0})
	}},
	{"json-surrogate-pair-escape-after-non-ascii", func(o *rt.Obs) {
		n := &jnode{K: 's', S: "\u00e9\U0001f600"}
		n.finish(rt.NewRand(1))
		n.P = []string{"\u00e9", `\uD83D\uDE00`}
		c02JSONCheckDocs(o, []*jnode{n})
	}},
	{"json-integer-above-int64", func(o *rt.Obs) {
		c02JSONCheckDocs(o, []*jnode{(&jnode{K: 'a', Kids: []*jnode{{K: 'n', Num: "18446744073709551615"}, {K: 'n', Num: "9223372036854775808"}}}).finish(rt.NewRand(1))})
	}},
	{"json-duplicate-key", func(o *rt.Obs) {
		c02JSONCheckDocs(o, []*jnode{(&jnode{K: 'o', Keys: []string{"a", "b", "a"}, Kids: []*jnode{{K: 'n', Num: "1"}, {K: 't'}, {K: 's', S: "x"}}}).finish(rt.NewRand(1))})
	}},
	{"name-rebound-inside-an-error-type", func(o *rt.Obs) {
		// {key:[1](=bar),e:error(2)(error(bar=error(int64)))} twice in one stream: the
		// second value's key must not be printed `(bar)`
		z := zed.NewContext()
		bar1 := mustNamed(z, "bar", z.LookupTypeArray(zed.TypeInt64))
		bar2 := mustNamed(z, "bar", z.LookupTypeError(zed.TypeInt64))
		rec := z.MustLookupTypeRecord([]zed.Field{zed.NewField("key", bar1), zed.NewField("e", z.LookupTypeError(bar2))})
		var b zcode.Builder
		b.BeginContainer()
		b.BeginContainer()
		b.Append(zed.EncodeInt(1))
		b.EndContainer()
		b.Append(zed.EncodeInt(2))
		b.EndContainer()
		it := b.Bytes().Iter()
		v := zed.NewValue(rec, it.Next())
		c02RunAllModes(o, []zed.Value{v, v})
	}},
}

func sortedKeys(m map[string]bool) []string {
	var out []string
	for k := range m {
		out = append(out, k)
	}
	sort.Strings(out)
	return out
}

package main

import (
	"fmt"
	"math/big"
	"strings"
	"unicode/utf8"

	zed "github.com/brimdata/super"
	"github.com/brimdata/super/zio"
	"github.com/brimdata/super/zio/jsonio"
	"github.com/brimdata/super/zio/zsonio"

	"verif/internal/rt"
)

// jnode is the harness's own JSON document tree (RFC 8259).
type jnode struct {
	K    byte     // 'o' object, 'a' array, 's' string, 'n' number, 't', 'f', 'z' (null)
	S    string   // decoded string
	Num  string   // number literal as spelled
	Keys []string // object member names (decoded), parallel to Kids
	Kids []*jnode
	// Spelling, fixed when the node is generated so that an edited copy of
	// the document renders identically everywhere else.
	Seed uint64     // whitespace around this node
	P    []string   // one piece of text per rune of S
	KP   [][]string // the same for each key
}

var c02JSONKeys = []string{"a", "b", "c", "id", "key", "name", "type", "null", "true", "error", "", "a b", "a.b", "a\"b", "a\\b", "a/b",
	"日本", "é", "é", "\U0001f600", "a\nb", "a\x00b", "\t", "0", "1a", "$x", "_a", "[", "{", "(", ":", ",", "//", " ", "\x7f", "A", "ts"}

var c02JSONStrings = []string{"", "a", "foo", "hello world", "a\"b", "a\\b", "a/b", "</script>", "a\nb", "a\tb", "a\rb", "\b\f", "\x00", "a\x00b", "\x01\x1f", "\x7f",
	"é", "é", "日本語", "\U0001f600", "\U0001f600\U0001f601", "x\U00010000y", "\U0010ffff", " ", "\ufeff", "\\u0041", "${x}", "null", "true", "1", "1.5", "-1", "1e5", "0x10",
	"2020-01-01T00:00:00Z", "10.0.0.1", "::1", "10.0.0.0/8", "1h", "<int64>", "(int64)", "{", "}", "[", "]", "|[", "]|", "//", "/* x */", "=>", "`", "a`b", "%A", "  ", "퟿", "�", "Å", "ẛ̣",
	"Å", "ﬁ", "Ａ", "İ", strings.Repeat("x", 300)}

var c02JSONInts = []string{"0", "-0", "1", "-1", "7", "42", "127", "255", "65536", "2147483648", "4294967296", "9007199254740992", "9007199254740993",
	"9223372036854775807", "-9223372036854775808", "-9223372036854775807"}

// integers in (2^63, 2^64): trigger of the known uint64/float64 disagreement
var c02JSONBigInts = []string{"9223372036854775808", "9223372036854775809", "18446744073709551615", "10000000000000000000", "12345678901234567890"}

// integers beyond uint64 / below int64: float64 in both readers
var c02JSONHugeInts = []string{"18446744073709551616", "18446744073709551617", "100000000000000000000", "-9223372036854775809", "-18446744073709551616", "340282366920938463463374607431768211456"}

var c02JSONFloats = []string{"0.0", "-0.0", "1.0", "1.5", "-1.5", "0.1", "0.3", "3.141592653589793", "1e0", "1E0", "1e5", "1E5", "1e+5", "1E+5", "1e-5", "1E-5", "1.5e300", "-1.5e300", "2.5e-300",
	"1e21", "1e22", "123456789.125", "0.000001", "1.7976931348623157e308", "5e-324", "2.2250738585072014e-308", "4.9e-324", "0e0", "-0e0", "0.0e-0", "9007199254740993.0", "1.00000000000000000000000001", "0.5", "100e-2", "18446744073709551615.0", "9223372036854775808.0"}

type jgen struct {
	r       *rt.Rand
	dupKeys bool
	bigInts bool
}

func (g *jgen) num() *jnode {
	r := g.r
	switch r.Intn(10) {
	case 0, 1, 2:
		return &jnode{K: 'n', Num: rt.Pick(r, c02JSONInts)}
	case 3:
		n := int64(r.Uint64())
		if r.Bool() {
			n = int64(r.Intn(2000)) - 1000
		}
		return &jnode{K: 'n', Num: fmt.Sprint(n)}
	case 4:
		if g.bigInts {
			return &jnode{K: 'n', Num: rt.Pick(r, c02JSONBigInts)}
		}
		return &jnode{K: 'n', Num: rt.Pick(r, c02JSONHugeInts)}
	case 5:
		return &jnode{K: 'n', Num: rt.Pick(r, c02JSONHugeInts)}
	case 6:
		// random decimal with fraction and exponent inside float64 range
		s := ""
		if r.Bool() {
			s = "-"
		}
		s += fmt.Sprint(r.Intn(10))
		if r.Bool() {
			s += "." + fmt.Sprint(r.Intn(1000000))
		}
		if r.Bool() {
			s += rt.Pick(r, []string{"e", "E", "e+", "E-", "e-", "E+"}) + fmt.Sprint(r.Intn(300))
		} else if !strings.Contains(s, ".") {
			s += ".0"
		}
		return &jnode{K: 'n', Num: s}
	}
	return &jnode{K: 'n', Num: rt.Pick(r, c02JSONFloats)}
}

func (g *jgen) str() string {
	r := g.r
	if r.Chance(1, 5) {
		n := r.Intn(8)
		var sb strings.Builder
		for i := 0; i < n; i++ {
			switch r.Intn(7) {
			case 0:
				sb.WriteRune(rune(r.Intn(0x80)))
			case 1:
				sb.WriteRune(rune(0x80 + r.Intn(0x780)))
			case 2:
				c := rune(0x800 + r.Intn(0xf800))
				if c >= 0xd800 && c <= 0xdfff {
					c = 'x'
				}
				sb.WriteRune(c)
			case 3:
				sb.WriteRune(rune(0x10000 + r.Intn(0x100000)))
			case 4:
				sb.WriteRune(rune(0x300 + r.Intn(0x70))) // combining marks: non-NFC sequences
			default:
				sb.WriteByte(byte('a' + r.Intn(26)))
			}
		}
		return sb.String()
	}
	return rt.Pick(r, c02JSONStrings)
}

func (g *jgen) node(depth int) *jnode {
	r := g.r
	k := r.Intn(10)
	if depth <= 0 && k < 4 {
		k = 4 + r.Intn(6)
	}
	switch k {
	case 0, 1:
		n := &jnode{K: 'o'}
		cnt := r.Intn(5)
		used := map[string]bool{}
		for i := 0; i < cnt; i++ {
			key := rt.Pick(r, c02JSONKeys)
			if r.Chance(1, 12) {
				key = g.str()
			}
			if used[key] && !g.dupKeys {
				continue
			}
			used[key] = true
			n.Keys = append(n.Keys, key)
			n.Kids = append(n.Kids, g.node(depth-1))
		}
		if g.dupKeys && len(n.Keys) > 0 && r.Chance(1, 2) {
			n.Keys = append(n.Keys, n.Keys[r.Intn(len(n.Keys))])
			n.Kids = append(n.Kids, g.node(depth-1))
		}
		return n
	case 2, 3:
		n := &jnode{K: 'a'}
		cnt := r.Intn(5)
		uniform := r.Bool()
		var first *jnode
		for i := 0; i < cnt; i++ {
			kid := g.node(depth - 1)
			if uniform && first != nil && kid.K != first.K && kid.K != 'z' {
				// make runs of same-kind elements common
				kid = g.sameKind(first, depth-1)
			}
			if first == nil && kid.K != 'z' {
				first = kid
			}
			n.Kids = append(n.Kids, kid)
		}
		return n
	case 4, 5:
		return &jnode{K: 's', S: g.str()}
	case 6, 7:
		return g.num()
	case 8:
		if r.Bool() {
			return &jnode{K: 't'}
		}
		return &jnode{K: 'f'}
	}
	return &jnode{K: 'z'}
}

func (g *jgen) sameKind(like *jnode, depth int) *jnode {
	for i := 0; i < 20; i++ {
		n := g.node(depth)
		if n.K == like.K || (like.K == 't' && n.K == 'f') || (like.K == 'f' && n.K == 't') {
			return n
		}
	}
	return &jnode{K: 'z'}
}

// spell chooses, rune by rune, how a string is written (raw, short escape,
// \uXXXX with upper or lower case hex, surrogate pair).
func spell(r *rt.Rand, s string) []string {
	var out []string
	for _, c := range s {
		hex := func(u rune) string {
			if r.Bool() {
				return fmt.Sprintf("\\u%04x", u)
			}
			return fmt.Sprintf("\\u%04X", u)
		}
		esc := func() string {
			if c >= 0x10000 {
				c2 := c - 0x10000
				return hex(0xd800+(c2>>10)) + hex(0xdc00+(c2&0x3ff))
			}
			return hex(c)
		}
		var p string
		switch {
		case c == '"' || c == '\\':
			if r.Chance(1, 4) {
				p = esc()
			} else {
				p = "\\" + string(c)
			}
		case c < 0x20:
			short := map[rune]string{'\b': `\b`, '\f': `\f`, '\n': `\n`, '\r': `\r`, '\t': `\t`}[c]
			if short != "" && r.Chance(3, 4) {
				p = short
			} else {
				p = esc()
			}
		case c == '/':
			switch r.Intn(4) {
			case 0:
				p = `\/`
			case 1:
				p = esc()
			default:
				p = "/"
			}
		default:
			if c != utf8.RuneError && r.Chance(1, 8) {
				p = esc()
			} else {
				p = string(c)
			}
		}
		out = append(out, p)
	}
	return out
}

// finish fixes the spelling of every node of the tree (directed cases build
// trees by hand and call it too).
func (n *jnode) finish(r *rt.Rand) *jnode {
	n.Seed = r.Uint64()
	if n.K == 's' {
		n.P = spell(r, n.S)
	}
	n.KP = nil
	for _, k := range n.Keys {
		n.KP = append(n.KP, spell(r, k))
	}
	for _, k := range n.Kids {
		k.finish(r)
	}
	return n
}

func jws(r *rt.Rand) string {
	switch r.Intn(8) {
	case 0:
		return " "
	case 1:
		return "\n"
	case 2:
		return "\t "
	case 3:
		return "\r\n"
	}
	return ""
}

// render writes n as RFC 8259 text; a pure function of the tree.
func (n *jnode) render(sb *strings.Builder) {
	r := rt.NewRand(n.Seed)
	sb.WriteString(jws(r))
	switch n.K {
	case 'o':
		sb.WriteByte('{')
		for i := range n.Keys {
			if i > 0 {
				sb.WriteByte(',')
			}
			kr := rt.NewRand(n.Kids[i].Seed ^ 0x5bd1e995)
			sb.WriteString(jws(kr))
			sb.WriteByte('"')
			sb.WriteString(strings.Join(n.KP[i], ""))
			sb.WriteByte('"')
			sb.WriteString(jws(kr))
			sb.WriteByte(':')
			n.Kids[i].render(sb)
		}
		sb.WriteString(jws(r))
		sb.WriteByte('}')
	case 'a':
		sb.WriteByte('[')
		for i, k := range n.Kids {
			if i > 0 {
				sb.WriteByte(',')
			}
			k.render(sb)
		}
		sb.WriteString(jws(r))
		sb.WriteByte(']')
	case 's':
		sb.WriteByte('"')
		sb.WriteString(strings.Join(n.P, ""))
		sb.WriteByte('"')
	case 'n':
		sb.WriteString(n.Num)
	case 't':
		sb.WriteString("true")
	case 'f':
		sb.WriteString("false")
	default:
		sb.WriteString("null")
	}
	sb.WriteString(jws(r))
}

func c02Render(docs []*jnode) string {
	var sb strings.Builder
	for i, d := range docs {
		if i > 0 {
			sb.WriteString("\n")
		}
		d.render(&sb)
	}
	return sb.String()
}

var (
	c02Two63 = new(big.Int).Lsh(big.NewInt(1), 63)
	c02Two64 = new(big.Int).Lsh(big.NewInt(1), 64)
)

func c02IsBigInt(num string) bool {
	if strings.ContainsAny(num, ".eE") {
		return false
	}
	v, ok := new(big.Int).SetString(num, 10)
	return ok && v.Cmp(c02Two63) >= 0 && v.Cmp(c02Two64) < 0
}

// jstats inspects a document for the triggers of the two known defects.
func (n *jnode) hasBigInt() bool {
	if n.K == 'n' && c02IsBigInt(n.Num) {
		return true
	}
	for _, k := range n.Kids {
		if k.hasBigInt() {
			return true
		}
	}
	return false
}

func (n *jnode) hasDupKey() bool {
	if n.K == 'o' {
		seen := map[string]bool{}
		for _, k := range n.Keys {
			if seen[k] {
				return true
			}
			seen[k] = true
		}
	}
	for _, k := range n.Kids {
		if k.hasDupKey() {
			return true
		}
	}
	return false
}

func isSurrogateEscape(p string) bool {
	return len(p) == 12 && p[0] == '\\' && (p[1] == 'u')
}

func (n *jnode) hasSurrogateEscape() bool {
	for _, p := range n.P {
		if isSurrogateEscape(p) {
			return true
		}
	}
	for _, kp := range n.KP {
		for _, p := range kp {
			if isSurrogateEscape(p) {
				return true
			}
		}
	}
	for _, k := range n.Kids {
		if k.hasSurrogateEscape() {
			return true
		}
	}
	return false
}

type jedit struct{ bigints, dups, surrogates bool }

// edit returns a copy of the document with the chosen triggers removed:
// integers in [2^63,2^64) re-spelled as the same number in float syntax;
// of members with equal names only the last kept; characters written as a
// \uD8xx\uDCxx escape pair written raw.  Everything else renders as before.
func (n *jnode) edit(e jedit) *jnode {
	c := &jnode{K: n.K, S: n.S, Num: n.Num, Seed: n.Seed}
	unsur := func(ps []string, s string) []string {
		if !e.surrogates {
			return ps
		}
		out := make([]string, 0, len(ps))
		i := 0
		for _, r := range s {
			if isSurrogateEscape(ps[i]) {
				out = append(out, string(r))
			} else {
				out = append(out, ps[i])
			}
			i++
		}
		return out
	}
	c.P = unsur(n.P, n.S)
	if e.bigints && n.K == 'n' && c02IsBigInt(n.Num) {
		c.Num = n.Num[:1] + "." + n.Num[1:] + "e" + fmt.Sprint(len(n.Num)-1)
	}
	last := map[string]int{}
	for i, k := range n.Keys {
		last[k] = i
	}
	for i, k := range n.Kids {
		if n.K == 'o' {
			if e.dups && last[n.Keys[i]] != i {
				continue
			}
			c.Keys = append(c.Keys, n.Keys[i])
			c.KP = append(c.KP, unsur(n.KP[i], n.Keys[i]))
		}
		c.Kids = append(c.Kids, k.edit(e))
	}
	return c
}

func c02ReadAll(zr zio.Reader) ([]zed.Value, error) {
	var out []zed.Value
	for {
		v, err := zr.Read()
		if err != nil {
			return out, err
		}
		if v == nil {
			return out, nil
		}
		out = append(out, v.Copy())
	}
}

// c02JSONCompare reads text with both readers; ok means: both accept and
// yield the same sequence.
func c02JSONCompare(text string) (ok bool, detail string) {
	jv, jerr := c02ReadAll(jsonio.NewReader(zed.NewContext(), strings.NewReader(text)))
	zv, zerr := c02ReadAll(zsonio.NewReader(zed.NewContext(), strings.NewReader(text)))
	if jerr != nil {
		return false, fmt.Sprintf("JSON reader rejects the document: %v", jerr)
	}
	if zerr != nil {
		return false, fmt.Sprintf("ZSON reader rejects a document the JSON reader accepts (after %d values): %v", len(zv), zerr)
	}
	if d := diffRecs(c02Recs(jv), c02Recs(zv)); d != "" {
		return false, "JSON reader (want) vs ZSON reader (got): " + d
	}
	return true, ""
}

func c02JSONCheckDocs(o *rt.Obs, docs []*jnode) string {
	text := c02Render(docs)
	o.Desc(map[string]any{"json": clip(text, 3000)})
	ok, detail := c02JSONCompare(text)
	o.Count("json_documents_compared", int64(len(docs)))
	if ok {
		return text
	}
	var trig jedit
	for _, d := range docs {
		trig.bigints = trig.bigints || d.hasBigInt()
		trig.dups = trig.dups || d.hasDupKey()
		trig.surrogates = trig.surrogates || d.hasSurrogateEscape()
	}
	passes := func(e jedit) bool {
		var edited []*jnode
		for _, d := range docs {
			edited = append(edited, d.edit(e))
		}
		ok, _ := c02JSONCompare(c02Render(edited))
		return ok
	}
	if (trig != jedit{}) && passes(trig) {
		// minimise: drop every edit that is not needed
		need := trig
		if t := need; t.bigints {
			t.bigints = false
			if passes(t) {
				need = t
			}
		}
		if t := need; t.dups {
			t.dups = false
			if passes(t) {
				need = t
			}
		}
		if t := need; t.surrogates {
			t.surrogates = false
			if passes(t) {
				need = t
			}
		}
		d := detail + "\ntext:\n" + clip(text, 1500)
		if need.bigints {
			o.Violation(c02SigJSONBigInt, d)
		}
		if need.dups {
			o.Violation(c02SigJSONDupKey, d)
		}
		if need.surrogates {
			o.Violation(c02SigJSONSurrogate, d)
		}
		o.Count("known_defect_hits", 1)
		return text
	}
	sig := "json-zson-disagree"
	if strings.Contains(detail, "rejects") {
		sig = "json-rejected-by-zson"
		if strings.HasPrefix(detail, "JSON reader rejects") {
			sig = "json-generator-produced-text-json-reader-rejects"
		}
	}
	o.Violation(sig, detail+"\ntext:\n"+clip(text, 1500))
	return text
}

func c02JSONCase(c *rt.Ctx, o *rt.Obs) {
	r := o.R
	g := &jgen{r: r, dupKeys: r.Chance(1, 15), bigInts: r.Chance(1, 10)}
	n := 1
	if r.Chance(1, 3) {
		n = r.Range(2, 3)
	}
	depth := 3
	if !c.Quick() && r.Chance(1, 4) {
		depth = 5
	}
	var docs []*jnode
	for i := 0; i < n; i++ {
		docs = append(docs, g.node(depth))
	}
	for _, d := range docs {
		d.finish(r)
	}
	text := c02JSONCheckDocs(o, docs)
	if strings.Contains(text, "\\") {
		o.Nontrivial(fmt.Sprint("json/", o.Index))
		o.Count("json_cases_with_escape", 1)
	}
	if o.Index%2000 == 0 {
		o.Sample(map[string]any{"kind": "json", "text": clip(text, 400)})
	}
}

package main

import (
	"bytes"
	"fmt"
	"math"
	"net/netip"
	"os"
	"os/exec"
	"sort"
	"strings"
	"sync"

	zed "github.com/brimdata/super"
	"github.com/brimdata/super/compiler/optimizer/demand"
	"github.com/brimdata/super/pkg/field"
	"github.com/brimdata/super/pkg/nano"
	"github.com/brimdata/super/runtime/vam"
	"github.com/brimdata/super/runtime/vcache"
	"github.com/brimdata/super/vng"
	"github.com/brimdata/super/zbuf"
	"github.com/brimdata/super/zcode"
	"github.com/brimdata/super/zio/vngio"

	"verif/internal/gen"
	"verif/internal/rt"
)

func init() { register("C03", runC03) }

// ---- driving the code under test ------------------------------------------------

func c03Write(vals []zed.Value) ([]byte, error) {
	var buf bytes.Buffer
	w := vngio.NewWriter(nopCloser{&buf})
	for i, v := range vals {
		if err := w.Write(v); err != nil {
			return nil, fmt.Errorf("Write(value %d): %w", i, err)
		}
	}
	if err := w.Close(); err != nil {
		return nil, fmt.Errorf("Close: %w", err)
	}
	return buf.Bytes(), nil
}

func c03RowRead(data []byte) ([]zed.Value, error) {
	zr, err := vngio.NewReader(zed.NewContext(), bytes.NewReader(data), demand.All())
	if err != nil {
		return nil, fmt.Errorf("vngio.NewReader: %w", err)
	}
	var out []zed.Value
	for {
		v, err := zr.Read()
		if err != nil {
			return out, fmt.Errorf("Read (after %d values): %w", len(out), err)
		}
		if v == nil {
			return out, nil
		}
		out = append(out, v.Copy())
	}
}

func c03NewCache(data []byte) (*vcache.Object, *vng.Object, error) {
	o, err := vng.NewObject(bytes.NewReader(data))
	if err != nil {
		return nil, nil, fmt.Errorf("vng.NewObject: %w", err)
	}
	return vcache.NewObjectFromVNG(o), o, nil
}

// c03Pull materializes the projection (nil paths = everything) of vo.
func c03Pull(zctx *zed.Context, vo *vcache.Object, paths []field.Path) (out []zed.Value, err error) {
	defer func() {
		if r := recover(); r != nil {
			sig, _ := rt.PanicSignature(r)
			err = &c03Panic{sig: sig, msg: fmt.Sprint(r), stack: rt.TrimStack(rt.StackString(), 40)}
		}
	}()
	p := vam.NewProjection(zctx, vo, paths)
	for {
		b, perr := p.Pull(false)
		if perr != nil {
			return out, perr
		}
		if b == nil {
			return out, nil
		}
		for _, v := range b.Values() {
			out = append(out, v.Copy())
		}
		b.Unref()
	}
}

var _ zbuf.Batch

type c03Panic struct{ sig, msg, stack string }

func (p *c03Panic) Error() string { return "panic: " + p.msg }

// ---- metadata shape ----------------------------------------------------------------

type c03Shape struct {
	Const, Dict, Plain, Nulls, Dynamic, Union, Named, Error, Map, Set, Array, Record int
	MaxDict                                                                          int
	// unions whose values can be null (own Nulls node or nulls inherited
	// from an enclosing record)
	NullableUnion int
	// float dictionaries holding entries that compare equal but differ in
	// bytes (-0.0 next to +0.0, several NaN payloads)
	FloatDictAmbiguous int
	// columns that match an open crash finding (the process would die inside
	// an errgroup goroutine of vcache), by finding signature
	Crash map[string]int
}

func (s *c03Shape) features() []string {
	var f []string
	add := func(n int, name string) {
		if n > 0 {
			f = append(f, name)
		}
	}
	add(s.Const, "const")
	add(s.Dict, "dict")
	add(s.Nulls, "nulls")
	add(s.Dynamic, "dynamic")
	add(s.Union, "union")
	return f
}

const (
	c03CrashEnum       = "vcache:enum-column-(dict-encoded-or-all-null)-panics-in-loader-goroutine"
	c03CrashNetPlain   = "vcache.loadVals:plain-net-column-indexes-nil-slice-in-loader-goroutine"
	c03CrashErrorNulls = "vcache:error-typed-column-with-own-or-inherited-nulls-panics-in-loader-goroutine"
)

// c03Walk collects the shape of the metadata below m.  nullsAbove says
// whether a Nulls node lies between m and the nearest enclosing
// array/set/map/union/dynamic boundary (vcache flattens nulls down to there).
func c03Walk(m vng.Metadata, s *c03Shape, nullsAbove bool) {
	switch m := m.(type) {
	case *vng.Dynamic:
		s.Dynamic++
		for _, v := range m.Values {
			c03Walk(v, s, false)
		}
	case *vng.Nulls:
		s.Nulls++
		c03Walk(m.Values, s, true)
	case *vng.Named:
		s.Named++
		c03Walk(m.Values, s, nullsAbove)
	case *vng.Error:
		s.Error++
		if nullsAbove {
			s.Crash[c03CrashErrorNulls]++
		}
		c03Walk(m.Values, s, nullsAbove)
	case *vng.Record:
		s.Record++
		for _, f := range m.Fields {
			c03Walk(f.Values, s, nullsAbove)
		}
	case *vng.Array:
		s.Array++
		c03Walk(m.Values, s, false)
	case *vng.Set:
		s.Set++
		c03Walk(m.Values, s, false)
	case *vng.Map:
		s.Map++
		c03Walk(m.Keys, s, false)
		c03Walk(m.Values, s, false)
	case *vng.Union:
		s.Union++
		if nullsAbove {
			s.NullableUnion++
		}
		for _, v := range m.Values {
			c03Walk(v, s, false)
		}
	case *vng.Const:
		s.Const++
	case *vng.Primitive:
		if len(m.Dict) > 0 {
			s.Dict++
			if len(m.Dict) > s.MaxDict {
				s.MaxDict = len(m.Dict)
			}
			if _, ok := m.Typ.(*zed.TypeEnum); ok {
				s.Crash[c03CrashEnum]++
			}
			if zed.IsFloat(m.Typ.ID()) && c03AmbiguousFloatDict(m) {
				s.FloatDictAmbiguous++
			}
		} else {
			s.Plain++
			if m.Typ == zed.TypeNet && m.Count > 0 {
				s.Crash[c03CrashNetPlain]++
			}
			if _, ok := m.Typ.(*zed.TypeEnum); ok && m.Count == 0 {
				s.Crash[c03CrashEnum]++
			}
		}
	}
}

func c03AmbiguousFloatDict(m *vng.Primitive) bool {
	nan, pz, nz := 0, 0, 0
	for _, e := range m.Dict {
		f := zed.DecodeFloat(e.Value.Bytes())
		switch {
		case f != f:
			nan++
		case f == 0 && math.Signbit(f):
			nz++
		case f == 0:
			pz++
		}
	}
	return nan > 1 || (pz > 0 && nz > 0)
}

func c03Tops(m vng.Metadata) []vng.Metadata {
	if d, ok := m.(*vng.Dynamic); ok {
		return d.Values
	}
	return []vng.Metadata{m}
}

func c03ShapeOf(m vng.Metadata) *c03Shape {
	s := &c03Shape{Crash: map[string]int{}}
	c03Walk(m, s, false)
	return s
}

// c03SubShape gives the shape of what a projection of the given top-level
// field names may load (whole top-level fields, conservatively).
func c03SubShape(m vng.Metadata, first map[string]bool) *c03Shape {
	s := &c03Shape{Crash: map[string]int{}}
	nullsAbove := false
	var visitTop func(m vng.Metadata)
	visitTop = func(m vng.Metadata) {
		switch m := m.(type) {
		case *vng.Nulls:
			nullsAbove = true
			visitTop(m.Values)
		case *vng.Named:
			visitTop(m.Values)
		case *vng.Error:
			if nullsAbove {
				s.Crash[c03CrashErrorNulls]++
			}
			visitTop(m.Values)
		case *vng.Record:
			for _, f := range m.Fields {
				if first[f.Name] {
					c03Walk(f.Values, s, nullsAbove)
				}
			}
		default:
			// a non-record top-level type is loaded whole whatever the path
			c03Walk(m, s, nullsAbove)
		}
	}
	for _, top := range c03Tops(m) {
		nullsAbove = false
		visitTop(top)
	}
	return s
}

// ---- harness-side path dereference ----------------------------------------------------

// c03Deref follows path through nested records (through type names); ok is
// false if some step is not a non-null record holding that field.
func c03Deref(v zed.Value, path field.Path) (zed.Value, bool) {
	t, b := v.Type(), v.Bytes()
	if v.IsNull() {
		b = nil
	}
	for _, name := range path {
		rec, isRec := zed.TypeUnder(t).(*zed.TypeRecord)
		if !isRec || b == nil {
			return zed.Null, false
		}
		idx := -1
		for i, f := range rec.Fields {
			if f.Name == name {
				idx = i
				break
			}
		}
		if idx < 0 {
			return zed.Null, false
		}
		it := b.Iter()
		var fb zcode.Bytes
		for i := 0; i <= idx; i++ {
			fb = it.Next()
		}
		t, b = rec.Fields[idx].Type, fb
	}
	return zed.NewValue(t, b), true
}

var c03MissingRec = gen.Rec{Type: gen.TypeString(zed.NewContext().LookupTypeError(zed.TypeString)), Bytes: "missing"}

// c03CheckProjection compares a projected read with the full values.
func c03CheckProjection(full, proj []zed.Value, paths []field.Path, floatNorm bool) string {
	recOf := gen.RecOf
	if floatNorm {
		recOf = c03FloatNorm
	}
	if len(full) != len(proj) {
		return fmt.Sprintf("number of values not preserved: full read %d, projection %d", len(full), len(proj))
	}
	for i := range full {
		for _, p := range paths {
			fv, fok := c03Deref(full[i], p)
			pv, pok := c03Deref(proj[i], p)
			if fok {
				if !pok {
					return fmt.Sprintf("value %d path %q: present in the full read (%s) but absent from the projection\n full %s\n proj %s", i, p, fmtRec(gen.RecOf(fv)), fmtVal(full[i]), fmtVal(proj[i]))
				}
				if recOf(fv) != recOf(pv) {
					return fmt.Sprintf("value %d path %q differs:\n full %s\n proj %s\n full value %s\n proj value %s", i, p, fmtRec(gen.RecOf(fv)), fmtRec(gen.RecOf(pv)), fmtVal(full[i]), fmtVal(proj[i]))
				}
			} else if pok && gen.RecOf(pv) != c03MissingRec {
				return fmt.Sprintf("value %d path %q: absent from the full read but the projection holds %s (neither absent nor error(\"missing\"))\n full value %s\n proj value %s", i, p, fmtRec(gen.RecOf(pv)), fmtVal(full[i]), fmtVal(proj[i]))
			}
		}
	}
	return ""
}

// ---- generators ------------------------------------------------------------------------

// c03Distinct gives the j-th of arbitrarily many distinct non-null values of a
// primitive type (types with few values wrap around).
func c03Distinct(t zed.Type, j int) zcode.Bytes {
	switch t.ID() {
	case zed.IDUint8:
		return zed.EncodeUint(uint64(j % 256))
	case zed.IDUint16:
		return zed.EncodeUint(uint64(j % 65536))
	case zed.IDUint32, zed.IDUint64:
		return zed.EncodeUint(uint64(j) * 3)
	case zed.IDInt8:
		return zed.EncodeInt(int64(j%256) - 128)
	case zed.IDInt16:
		return zed.EncodeInt(int64(j%65536) - 32768)
	case zed.IDInt32, zed.IDInt64:
		return zed.EncodeInt(int64(j)*7 - 500)
	case zed.IDDuration:
		return zed.EncodeDuration(nano.Duration(int64(j) * 1000001))
	case zed.IDTime:
		return zed.EncodeTime(nano.Ts(1600000000000000000 + int64(j)*999))
	// float pools start with values that compare equal but differ in bytes
	// (+0.0, -0.0, NaNs of two payloads): a column of such values is neither
	// constant nor has it fewer dictionary entries than byte-distinct values
	case zed.IDFloat16:
		switch j {
		case 0:
			return zed.EncodeFloat16(0)
		case 1:
			return zed.EncodeFloat16(float32(math.Copysign(0, -1)))
		case 2:
			return zed.EncodeFloat16(float32(math.NaN()))
		}
		return zed.EncodeFloat16(float32(j%2048) / 2)
	case zed.IDFloat32:
		switch j {
		case 0:
			return zed.EncodeFloat32(0)
		case 1:
			return zed.EncodeFloat32(float32(math.Copysign(0, -1)))
		case 2:
			return zed.EncodeFloat32(math.Float32frombits(0x7fc00001))
		case 3:
			return zed.EncodeFloat32(math.Float32frombits(0xffc00002))
		}
		return zed.EncodeFloat32(float32(j) / 4)
	case zed.IDFloat64:
		switch j {
		case 0:
			return zed.EncodeFloat64(0)
		case 1:
			return zed.EncodeFloat64(math.Copysign(0, -1))
		case 2:
			return zed.EncodeFloat64(math.Float64frombits(0x7ff8000000000001))
		case 3:
			return zed.EncodeFloat64(math.Float64frombits(0xfff8000000000002))
		}
		return zed.EncodeFloat64(float64(j)/8 - 3)
	case zed.IDBool:
		return zed.EncodeBool(j%2 == 1)
	case zed.IDBytes:
		return zed.EncodeBytes([]byte{byte(j), byte(j >> 8), 0xff}[:1+j%3])
	case zed.IDString:
		if j == 0 {
			return zed.EncodeString("")
		}
		return zed.EncodeString(fmt.Sprintf("s%d", j))
	case zed.IDIP:
		if j%5 == 4 {
			return zed.EncodeIP(netip.AddrFrom16([16]byte{0x20, 0x01, 0xd, 0xb8, 12: byte(j >> 16), 13: byte(j >> 8), 14: byte(j), 15: 1}))
		}
		return zed.EncodeIP(netip.AddrFrom4([4]byte{10, byte(j >> 16), byte(j >> 8), byte(j)}))
	case zed.IDNet:
		return zed.EncodeNet(netip.PrefixFrom(netip.AddrFrom4([4]byte{10, byte(j >> 8), byte(j), 0}), 24))
	case zed.IDType:
		return zed.EncodeTypeValue(gen.Primitives[j%len(gen.Primitives)])
	}
	panic("c03Distinct: " + gen.TypeString(t))
}

var c03StatPrims = []zed.Type{zed.TypeInt64, zed.TypeString, zed.TypeFloat64, zed.TypeUint16, zed.TypeTime, zed.TypeIP, zed.TypeBytes,
	zed.TypeDuration, zed.TypeUint8, zed.TypeInt8, zed.TypeBool, zed.TypeUint64, zed.TypeInt32, zed.TypeFloat32, zed.TypeFloat16, zed.TypeType, zed.TypeNet}

var c03DistinctTargets = []int{1, 1, 2, 3, 17, 255, 256, 256, 257, 257, 258, 400}

type c03Col struct {
	Name     string `json:"name"`
	Type     string `json:"type"`
	Distinct int    `json:"distinct"`
	Nulls    string `json:"nulls"`
	Wrap     string `json:"wrap,omitempty"`
	typ      zed.Type
	prim     zed.Type
}

var c03NullPatterns = []string{"none", "none", "start", "middle", "end", "alternate", "all", "sparse", "one-at-end", "one-at-start"}

func c03IsNull(pattern string, i, n int, r uint64) bool {
	switch pattern {
	case "start":
		return i < n/3+1
	case "middle":
		return i >= n/3 && i < 2*n/3
	case "end":
		return i >= n-n/3-1
	case "alternate":
		return i%2 == 0
	case "all":
		return true
	case "sparse":
		return splitmix(r+uint64(i))%7 == 0
	case "one-at-end":
		return i == n-1
	case "one-at-start":
		return i == 0
	}
	return false
}

// c03StatsFile: one or two record types whose columns have forced
// statistics (distinct counts around the const/dict thresholds, null runs).
func c03StatsFile(r *rt.Rand, zctx *zed.Context, maxRows int, allowNet bool) ([]zed.Value, any) {
	ntypes := 1
	if r.Chance(1, 3) {
		ntypes = 2
	}
	type tdesc struct {
		Cols      []*c03Col `json:"cols"`
		RecNulls  string    `json:"record_nulls"`
		TopLevel  string    `json:"top"`
		typ       zed.Type
		primitive bool
	}
	var types []*tdesc
	for k := 0; k < ntypes; k++ {
		td := &tdesc{RecNulls: rt.Pick(r, []string{"none", "none", "none", "sparse", "end", "start"})}
		ncols := r.Range(1, 4)
		used := map[string]bool{}
		var fields []zed.Field
		for c := 0; c < ncols; c++ {
			name := rt.Pick(r, []string{"a", "b", "c", "d", "id", "key", "a b", "", "日本"})
			if used[name] {
				continue
			}
			used[name] = true
			prim := rt.Pick(r, c03StatPrims)
			if prim == zed.TypeNet && !allowNet {
				prim = zed.TypeIP
			}
			col := &c03Col{Name: name, prim: prim, Distinct: rt.Pick(r, c03DistinctTargets), Nulls: rt.Pick(r, c03NullPatterns)}
			col.typ = prim
			switch r.Intn(8) {
			case 0:
				n, err := zctx.LookupTypeNamed(rt.Pick(r, []string{"port", "T", "a b"}), prim)
				if err == nil {
					col.typ, col.Wrap = n, "named"
				}
			case 1:
				col.typ, col.Wrap = zctx.LookupTypeError(prim), "error"
			case 2:
				// nested record holding the column
				col.typ, col.Wrap = zctx.MustLookupTypeRecord([]zed.Field{zed.NewField("x", prim), zed.NewField("k", zed.TypeInt64)}), "record"
			case 3:
				col.typ, col.Wrap = zctx.LookupTypeArray(prim), "array"
			}
			col.Type = gen.TypeString(col.typ)
			td.Cols = append(td.Cols, col)
			fields = append(fields, zed.NewField(name, col.typ))
		}
		if len(td.Cols) == 1 && td.Cols[0].Wrap == "" && r.Chance(1, 2) {
			// a top-level primitive column
			td.typ, td.primitive, td.TopLevel = td.Cols[0].typ, true, "primitive"
		} else {
			td.typ, td.TopLevel = zctx.MustLookupTypeRecord(fields), "record"
		}
		types = append(types, td)
	}
	n := rt.Pick(r, []int{0, 1, 2, 3, 17, 255, 256, 257, 258, 300, 520, 700})
	if n > maxRows {
		n = maxRows
	}
	seed := r.Uint64()
	interleave := rt.Pick(r, []string{"blocks", "alternate", "random"})
	var vals []zed.Value
	counts := make([]int, len(types))
	for i := 0; i < n; i++ {
		k := 0
		switch interleave {
		case "alternate":
			k = i % len(types)
		case "random":
			k = int(splitmix(seed+uint64(i)*77) % uint64(len(types)))
		default:
			if i >= n/2 && len(types) > 1 {
				k = 1
			}
		}
		td := types[k]
		row := counts[k]
		counts[k]++
		var b zcode.Builder
		cell := func(col *c03Col) {
			if c03IsNull(col.Nulls, row, n/len(types)+1, seed) {
				b.Append(nil)
				return
			}
			j := row % col.Distinct
			if col.Distinct > 3 {
				// visit the pool in a scrambled order
				j = int(splitmix(seed^uint64(row)) % uint64(col.Distinct))
				if row < col.Distinct {
					j = row // make sure every pool entry occurs when rows allow
				}
			}
			switch col.Wrap {
			case "record":
				b.BeginContainer()
				b.Append(c03Distinct(col.prim, j))
				b.Append(zed.EncodeInt(int64(row)))
				b.EndContainer()
			case "array":
				b.BeginContainer()
				for e := 0; e < j%3; e++ {
					b.Append(c03Distinct(col.prim, j+e))
				}
				b.EndContainer()
			default:
				b.Append(c03Distinct(col.prim, j))
			}
		}
		if td.primitive {
			cell(td.Cols[0])
		} else if c03IsNull(td.RecNulls, row, n/len(types)+1, seed+1) {
			b.Append(nil)
		} else {
			b.BeginContainer()
			for _, col := range td.Cols {
				cell(col)
			}
			b.EndContainer()
		}
		it := b.Bytes().Iter()
		vals = append(vals, zed.NewValue(td.typ, it.Next()))
	}
	return vals, map[string]any{"types": types, "rows": n, "interleave": interleave}
}

// c03Paths picks projection path sets from the record types of vals.
func c03Paths(r *rt.Rand, vals []zed.Value) [][]field.Path {
	seen := map[zed.Type]bool{}
	var all []field.Path
	var walk func(t zed.Type, prefix field.Path, depth int)
	walk = func(t zed.Type, prefix field.Path, depth int) {
		rec, ok := zed.TypeUnder(t).(*zed.TypeRecord)
		if !ok || depth > 3 {
			return
		}
		for _, f := range rec.Fields {
			p := append(append(field.Path{}, prefix...), f.Name)
			all = append(all, p)
			walk(f.Type, p, depth+1)
		}
	}
	for _, v := range vals {
		if !seen[v.Type()] {
			seen[v.Type()] = true
			walk(v.Type(), nil, 0)
		}
	}
	// de-duplicate
	uniq := map[string]field.Path{}
	for _, p := range all {
		uniq[strings.Join(p, "\x00")] = p
	}
	all = all[:0]
	keys := make([]string, 0, len(uniq))
	for k := range uniq {
		keys = append(keys, k)
	}
	sort.Strings(keys)
	for _, k := range keys {
		all = append(all, uniq[k])
	}
	var sets [][]field.Path
	absent := field.Path{"zz_absent"}
	if len(all) == 0 {
		return [][]field.Path{{absent}}
	}
	// single path
	sets = append(sets, []field.Path{rt.Pick(r, all)})
	// a path below an existing field that does not exist, and an absent one
	p := rt.Pick(r, all)
	sets = append(sets, []field.Path{append(append(field.Path{}, p...), "nope"), absent})
	// forked paths (random picks share prefixes often because the pool is small)
	k := r.Range(2, 4)
	var fork []field.Path
	used := map[string]bool{}
	for i := 0; i < k; i++ {
		p := rt.Pick(r, all)
		if !c03PrefixConflict(used, p) {
			used[strings.Join(p, "\x00")] = true
			fork = append(fork, p)
		}
	}
	if r.Bool() {
		fork = append(fork, absent)
	}
	sets = append(sets, fork)
	return sets
}

// c03PrefixConflict: a path set in which one path is a prefix of (or equal
// to) another is not a meaningful projection; the generator avoids it.
func c03PrefixConflict(used map[string]bool, p field.Path) bool {
	s := strings.Join(p, "\x00")
	for u := range used {
		if u == s || strings.HasPrefix(u, s+"\x00") || strings.HasPrefix(s, u+"\x00") {
			return true
		}
	}
	return false
}

// ---- the case -------------------------------------------------------------------------------

// Signatures of the genuine defects of the unchanged tree (see
// findings_proposed/C03.json).
const (
	c03SigFloatDict    = "vng:float-dictionary-confuses-entries-that-compare-equal(±0.0,NaN-payloads)"
	c03SigUnionNulls   = "vcache:union-column-with-nulls-tags-not-expanded-for-null-slots"
	c03SigProjBelow    = "vcache:projection-path-continuing-below-array-set-map-union-leaves-vectors-unloaded"
	c03SigFetchRace    = "vcache:data-race-between-concurrent-Fetch-calls-on-one-object"
	c03SigProcessCrash = "vcache:loader-goroutine-panic-kills-process:"
)

// c03FloatNorm unifies NaNs and the sign of zero (compare-side normaliser
// for the float dictionary defect only).  Sets and maps are re-sorted by
// their unified element bytes without merging elements that became equal
// (a map may hold two NaN keys of different payload).
func c03FloatNorm(v zed.Value) gen.Rec {
	if v.IsNull() {
		return gen.RecOf(v)
	}
	var b zcode.Builder
	c03FloatNormBody(&b, v.Type(), v.Bytes())
	it := b.Bytes().Iter()
	return gen.Rec{Type: gen.TypeString(v.Type()), Bytes: string(it.Next())}
}

func c03FloatNormBody(b *zcode.Builder, typ zed.Type, body zcode.Bytes) {
	if body == nil {
		b.Append(nil)
		return
	}
	sorted := func(width int, types ...zed.Type) {
		var elems []string
		for it := body.Iter(); !it.Done(); {
			var eb zcode.Builder
			for k := 0; k < width; k++ {
				c03FloatNormBody(&eb, types[k], it.Next())
			}
			elems = append(elems, string(eb.Bytes()))
		}
		sort.Strings(elems)
		b.BeginContainer()
		for _, e := range elems {
			for it := zcode.Bytes(e).Iter(); !it.Done(); {
				b.Append(it.Next())
			}
		}
		b.EndContainer()
	}
	switch t := typ.(type) {
	case *zed.TypeNamed:
		c03FloatNormBody(b, t.Type, body)
	case *zed.TypeError:
		c03FloatNormBody(b, t.Type, body)
	case *zed.TypeRecord:
		b.BeginContainer()
		it := body.Iter()
		for _, f := range t.Fields {
			c03FloatNormBody(b, f.Type, it.Next())
		}
		b.EndContainer()
	case *zed.TypeArray:
		b.BeginContainer()
		for it := body.Iter(); !it.Done(); {
			c03FloatNormBody(b, t.Type, it.Next())
		}
		b.EndContainer()
	case *zed.TypeSet:
		sorted(1, t.Type)
	case *zed.TypeMap:
		sorted(2, t.KeyType, t.ValType)
	case *zed.TypeUnion:
		it := body.Iter()
		tagBytes := it.Next()
		b.BeginContainer()
		b.Append(tagBytes)
		c03FloatNormBody(b, t.Types[int(zed.DecodeInt(tagBytes))], it.Next())
		b.EndContainer()
	case *zed.TypeEnum:
		b.Append(body)
	default:
		b.Append(c02NegZero(typ, c02NaN(typ, body)))
	}
}

func c03EqualUnderFloatNorm(want, got []zed.Value) bool {
	if len(want) != len(got) {
		return false
	}
	for i := range want {
		if c03FloatNorm(want[i]) != c03FloatNorm(got[i]) {
			return false
		}
	}
	return true
}

// c03ClassifyRead decides the signature for a whole-value read (row reader
// or vector path) that is not the identity.
func c03ClassifyRead(what string, shape *c03Shape, want, got []zed.Value, err error) (string, string) {
	if err != nil {
		if p, ok := err.(*c03Panic); ok {
			if shape.NullableUnion > 0 && (strings.Contains(p.sig, "vector.(*Union).Serialize") || strings.Contains(p.msg, "bad VNG tagmap")) {
				return c03SigUnionNulls, fmt.Sprintf("%s: panic: %s\n%s", what, p.msg, p.stack)
			}
			return what + ":panic:" + p.sig, fmt.Sprintf("panic: %s\n%s", p.msg, p.stack)
		}
		msg := numStrip(err.Error())
		if len(msg) > 80 {
			msg = msg[:80]
		}
		return what + ":error:" + msg, err.Error()
	}
	d := diffRecs(gen.RecsOf(want), gen.RecsOf(got))
	if shape.FloatDictAmbiguous > 0 && c03EqualUnderFloatNorm(want, got) {
		return c03SigFloatDict, what + ": " + d
	}
	if shape.FloatDictAmbiguous > 0 && len(want) == len(got) {
		for i := range want {
			if c03FloatNorm(want[i]) != c03FloatNorm(got[i]) {
				d += fmt.Sprintf("\n(with NaNs and the sign of zero unified, value %d still differs:\n want %s\n got  %s)", i, fmtRec(c03FloatNorm(want[i])), fmtRec(c03FloatNorm(got[i])))
				break
			}
		}
	}
	if shape.NullableUnion > 0 && len(got) < len(want) && what != "row-reader" {
		return c03SigUnionNulls, fmt.Sprintf("%s: %d of %d values come back (null union values dropped): %s", what, len(got), len(want), d)
	}
	return what + ":mismatch", d
}

// c03PathBelowContainer: does some path of the set still have elements left
// when it reaches (in some top-level type of vals) an array/set/map/union —
// at the top level itself or at a field on the way?  Type names and
// error(...) are looked through, as the loader and project() do.
func c03PathBelowContainer(vals []zed.Value, paths []field.Path) bool {
	seen := map[zed.Type]bool{}
	for _, v := range vals {
		if seen[v.Type()] {
			continue
		}
		seen[v.Type()] = true
		for _, p := range paths {
			t := v.Type()
			for i := 0; i < len(p); i++ {
				for {
					if n, ok := t.(*zed.TypeNamed); ok {
						t = n.Type
					} else if e, ok := t.(*zed.TypeError); ok {
						t = e.Type
					} else {
						break
					}
				}
				switch t.(type) {
				case *zed.TypeArray, *zed.TypeSet, *zed.TypeMap, *zed.TypeUnion:
					return true
				}
				rec, ok := t.(*zed.TypeRecord)
				if !ok {
					break
				}
				idx, found := rec.IndexOfField(p[i])
				if !found {
					break
				}
				t = rec.Fields[idx].Type
			}
		}
	}
	return false
}

type c03Opts struct {
	// forceVector runs the vector path even for shapes matching an open
	// crash finding (crash probes only: the process may die).
	forceVector bool
	// onlyVector skips everything but the whole-value vector read.
	onlyVector bool
	// concurrent adds the two-concurrent-cold-Fetches step (sub-process
	// probes only).
	concurrent bool
}

func c03Check(c *rt.Ctx, o *rt.Obs, vals []zed.Value, desc map[string]any, pathSets [][]field.Path, opt c03Opts) {
	data, err := c03Write(vals)
	if err != nil {
		o.Desc(desc)
		o.Violation("write-error", err.Error())
		return
	}
	vo, obj, err := c03NewCache(data)
	if err != nil {
		o.Desc(desc)
		o.Violation("open-error", err.Error())
		return
	}
	shape := c03ShapeOf(obj.Metadata())
	desc["bytes"] = len(data)
	desc["values"] = len(vals)
	desc["shape"] = shape
	desc["first_values"] = fmtVals(vals, 3)
	var pstr [][]string
	for _, ps := range pathSets {
		var s []string
		for _, p := range ps {
			s = append(s, strings.Join(p, "."))
		}
		pstr = append(pstr, s)
	}
	desc["projections"] = pstr
	o.Desc(desc)
	feats := shape.features()
	if len(feats) >= 2 {
		o.Nontrivial(fmt.Sprint(o.Kind, "/", o.Index))
	}
	for _, f := range feats {
		o.Count("files_with_"+f, 1)
	}
	c.Max("max_dict_entries_seen", int64(shape.MaxDict))
	if shape.MaxDict == vng.MaxDictSize {
		o.Count("files_with_full_256_entry_dict", 1)
	}
	if shape.NullableUnion > 0 {
		o.Count("files_with_nullable_union", 1)
	}
	o.Count("values_written", int64(len(vals)))

	// (1) row reader
	if !opt.onlyVector {
		got, err := c03RowRead(data)
		if err != nil || diffRecs(gen.RecsOf(vals), gen.RecsOf(got)) != "" {
			sig, detail := c03ClassifyRead("row-reader", shape, vals, got, err)
			o.Violation(sig, detail)
		}
		o.Count("row_reader_files", 1)
	}

	// (2) vector path, whole values
	crashy := len(shape.Crash) > 0
	var full []zed.Value
	fullOK := false
	if crashy && !opt.forceVector {
		for sig := range shape.Crash {
			o.Count("vector_path_skipped:"+sig, 1)
		}
	} else {
		o.Count("vector_path_files", 1)
		full, err = c03Pull(zed.NewContext(), vo, nil)
		if err != nil || diffRecs(gen.RecsOf(vals), gen.RecsOf(full)) != "" {
			sig, detail := c03ClassifyRead("vector-path", shape, vals, full, err)
			o.Violation(sig, detail)
			if sig == c03SigFloatDict || sig == c03SigUnionNulls {
				o.Count("known_defect_hits", 1)
			}
		} else {
			fullOK = true
		}
	}
	if opt.onlyVector {
		return
	}

	// (3) projections: each on a fresh cache object (cold loads), compared
	// with the input values (the full read was compared with them above)
	type projResult struct {
		vals []zed.Value
		err  error
		ran  bool
	}
	results := make([]projResult, len(pathSets))
	for i, ps := range pathSets {
		first := map[string]bool{}
		for _, p := range ps {
			first[p[0]] = true
		}
		sub := c03SubShape(obj.Metadata(), first)
		if len(sub.Crash) > 0 && !opt.forceVector {
			o.Count("projection_skipped_known_crash_shape", 1)
			continue
		}
		vo2, _, err := c03NewCache(data)
		if err != nil {
			o.Violation("open-error", err.Error())
			continue
		}
		o.Count("projections_run", 1)
		pv, err := c03Pull(zed.NewContext(), vo2, ps)
		results[i] = projResult{pv, err, true}
		if err != nil {
			// unloaded element vectors show as a nil vector dereference, or —
			// when only offsets are missing (elements without columns, such
			// as {}) — as an index out of range while serializing
			if p, ok := err.(*c03Panic); ok && c03PathBelowContainer(vals, ps) &&
				((strings.Contains(p.msg, "nil pointer dereference") && (strings.Contains(p.sig, "vcache.project") || strings.Contains(p.sig, ").Type:"))) ||
					(strings.Contains(p.msg, "index out of range") && strings.Contains(p.sig, ").Serialize:") && !strings.Contains(p.sig, "(*Union)"))) {
				o.Violation(c03SigProjBelow, fmt.Sprintf("paths %v: panic: %s\n%s", pstr[i], p.msg, p.stack))
				o.Count("known_defect_hits", 1)
				continue
			}
			sig, detail := c03ClassifyRead("projection", sub, nil, nil, err)
			o.Violation(sig, fmt.Sprintf("paths %v: %s", pstr[i], detail))
			continue
		}
		d := c03CheckProjection(vals, pv, ps, false)
		if d == "" {
			continue
		}
		switch {
		case sub.FloatDictAmbiguous > 0 && c03CheckProjection(vals, pv, ps, true) == "":
			o.Violation(c03SigFloatDict, fmt.Sprintf("projection %v: %s", pstr[i], d))
		case sub.NullableUnion > 0 && len(pv) < len(vals):
			o.Violation(c03SigUnionNulls, fmt.Sprintf("projection %v: %s", pstr[i], d))
		default:
			o.Violation("projection:mismatch", fmt.Sprintf("paths %v: %s", pstr[i], d))
		}
	}

	// (4) the concurrent-Fetch oracle runs in sub-processes (c03ConcProbe):
	// on the unchanged tree two cold Fetches race inside vcache, and a race
	// report makes the race runtime end this process with status 66.
	_ = fullOK
	if opt.concurrent && fullOK && len(pathSets) > 0 && results[0].ran && results[0].err == nil {
		vo3, _, err := c03NewCache(data)
		if err == nil {
			var wg sync.WaitGroup
			var ra, rb []zed.Value
			var ea, eb error
			wg.Add(2)
			go func() { defer wg.Done(); ra, ea = c03Pull(zed.NewContext(), vo3, nil) }()
			go func() { defer wg.Done(); rb, eb = c03Pull(zed.NewContext(), vo3, pathSets[0]) }()
			wg.Wait()
			o.Count("concurrent_fetch_pairs", 1)
			if ea != nil || eb != nil {
				o.Violation("concurrent-fetch:error", fmt.Sprintf("full: %v; projection %v: %v", ea, pstr[0], eb))
			} else {
				if d := diffRecs(gen.RecsOf(full), gen.RecsOf(ra)); d != "" {
					o.Violation("concurrent-fetch:mismatch", "full read under a concurrent projection differs from the sequential one: "+d)
				}
				if d := diffRecs(gen.RecsOf(results[0].vals), gen.RecsOf(rb)); d != "" {
					o.Violation("concurrent-fetch:mismatch", fmt.Sprintf("projection %v under a concurrent full read differs from the sequential one: %s", pstr[0], d))
				}
			}
		}
	}
}

// c03ConcProbe runs, in a sub-process of this monitor binary with its own
// race log, a batch of generated files through two concurrent cold Fetches
// (whole + projection, different contexts) on one cache object, and reports
// what the sub-process saw: wrong answers and race-detector reports.
func c03ConcProbe(c *rt.Ctx, o *rt.Obs, idx int) {
	o.Desc(map[string]any{"gen": "concurrent-Fetch probe (sub-process)", "files": c03ConcFiles})
	dir, err := os.MkdirTemp("", "c03conc")
	if err != nil {
		o.Inconclusive("no temp dir: " + err.Error())
		return
	}
	defer os.RemoveAll(dir)
	cmd := exec.Command(os.Args[0], "C03", "--tier", c.Tier, "--seed", fmt.Sprint(c.Seed), "--replay-kind", "concprobe", "--replay-index", fmt.Sprint(idx))
	var env []string
	for _, e := range os.Environ() {
		if !strings.HasPrefix(e, "GORACE=") {
			env = append(env, e)
		}
	}
	cmd.Env = append(env, "GORACE=halt_on_error=0 exitcode=0 history_size=3 log_path="+dir+"/race", "GOTRACEBACK=single")
	out, err := cmd.CombinedOutput()
	text := string(out)
	if err != nil {
		o.Violation("concurrent-fetch:sub-process-died", fmt.Sprintf("%v\n%s", err, clip(text, 3000)))
		return
	}
	for _, l := range strings.Split(text, "\n") {
		if strings.HasPrefix(l, "c03conc pairs=") {
			var n int64
			fmt.Sscanf(l, "c03conc pairs=%d", &n)
			o.Count("concurrent_fetch_pairs", n)
		}
	}
	// answers
	reported := map[string]bool{}
	for rest := text; ; {
		i := strings.Index(rest, "violation signature=\"")
		if i < 0 {
			break
		}
		rest = rest[i+len("violation signature=\""):]
		k := strings.Index(rest, "\"")
		if k < 0 {
			break
		}
		sig := rest[:k]
		if strings.HasPrefix(sig, "concurrent-fetch:") && !reported[sig] {
			reported[sig] = true
			o.Violation(sig, clip(rest, 3000))
		}
	}
	// race reports
	files, _ := os.ReadDir(dir)
	seen := map[string]bool{}
	for _, f := range files {
		b, err := os.ReadFile(dir + "/" + f.Name())
		if err != nil {
			continue
		}
		for _, blk := range strings.Split(string(b), "==================") {
			if !strings.Contains(blk, "WARNING: DATA RACE") {
				continue
			}
			o.Count("race_reports_in_concurrent_fetch", 1)
			if !strings.Contains(blk, "runtime/vcache.") {
				sig := "concurrent-fetch:data-race-outside-vcache"
				if !seen[sig] {
					seen[sig] = true
					o.Violation(sig, clip(blk, 4000))
				}
				continue
			}
			if !seen[c03SigFetchRace] {
				seen[c03SigFetchRace] = true
				o.Violation(c03SigFetchRace, clip(blk, 4000))
				o.Count("known_defect_hits", 1)
			}
		}
	}
}

const c03ConcFiles = 25

// c03CrashProbe runs crash reproducer idx in a sub-process of this monitor
// binary (a panic inside a vcache errgroup goroutine cannot be recovered and
// would take the whole batch of cases with it) and turns what it observes
// into a violation with a signature naming the panic.
func c03CrashProbe(c *rt.Ctx, o *rt.Obs, idx int) {
	o.Desc(map[string]any{"gen": "crash probe (sub-process): " + c03CrashProbes[idx].name})
	cmd := exec.Command(os.Args[0], "C03", "--tier", c.Tier, "--seed", fmt.Sprint(c.Seed), "--replay-kind", "crashprobe", "--replay-index", fmt.Sprint(idx))
	cmd.Env = append(os.Environ(), "GOTRACEBACK=single")
	out, err := cmd.CombinedOutput()
	o.Count("crash_probes_run", 1)
	text := string(out)
	if err == nil {
		// the reproducer no longer crashes; whatever the in-process oracle
		// saw is printed by the replay
		if strings.Contains(text, "violation signature=") {
			o.Violation("crash-probe:violation-without-crash", clip(text, 3000))
		}
		return
	}
	for _, line := range strings.Split(text, "\n") {
		if strings.HasPrefix(line, "panic:") || strings.HasPrefix(line, "fatal error:") {
			rest := text[strings.Index(text, line):]
			frame := rt.InnermostRepoFrame(rest)
			msg := numStrip(line)
			if len(msg) > 90 {
				msg = msg[:90]
			}
			o.Violation(c03SigProcessCrash+frame+":"+msg, fmt.Sprintf("sub-process died (%v)\n%s", err, clip(rest, 3000)))
			o.Count("known_defect_hits", 1)
			return
		}
	}
	o.Violation("crash-probe:died-without-panic-line", fmt.Sprintf("%v\n%s", err, clip(text, 3000)))
}

func numStrip(s string) string {
	var sb strings.Builder
	prevDigit := false
	for _, c := range s {
		if c >= '0' && c <= '9' {
			if !prevDigit {
				sb.WriteByte('N')
			}
			prevDigit = true
			continue
		}
		prevDigit = false
		sb.WriteRune(c)
	}
	return sb.String()
}

func runC03(c *rt.Ctx) {
	c.Note("rule", "case = one VNG file written from a generated value sequence, read back (1) by the row reader (vngio.NewReader), (2) whole through vng.NewObject→vcache→vam materialize, (3) through 3 projections (single path; a path below a leaf + an absent path; forked paths) each on a cold cache object, (4) in sub-process probes (own race log) by two concurrent Fetches (whole + projection, different contexts) on one cold cache object, answers compared with the sequential ones; (1),(2) compared position by position with the input on (harness type string, null, bytes); (3) by harness-side path dereference through nested records: equal where the input has the path, absent or error(\"missing\") where it has not, value count preserved.  'stats' cases force column statistics (1/2/3/17/255/256/257/258/400 distinct values per column, null runs at start/middle/end/alternating/all, null records, 1–2 interleaved top-level types, 0…700 rows); 'mix' cases use the general type/value generators (all constructors, up to 8 top-level types).  non-trivial = the file's metadata (read back from vng.Object.Metadata) contains ≥2 of {const, dict, nulls, dynamic, union}; distinct by case id")
	c.Note("assumptions", strings.Join([]string{
		"projection path sets never contain a path that is a prefix of another",
		"the vector path is not run for files whose metadata matches an open crash finding (a panic inside a vcache errgroup goroutine kills the process): dict-encoded enum column, plain (non-dict) net column; they are counted (vector_path_skipped:*) and reproduced by directed cases",
		"types are compared structurally (an enum type read back belongs to the metadata's own context)",
	}, "\n"))
	nstats := c.N(800, 9000)
	for i := 0; i < nstats; i++ {
		c.Case("stats", i, func(o *rt.Obs) {
			r := o.R
			zctx := zed.NewContext()
			vals, d := c03StatsFile(r, zctx, 700, r.Chance(1, 2))
			desc := map[string]any{"gen": d}
			c03Check(c, o, vals, desc, c03Paths(r, vals), c03Opts{})
			if i%400 == 0 {
				o.Sample(desc)
			}
		})
	}
	nmix := c.N(500, 6000)
	for i := 0; i < nmix; i++ {
		c.Case("mix", i, func(o *rt.Obs) {
			r := o.R
			zctx := zed.NewContext()
			depth := 3
			if !c.Quick() && r.Chance(1, 4) {
				depth = 4
			}
			n := r.Intn(60)
			if r.Chance(1, 6) {
				n = r.Range(250, 320)
			}
			vopts := gen.ValOpts{}
			if r.Chance(1, 3) {
				vopts.NullNum, vopts.NullDen = 1, 2
			}
			vals := gen.Sequence(r, zctx, gen.TypeOpts{}, vopts, depth, r.Range(1, 8), n)
			desc := map[string]any{"gen": "mix", "depth": depth}
			c03Check(c, o, vals, desc, c03Paths(r, vals), c03Opts{})
			if i%400 == 0 {
				o.Sample(desc)
			}
		})
	}
	for i := range c03Directed {
		c.Case("directed", i, func(o *rt.Obs) { c03Directed[i].run(c, o) })
	}
	for i := range c03CrashProbes {
		c.Case("crash", i, func(o *rt.Obs) { c03CrashProbe(c, o, i) })
	}
	nconc := c.N(6, 40)
	for i := 0; i < nconc; i++ {
		c.Case("conc", i, func(o *rt.Obs) { c03ConcProbe(c, o, i) })
	}
	if c.Replaying && c.ReplayKind == "concprobe" {
		// executed only inside the sub-process started by c03ConcProbe
		for i := 0; i < nconc; i++ {
			c.Case("concprobe", i, func(o *rt.Obs) {
				r := o.R
				pairs := 0
				for f := 0; f < c03ConcFiles; f++ {
					zctx := zed.NewContext()
					var vals []zed.Value
					if f%2 == 0 {
						vals, _ = c03StatsFile(r, zctx, 300, false)
					} else {
						vals = gen.Sequence(r, zctx, gen.TypeOpts{NoEnum: true}, gen.ValOpts{}, 3, r.Range(1, 5), r.Intn(40))
					}
					c03Check(c, o, vals, map[string]any{"gen": "concprobe"}, c03Paths(r, vals)[:1], c03Opts{concurrent: true})
					pairs++
				}
				fmt.Printf("c03conc pairs=%d\n", pairs)
			})
		}
	}
	if c.Replaying && c.ReplayKind == "crashprobe" {
		// executed only inside the sub-process started by c03CrashProbe
		for i := range c03CrashProbes {
			c.Case("crashprobe", i, func(o *rt.Obs) {
				vals := c03CrashProbes[i].vals()
				c03Check(c, o, vals, map[string]any{"gen": "crash probe: " + c03CrashProbes[i].name}, nil, c03Opts{forceVector: true, onlyVector: true})
			})
		}
	}
}

type c03DirectedCase struct {
	name string
	run  func(c *rt.Ctx, o *rt.Obs)
}

type c03CrashProbeCase struct {
	name string
	vals func() []zed.Value
}

func c03Rows(t zed.Type, n int, row func(b *zcode.Builder, i int)) []zed.Value {
	var vals []zed.Value
	for i := 0; i < n; i++ {
		var b zcode.Builder
		row(&b, i)
		it := b.Bytes().Iter()
		vals = append(vals, zed.NewValue(t, it.Next()))
	}
	return vals
}

var c03CrashProbes = []c03CrashProbeCase{
	{"enum column with two distinct values (dict-encoded)", func() []zed.Value {
		e := zed.NewContext().LookupTypeEnum([]string{"A", "B", "C"})
		return c03Rows(e, 6, func(b *zcode.Builder, i int) { b.Append(zed.EncodeUint(uint64(i % 2))) })
	}},
	{"enum column holding only nulls", func() []zed.Value {
		e := zed.NewContext().LookupTypeEnum([]string{"A", "B", "C"})
		return c03Rows(e, 3, func(b *zcode.Builder, i int) { b.Append(nil) })
	}},
	{"net column with 300 distinct values (not dict-encoded)", func() []zed.Value {
		return c03Rows(zed.TypeNet, 300, func(b *zcode.Builder, i int) { b.Append(c03Distinct(zed.TypeNet, i)) })
	}},
	{"error-typed field with nulls inside a record column with nulls", func() []zed.Value {
		// {e:error("a")} null({e:error(string)}) {e:null(error(string))} {e:error("b")} …
		z := zed.NewContext()
		rec := z.MustLookupTypeRecord([]zed.Field{zed.NewField("e", z.LookupTypeError(zed.TypeString))})
		return c03Rows(rec, 12, func(b *zcode.Builder, i int) {
			switch i % 4 {
			case 1:
				b.Append(nil)
			case 2:
				b.BeginContainer()
				b.Append(nil)
				b.EndContainer()
			default:
				b.BeginContainer()
				b.Append(zed.EncodeString(fmt.Sprint("s", i%3)))
				b.EndContainer()
			}
		})
	}},
}

var c03Directed = []c03DirectedCase{
	{"float64 dictionary with -0.0, +0.0 and 100 NaN payloads", func(c *rt.Ctx, o *rt.Obs) {
		// the two sorts of the dictionary (at encode time and for the
		// metadata) order the entries that compare equal independently
		vals := c03Rows(zed.TypeFloat64, 408, func(b *zcode.Builder, i int) {
			j := i % 102
			switch j {
			case 0:
				b.Append(zed.EncodeFloat64(0))
			case 1:
				b.Append(zed.EncodeFloat64(math.Copysign(0, -1)))
			default:
				b.Append(zed.EncodeFloat64(math.Float64frombits(0x7ff8000000000000 | uint64(j))))
			}
		})
		c03Check(c, o, vals, map[string]any{"gen": "directed: float64 dict with entries that compare equal"}, nil, c03Opts{})
	}},
	{"record field of union type with a null value", func(c *rt.Ctx, o *rt.Obs) {
		// {u:1((int64,string))} {u:null((int64,string))} {u:"a"((int64,string))}
		z := zed.NewContext()
		u := z.LookupTypeUnion([]zed.Type{zed.TypeInt64, zed.TypeString})
		rec := z.MustLookupTypeRecord([]zed.Field{zed.NewField("u", u)})
		vals := c03Rows(rec, 3, func(b *zcode.Builder, i int) {
			b.BeginContainer()
			switch i {
			case 0:
				zed.BuildUnion(b, u.TagOf(zed.TypeInt64), zed.EncodeInt(1))
			case 1:
				b.Append(nil)
			default:
				zed.BuildUnion(b, u.TagOf(zed.TypeString), zed.EncodeString("a"))
			}
			b.EndContainer()
		})
		c03Check(c, o, vals, map[string]any{"gen": "directed: nullable union field"}, [][]field.Path{{{"u"}}}, c03Opts{})
	}},
	{"top-level union values with a null", func(c *rt.Ctx, o *rt.Obs) {
		// 1((int64,string)) "a"((int64,string)) null((int64,string)): the null is dropped
		z := zed.NewContext()
		u := z.LookupTypeUnion([]zed.Type{zed.TypeInt64, zed.TypeString})
		vals := c03Rows(u, 3, func(b *zcode.Builder, i int) {
			switch i {
			case 0:
				zed.BuildUnion(b, u.TagOf(zed.TypeInt64), zed.EncodeInt(1))
			case 1:
				zed.BuildUnion(b, u.TagOf(zed.TypeString), zed.EncodeString("a"))
			default:
				b.Append(nil)
			}
		})
		c03Check(c, o, vals, map[string]any{"gen": "directed: top-level nullable union"}, nil, c03Opts{})
	}},
	{"projection a.nope where a is an array of records", func(c *rt.Ctx, o *rt.Obs) {
		// {a:[{b:1,c:"x"}],k:1}
		z := zed.NewContext()
		elem := z.MustLookupTypeRecord([]zed.Field{zed.NewField("b", zed.TypeInt64), zed.NewField("c", zed.TypeString)})
		rec := z.MustLookupTypeRecord([]zed.Field{zed.NewField("a", z.LookupTypeArray(elem)), zed.NewField("k", zed.TypeInt64)})
		vals := c03Rows(rec, 3, func(b *zcode.Builder, i int) {
			b.BeginContainer()
			b.BeginContainer()
			b.BeginContainer()
			b.Append(zed.EncodeInt(int64(i)))
			b.Append(zed.EncodeString("x"))
			b.EndContainer()
			b.EndContainer()
			b.Append(zed.EncodeInt(int64(i)))
			b.EndContainer()
		})
		c03Check(c, o, vals, map[string]any{"gen": "directed: path below an array"}, [][]field.Path{{{"a", "nope"}}, {{"a", "b"}}}, c03Opts{})
	}},
}

package main

import (
	"bytes"
	"context"
	"fmt"
	"io"
	"runtime"
	"strings"
	"time"

	zed "github.com/brimdata/super"
	"github.com/brimdata/super/compiler"
	"github.com/brimdata/super/compiler/ast"
	"github.com/brimdata/super/compiler/data"
	"github.com/brimdata/super/compiler/optimizer/demand"
	"github.com/brimdata/super/pkg/verifhook"
	zrt "github.com/brimdata/super/runtime"
	"github.com/brimdata/super/zbuf"
	"github.com/brimdata/super/zio"
	"github.com/brimdata/super/zio/vngio"
	"github.com/brimdata/super/zio/zjsonio"
	"github.com/brimdata/super/zio/zngio"
	"github.com/brimdata/super/zio/zsonio"

	"verif/internal/gen"
	"verif/internal/prog"
	"verif/internal/rt"
)

func init() { register("C04", runC04) }

// c04Enc is one physical presentation of the input.
type c04Enc struct {
	Format      string `json:"format"` // zson | zjson | vng | zng
	Compress    bool   `json:"compress,omitempty"`
	FrameThresh int    `json:"frame_thresh,omitempty"`
	EOSAt       []int  `json:"eos_at,omitempty"`
	Threads     int    `json:"threads,omitempty"`
	ReadSize    int    `json:"read_size,omitempty"`
	Validate    bool   `json:"validate,omitempty"`
	LateCopy    bool   `json:"late_copy,omitempty"` // hold each batch until the next one has been pulled
	Procs       int    `json:"gomaxprocs,omitempty"`
}

func (e c04Enc) String() string {
	if e.Format != "zng" {
		return e.Format
	}
	return fmt.Sprintf("zng(compress=%v,thresh=%d,eos=%v,threads=%d,readsize=%d,validate=%v,latecopy=%v,procs=%d)", e.Compress, e.FrameThresh, e.EOSAt, e.Threads, e.ReadSize, e.Validate, e.LateCopy, e.Procs)
}

func c04Encode(vals []zed.Value, e c04Enc) ([]byte, error) {
	var buf bytes.Buffer
	var w zio.WriteCloser
	var zw *zngio.Writer
	switch e.Format {
	case "zson":
		w = zsonio.NewWriter(nopCloser{&buf}, zsonio.WriterOpts{})
	case "zjson":
		w = zjsonio.NewWriter(nopCloser{&buf})
	case "vng":
		w = vngio.NewWriter(nopCloser{&buf})
	case "zng":
		zw = zngio.NewWriterWithOpts(nopCloser{&buf}, zngio.WriterOpts{Compress: e.Compress, FrameThresh: e.FrameThresh})
		w = zw
	}
	for i, v := range vals {
		if zw != nil {
			for _, at := range e.EOSAt {
				if at == i {
					if err := zw.EndStream(); err != nil {
						return nil, err
					}
				}
			}
		}
		if err := w.Write(v); err != nil {
			return nil, err
		}
	}
	if err := w.Close(); err != nil {
		return nil, err
	}
	return buf.Bytes(), nil
}

func c04Reader(zctx *zed.Context, data []byte, e c04Enc) (zio.Reader, io.Closer, error) {
	switch e.Format {
	case "zson":
		return zsonio.NewReader(zctx, bytes.NewReader(data)), nil, nil
	case "zjson":
		return zjsonio.NewReader(zctx, bytes.NewReader(data)), nil, nil
	case "vng":
		r, err := vngio.NewReader(zctx, bytes.NewReader(data), demand.All())
		return r, nil, err
	}
	r := zngio.NewReaderWithOpts(zctx, bytes.NewReader(data), zngio.ReaderOpts{Validate: e.Validate, Size: e.ReadSize, Threads: e.Threads})
	return r, r, nil
}

// plainReader hides an optimized scanner (no push-down into the reader).
type plainReader struct{ r zio.Reader }

func (p plainReader) Read() (*zed.Value, error) { return p.r.Read() }

type c04Run struct {
	out  []zed.Value
	err  error
	skip int64
	pass int64
	hung bool
}

// c04Query runs the (optimized) program over one reader.
func c04Query(zctx *zed.Context, seq ast.Seq, r zio.Reader, lateCopy bool) *c04Run {
	res := &c04Run{}
	out := &c04Run{}
	ctx, cancel := context.WithCancel(context.Background())
	defer cancel()
	rctx := zrt.NewContext(ctx, zctx)
	skip0, pass0 := verifhook.Count("zngio.bufferfilter.skip"), verifhook.Count("zngio.bufferfilter.pass")
	done := make(chan any, 1)
	go func() {
		defer func() { done <- recover() }()
		job, err := compiler.NewJob(rctx, seq, data.NewSource(nil, nil), nil)
		if err != nil {
			res.err = err
			return
		}
		if err := job.Optimize(); err != nil {
			res.err = err
			return
		}
		if err := job.Build(r); err != nil {
			res.err = err
			return
		}
		p := job.Puller()
		if !lateCopy {
			res.out, res.err = prog.Drain(p)
			return
		}
		// Legal use of the ownership rule: a batch stays referenced until
		// its values are copied, which happens only after the next Pull.
		var held zbuf.Batch
		for {
			b, err := p.Pull(false)
			if held != nil {
				for _, v := range held.Values() {
					res.out = append(res.out, v.Copy())
				}
				held.Unref()
				held = nil
			}
			if err != nil {
				res.err = err
				return
			}
			if b == nil {
				return
			}
			held = b
		}
	}()
	select {
	case pan := <-done:
		if pan != nil {
			panic(pan)
		}
		*out = *res
	case <-time.After(120 * time.Second):
		out.hung = true
	}
	out.skip = verifhook.Count("zngio.bufferfilter.skip") - skip0
	out.pass = verifhook.Count("zngio.bufferfilter.pass") - pass0
	return out
}

var c04TypeOfType = gen.TypeString(zed.TypeType)

var c04Thresh = []int{1, 16, 60, 200, 1000, zngio.DefaultFrameThresh}

func c04GenEncs(r *rt.Rand, nvals, n int) []c04Enc {
	encs := []c04Enc{{Format: "zson"}, {Format: "zjson"}, {Format: "vng"}}
	for len(encs) < n {
		thresh := rt.Pick(r, c04Thresh)
		if nvals > 25 && thresh < 200 {
			// every frame costs the reader (and the poison hook) a 512 KiB
			// buffer: tiny frames only for short inputs
			thresh = rt.Pick(r, []int{200, 400, 1000})
		}
		e := c04Enc{Format: "zng", Compress: r.Bool(), FrameThresh: thresh, Threads: rt.Pick(r, []int{1, 1, 2, 4, 8}),
			ReadSize: rt.Pick(r, []int{0, 0, 16, 4096}), Validate: r.Bool(), LateCopy: r.Chance(1, 3), Procs: rt.Pick(r, []int{1, 2, 4})}
		if nvals > 0 && r.Chance(1, 2) {
			e.EOSAt = append(e.EOSAt, r.Intn(nvals))
			if r.Bool() {
				e.EOSAt = append(e.EOSAt, r.Intn(nvals))
			}
		}
		encs = append(encs, e)
	}
	return encs
}

// c04NestedNameSites: token sites where the token is (part of) a field name
// of a record that sits inside a non-record container of a top-level record.
func c04NestedNameSite(site string) bool {
	switch site {
	case "name:rec-in-array", "name:rec-in-array-2nd-elem", "name:rec-in-set", "name:rec-in-map-value", "name:rec-in-map-key",
		"name:rec-in-union", "name:rec-in-error", "name:rec-in-array-in-rec":
		return true
	}
	return false
}

func runC04(c *rt.Ctx) {
	c.Note("rule", "case = one filter/search-heavy program (keyword/glob/regexp search, field==literal, literal in field, and/or/not, typeof/len/is/under/nameof/fields/typename, by typeof(this), yield <type value>, cut/put/shaping, count/collect/union by key) over one input that carries the searched token in field names and values at every depth and in type values; reference = the program over an in-memory reader; the input is then presented as zson, zjson, vng and several zng streams (compress, frame threshold, EOS positions, threads, read size, validate, late copy of batches, GOMAXPROCS) and every output must equal the reference in the program's compare mode and in error-ness; non-trivial = a zng run in which the pushed-down buffer filter skipped ≥1 frame and kept ≥1 frame, or a type value from the input reached the output while frame buffers were being recycled (poison-on-release on); distinct by case id")
	c.Note("granularity", "zng decode-worker interleavings are those the Go scheduler produces under the chosen threads/GOMAXPROCS; not enumerated")
	c.Note("assumptions", strings.Join([]string{
		"an encoding is compared only when reading it back (no query) yields exactly the input values — what zson/zjson/vng/zng do to values is C01–C03's claim; such encodings are counted and set aside",
		"poison-on-release (verif hook) overwrites frame buffers and batch slots when they return to their pool, so a value kept past its batch shows up as a wrong value",
		"search tokens are ASCII keywords; values and field names are those of internal/prog's search alphabet",
		"head/tail only on a defined order (the input sequence), aggregates compared in normal form (collect as multiset, any() by presence)",
	}, "\n"))
	verifhook.SetPoison(true)
	n := c.N(450, 3000)
	for i := 0; i < n; i++ {
		c.Case("enc", i, func(o *rt.Obs) { c04Case(c, o) })
	}
	for i := range c04Directed {
		c.Case("directed", i, func(o *rt.Obs) { c04DirectedCase(c, o, i) })
	}
	c.Count("buffers_poisoned_on_release", verifhook.Poisoned())
}

type c04Desc struct {
	Program *prog.Program `json:"program"`
	Token   string        `json:"token"`
	Input   []string      `json:"input"`
	Encs    []string      `json:"encodings"`
}

func c04Case(c *rt.Ctx, o *rt.Obs) {
	r := o.R
	zctx := zed.NewContext()
	tok := rt.Pick(r, prog.SearchTokens)
	nvals := r.Range(5, 70)
	if !c.Quick() && r.Chance(1, 10) {
		nvals = r.Range(70, 400)
	}
	in, err := prog.GenSearchInput(r, zctx, nvals, tok, rt.Pick(r, []int{2, 6, 6, 15, 40}))
	if err != nil {
		o.Violation("harness:input", err.Error())
		return
	}
	p := prog.Gen(r, prog.Opts{Family: "search", Token: tok})
	encs := c04GenEncs(r, nvals, c.N(8, 14))
	c04Check(c, o, zctx, p, tok, in, encs)
}

func c04Check(c *rt.Ctx, o *rt.Obs, zctx *zed.Context, p *prog.Program, tok string, in *prog.SearchInput, encs []c04Enc) {
	var encNames []string
	for _, e := range encs {
		encNames = append(encNames, e.String())
	}
	o.Desc(&c04Desc{Program: p, Token: tok, Input: in.Text, Encs: encNames})
	if o.Index%300 == 0 && o.Kind == "enc" {
		o.Sample(map[string]any{"program": p.Text, "token": tok, "values": len(in.Values), "first_values": in.Text[:min(4, len(in.Text))], "encodings": encNames})
	}
	seq, _, err := compiler.Parse(p.Text)
	if err != nil {
		o.Violation("harness:program-does-not-parse", fmt.Sprintf("%s: %v", p.Text, err))
		return
	}
	ref := c04Query(zctx, seq, zbuf.NewArray(append([]zed.Value(nil), in.Values...)), false)
	if ref.hung {
		o.Count("reference_did_not_return", 1)
		return
	}
	if ref.err != nil {
		o.Count("reference_errors", 1)
	}
	o.Count("reference_values", int64(len(ref.out)))
	want := gen.RecsOf(in.Values)
	inputSet := map[gen.Rec]bool{}
	for _, w := range want {
		inputSet[w] = true
	}
	typeValueOut := false
	for _, v := range ref.out {
		if strings.Contains(gen.TypeString(v.Type()), c04TypeOfType) {
			typeValueOut = true
		}
	}
	nontrivial := false
	for _, e := range encs {
		data, err := c04Encode(in.Values, e)
		if err != nil {
			o.Count("encode_errors_"+e.Format, 1)
			continue
		}
		// 1. does the encoding denote the input at all?
		{
			zc := zed.NewContext()
			rd, closer, err := c04Reader(zc, data, c04Enc{Format: e.Format, Threads: 1})
			var got []gen.Rec
			if err == nil {
				for {
					v, rerr := rd.Read()
					if rerr != nil {
						err = rerr
						break
					}
					if v == nil {
						break
					}
					got = append(got, gen.RecOf(*v))
				}
			}
			if closer != nil {
				closer.Close()
			}
			if err != nil || diffRecs(want, got) != "" {
				o.Count("encoding_does_not_preserve_input_"+e.Format, 1)
				continue
			}
		}
		// 2. the program over this encoding
		zc := zed.NewContext()
		rd, closer, err := c04Reader(zc, data, e)
		if err != nil {
			o.Violation("reader-error:"+e.Format, err.Error())
			continue
		}
		prev := 0
		if e.Procs > 0 {
			prev = runtime.GOMAXPROCS(e.Procs)
		}
		poisoned0 := verifhook.Poisoned()
		run := c04Query(zc, seq, rd, e.LateCopy)
		if closer != nil {
			closer.Close()
		}
		if e.Procs > 0 {
			runtime.GOMAXPROCS(prev)
		}
		o.Count("runs_"+e.Format, 1)
		if run.hung {
			o.Violation("does-not-return:"+e.Format, e.String())
			return
		}
		o.Count("zng_frames_skipped_by_buffer_filter", run.skip)
		o.Count("zng_frames_kept_by_buffer_filter", run.pass)
		if run.skip > 0 && run.pass > 0 {
			nontrivial = true
			o.Count("zng_runs_with_skipped_and_kept_frames", 1)
		}
		if e.Format == "zng" && typeValueOut && verifhook.Poisoned() > poisoned0 {
			nontrivial = true
			o.Count("zng_runs_type_values_out_while_buffers_recycled", 1)
		}
		if (run.err != nil) != (ref.err != nil) {
			o.Violation("error-ness-differs:"+e.Format, fmt.Sprintf("%s: reference err=%v, this encoding err=%v", e, ref.err, run.err))
			continue
		}
		if run.err != nil {
			continue
		}
		d := prog.Compare(p, zctx, ref.out, run.out)
		if d == "" {
			// any(this): which member is picked is not defined, but it has
			// to be one of the input values
			if p.Norm["x"] == prog.NormAny {
				for _, v := range run.out {
					if x, ok := c10Field(v, "x"); ok && !inputSet[gen.RecOf(x)] {
						d = fmt.Sprintf("any(this) returned %s, which is none of the input values", prog.FormatValue(x))
						break
					}
				}
			}
		}
		if d == "" {
			continue
		}
		detail := fmt.Sprintf("%s (%d frames skipped, %d kept): %s\nreference (%d): %v\ngot (%d): %v", e, run.skip, run.pass, d, len(ref.out), prog.FormatValues(ref.out, 10), len(run.out), prog.FormatValues(run.out, 10))
		if e.Format != "zng" {
			o.Violation("output-differs:"+e.Format, detail)
			continue
		}
		// Attribute a zng difference: is it the push-down?  Re-read the same
		// bytes through a reader that offers no scanner of its own.
		zc2 := zed.NewContext()
		rd2, closer2, _ := c04Reader(zc2, data, e)
		plain := c04Query(zc2, seq, plainReader{rd2}, e.LateCopy)
		if closer2 != nil {
			closer2.Close()
		}
		if plain.err != nil || prog.Compare(p, zctx, ref.out, plain.out) != "" {
			o.Violation("output-differs:zng:also-without-pushdown", detail)
			continue
		}
		// Which input values did the pushed-down filter lose?
		sig := "output-differs:zng:scanner-path-only"
		if p.Filter != "" && run.skip > 0 {
			if fseq, _, err := compiler.Parse(p.Filter); err == nil {
				refF := c04Query(zctx, fseq, zbuf.NewArray(append([]zed.Value(nil), in.Values...)), false)
				zc3 := zed.NewContext()
				rd3, closer3, _ := c04Reader(zc3, data, e)
				gotF := c04Query(zc3, fseq, rd3, false)
				if closer3 != nil {
					closer3.Close()
				}
				if refF.err == nil && gotF.err == nil {
					have := map[gen.Rec]int{}
					for _, v := range gotF.out {
						have[gen.RecOf(v)]++
					}
					lostOnlyNested, lost, extra := true, 0, 0
					byRec := map[gen.Rec]string{}
					for i, v := range in.Values {
						byRec[gen.RecOf(v)] = in.Sites[i]
					}
					for _, v := range refF.out {
						k := gen.RecOf(v)
						if have[k] > 0 {
							have[k]--
							continue
						}
						lost++
						if !c04NestedNameSite(byRec[k]) {
							lostOnlyNested = false
						}
					}
					for _, n := range have {
						extra += n
					}
					if lost > 0 && extra == 0 && lostOnlyNested {
						sig = "bufferfilter:false-negative:field-name-of-record-inside-container"
						o.Count("known_hits_field_name_finder", 1)
					} else if lost > 0 && extra == 0 {
						sig = "bufferfilter:false-negative"
					}
					detail += fmt.Sprintf("\nfilter `%s` alone: %d input values lost by the pushed-down filter, %d extra", p.Filter, lost, extra)
				}
			}
		}
		o.Violation(sig, detail)
	}
	if nontrivial {
		o.Nontrivial(fmt.Sprint(o.Kind, "/", o.Index))
	}
}

var c04Directed = []struct {
	name, text, filter, token string
	input                     []string
	sites                     []string
}{
	{name: "keyword-search-field-name-in-record-in-array", text: "search foo", filter: "search foo", token: "foo",
		input: []string{`{a:[{foo:1}]}`, `{b:"pad"}`}, sites: []string{"name:rec-in-array", ""}},
	{name: "keyword-search-field-name-in-record-in-union-map-set-error", text: "search foo | count()", filter: "search foo", token: "foo",
		input: []string{`{id:0,u:{foo:1}((int64,{foo:int64}))}`, `{id:1,m:|{"k":{foo:1}}|}`, `{id:2,st:|[{foo:1}]|}`, `{id:3,e:error({foo:1})}`, `{id:4,s:"pad"}`},
		sites: []string{"name:rec-in-union", "name:rec-in-map-value", "name:rec-in-set", "name:rec-in-error", ""}},
}

func c04DirectedCase(c *rt.Ctx, o *rt.Obs, i int) {
	d := c04Directed[i]
	zctx := zed.NewContext()
	in := &prog.SearchInput{Text: d.input, Sites: d.sites}
	e := prog.CorpusEntry{Input: strings.Join(d.input, "\n")}
	vals, err := e.ReadInput(zctx)
	if err != nil {
		o.Violation("harness:directed-input", err.Error())
		return
	}
	in.Values = vals
	p := &prog.Program{Text: d.text, Filter: d.filter, Mode: prog.ModeSequence, ModeName: "sequence", Name: d.name}
	encs := []c04Enc{{Format: "zson"}, {Format: "zjson"}, {Format: "vng"},
		{Format: "zng", FrameThresh: 1, Threads: 1}, {Format: "zng", FrameThresh: zngio.DefaultFrameThresh, Threads: 1}, {Format: "zng", Compress: true, FrameThresh: 1, Threads: 2}}
	c04Check(c, o, zctx, p, d.token, in, encs)
}

package main

import (
	"bytes"
	"encoding/binary"
	"fmt"
	"os"
	"runtime"
	"runtime/debug"
	"sort"
	"strings"
	"sync"
	"sync/atomic"
	"time"

	zed "github.com/brimdata/super"
	"github.com/brimdata/super/pkg/verifhook"
	"github.com/brimdata/super/zio/zngio"
	"github.com/brimdata/super/zson"

	"verif/internal/gen"
	"verif/internal/rt"
)

func init() { register("C05", runC05) }

const (
	c05SigAlias    = "typevalue:changes-when-caller-reuses-buffer-passed-to-LookupByValue"
	c05SigForeign  = "typevalue:replaced-by-non-canonical-encoding-passed-to-LookupByValue"
	c05SigNameWin  = "namedef-ref-window:reference-resolved-to-concurrent-rebinding"
	c05SigUnionTie = "union:member-order-depends-on-listing-when-CompareTypes-ties"
	c05Scribble    = 0xa5
)

// ---------------------------------------------------------------------------
// harness-side type value encoder (ZNG spec §4), independent of the code's

type c05EncMode int

const (
	c05Canonical   c05EncMode = iota // name reference whenever the name's current binding is the same type
	c05RepeatedDef                   // every occurrence of a named type is a definition (valid per spec §4.8)
	c05Unsorted                      // union members listed in reverse order
)

type c05Encoder struct {
	mode  c05EncMode
	bound map[string]string // name -> structural string of the type it is bound to (DFS order)
	buf   []byte
}

func c05EncodeType(t zed.Type, mode c05EncMode) []byte {
	e := &c05Encoder{mode: mode, bound: map[string]string{}}
	e.enc(t)
	return e.buf
}

func (e *c05Encoder) name(s string) {
	e.buf = binary.AppendUvarint(e.buf, uint64(len(s)))
	e.buf = append(e.buf, s...)
}

func (e *c05Encoder) enc(t zed.Type) {
	switch t := t.(type) {
	case *zed.TypeNamed:
		under := gen.TypeString(t.Type)
		if e.mode != c05RepeatedDef && e.bound[t.Name] == under {
			e.buf = append(e.buf, zed.TypeValueNameRef)
			e.name(t.Name)
			return
		}
		e.buf = append(e.buf, zed.TypeValueNameDef)
		e.name(t.Name)
		e.enc(t.Type)
		e.bound[t.Name] = under
	case *zed.TypeRecord:
		e.buf = append(e.buf, zed.TypeValueRecord)
		e.buf = binary.AppendUvarint(e.buf, uint64(len(t.Fields)))
		for _, f := range t.Fields {
			e.name(f.Name)
			e.enc(f.Type)
		}
	case *zed.TypeArray:
		e.buf = append(e.buf, zed.TypeValueArray)
		e.enc(t.Type)
	case *zed.TypeSet:
		e.buf = append(e.buf, zed.TypeValueSet)
		e.enc(t.Type)
	case *zed.TypeMap:
		e.buf = append(e.buf, zed.TypeValueMap)
		e.enc(t.KeyType)
		e.enc(t.ValType)
	case *zed.TypeUnion:
		e.buf = append(e.buf, zed.TypeValueUnion)
		e.buf = binary.AppendUvarint(e.buf, uint64(len(t.Types)))
		if e.mode == c05Unsorted {
			for i := len(t.Types) - 1; i >= 0; i-- {
				e.enc(t.Types[i])
			}
		} else {
			for _, m := range t.Types {
				e.enc(m)
			}
		}
	case *zed.TypeEnum:
		e.buf = append(e.buf, zed.TypeValueEnum)
		e.buf = binary.AppendUvarint(e.buf, uint64(len(t.Symbols)))
		for _, s := range t.Symbols {
			e.name(s)
		}
	case *zed.TypeError:
		e.buf = append(e.buf, zed.TypeValueError)
		e.enc(t.Type)
	default:
		e.buf = append(e.buf, byte(t.ID()))
	}
}

// c05Rebuild constructs t's structure in dst through the Lookup* constructors
// only; with r the members of every union are listed in a random order.
func c05Rebuild(dst *zed.Context, t zed.Type, r *rt.Rand) zed.Type {
	switch t := t.(type) {
	case *zed.TypeNamed:
		n, err := dst.LookupTypeNamed(t.Name, c05Rebuild(dst, t.Type, r))
		if err != nil {
			panic(err)
		}
		return n
	case *zed.TypeRecord:
		fields := make([]zed.Field, len(t.Fields))
		for i, f := range t.Fields {
			fields[i] = zed.NewField(f.Name, c05Rebuild(dst, f.Type, r))
		}
		return dst.MustLookupTypeRecord(fields)
	case *zed.TypeArray:
		return dst.LookupTypeArray(c05Rebuild(dst, t.Type, r))
	case *zed.TypeSet:
		return dst.LookupTypeSet(c05Rebuild(dst, t.Type, r))
	case *zed.TypeMap:
		k := c05Rebuild(dst, t.KeyType, r)
		return dst.LookupTypeMap(k, c05Rebuild(dst, t.ValType, r))
	case *zed.TypeUnion:
		members := make([]zed.Type, len(t.Types))
		order := make([]int, len(t.Types))
		for i := range order {
			order[i] = i
		}
		if r != nil {
			order = r.Perm(len(t.Types))
		}
		// build members in structural order (name bindings follow it), list them permuted
		built := make([]zed.Type, len(t.Types))
		for i, m := range t.Types {
			built[i] = c05Rebuild(dst, m, r)
		}
		for i, j := range order {
			members[i] = built[j]
		}
		return dst.LookupTypeUnion(members)
	case *zed.TypeEnum:
		return dst.LookupTypeEnum(append([]string{}, t.Symbols...))
	case *zed.TypeError:
		return dst.LookupTypeError(c05Rebuild(dst, t.Type, r))
	}
	return t
}

func c05Walk(t zed.Type, fn func(zed.Type)) {
	fn(t)
	switch t := t.(type) {
	case *zed.TypeNamed:
		c05Walk(t.Type, fn)
	case *zed.TypeRecord:
		for _, f := range t.Fields {
			c05Walk(f.Type, fn)
		}
	case *zed.TypeArray:
		c05Walk(t.Type, fn)
	case *zed.TypeSet:
		c05Walk(t.Type, fn)
	case *zed.TypeMap:
		c05Walk(t.KeyType, fn)
		c05Walk(t.ValType, fn)
	case *zed.TypeUnion:
		for _, m := range t.Types {
			c05Walk(m, fn)
		}
	case *zed.TypeError:
		c05Walk(t.Type, fn)
	}
}

func c05Has(t zed.Type, pred func(zed.Type) bool) bool {
	found := false
	c05Walk(t, func(x zed.Type) {
		if pred(x) {
			found = true
		}
	})
	return found
}

// c05TieUnion: a union two of whose members zed.CompareTypes calls equal
// although they differ (same name, same underlying id, different binding).
func c05TieUnion(t zed.Type) bool {
	return c05Has(t, func(x zed.Type) bool {
		u, ok := x.(*zed.TypeUnion)
		if !ok {
			return false
		}
		for i := range u.Types {
			for j := i + 1; j < len(u.Types); j++ {
				if u.Types[i] != u.Types[j] && gen.TypeString(u.Types[i]) != gen.TypeString(u.Types[j]) && zed.CompareTypes(u.Types[i], u.Types[j]) == 0 {
					return true
				}
			}
		}
		return false
	})
}

// c05Unbound prints a structure with every named type reduced to its name.
func c05Unbound(t zed.Type) string {
	switch t := t.(type) {
	case *zed.TypeNamed:
		return fmt.Sprintf("named(%q)", t.Name)
	case *zed.TypeRecord:
		var sb strings.Builder
		sb.WriteString("rec{")
		for _, f := range t.Fields {
			fmt.Fprintf(&sb, "%q:%s,", f.Name, c05Unbound(f.Type))
		}
		return sb.String() + "}"
	case *zed.TypeArray:
		return "arr[" + c05Unbound(t.Type) + "]"
	case *zed.TypeSet:
		return "set[" + c05Unbound(t.Type) + "]"
	case *zed.TypeMap:
		return "map[" + c05Unbound(t.KeyType) + "=>" + c05Unbound(t.ValType) + "]"
	case *zed.TypeUnion:
		parts := make([]string, len(t.Types))
		for i, m := range t.Types {
			parts[i] = c05Unbound(m)
		}
		sort.Strings(parts)
		return "union(" + strings.Join(parts, "|") + ")"
	case *zed.TypeError:
		return "err<" + c05Unbound(t.Type) + ">"
	}
	return gen.TypeString(t)
}

// c05OnlyBindingsDiffer: a and b are different structures that become equal
// once named types are reduced to their names.
func c05OnlyBindingsDiffer(a, b zed.Type) bool {
	return a != nil && b != nil && gen.TypeStringCanon(a) != gen.TypeStringCanon(b) && c05Unbound(a) == c05Unbound(b)
}

// ---------------------------------------------------------------------------
// entry points

var c05APIs = []string{"constructors", "LookupByValue", "LookupByValue(repeated-namedef)", "LookupByValue(unsorted-union)", "TranslateType", "LookupTypeValue(foreign)", "zson.ParseType", "zng-read", "Mapper.Enter"}

type c05StepResult struct {
	api     string
	typ     zed.Type
	passed  []byte // the byte slice handed to LookupByValue (owned by the harness)
	foreign bool   // passed is a non-canonical encoding
	skipped string // the step is outside this property (text round trip failed)
	err     error  // the entry point refused a well-formed request
	read    []byte // what LookupTypeValue returned (api 5)
}

// c05Step obtains tmpl's structure in ctx through entry point api.
func c05Step(ctx *zed.Context, api int, tmpl zed.Type, r *rt.Rand) (res c05StepResult) {
	res.api = c05APIs[api]
	var err error
	switch api {
	case 0:
		res.typ = c05Rebuild(ctx, tmpl, r)
	case 1, 2, 3:
		mode := []c05EncMode{c05Canonical, c05RepeatedDef, c05Unsorted}[api-1]
		tv := c05EncodeType(tmpl, mode)
		if api > 1 && bytes.Equal(tv, c05EncodeType(tmpl, c05Canonical)) {
			// the type has no feature this variant changes; it is a canonical lookup
			res.api = c05APIs[1]
		} else if api > 1 {
			res.foreign = true
		}
		res.passed = tv
		res.typ, err = ctx.LookupByValue(tv)
	case 4:
		res.typ, err = ctx.TranslateType(tmpl)
	case 5:
		v := ctx.LookupTypeValue(tmpl)
		if v.Type() != zed.TypeType {
			err = fmt.Errorf("LookupTypeValue returned %s", gen.TypeString(v.Type()))
			break
		}
		res.read = append([]byte{}, v.Bytes()...)
		res.typ, err = ctx.LookupByValue(append([]byte{}, v.Bytes()...))
	case 6:
		var text string
		func() {
			defer func() {
				if p := recover(); p != nil {
					res.skipped = fmt.Sprint("zson.FormatType panicked: ", p)
				}
			}()
			text = zson.FormatType(tmpl)
		}()
		if res.skipped != "" {
			return res
		}
		res.typ, err = zson.ParseType(ctx, text)
		if err != nil {
			// a formatter/parser disagreement is C02's business, not a canonicity question
			res.skipped = "zson.ParseType: " + err.Error()
			return res
		}
	case 7:
		var buf bytes.Buffer
		w := zngio.NewWriter(nopCloser{&buf})
		if err = w.Write(zed.NewValue(tmpl, nil)); err == nil {
			err = w.Close()
		}
		if err != nil {
			break
		}
		zr := zngio.NewReaderWithOpts(ctx, bytes.NewReader(buf.Bytes()), zngio.ReaderOpts{Threads: 1, Size: 4096})
		var v *zed.Value
		v, err = zr.Read()
		if err == nil && v == nil {
			err = fmt.Errorf("zng reader returned no value")
		}
		if err == nil {
			res.typ = v.Type()
		}
		zr.Close()
	case 8:
		res.typ, err = zed.NewMapper(ctx).Enter(tmpl)
	}
	if err != nil {
		res.err = err
		res.typ = nil
	}
	return res
}

// c05StepFailed reports an entry point's error.  One cause is known: the
// type value LookupTypeValue hands out is the harness's own, since overwritten
// buffer (the LookupByValue aliasing finding), which then does not decode.
func c05StepFailed(vs *c06Viols, res c05StepResult, tmpl zed.Type) {
	if len(res.read) > 0 && bytes.Count(res.read, []byte{c05Scribble}) == len(res.read) {
		vs.add(c05SigAlias, func() string {
			return fmt.Sprintf("LookupTypeValue(%s) returned %x — %d × 0x%x, what the harness wrote over a buffer it had earlier passed to LookupByValue — which then fails to decode: %v", gen.TypeString(tmpl), res.read, len(res.read), c05Scribble, res.err)
		})
		return
	}
	vs.add("entry-point-error:"+res.api, func() string {
		return fmt.Sprintf("%s for %s: %v", res.api, gen.TypeString(tmpl), res.err)
	})
}

// c05Want: the structure an entry point must return.  The text round trip
// of zson.FormatType/ParseType is not part of this property (C02): whatever
// type the parser produced is registered, but not compared with the template.
func c05Want(res c05StepResult, tmpl zed.Type) zed.Type {
	if res.api == "zson.ParseType" {
		return nil
	}
	return tmpl
}

// ---------------------------------------------------------------------------
// tracker: everything ever observed about one context

type c05Tracker struct {
	ctx     *zed.Context
	byCanon map[string]zed.Type
	byPtr   map[zed.Type]string
	byID    map[int]zed.Type
	tv      map[zed.Type][]byte // type value as first read
	apis    map[string]map[string]bool
	passed  []c05StepResult   // buffers handed to LookupByValue
	bad     map[zed.Type]bool // type value already reported as wrong
	vs      *c06Viols
	// concurrent: other goroutines were binding names in this context while
	// type values were being decoded; a result that differs from what was
	// asked for only in what its names are bound to is the known window.
	concurrent bool
}

func newC05Tracker(ctx *zed.Context, vs *c06Viols) *c05Tracker {
	return &c05Tracker{ctx: ctx, byCanon: map[string]zed.Type{}, byPtr: map[zed.Type]string{}, byID: map[int]zed.Type{},
		tv: map[zed.Type][]byte{}, apis: map[string]map[string]bool{}, bad: map[zed.Type]bool{}, vs: vs}
}

// observe registers a type an entry point returned (and every type reachable
// from it) and checks: same pointer <=> same structure; ids unique and
// resolvable; the type value is what the harness encoder says.
func (tr *c05Tracker) observe(api string, want zed.Type, got zed.Type) {
	if want != nil {
		if w, g := gen.TypeStringCanon(want), gen.TypeStringCanon(got); w != g {
			if tr.concurrent && c05OnlyBindingsDiffer(want, got) {
				tr.vs.add(c05SigNameWin, func() string {
					return fmt.Sprintf("free-running goroutines: %s asked for %s, got %s (differs only in what a name is bound to)", api, w, g)
				})
				// what the context now holds for this structure is a consequence; leave it out
				c05Walk(got, func(t zed.Type) { tr.bad[t] = true })
				return
			}
			tr.vs.add("entry-point-returns-other-structure:"+api, func() string {
				return fmt.Sprintf("asked for %s, got %s", w, g)
			})
		}
	}
	canonTop := gen.TypeStringCanon(got)
	if tr.apis[canonTop] == nil {
		tr.apis[canonTop] = map[string]bool{}
	}
	tr.apis[canonTop][api] = true
	c05Walk(got, func(t zed.Type) {
		if tr.bad[t] && tr.concurrent {
			return
		}
		canon := gen.TypeStringCanon(t)
		if prev, ok := tr.byPtr[t]; ok {
			if prev != canon {
				tr.vs.add("type-object-mutated", func() string { return fmt.Sprintf("the same pointer printed %s earlier and %s now", prev, canon) })
			}
			return
		}
		tr.byPtr[t] = canon
		if other, ok := tr.byCanon[canon]; ok && other != t {
			sig := "two-objects-for-one-structure"
			if c05TieUnion(t) || c05TieUnion(other) {
				sig = c05SigUnionTie
			}
			tr.vs.add(sig, func() string {
				return fmt.Sprintf("via %s: structure %s exists as id %d (listed %s) and as id %d (listed %s)", api, canon, zed.TypeID(other), gen.TypeString(other), zed.TypeID(t), gen.TypeString(t))
			})
		} else {
			tr.byCanon[canon] = t
		}
		id := zed.TypeID(t)
		if other, ok := tr.byID[id]; ok && other != t {
			tr.vs.add("two-types-share-an-id", func() string {
				return fmt.Sprintf("id %d: %s and %s", id, gen.TypeString(other), gen.TypeString(t))
			})
		}
		tr.byID[id] = t
		if back, err := tr.ctx.LookupType(id); err != nil || back != t {
			tr.vs.add("LookupType(id)-returns-other-object", func() string {
				return fmt.Sprintf("id %d of %s: LookupType gave %v, %v", id, canon, back, err)
			})
		}
		v := tr.ctx.LookupTypeValue(t)
		b := append([]byte{}, v.Bytes()...)
		tr.tv[t] = b
		tr.checkTV(t, b, "when first read")
	})
}

// checkTV compares a type value with the harness's own canonical encoding of
// the type's structure and names the known causes of a difference.
func (tr *c05Tracker) checkTV(t zed.Type, b []byte, when string) bool {
	want := c05EncodeType(t, c05Canonical)
	if bytes.Equal(b, want) {
		return false
	}
	tr.bad[t] = true
	sig := "typevalue:not-the-canonical-encoding"
	cause := ""
	if tr.concurrent {
		if d, err := zed.NewContext().LookupByValue(append([]byte{}, b...)); err == nil && c05OnlyBindingsDiffer(d, t) {
			sig, cause = c05SigNameWin, "it is the type value of "+gen.TypeString(d)+", which a decode under concurrent re-binding resolved to this type"
		}
	}
	for _, p := range tr.passed {
		if cause != "" {
			break
		}
		switch {
		case p.foreign && bytes.Equal(b, c05EncodeType(t, c05RepeatedDef)) && !bytes.Equal(want, c05EncodeType(t, c05RepeatedDef)):
			sig, cause = c05SigForeign, "it is the repeated-namedef encoding"
		case p.foreign && bytes.Equal(b, c05EncodeType(t, c05Unsorted)) && !bytes.Equal(want, c05EncodeType(t, c05Unsorted)):
			sig, cause = c05SigForeign, "it is the unsorted-union encoding"
		case len(p.passed) == len(b) && len(b) > 0 && bytes.Count(b, []byte{c05Scribble}) == len(b):
			sig, cause = c05SigAlias, fmt.Sprintf("it reads as %d × 0x%x, what the harness wrote over its own buffer after LookupByValue returned", len(b), c05Scribble)
		}
		if cause != "" {
			break
		}
	}
	tr.vs.add(sig, func() string {
		return fmt.Sprintf("LookupTypeValue(%s) %s is %x, the structure's canonical encoding is %x%s", gen.TypeString(t), when, b, want, map[bool]string{true: " — " + cause, false: ""}[cause != ""])
	})
	return true
}

// recheck re-reads every known type value: none may have changed.  A type
// whose value changed is reported once and kept out of later type-value
// checks (tr.bad), so that one defect does not cascade.
func (tr *c05Tracker) recheck(when string) {
	for t, first := range tr.tv {
		if tr.bad[t] {
			continue
		}
		v := tr.ctx.LookupTypeValue(t)
		if v.Type() == zed.TypeType && bytes.Equal(v.Bytes(), first) {
			continue
		}
		now := append([]byte{}, v.Bytes()...)
		tr.bad[t] = true
		if !tr.checkTV(t, now, when) {
			tr.vs.add("typevalue:changed", func() string {
				return fmt.Sprintf("LookupTypeValue(%s) was %x, %s it is %x", gen.TypeString(t), first, when, now)
			})
		}
	}
}

// scribble overwrites every buffer the harness handed to LookupByValue.
func (tr *c05Tracker) scribble() {
	for _, p := range tr.passed {
		for i := range p.passed {
			p.passed[i] = c05Scribble
		}
	}
}

// portability: oracle (c)
func (tr *c05Tracker) checkPortable(t zed.Type) {
	other := zed.NewContext()
	there, err := other.TranslateType(t)
	if err != nil {
		tr.vs.add("translate-error", func() string { return fmt.Sprintf("%s: %v", gen.TypeString(t), err) })
		return
	}
	if a, b := gen.TypeStringCanon(t), gen.TypeStringCanon(there); a != b {
		tr.vs.add("translate-changes-structure", func() string { return fmt.Sprintf("%s became %s", a, b) })
	}
	back, err := tr.ctx.TranslateType(there)
	if err != nil || back != t {
		sig := "translate-there-and-back-returns-other-object"
		if c05TieUnion(t) {
			sig = c05SigUnionTie
		} else if tr.concurrent && err == nil && c05OnlyBindingsDiffer(t, back) {
			sig = c05SigNameWin // the context cached the mis-resolved type under this structure's type value
		}
		tr.vs.add(sig, func() string {
			return fmt.Sprintf("%s (id %d) came back as %v (err %v)", gen.TypeString(t), zed.TypeID(t), back, err)
		})
	}
	if tr.bad[t] {
		return
	}
	fresh := zed.NewContext()
	dec, err := fresh.LookupByValue(append([]byte{}, tr.tv[t]...))
	if err != nil {
		tr.vs.add("typevalue-undecodable-in-fresh-context", func() string { return fmt.Sprintf("%s: %x: %v", gen.TypeString(t), tr.tv[t], err) })
		return
	}
	if a, b := gen.TypeStringCanon(t), gen.TypeStringCanon(dec); a != b {
		tr.vs.add("typevalue-decodes-to-other-structure", func() string { return fmt.Sprintf("%s decoded as %s", a, b) })
	}
	// the same structure built by constructors alone in a fresh context serializes identically
	fresh2 := zed.NewContext()
	built := c05Rebuild(fresh2, t, nil)
	if ref := fresh2.LookupTypeValue(built).Bytes(); !bytes.Equal(ref, tr.tv[t]) {
		tr.vs.add("typevalue:differs-between-contexts", func() string {
			return fmt.Sprintf("%s: here %x, built in a fresh context %x", gen.TypeString(t), tr.tv[t], ref)
		})
	}
}

func (tr *c05Tracker) nontrivialKeys() []string {
	var out []string
	for canon, apis := range tr.apis {
		if len(apis) >= 2 {
			out = append(out, canon)
		}
	}
	return out
}

// ---------------------------------------------------------------------------
// alphabet

func c05Alphabet(zctx *zed.Context) []zed.Type {
	f := zed.NewField
	rec := zctx.MustLookupTypeRecord
	named := func(n string, t zed.Type) zed.Type {
		x, err := zctx.LookupTypeNamed(n, t)
		if err != nil {
			panic(err)
		}
		return x
	}
	union := func(ts ...zed.Type) zed.Type { return zctx.LookupTypeUnion(ts) }
	i64, str := zed.Type(zed.TypeInt64), zed.Type(zed.TypeString)
	fooInt := named("foo", i64)
	fooStr := named("foo", str)
	return []zed.Type{
		rec([]zed.Field{f("a", i64), f("b", str)}),
		rec([]zed.Field{f("", i64), f("a b", str), f("type", zed.TypeIP), f("a\x00\"é", zed.TypeNull)}),
		union(i64, str, zed.TypeFloat64),
		union(rec([]zed.Field{f("a", i64)}), rec([]zed.Field{f("b", i64)}), zctx.LookupTypeArray(i64), zed.TypeNull),
		fooInt,
		fooStr,
		rec([]zed.Field{f("x", fooInt), f("y", fooInt), f("z", zctx.LookupTypeArray(fooInt))}),
		rec([]zed.Field{f("x", fooInt), f("y", fooStr), f("z", fooStr), f("w", fooInt)}),
		zctx.LookupTypeEnum([]string{"A", "B", "a b", ""}),
		zctx.LookupTypeError(rec([]zed.Field{f("a", str)})),
		zctx.LookupTypeMap(str, union(i64, str)),
		zctx.LookupTypeSet(named("bar", union(i64, str))),
		union(fooInt, i64),
		named("foo", rec([]zed.Field{f("self", fooInt), f("other", named("bar", fooStr))})),
		// one name bound to two named types with the same underlying type
		// (foo=int64, foo=bar=int64), bound back to the first and referred to again
		rec([]zed.Field{f("a", fooInt), f("b", named("foo", named("bar", i64))), f("c", fooInt), f("d", fooInt)}),
		rec([]zed.Field{f("p", named("foo", named("bar", i64))), f("q", fooInt), f("r", zctx.LookupTypeArray(fooInt)), f("s", named("foo", named("bar", i64)))}),
		// a name re-bound inside each kind of container (map key, map value,
		// set, array, error, union member, nested record), with the earlier
		// binding used again after the container: serialization and decoding
		// must track the binding through every constructor alike
		rec([]zed.Field{f("a", fooInt), f("c", zctx.LookupTypeMap(str, fooStr)), f("b", fooInt)}),
		rec([]zed.Field{f("a", fooInt), f("c", zctx.LookupTypeMap(fooStr, i64)), f("b", fooInt)}),
		rec([]zed.Field{f("a", fooStr), f("c", zctx.LookupTypeSet(fooInt)), f("b", fooStr), f("d", zctx.LookupTypeArray(fooInt)), f("e", fooStr)}),
		rec([]zed.Field{f("a", fooInt), f("c", zctx.LookupTypeError(fooStr)), f("b", fooInt), f("d", union(fooStr, zed.TypeIP)), f("e", fooInt)}),
		rec([]zed.Field{f("a", fooInt), f("c", rec([]zed.Field{f("x", zctx.LookupTypeMap(fooInt, zctx.LookupTypeArray(fooStr)))})), f("b", fooInt)}),
		zctx.LookupTypeMap(rec([]zed.Field{f("k", fooInt)}), rec([]zed.Field{f("v", fooStr), f("w", zctx.LookupTypeMap(fooInt, fooInt))})),
	}
}

// c05TieAlphabet: the one structure whose union order the code cannot make
// canonical (zed.CompareTypes ties foo=bar=int64 with foo=int64).
func c05TieType(zctx *zed.Context) zed.Type {
	bar, _ := zctx.LookupTypeNamed("bar", zed.TypeInt64)
	fooBar, _ := zctx.LookupTypeNamed("foo", bar)
	fooInt, _ := zctx.LookupTypeNamed("foo", zed.TypeInt64)
	return zctx.LookupTypeUnion([]zed.Type{fooBar, fooInt})
}

// c05PickAPI draws an entry point.  Reading a ZNG stream (512 KiB frame
// buffers, poisoned on release) and running the ZSON lexer (large scratch
// buffers) cost tens of milliseconds each under the race detector, so they
// are drawn with probability 1/den each; the other seven are uniform.
func c05PickAPI(r *rt.Rand, den int) int {
	switch {
	case r.Chance(1, den):
		return 7
	case r.Chance(1, den):
		return 6
	}
	for {
		if api := r.Intn(len(c05APIs)); api != 7 && api != 6 {
			return api
		}
	}
}

type c05Op struct {
	API  int `json:"api"`
	Type int `json:"type"`
}

func (op c05Op) String() string { return fmt.Sprintf("%s#%d", c05APIs[op.API], op.Type) }

// c05RunHistory executes ops in a fresh context and applies oracles (a)-(c).
// It returns the type value each alphabet member ended up with.
func c05RunHistory(c *rt.Ctx, o *rt.Obs, vs *c06Viols, alphabet []zed.Type, ops []c05Op, r *rt.Rand, scribbleEvery int) (map[int]string, []string) {
	ctx := zed.NewContext()
	tr := newC05Tracker(ctx, vs)
	tvs := map[int]string{}
	for i, op := range ops {
		res := c05Step(ctx, op.API, alphabet[op.Type], r)
		c.Count("steps", 1)
		if res.err != nil {
			c05StepFailed(vs, res, alphabet[op.Type])
			continue
		}
		if res.skipped != "" {
			c.Count("steps_skipped:"+strings.SplitN(res.skipped, ":", 2)[0], 1)
			continue
		}
		if res.passed != nil {
			tr.passed = append(tr.passed, res)
		}
		tr.observe(res.api, c05Want(res, alphabet[op.Type]), res.typ)
		tvs[op.Type] = string(tr.tv[res.typ])
		if scribbleEvery > 0 && (i+1)%scribbleEvery == 0 {
			tr.scribble()
			tr.recheck(fmt.Sprintf("after step %d (%s) and after the harness overwrote the buffers it had passed to LookupByValue", i, op))
		}
	}
	tr.scribble()
	tr.recheck("at the end of the history, after the harness overwrote the buffers it had passed to LookupByValue")
	for t := range tr.tv {
		tr.checkPortable(t)
	}
	c.Max("max_types_in_one_context", int64(len(tr.byPtr)))
	return tvs, tr.nontrivialKeys()
}

func runC05(c *rt.Ctx) {
	c.Note("rule", "perm: one base history of ≤5 steps (entry point × member of a 22-type alphabet, among them records that re-bind a name inside every kind of container and use the earlier binding again afterwards) executed in every order, each order in a fresh context; long: one random history of 500 steps over 40 generated types (depth ≤3); conc: 8 goroutines run interleaved histories on one shared context (race detector on, GOMAXPROCS 1/2/8), everything they were handed is checked afterwards. After every step: the returned type and all types reachable from it are the same object (and id) as any earlier one with the same harness structural string (union members sorted) and a different object otherwise; LookupType(id) returns it; its type value equals the harness's own spec encoding; all type values re-read unchanged after the harness overwrote every buffer it had passed in; translate there-and-back is the identity on objects; the type value decodes to an equal structure in a fresh context and equals the one of a constructor-built copy there. non-trivial = a context in which one structure was reached through ≥2 different entry points; distinct by structure")
	c.Note("granularity", "concurrent histories interleave at the Go scheduler's discretion (GOMAXPROCS 1, 2, 8, with Gosched between steps); only the name-definition window inside DecodeTypeValue is forced, through the zed.context.namedef hook")
	c.Note("assumptions", strings.Join([]string{
		"byte slices passed to LookupByValue belong to the caller, who may overwrite them once the call has returned",
		"type values passed to LookupByValue are well-formed per ZNG spec §4: the canonical encoding, the encoding that repeats a name definition instead of referencing it (allowed by §4.8), or one that lists union members in another order; truncated, trailing-garbage and bare-reference encodings are C11's subject and are not generated",
		"zson.ParseType steps whose text the parser rejects are skipped and counted (formatter/parser agreement is C02's subject)",
	}, "\n"))
	verifhook.SetPoison(true)
	debug.SetGCPercent(400)
	c05InstallHook()

	c.Case("directed", 0, func(o *rt.Obs) { c05DirectedAlias(c, o) })
	c.Case("directed", 1, func(o *rt.Obs) { c05DirectedForeign(c, o) })
	c.Case("directed", 2, func(o *rt.Obs) { c05DirectedNameWindow(c, o) })
	c.Case("directed", 3, func(o *rt.Obs) { c05DirectedUnionTie(c, o) })

	only := os.Getenv("VERIF_C05_ONLY") // debugging aid
	want := func(k string) bool { return only == "" || only == k }
	for i, n := 0, c.N(160, 1500); i < n && want("perm"); i++ {
		c.Case("perm", i, func(o *rt.Obs) { c05Perm(c, o) })
	}
	for i, n := 0, c.N(40, 1000); i < n && want("long"); i++ {
		c.Case("long", i, func(o *rt.Obs) { c05Long(c, o) })
	}
	for i, n := 0, c.N(200, 3000); i < n && want("conc"); i++ {
		c.Case("conc", i, func(o *rt.Obs) { c05Conc(c, o) })
	}
	for i, n := 0, c.N(30, 300); i < n && want("window"); i++ {
		c.Case("window", i, func(o *rt.Obs) { c05Window(c, o, i) })
	}
	c.Count("namedef_hook_hits", verifhook.Count("zed.context.namedef"))
}

func permutations(n int, fn func([]int)) {
	p := make([]int, n)
	for i := range p {
		p[i] = i
	}
	var rec func(k int)
	rec = func(k int) {
		if k == n {
			fn(p)
			return
		}
		for i := k; i < n; i++ {
			p[k], p[i] = p[i], p[k]
			rec(k + 1)
			p[k], p[i] = p[i], p[k]
		}
	}
	rec(0)
}

func c05Perm(c *rt.Ctx, o *rt.Obs) {
	r := o.R
	tmplCtx := zed.NewContext()
	alphabet := c05Alphabet(tmplCtx)
	maxLen := 5
	if !c.Quick() && r.Chance(1, 10) {
		maxLen = 6
	}
	n := r.Range(2, maxLen)
	ops := make([]c05Op, n)
	for i := range ops {
		ops[i] = c05Op{API: c05PickAPI(r, 30), Type: r.Intn(len(alphabet))}
		if ops[i].API == 7 && n > 3 {
			// a full ZNG read in every one of up to 120 orders is too dear; its
			// type path is local-context constructors + Mapper.Enter anyway
			ops[i].API = 8
		}
		if i > 0 && r.Chance(1, 3) {
			ops[i].Type = ops[r.Intn(i)].Type // the same structure through another entry point
		}
	}
	var desc []string
	for _, op := range ops {
		desc = append(desc, op.String())
	}
	o.Desc(map[string]any{"base_history": desc})
	vs := newC06Viols(o)
	nontriv := map[string]bool{}
	nperm := 0
	permutations(n, func(p []int) {
		nperm++
		h := make([]c05Op, n)
		for i, j := range p {
			h[i] = ops[j]
		}
		tvs, keys := c05RunHistory(c, o, vs, alphabet, h, r, 1)
		for _, k := range keys {
			nontriv[k] = true
		}
		_ = tvs // every order's type values were compared with the structure's canonical encoding, hence with each other
	})
	c.Count("histories_run", int64(nperm))
	vs.flush()
	for k := range nontriv {
		o.Nontrivial(k)
	}
	if o.Index%40 == 0 {
		o.Sample(map[string]any{"kind": "perm", "base_history": desc, "orders_run": nperm})
	}
}

func c05Long(c *rt.Ctx, o *rt.Obs) {
	r := o.R
	tmplCtx := zed.NewContext()
	tg := &gen.TypeGen{Zctx: tmplCtx, R: r, O: gen.TypeOpts{}}
	var alphabet []zed.Type
	for len(alphabet) < 40 {
		t := tg.Type(3)
		if t.ID() < zed.IDTypeComplex {
			if _, named := t.(*zed.TypeNamed); !named {
				continue
			}
		}
		if c05TieUnion(t) {
			continue // the directed case covers it
		}
		alphabet = append(alphabet, t)
	}
	nsteps := 500
	ops := make([]c05Op, nsteps)
	for i := range ops {
		ops[i] = c05Op{API: c05PickAPI(r, 100), Type: r.Intn(len(alphabet))}
	}
	o.Desc(map[string]any{"steps": nsteps, "alphabet": len(alphabet), "first_types": []string{gen.TypeString(alphabet[0]), gen.TypeString(alphabet[1])}})
	vs := newC06Viols(o)
	_, keys := c05RunHistory(c, o, vs, alphabet, ops, r, 50)
	vs.flush()
	for _, k := range keys {
		o.Nontrivial(k)
	}
}

// ---------------------------------------------------------------------------
// (d) concurrent histories on one shared context

func c05Conc(c *rt.Ctx, o *rt.Obs) {
	r := o.R
	tmplCtx := zed.NewContext()
	alphabet := c05Alphabet(tmplCtx)
	if r.Bool() {
		tg := &gen.TypeGen{Zctx: tmplCtx, R: r, O: gen.TypeOpts{}}
		for len(alphabet) < 32 {
			t := tg.Type(3)
			if c05TieUnion(t) {
				continue
			}
			alphabet = append(alphabet, t)
		}
	}
	const G = 8
	nsteps := r.Range(10, 40)
	procs := rt.Pick(r, []int{1, 2, 8, 8})
	type gres struct {
		op  c05Op
		res c05StepResult
		tv  []byte
	}
	plans := make([][]c05Op, G)
	seeds := make([]uint64, G)
	for g := range plans {
		seeds[g] = r.Uint64()
		for i := 0; i < nsteps; i++ {
			api := c05PickAPI(r, 60)
			if api == 2 || api == 3 {
				// foreign encodings replace canonical type values (known finding,
				// covered sequentially); keep the concurrent oracle clear of it
				api = 1
			}
			plans[g] = append(plans[g], c05Op{API: api, Type: r.Intn(len(alphabet))})
		}
	}
	o.Desc(map[string]any{"goroutines": G, "steps_each": nsteps, "gomaxprocs": procs, "alphabet": len(alphabet)})
	prev := runtime.GOMAXPROCS(procs)
	defer runtime.GOMAXPROCS(prev)
	ctx := zed.NewContext()
	results := make([][]gres, G)
	var wg sync.WaitGroup
	start := make(chan struct{})
	for g := 0; g < G; g++ {
		wg.Add(1)
		go func(g int) {
			defer wg.Done()
			gr := rt.NewRand(seeds[g])
			<-start
			for _, op := range plans[g] {
				res := c05Step(ctx, op.API, alphabet[op.Type], gr)
				x := gres{op: op, res: res}
				if res.typ != nil {
					x.tv = append([]byte{}, ctx.LookupTypeValue(res.typ).Bytes()...)
				}
				results[g] = append(results[g], x)
				if gr.Chance(1, 3) {
					runtime.Gosched()
				}
			}
		}(g)
	}
	close(start)
	wg.Wait()
	c.Count("concurrent_steps", int64(G*nsteps))
	vs := newC06Viols(o)
	tr := newC05Tracker(ctx, vs)
	tr.concurrent = true
	for g := range results {
		for _, x := range results[g] {
			if x.res.err != nil {
				c05StepFailed(vs, x.res, alphabet[x.op.Type])
				continue
			}
			if x.res.skipped != "" {
				c.Count("steps_skipped:"+strings.SplitN(x.res.skipped, ":", 2)[0], 1)
				continue
			}
			if x.res.passed != nil {
				tr.passed = append(tr.passed, x.res)
			}
			tr.observe(x.res.api, c05Want(x.res, alphabet[x.op.Type]), x.res.typ)
			if !tr.bad[x.res.typ] && !bytes.Equal(x.tv, tr.tv[x.res.typ]) {
				vs.add("typevalue:differs-between-goroutines", func() string {
					return fmt.Sprintf("%s: goroutine %d read %x during the run, afterwards it is %x", gen.TypeString(x.res.typ), g, x.tv, tr.tv[x.res.typ])
				})
			}
		}
	}
	tr.recheck("after the concurrent run")
	for t := range tr.tv {
		tr.checkPortable(t)
	}
	vs.flush()
	for _, k := range tr.nontrivialKeys() {
		o.Nontrivial(k)
	}
	if o.Index%67 == 0 {
		o.Sample(map[string]any{"kind": "conc", "goroutines": G, "steps_each": nsteps, "gomaxprocs": procs, "types_in_context": len(tr.byPtr)})
	}
}

// ---------------------------------------------------------------------------
// the name definition -> reference window (hook zed.context.namedef)

type c05Park struct {
	ctx     *zed.Context
	armed   atomic.Bool
	parked  chan struct{}
	resume  chan struct{}
	hits    atomic.Int64
	timeout atomic.Bool
}

var c05Hook atomic.Pointer[c05Park]

func c05InstallHook() {
	verifhook.SetAtObj(func(point string, obj any, n int) {
		if point != "zed.context.namedef" {
			return
		}
		p := c05Hook.Load()
		if p == nil || obj != any(p.ctx) {
			return
		}
		p.hits.Add(1)
		if p.armed.CompareAndSwap(true, false) {
			p.parked <- struct{}{}
			select {
			case <-p.resume:
			case <-time.After(30 * time.Second):
				p.timeout.Store(true)
			}
		}
	})
}

// c05WindowRun parks goroutine A inside DecodeTypeValue right after it bound
// `name` to defType (the first definition in tv), lets B bind name to
// rebindTo, resumes A, and returns what A's LookupByValue produced.
func c05WindowRun(ctx *zed.Context, tv []byte, name string, rebindTo zed.Type) (zed.Type, error, bool) {
	p := &c05Park{ctx: ctx, parked: make(chan struct{}, 1), resume: make(chan struct{})}
	p.armed.Store(true)
	c05Hook.Store(p)
	defer c05Hook.Store(nil)
	type out struct {
		t   zed.Type
		err error
	}
	done := make(chan out, 1)
	go func() {
		t, err := ctx.LookupByValue(tv)
		done <- out{t, err}
	}()
	select {
	case <-p.parked:
	case r := <-done:
		return r.t, r.err, false // no name definition reached
	}
	// B: rebind the name while A sits between definition and reference
	bdone := make(chan struct{})
	go func() {
		ctx.LookupTypeNamed(name, rebindTo)
		close(bdone)
	}()
	<-bdone
	close(p.resume)
	r := <-done
	return r.t, r.err, !p.timeout.Load()
}

func c05DirectedNameWindow(c *rt.Ctx, o *rt.Obs) {
	tmpl := zed.NewContext()
	x, _ := tmpl.LookupTypeNamed("X", zed.TypeInt64)
	want := tmpl.MustLookupTypeRecord([]zed.Field{zed.NewField("a", x), zed.NewField("b", x)})
	tv := c05EncodeType(want, c05Canonical)
	o.Desc(map[string]any{"type_value": fmt.Sprintf("%x", tv), "denotes": gen.TypeString(want), "A": "LookupByValue(type value), parked after binding X=int64", "B": "LookupTypeNamed(\"X\", string)"})
	c05WindowCheck(c, o, want, tv, "X", zed.TypeString)
}

func c05WindowCheck(c *rt.Ctx, o *rt.Obs, want zed.Type, tv []byte, name string, rebind zed.Type) {
	ctx := zed.NewContext()
	rebindHere, err := ctx.TranslateType(rebind)
	if err != nil {
		o.Violation("translate-error", err.Error())
		return
	}
	got, err, forced := c05WindowRun(ctx, append([]byte{}, tv...), name, rebindHere)
	if !forced {
		c.Count("window_cases_not_forced", 1)
		return
	}
	c.Count("window_interleavings_forced", 1)
	o.Nontrivial("window/" + gen.TypeString(want))
	if err != nil || got == nil {
		o.Violation(c05SigNameWin, fmt.Sprintf("A's LookupByValue failed (%v) although the type value %x is well-formed and denotes %s", err, tv, gen.TypeString(want)))
		return
	}
	if w, g := gen.TypeStringCanon(want), gen.TypeStringCanon(got); w != g {
		o.Violation(c05SigNameWin, fmt.Sprintf("type value %x denotes %s; with %q re-bound to %s by another goroutine between the definition and the reference, LookupByValue returned %s", tv, w, name, gen.TypeString(rebind), g))
	}
}

// c05Window: generated types with a name defined once and referenced later.
func c05Window(c *rt.Ctx, o *rt.Obs, i int) {
	r := o.R
	tmpl := zed.NewContext()
	name := rt.Pick(r, []string{"X", "foo", "a b", "日本"})
	inner := rt.Pick(r, []zed.Type{zed.TypeInt64, zed.TypeString, tmpl.LookupTypeArray(zed.TypeIP), tmpl.MustLookupTypeRecord([]zed.Field{zed.NewField("q", zed.TypeBool)})})
	x, _ := tmpl.LookupTypeNamed(name, inner)
	var want zed.Type
	switch r.Intn(4) {
	case 0:
		want = tmpl.MustLookupTypeRecord([]zed.Field{zed.NewField("a", x), zed.NewField("b", x)})
	case 1:
		want = tmpl.MustLookupTypeRecord([]zed.Field{zed.NewField("a", tmpl.LookupTypeArray(x)), zed.NewField("b", zed.TypeInt64), zed.NewField("c", tmpl.LookupTypeSet(x))})
	case 2:
		want = tmpl.LookupTypeMap(x, x)
	default:
		want = tmpl.LookupTypeUnion([]zed.Type{tmpl.LookupTypeArray(x), x, zed.TypeNull})
	}
	rebind := rt.Pick(r, []zed.Type{zed.TypeFloat64, zed.TypeBytes, tmpl.LookupTypeSet(zed.TypeInt64)})
	tv := c05EncodeType(want, c05Canonical)
	o.Desc(map[string]any{"type_value": fmt.Sprintf("%x", tv), "denotes": gen.TypeString(want), "rebinding": fmt.Sprintf("%q=%s", name, gen.TypeString(rebind))})
	c05WindowCheck(c, o, want, tv, name, rebind)
}

// ---------------------------------------------------------------------------
// directed reproducers of the sequential findings

func c05DirectedAlias(c *rt.Ctx, o *rt.Obs) {
	tmpl := zed.NewContext()
	t := tmpl.MustLookupTypeRecord([]zed.Field{zed.NewField("a", zed.TypeInt64)})
	o.Desc(map[string]any{"steps": []string{"buf := type value of {a:int64}", "t := ctx.LookupByValue(buf)", "overwrite buf", "ctx.LookupTypeValue(t)"}})
	vs := newC06Viols(o)
	ctx := zed.NewContext()
	tr := newC05Tracker(ctx, vs)
	res := c05Step(ctx, 1, t, o.R)
	tr.passed = append(tr.passed, res)
	tr.observe(res.api, t, res.typ)
	tr.scribble()
	tr.recheck("after the harness overwrote the buffer it had passed to LookupByValue")
	vs.flush()
}

func c05DirectedForeign(c *rt.Ctx, o *rt.Obs) {
	tmpl := zed.NewContext()
	foo, _ := tmpl.LookupTypeNamed("foo", zed.TypeInt64)
	t := tmpl.MustLookupTypeRecord([]zed.Field{zed.NewField("x", foo), zed.NewField("y", foo)})
	o.Desc(map[string]any{"steps": []string{"t := build {x:foo=int64,y:foo} with constructors", "tv0 := LookupTypeValue(t)", "LookupByValue(encoding with foo defined twice)", "LookupTypeValue(t) != tv0"}})
	vs := newC06Viols(o)
	ctx := zed.NewContext()
	tr := newC05Tracker(ctx, vs)
	res := c05Step(ctx, 0, t, nil)
	tr.observe(res.api, t, res.typ)
	res2 := c05Step(ctx, 2, t, nil)
	tr.passed = append(tr.passed, res2)
	tr.observe(res2.api, t, res2.typ)
	tr.recheck("after LookupByValue of the repeated-namedef encoding of the same structure (buffer left untouched)")
	vs.flush()
}

func c05DirectedUnionTie(c *rt.Ctx, o *rt.Obs) {
	tmpl := zed.NewContext()
	t := c05TieType(tmpl)
	o.Desc(map[string]any{"structure": gen.TypeStringCanon(t), "steps": []string{"LookupTypeUnion([foo=bar=int64, foo=int64])", "LookupTypeUnion([foo=int64, foo=bar=int64])"}})
	vs := newC06Viols(o)
	ctx := zed.NewContext()
	tr := newC05Tracker(ctx, vs)
	bar, _ := ctx.LookupTypeNamed("bar", zed.TypeInt64)
	fooBar, _ := ctx.LookupTypeNamed("foo", bar)
	fooInt, _ := ctx.LookupTypeNamed("foo", zed.TypeInt64)
	tr.observe("constructors", t, ctx.LookupTypeUnion([]zed.Type{fooBar, fooInt}))
	tr.observe("constructors", t, ctx.LookupTypeUnion([]zed.Type{fooInt, fooBar}))
	vs.flush()
}

var _ = sort.Strings

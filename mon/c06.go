package main

import (
	"context"
	"errors"
	"fmt"
	"os"
	"runtime/debug"
	"sort"
	"strings"
	"sync/atomic"

	zed "github.com/brimdata/super"
	"github.com/brimdata/super/compiler"
	"github.com/brimdata/super/order"
	"github.com/brimdata/super/pkg/field"
	"github.com/brimdata/super/pkg/verifhook"
	"github.com/brimdata/super/runtime"
	"github.com/brimdata/super/runtime/sam/expr"
	"github.com/brimdata/super/runtime/sam/op/merge"
	sortop "github.com/brimdata/super/runtime/sam/op/sort"
	"github.com/brimdata/super/zbuf"
	"github.com/brimdata/super/zcode"
	"github.com/brimdata/super/zio"
	"github.com/brimdata/super/zson"

	"verif/internal/gen"
	"verif/internal/rt"
)

func init() { register("C06", runC06) }

const (
	c06SigIntFloat = "compare:int-vs-float-through-float64:not-transitive"
	// order failures of sort / merge / SortStable on a case whose keys contain
	// an integer/float pair that the conversion rounds
	c06SigConsequence = "order-not-achieved-on-keys-hit-by:int-vs-float-through-float64"
	c06SigTypeTie     = "compare:CompareTypes-ties-distinct-types:not-transitive"
	c06Chunks         = 16
)

// ---------------------------------------------------------------------------
// Harness-owned batches: every batch owns its bytes, is reference counted and
// is overwritten when its count reaches zero, so that a value used after its
// batch was released turns into garbage deterministically.

type c06Batch struct {
	buf  []byte
	vals []zed.Value
	refs atomic.Int32
}

var c06Released atomic.Int64

func newC06Batch(vals []zed.Value) *c06Batch {
	n := 0
	for _, v := range vals {
		n += len(v.Bytes())
	}
	b := &c06Batch{buf: make([]byte, 0, n+1), vals: make([]zed.Value, 0, len(vals))}
	for _, v := range vals {
		if v.IsNull() {
			b.vals = append(b.vals, zed.NewValue(v.Type(), nil))
			continue
		}
		start := len(b.buf)
		b.buf = append(b.buf, v.Bytes()...)
		b.vals = append(b.vals, zed.NewValue(v.Type(), b.buf[start:len(b.buf):len(b.buf)]))
	}
	b.refs.Store(1)
	return b
}

func (b *c06Batch) Ref() { b.refs.Add(1) }
func (b *c06Batch) Unref() {
	switch n := b.refs.Add(-1); {
	case n == 0:
		c06Released.Add(1)
		for i := range b.buf {
			b.buf[i] = 0xdb
		}
		clear(b.vals)
	case n < 0:
		panic("harness batch: reference count dropped below zero")
	}
}
func (b *c06Batch) Values() []zed.Value { return b.vals }
func (b *c06Batch) Vars() []zed.Value   { return nil }

// c06Source is a zio.Reader that hands the query its input in exactly the
// batches the case prescribes (through zbuf.ScannerAble).
type c06Source struct {
	batches [][]zed.Value
	next    int
}

func (s *c06Source) Read() (*zed.Value, error) {
	return nil, errors.New("harness source: Read not expected (ScannerAble)")
}

func (s *c06Source) NewScanner(ctx context.Context, f zbuf.Filter) (zbuf.Scanner, error) {
	if f != nil {
		if e, err := f.AsEvaluator(); e != nil || err != nil {
			return nil, errors.New("harness source: filter push-down not expected")
		}
	}
	return s, nil
}

func (s *c06Source) Progress() zbuf.Progress { return zbuf.Progress{} }

func (s *c06Source) Pull(done bool) (zbuf.Batch, error) {
	if done {
		s.next = len(s.batches)
	}
	if s.next >= len(s.batches) {
		return nil, nil
	}
	b := newC06Batch(s.batches[s.next])
	s.next++
	return b, nil
}

// splitBatches cuts vals into consecutive non-empty batches.
func c06Split(r *rt.Rand, vals []zed.Value, mode int) [][]zed.Value {
	var out [][]zed.Value
	for i := 0; i < len(vals); {
		var n int
		switch mode {
		case 0:
			n = 1
		case 1:
			n = len(vals)
		case 2:
			n = r.Range(1, 3)
		default:
			n = r.Range(1, len(vals))
			if r.Chance(1, 2) {
				n = r.Range(1, 8)
			}
		}
		if i+n > len(vals) {
			n = len(vals) - i
		}
		out = append(out, vals[i:i+n])
		i += n
	}
	return out
}

// c06RunQuery runs a compiled query over the prescribed batches and returns
// copies of the output values.
func c06RunQuery(zctx *zed.Context, q string, batches [][]zed.Value) ([]zed.Value, error) {
	ast, sset, err := compiler.Parse(q)
	if err != nil {
		return nil, fmt.Errorf("parse: %w", err)
	}
	query, err := runtime.CompileQuery(context.Background(), zctx, compiler.NewCompiler(), ast, sset, []zio.Reader{&c06Source{batches: batches}})
	if err != nil {
		return nil, fmt.Errorf("compile: %w", err)
	}
	defer query.Close()
	var out []zed.Value
	for {
		b, err := query.Pull(false)
		if err != nil {
			return out, err
		}
		if b == nil {
			return out, nil
		}
		for _, v := range b.Values() {
			out = append(out, v.Copy())
		}
		b.Unref()
	}
}

// ---------------------------------------------------------------------------

type c06Cfg struct {
	NullsMax      bool `json:"nulls_max"`
	Desc          bool `json:"desc"`
	MissingAsNull bool `json:"missing_as_null"`
}

func (c c06Cfg) order() order.Which {
	if c.Desc {
		return order.Desc
	}
	return order.Asc
}

func (c c06Cfg) comparator() *expr.Comparator {
	cmp := expr.NewComparator(c.NullsMax, expr.NewSortEvaluator(&expr.This{}, c.order()))
	if c.MissingAsNull {
		cmp = cmp.WithMissingAsNull()
	}
	return cmp
}

func sgn(x int) int8 {
	switch {
	case x < 0:
		return -1
	case x > 0:
		return 1
	}
	return 0
}

type c06Viols struct {
	o     *rt.Obs
	first map[string]string
	count map[string]int
	order []string
}

func newC06Viols(o *rt.Obs) *c06Viols {
	return &c06Viols{o: o, first: map[string]string{}, count: map[string]int{}}
}

func (v *c06Viols) add(sig string, detail func() string) {
	if v.count[sig] == 0 {
		v.first[sig] = detail()
		v.order = append(v.order, sig)
	}
	v.count[sig]++
}

func (v *c06Viols) flush() {
	for _, sig := range v.order {
		v.o.Violation(sig, fmt.Sprintf("%s\n(%d occurrences in this case)", v.first[sig], v.count[sig]))
	}
}

func c06Show(v zed.Value) string {
	return fmt.Sprintf("%s [type %s, bytes %x]", fmtVal(v), gen.TypeString(v.Type()), v.Bytes())
}

// c06TripleSig names the defect behind a non-transitive triple: the known
// one exactly when all three are numbers and the code's result differs from
// the exact numeric order only on integer/float pairs that float64 conversion
// rounds.
func c06TripleSig(cmp func(a, b zed.Value) int, desc bool, a, b, c zed.Value) string {
	// a pair that ties only because zed.CompareTypes calls two different
	// types equal (then values of one type are ordered among themselves but
	// all tie with every value of the other type)
	for _, p := range [][2]zed.Value{{a, b}, {b, c}, {a, c}} {
		x, y := p[0], p[1]
		if cmp(x, y) == 0 && !x.IsNull() && !y.IsNull() && x.Type() != y.Type() && x.Type().ID() != y.Type().ID() &&
			gen.TypeString(x.Type()) != gen.TypeString(y.Type()) && zed.CompareTypes(x.Type(), y.Type()) == 0 {
			return c06SigTypeTie
		}
	}
	na, ok1 := c06NumOf(a)
	nb, ok2 := c06NumOf(b)
	nc, ok3 := c06NumOf(c)
	if !ok1 || !ok2 || !ok3 {
		return "compare:not-transitive"
	}
	type pr struct {
		x, y   zed.Value
		nx, ny c06Num
	}
	differs := 0
	for _, p := range []pr{{a, b, na, nb}, {b, c, nb, nc}, {a, c, na, nc}} {
		got := sgn(cmp(p.x, p.y))
		want := sgn(c06ExactCmp(p.nx, p.ny))
		if desc {
			want = -want
		}
		if got != want {
			if !c06IntFloatInexact(p.x, p.y) {
				return "compare:not-transitive"
			}
			differs++
		}
	}
	if differs == 0 {
		return "compare:not-transitive"
	}
	return c06SigIntFloat
}

func runC06(c *rt.Ctx) {
	c.Note("rule", "four kinds of case. matrix: one (nullsMax, asc/desc, missing-as-null) configuration × one 1/16 slice of rows of the full comparison matrix over the curated universe — reflexivity, antisymmetry, all triples with the first element in the slice, and agreement of Comparator.Compare with NewValueCompareFn, a 2-element SortStable and compare() in a query. bulk: Comparator.SortStable / SortStableReader over ≤80 records with 1–3 keys drawn from small pools (ties), checked for permutation, adjacent order under Compare and stability. sort: the sort operator in a compiled query (1–3 keys or `this`, asc/desc, -r, -nulls first|last) over prescribed input batches, in-memory result checked for permutation / order / stability / primary-key null placement, then re-run with sort.MemMaxBytes lowered to force spill runs and compared for identity. merge: merge.New over 1–5 sorted pullers with adversarial batch boundaries on poison-on-release batches, output sorted and multiset-equal. non-trivial = sort case with ≥1 spill run and ≥1 pair of equal keys, or merge case that took both the whole-batch and the value-by-value path; distinct by case id")
	c.Note("assumptions", strings.Join([]string{
		"all values compared with each other live in one type context (complex type ids are per context)",
		"input batches handed to sort/merge are never empty (merge indexes vals[0] of every batch it receives)",
		"for multi-key sorts the oracle places nulls of secondary keys as a single nullsMax flag derived from the first key's direction does (the statement fixes null placement only as 'first or last'; the primary key's placement is checked independently: null/missing primary keys all last by default, all first with -nulls first, for asc, desc and -r alike)",
		"a top-level error(\"missing\") value is a null sort key (sort and merge evaluate keys with missing-as-null)",
		"cases whose keys contain an integer/float pair that float64 conversion rounds are still generated; a sort/merge order failure on such a case is reported under the int-vs-float signature suffix because the comparison itself is not a preorder there",
	}, "\n"))
	c.Note("exhaustive", "true")
	verifhook.SetPoison(true)
	debug.SetGCPercent(400) // many short-lived 512 KiB spill-reader buffers; keep the collector out of the way

	// directed cases: the known non-transitive triples
	c.Case("directed", 0, func(o *rt.Obs) {
		c06Directed(o, []zed.Value{zed.NewInt64(1 << 53), zed.NewFloat64(0x1p53), zed.NewInt64(1<<53 + 1)})
	})
	c.Case("directed", 1, func(o *rt.Obs) {
		c06Directed(o, []zed.Value{zed.NewUint64(1<<64 - 2), zed.NewFloat64(0x1p64), zed.NewUint64(1<<64 - 1)})
	})
	c.Case("directed", 2, func(o *rt.Obs) {
		c06Directed(o, []zed.Value{zed.NewInt64(-(1<<53 + 1)), zed.NewFloat32(-0x1p53), zed.NewDuration(-(1 << 53))})
	})

	c.Case("directed", 3, func(o *rt.Obs) { c06DirectedFieldPos(c, o) })
	c.Case("directed", 5, func(o *rt.Obs) {
		zctx := zed.NewContext()
		var vals []zed.Value
		for _, src := range []string{`{k0:1,k1:null(int64),s:0}`, `{k0:1,k1:2,s:1}`, `{k0:1,k1:3,s:2}`, `{k0:2,k1:1,s:3}`} {
			vals = append(vals, zson.MustParseValue(zctx, src))
		}
		o.Desc(map[string]any{"program": "sort k0, k1 desc", "values": fmtVals(vals, 4)})
		i64 := func(x int64) zed.Value { return zed.NewValue(zed.TypeInt64, zed.EncodeInt(x)) }
		c06SortCheck(c, o, o.R, zctx, c06SortSpec{Program: "sort k0, k1 desc", NKeys: 2, Eff: []bool{false, true}, NullsLst: true,
			Vals: vals, Cols: [][]zed.Value{{i64(1), i64(2)}, {i64(1), i64(2), i64(3)}}, Sizes: []int{4}, Limits: []int{}})
	})
	c.Case("directed", 4, func(o *rt.Obs) {
		zctx := zed.NewContext()
		var vals []zed.Value
		for _, src := range []string{`[3(foo=bar=int64)]`, `[1(foo=int64)]`, `[1(foo=bar=int64)]`} {
			vals = append(vals, zson.MustParseValue(zctx, src))
		}
		c06Directed(o, vals)
	})

	only := os.Getenv("VERIF_C06_ONLY") // debugging aid: restrict to one kind
	want := func(k string) bool { return only == "" || only == k }
	for cfg := 0; cfg < 8 && want("matrix"); cfg++ {
		for chunk := 0; chunk < c06Chunks; chunk++ {
			c.Case("matrix", cfg*c06Chunks+chunk, func(o *rt.Obs) { c06Matrix(c, o, cfg, chunk) })
		}
	}
	for i, n := 0, c.N(600, 12000); i < n && want("bulk"); i++ {
		c.Case("bulk", i, func(o *rt.Obs) { c06Bulk(c, o) })
	}
	for i, n := 0, c.N(500, 8000); i < n && want("sort"); i++ {
		c.Case("sort", i, func(o *rt.Obs) { c06Sort(c, o) })
	}
	for i, n := 0, c.N(800, 16000); i < n && want("merge"); i++ {
		c.Case("merge", i, func(o *rt.Obs) { c06Merge(c, o) })
	}
	c.Count("harness_batches_poisoned_on_release", c06Released.Load())
}

func c06Directed(o *rt.Obs, vals []zed.Value) {
	var desc []string
	for _, v := range vals {
		desc = append(desc, c06Show(v))
	}
	o.Desc(map[string]any{"triple": desc})
	vs := newC06Viols(o)
	for _, cfg := range []c06Cfg{{true, false, false}, {false, false, false}, {true, true, false}, {false, true, true}} {
		cmp := cfg.comparator().Compare
		for _, p := range [][3]int{{0, 1, 2}, {2, 1, 0}, {1, 0, 2}, {1, 2, 0}, {0, 2, 1}, {2, 0, 1}} {
			a, b, cc := vals[p[0]], vals[p[1]], vals[p[2]]
			if cmp(a, b) <= 0 && cmp(b, cc) <= 0 && cmp(a, cc) > 0 {
				vs.add(c06TripleSig(cmp, cfg.Desc, a, b, cc), func() string {
					return fmt.Sprintf("config %+v: cmp(a,b)=%d cmp(b,c)=%d but cmp(a,c)=%d\n a=%s\n b=%s\n c=%s", cfg, cmp(a, b), cmp(b, cc), cmp(a, cc), c06Show(a), c06Show(b), c06Show(cc))
				})
			}
		}
	}
	vs.flush()
}

// ---------------------------------------------------------------------------
// (1) the comparison matrix

func c06Matrix(c *rt.Ctx, o *rt.Obs, cfgIdx, chunk int) {
	cfg := c06Cfg{NullsMax: cfgIdx&1 == 0, Desc: cfgIdx&2 != 0, MissingAsNull: cfgIdx&4 != 0}
	zctx := zed.NewContext()
	U := c06Universe(zctx, !c.Quick(), c.Seed)
	n := len(U)
	o.Desc(map[string]any{"config": cfg, "universe": n, "row_slice": fmt.Sprintf("%d mod %d", chunk, c06Chunks)})
	c.Max("max_universe_size", int64(n))
	cmpr := cfg.comparator()
	cmp := cmpr.Compare
	M := make([][]int8, n)
	for i := range M {
		M[i] = make([]int8, n)
		for j := range M[i] {
			M[i][j] = sgn(cmp(U[i], U[j]))
		}
	}
	vs := newC06Viols(o)
	var rows []int
	for i := chunk; i < n; i += c06Chunks {
		rows = append(rows, i)
	}
	var pairs, triples int64
	for _, i := range rows {
		if M[i][i] != 0 {
			vs.add("compare:not-reflexive", func() string { return fmt.Sprintf("config %+v: cmp(a,a)=%d for a=%s", cfg, M[i][i], c06Show(U[i])) })
		}
		for j := 0; j < n; j++ {
			pairs++
			if M[i][j] != -M[j][i] {
				vs.add("compare:not-antisymmetric", func() string {
					return fmt.Sprintf("config %+v: cmp(a,b)=%d cmp(b,a)=%d\n a=%s\n b=%s", cfg, M[i][j], M[j][i], c06Show(U[i]), c06Show(U[j]))
				})
			}
			if M[i][j] > 0 {
				continue
			}
			Mj, Mi := M[j], M[i]
			for k := 0; k < n; k++ {
				if Mj[k] <= 0 && Mi[k] > 0 {
					vs.add(c06TripleSig(cmp, cfg.Desc, U[i], U[j], U[k]), func() string {
						return fmt.Sprintf("config %+v: cmp(a,b)=%d cmp(b,c)=%d but cmp(a,c)=%d\n a=%s\n b=%s\n c=%s", cfg, Mi[j], Mj[k], Mi[k], c06Show(U[i]), c06Show(U[j]), c06Show(U[k]))
					})
				}
			}
			triples += int64(n)
		}
	}
	c.Count("matrix_pairs_checked", pairs)
	c.Count("matrix_triples_checked", triples)

	// agreement between the entry points
	if !cfg.MissingAsNull {
		fn := expr.NewValueCompareFn(cfg.order(), cfg.NullsMax)
		for _, i := range rows {
			for j := 0; j < n; j++ {
				if got := sgn(fn(U[i], U[j])); got != M[i][j] {
					vs.add("compare:paths-disagree:NewValueCompareFn", func() string {
						return fmt.Sprintf("config %+v: Comparator.Compare=%d NewValueCompareFn=%d\n a=%s\n b=%s", cfg, M[i][j], got, c06Show(U[i]), c06Show(U[j]))
					})
				}
			}
		}
	}
	// the bulk path on two elements
	pair := make([]zed.Value, 2)
	for _, i := range rows {
		for j := 0; j < n; j++ {
			pair[0], pair[1] = U[i], U[j]
			cmpr.SortStable(pair)
			swapped := gen.RecOf(pair[0]) != gen.RecOf(U[i]) || gen.RecOf(pair[1]) != gen.RecOf(U[j])
			sameRec := gen.RecOf(U[i]) == gen.RecOf(U[j])
			if !sameRec && swapped != (M[i][j] > 0) {
				vs.add("compare:paths-disagree:SortStable-pair", func() string {
					return fmt.Sprintf("config %+v: Comparator.Compare(a,b)=%d but SortStable([a,b]) swapped=%v\n a=%s\n b=%s", cfg, M[i][j], swapped, c06Show(U[i]), c06Show(U[j]))
				})
			}
		}
	}
	c.Count("bulk_pair_sorts", int64(len(rows)*n))
	// compare() in a query
	if !cfg.Desc && !cfg.MissingAsNull {
		var in []zed.Value
		var b zcode.Builder
		for _, i := range rows {
			for j := 0; j < n; j++ {
				t := zctx.MustLookupTypeRecord([]zed.Field{zed.NewField("a", U[i].Type()), zed.NewField("b", U[j].Type())})
				b.Reset()
				b.Append(U[i].Bytes())
				b.Append(U[j].Bytes())
				in = append(in, zed.NewValue(t, append([]byte{}, b.Bytes()...)))
			}
		}
		q := "yield compare(a,b)"
		if !cfg.NullsMax {
			q = "yield compare(a,b,false)"
		} else if chunk%2 == 1 {
			q = "yield compare(a,b,true)"
		}
		out, err := c06RunQuery(zctx, q, c06Split(o.R, in, 3))
		if err != nil {
			o.Violation("compare:query-error", fmt.Sprintf("%s: %v", q, err))
		} else if len(out) != len(in) {
			o.Violation("compare:query-output-count", fmt.Sprintf("%s: %d inputs, %d outputs", q, len(in), len(out)))
		} else {
			x := 0
			for _, i := range rows {
				for j := 0; j < n; j++ {
					v := out[x]
					x++
					if v.Type() != zed.TypeInt64 || v.IsNull() {
						vs.add("compare:query-result-not-int64", func() string {
							return fmt.Sprintf("%s gave %s\n a=%s\n b=%s", q, c06Show(v), c06Show(U[i]), c06Show(U[j]))
						})
						continue
					}
					if got := sgn(int(v.Int())); got != M[i][j] {
						vs.add("compare:paths-disagree:compare()", func() string {
							return fmt.Sprintf("config %+v: Comparator.Compare=%d, query %q gave %d\n a=%s\n b=%s", cfg, M[i][j], q, v.Int(), c06Show(U[i]), c06Show(U[j]))
						})
					}
				}
			}
			c.Count("compare_fn_query_results", int64(len(out)))
		}
	}
	vs.flush()
	if chunk == 0 && cfgIdx == 0 {
		var s []string
		for i := 0; i < n; i += n / 12 {
			s = append(s, fmtVal(U[i]))
		}
		o.Sample(map[string]any{"kind": "matrix", "config": cfg, "universe_size": n, "some_members": s})
	}
}

// ---------------------------------------------------------------------------
// key pools and keyed records

type c06Keyed struct {
	NKeys   int    `json:"nkeys"`
	Desc    []bool `json:"desc"`
	Pool    string `json:"pool"`
	N       int    `json:"n"`
	UseThis bool   `json:"key_is_this"`
}

// c06Pool draws a small pool of key values.
func c06Pool(r *rt.Rand, U []zed.Value, kind int, size int) []zed.Value {
	var cand []zed.Value
	for _, v := range U {
		id := v.Type().ID()
		_, named := v.Type().(*zed.TypeNamed)
		switch kind {
		case 0: // integers of the native fast path, and their nulls
			if id <= zed.IDTime && !named {
				cand = append(cand, v)
			}
		case 1: // all numbers
			if zed.IsNumber(id) {
				cand = append(cand, v)
			}
		case 2: // primitives
			if id < zed.IDTypeComplex {
				cand = append(cand, v)
			}
		default:
			cand = append(cand, v)
		}
	}
	pool := make([]zed.Value, 0, size)
	for len(pool) < size {
		if kind <= 1 && r.Chance(1, 3) {
			// small numbers collide across types: 1, 1(uint8), 1.
			t := rt.Pick(r, []zed.Type{zed.TypeInt64, zed.TypeUint8, zed.TypeUint64, zed.TypeInt32, zed.TypeDuration, zed.TypeTime})
			x := int64(r.Intn(4))
			if zed.IsSigned(t.ID()) {
				pool = append(pool, zed.NewValue(t, zed.EncodeInt(x-1)))
			} else {
				pool = append(pool, zed.NewValue(t, zed.EncodeUint(uint64(x))))
			}
			continue
		}
		if kind == 1 && r.Chance(1, 4) {
			pool = append(pool, zed.NewValue(zed.TypeFloat64, zed.EncodeFloat64(float64(r.Intn(4)-1))))
			continue
		}
		pool = append(pool, rt.Pick(r, cand))
	}
	return pool
}

var c06PoolNames = []string{"native-ints", "numbers", "primitives", "any"}

// c06HasKnownPair reports whether two keys of one column form an int/float
// pair that the float64 comparison rounds.
func c06HasKnownPair(cols [][]zed.Value) bool {
	for _, col := range cols {
		var ints, floats []zed.Value
		seen := map[gen.Rec]bool{}
		for _, v := range col {
			n, ok := c06NumOf(v)
			if !ok || seen[gen.RecOf(v)] {
				continue
			}
			seen[gen.RecOf(v)] = true
			if n.isFloat {
				floats = append(floats, v)
			} else {
				ints = append(ints, v)
			}
		}
		for _, i := range ints {
			for _, f := range floats {
				if c06IntFloatInexact(i, f) {
					return true
				}
			}
		}
	}
	return false
}

// c06MakeKeyed builds n records {k0?,k1?,k2?,s} (a missing key = absent
// field) and returns them with the per-column keys.  norm holds the same
// records with every absent key written as an explicit `kN:null` field, so
// that all records have their key fields at the same positions (for sorting,
// a missing key and a null key are the same key).
func c06MakeKeyed(r *rt.Rand, zctx *zed.Context, U []zed.Value, nkeys, n, poolKind int) (vals, norm []zed.Value, cols [][]zed.Value) {
	pools := make([][]zed.Value, nkeys)
	for k := range pools {
		size := r.Range(1, 6)
		if k == 0 && r.Chance(1, 2) {
			size = r.Range(2, 12)
		}
		pools[k] = c06Pool(r, U, poolKind, size)
	}
	missing := zctx.Missing()
	cols = make([][]zed.Value, nkeys)
	var b, nb zcode.Builder
	for i := 0; i < n; i++ {
		var fields, nfields []zed.Field
		b.Reset()
		nb.Reset()
		for k := 0; k < nkeys; k++ {
			name := fmt.Sprintf("k%d", k)
			switch {
			case r.Chance(1, 12):
				cols[k] = append(cols[k], missing)
				nfields = append(nfields, zed.NewField(name, zed.TypeNull))
				nb.Append(nil)
				continue
			case r.Chance(1, 12):
				v := zed.NewValue(rt.Pick(r, pools[k]).Type(), nil)
				cols[k] = append(cols[k], v)
				fields = append(fields, zed.NewField(name, v.Type()))
				nfields = append(nfields, zed.NewField(name, v.Type()))
				b.Append(nil)
				nb.Append(nil)
				continue
			}
			v := rt.Pick(r, pools[k])
			cols[k] = append(cols[k], v)
			fields = append(fields, zed.NewField(name, v.Type()))
			nfields = append(nfields, zed.NewField(name, v.Type()))
			b.Append(v.Bytes())
			nb.Append(v.Bytes())
		}
		fields = append(fields, zed.NewField("s", zed.TypeInt64))
		nfields = append(nfields, zed.NewField("s", zed.TypeInt64))
		b.Append(zed.EncodeInt(int64(i)))
		nb.Append(zed.EncodeInt(int64(i)))
		// Every record gets nkeys+1 fields: one filler per absent key.  With
		// records of differing field counts the known field-position defect
		// of the spilling sort (C06-spill-merge-field-index-cache) indexes a
		// record type out of range inside the operator's goroutine and kills
		// the process instead of merely misordering.
		for k := len(fields); k < nkeys+1; k++ {
			fields = append(fields, zed.NewField(fmt.Sprintf("z%d", k), zed.TypeInt64))
			b.Append(zed.EncodeInt(int64(k)))
		}
		vals = append(vals, zed.NewValue(zctx.MustLookupTypeRecord(fields), append([]byte{}, b.Bytes()...)))
		norm = append(norm, zed.NewValue(zctx.MustLookupTypeRecord(nfields), append([]byte{}, nb.Bytes()...)))
	}
	return vals, norm, cols
}

func c06KeyComparator(zctx *zed.Context, nullsMax bool, desc []bool, useThis bool) *expr.Comparator {
	var evals []expr.SortEvaluator
	for k, d := range desc {
		var e expr.Evaluator = &expr.This{}
		if !useThis {
			e = expr.NewDottedExpr(zctx, field.Path{fmt.Sprintf("k%d", k)})
		}
		o := order.Asc
		if d {
			o = order.Desc
		}
		evals = append(evals, expr.NewSortEvaluator(e, o))
	}
	return expr.NewComparator(nullsMax, evals...).WithMissingAsNull()
}

// c06CheckSorted checks that out is a permutation of in, non-decreasing under
// cmp and stable.  It returns (signature-suffix-free) problems and whether a
// pair of equal keys was present.
func c06CheckSorted(what string, cmp func(a, b zed.Value) int, in, out []zed.Value) (problems [][2]string, ties bool) {
	if d := multisetDiff(gen.RecsOf(in), gen.RecsOf(out)); d != "" {
		problems = append(problems, [2]string{what + ":not-a-permutation", d})
		return problems, false
	}
	for i := 1; i < len(out); i++ {
		if cmp(out[i-1], out[i]) > 0 {
			problems = append(problems, [2]string{what + ":not-sorted", fmt.Sprintf("output[%d] > output[%d] under the comparison (cmp=%d)\n [%d]=%s\n [%d]=%s", i-1, i, cmp(out[i-1], out[i]), i-1, c06Show(out[i-1]), i, c06Show(out[i]))})
			return problems, false
		}
	}
	// stability: every maximal run of equal keys must list its members in input order
	for i := 0; i < len(out); {
		j := i + 1
		for j < len(out) && cmp(out[j-1], out[j]) == 0 {
			j++
		}
		if j-i > 1 {
			ties = true
			var want []gen.Rec
			for _, v := range in {
				if cmp(v, out[i]) == 0 {
					want = append(want, gen.RecOf(v))
				}
			}
			if d := diffRecs(want, gen.RecsOf(out[i:j])); d != "" {
				problems = append(problems, [2]string{what + ":not-stable", fmt.Sprintf("equal-key run at output[%d:%d] is not in input order: %s", i, j, d)})
				return problems, ties
			}
		}
		i = j
	}
	return problems, ties
}

func c06Report(o *rt.Obs, c *rt.Ctx, known bool, problems [][2]string) {
	for _, p := range problems {
		sig, detail := p[0], p[1]
		if known && sig != c06SigFieldPos && sig != c06SigSecondaryNulls {
			// the comparison is not a preorder on this case's keys, so no
			// particular order can be demanded of sort or merge
			detail = sig + ": " + detail
			sig = c06SigConsequence
			c.Count("known_hits_int_float_keys", 1)
		}
		o.Violation(sig, detail)
	}
}

// ---------------------------------------------------------------------------
// (2) bulk path

func c06Bulk(c *rt.Ctx, o *rt.Obs) {
	r := o.R
	zctx := zed.NewContext()
	U := c06Universe(zctx, false, c.Seed)
	nkeys := r.Range(1, 3)
	poolKind := rt.Pick(r, []int{0, 0, 0, 1, 1, 2, 3})
	n := r.Intn(c.N(60, 80) + 1)
	desc := make([]bool, nkeys)
	for k := range desc {
		desc[k] = r.Chance(1, 3)
	}
	nullsMax := r.Bool()
	vals, _, cols := c06MakeKeyed(r, zctx, U, nkeys, n, poolKind)
	o.Desc(map[string]any{"keys": c06Keyed{nkeys, desc, c06PoolNames[poolKind], n, false}, "nulls_max": nullsMax, "first_values": fmtVals(vals, 6)})
	known := c06HasKnownPair(cols)
	cmpr := c06KeyComparator(zctx, nullsMax, desc, false)
	got := append([]zed.Value{}, vals...)
	cmpr.SortStable(got)
	problems, _ := c06CheckSorted("bulk", cmpr.Compare, vals, got)
	c06Report(o, c, known, problems)
	// the reader flavour of the same path
	zr := cmpr.SortStableReader(append([]zed.Value{}, vals...))
	var got2 []zed.Value
	for {
		v, err := zr.Read()
		if err != nil {
			o.Violation("bulk:reader-error", err.Error())
			return
		}
		if v == nil {
			break
		}
		got2 = append(got2, *v)
	}
	if d := diffRecs(gen.RecsOf(got), gen.RecsOf(got2)); d != "" {
		c06Report(o, c, known, [][2]string{{"bulk:SortStable-vs-SortStableReader", d}})
	}
	c.Count("bulk_values_sorted", int64(n))
}

// ---------------------------------------------------------------------------
// (3) the sort operator

const (
	c06SigFieldPos       = "sort:spill-merge-misorders-records-whose-key-field-position-differs"
	c06SigSecondaryNulls = "sort:null-secondary-key-placed-by-first-keys-direction"
)

func c06IsNullKey(v zed.Value) bool {
	if v.IsNull() {
		return true
	}
	if t, ok := v.Type().(*zed.TypeError); ok && t.Type == zed.TypeString && string(v.Bytes()) == "missing" {
		return true
	}
	return false
}

// c06Field extracts a top-level field by name without any cache (output
// values of a spilled sort live in a context of the sort operator's own).
func c06Field(v zed.Value, name string) (zed.Value, bool) {
	rt := zed.TypeRecordOf(v.Type())
	if rt == nil || v.IsNull() {
		return zed.Value{}, false
	}
	it := v.Bytes().Iter()
	for _, f := range rt.Fields {
		if it.Done() {
			break
		}
		b := it.Next()
		if f.Name == name {
			return zed.NewValue(f.Type, b), true
		}
	}
	return zed.Value{}, false
}

func c06SeqOf(vals []zed.Value) []int64 {
	out := make([]int64, len(vals))
	for i, v := range vals {
		out[i] = -1
		if f, ok := c06Field(v, "s"); ok && !f.IsNull() {
			out[i] = f.Int()
		}
	}
	return out
}

// c06SimRuns predicts the number of spill runs for a memory limit from the
// documented rule (spill whenever the buffered value bytes reach the limit
// after a batch; at end of input spill the remainder if anything was spilled).
func c06SimRuns(sizes []int, limit int) int {
	runs, acc, pending := 0, 0, false
	for _, n := range sizes {
		acc += n
		pending = true
		if acc >= limit {
			runs++
			acc, pending = 0, false
		}
	}
	if runs > 0 && pending {
		runs++
	}
	return runs
}

type c06SortSpec struct {
	Program  string
	NKeys    int
	Eff      []bool // effective direction per key after -r
	UseThis  bool
	NullsLst bool
	Vals     []zed.Value
	Norm     []zed.Value // nil, or Vals with absent keys written as explicit nulls
	Cols     [][]zed.Value
	Sizes    []int // batch sizes (values per batch)
	Limits   []int // nil = choose
}

func c06Cut(vals []zed.Value, sizes []int) [][]zed.Value {
	var out [][]zed.Value
	i := 0
	for _, n := range sizes {
		out = append(out, vals[i:i+n])
		i += n
	}
	return out
}

func c06RunSort(zctx *zed.Context, q string, batches [][]zed.Value, limit int) ([]zed.Value, int64, error) {
	saved := sortop.MemMaxBytes
	sortop.MemMaxBytes = limit
	defer func() { sortop.MemMaxBytes = saved }()
	before := verifhook.Count("spill.mergesort.run")
	out, err := c06RunQuery(zctx, q, batches)
	return out, verifhook.Count("spill.mergesort.run") - before, err
}

// c06SortCheck runs one sort program in memory and under lowered limits.
func c06SortCheck(c *rt.Ctx, o *rt.Obs, r *rt.Rand, zctx *zed.Context, sp c06SortSpec) (maxRuns int64, ties bool) {
	known := c06HasKnownPair(sp.Cols)
	batches := c06Cut(sp.Vals, sp.Sizes)
	var byteSizes []int
	total := 0
	for _, b := range batches {
		n := 0
		for _, v := range b {
			n += len(v.Bytes())
		}
		byteSizes = append(byteSizes, n)
		total += n
	}
	nullsMax := sp.NullsLst != sp.Eff[0]
	cmpr := c06KeyComparator(zctx, nullsMax, sp.Eff, sp.UseThis)
	defaultLimit := sortop.MemMaxBytes
	base, runs0, err := c06RunSort(zctx, sp.Program, batches, defaultLimit)
	if err != nil {
		o.Violation("sort:error", fmt.Sprintf("%s: %v", sp.Program, err))
		return 0, false
	}
	c.Count("sort_spill_runs_at_default_limit", runs0)
	problems, ties := c06CheckSorted("sort", cmpr.Compare, sp.Vals, base)
	if len(problems) == 0 {
		// primary-key null placement, independent of the comparator
		state := 0 // 0 = in the leading block, 1 = after it
		for i, v := range base {
			key := v
			if !sp.UseThis {
				var ok bool
				if key, ok = c06Field(v, "k0"); !ok {
					key = zed.Null
				}
			}
			isNull := c06IsNullKey(key)
			leading := isNull == !sp.NullsLst // value belongs to the block that must come first
			if leading && state == 1 {
				problems = append(problems, [2]string{"sort:nulls-misplaced", fmt.Sprintf("%s: output[%d]=%s has a %s primary key but follows a value of the other kind", sp.Program, i, c06Show(v), map[bool]string{true: "null/missing", false: "non-null"}[isNull])})
				break
			}
			if !leading {
				state = 1
			}
		}
	}
	if len(problems) == 0 && !sp.UseThis && sp.NKeys > 1 {
		// null placement of the secondary keys.  The documentation puts nulls
		// last for ascending and descending keys alike (first with -nulls
		// first).  The reference differs from the code's comparator in exactly
		// one respect: a null/missing key against a non-null key is decided by
		// the -nulls flag for every key, not by a single flag derived from the
		// first key's direction.
		keyCmps := make([]*expr.Comparator, sp.NKeys)
		for k := range keyCmps {
			keyCmps[k] = c06KeyComparator(zctx, nullsMax, sp.Eff[k:k+1], true)
		}
		ref := func(a, b zed.Value) int {
			for k := 0; k < sp.NKeys; k++ {
				ka, ok := c06Field(a, fmt.Sprintf("k%d", k))
				if !ok {
					ka = zed.Null
				}
				kb, ok := c06Field(b, fmt.Sprintf("k%d", k))
				if !ok {
					kb = zed.Null
				}
				na, nb := c06IsNullKey(ka), c06IsNullKey(kb)
				switch {
				case na && nb:
					continue
				case na != nb:
					if na == sp.NullsLst {
						return 1
					}
					return -1
				}
				if v := keyCmps[k].Compare(ka, kb); v != 0 {
					return v
				}
			}
			return 0
		}
		for i := 1; i < len(base); i++ {
			if ref(base[i-1], base[i]) > 0 {
				problems = append(problems, [2]string{c06SigSecondaryNulls, fmt.Sprintf("%s: output[%d] and output[%d] are in the order of the code's comparator but a null/missing secondary key is on the wrong side of a non-null one for the -nulls setting (nulls %s)\n [%d]=%s\n [%d]=%s", sp.Program, i-1, i, map[bool]string{true: "last", false: "first"}[sp.NullsLst], i-1, c06Show(base[i-1]), i, c06Show(base[i]))})
				break
			}
		}
	}
	c06Report(o, c, known, problems)
	baseRecs := gen.RecsOf(base)
	limits := sp.Limits
	if limits == nil {
		// candidates; keep one limit per predicted run count, at most 12 runs
		// (every run costs the code a 512 KiB read buffer)
		cand := []int{total, total/2 + 1, total/3 + 1, 1, total/5 + 1, total/8 + 1}
		if total > 4 {
			cand = append(cand, r.Range(2, total))
		}
		seen := map[int]bool{}
		for _, lim := range cand {
			if lim < 1 {
				continue
			}
			k := c06SimRuns(byteSizes, lim)
			if k == 0 || k > 12 || seen[k] {
				continue
			}
			seen[k] = true
			limits = append(limits, lim)
			if len(limits) == 4 {
				break
			}
		}
	}
	distinct := map[int64]bool{}
	for _, lim := range limits {
		out, runs, err := c06RunSort(zctx, sp.Program, batches, lim)
		if err != nil {
			o.Violation("sort:error-when-spilling", fmt.Sprintf("%s with MemMaxBytes=%d: %v", sp.Program, lim, err))
			continue
		}
		maxRuns = max(maxRuns, runs)
		distinct[runs] = true
		c.Count("sort_spill_runs_forced", runs)
		if int(runs) == c06SimRuns(byteSizes, lim) {
			c.Count("sort_spill_run_count_as_predicted", 1)
		} else {
			c.Count("sort_spill_run_count_not_as_predicted", 1)
		}
		d := diffRecs(baseRecs, gen.RecsOf(out))
		if d == "" {
			continue
		}
		sig := "sort:spill-changes-output"
		detail := fmt.Sprintf("%s: MemMaxBytes=%d (%d spill runs over %d batches) differs from the in-memory result: %s\n%s", sp.Program, lim, runs, len(batches), d, c06Around(base, out))
		if sp.Norm != nil {
			// Is the failure the known dependence on where the key fields sit in
			// each record type?  With every absent key written as an explicit
			// null all record types have their keys at the same positions and
			// the keys are unchanged, so the spilled order must be the
			// in-memory order of the original input.
			nout, _, nerr := c06RunSort(zctx, sp.Program, c06Cut(sp.Norm, sp.Sizes), lim)
			if nerr == nil && fmt.Sprint(c06SeqOf(nout)) == fmt.Sprint(c06SeqOf(base)) {
				sig = c06SigFieldPos
				detail += "\n(the same input with every absent key written as an explicit null field — same keys, key fields at one position in all record types — is merged in the in-memory order)"
				c.Count("known_hits_field_position", 1)
			}
		}
		c06Report(o, c, known, [][2]string{{sig, detail}})
	}
	c.Count("sort_queries_run", int64(1+len(limits)))
	c.Max("max_spill_runs_in_one_sort", maxRuns)
	if len(distinct) >= 3 {
		c.Count("sort_cases_with_3plus_distinct_run_counts", 1)
	}
	return maxRuns, ties
}

func c06Sort(c *rt.Ctx, o *rt.Obs) {
	r := o.R
	zctx := zed.NewContext()
	U := c06Universe(zctx, false, c.Seed)
	useThis := r.Chance(1, 4)
	nkeys := r.Range(1, 3)
	if useThis {
		nkeys = 1
	}
	poolKind := rt.Pick(r, []int{0, 0, 1, 1, 2, 3})
	n := r.Intn(c.N(80, 200) + 1)
	desc := make([]bool, nkeys)
	for k := range desc {
		desc[k] = r.Chance(1, 3)
	}
	reverse := r.Chance(1, 4)
	nulls := rt.Pick(r, []string{"", "", "first", "last"})
	var vals, norm []zed.Value
	var cols [][]zed.Value
	if useThis {
		pool := c06Pool(r, U, poolKind, r.Range(1, 10))
		for i := 0; i < n; i++ {
			v := rt.Pick(r, pool)
			if r.Chance(1, 12) {
				v = zed.NewValue(v.Type(), nil)
			}
			vals = append(vals, v)
		}
		cols = [][]zed.Value{vals}
	} else {
		vals, norm, cols = c06MakeKeyed(r, zctx, U, nkeys, n, poolKind)
	}
	// program text
	var q strings.Builder
	q.WriteString("sort")
	if reverse {
		q.WriteString(" -r")
	}
	if nulls != "" {
		q.WriteString(" -nulls " + nulls)
	}
	// `sort` without an expression sorts non-records by `this`
	omitKey := useThis && !desc[0] && r.Bool()
	if omitKey && len(vals) > 0 && zed.IsRecordType(vals[0].Type()) {
		omitKey = false // a record as first value would make sort guess a field
	}
	if !omitKey {
		for k := 0; k < nkeys; k++ {
			if k > 0 {
				q.WriteString(",")
			}
			if useThis {
				q.WriteString(" this")
			} else {
				fmt.Fprintf(&q, " k%d", k)
			}
			if desc[k] {
				q.WriteString(" desc")
			} else if r.Chance(1, 3) {
				q.WriteString(" asc")
			}
		}
	}
	var sizes []int
	for _, b := range c06Split(r, vals, r.Intn(4)) {
		sizes = append(sizes, len(b))
	}
	eff := make([]bool, nkeys)
	for k := range eff {
		eff[k] = desc[k] != reverse
	}
	o.Desc(map[string]any{"program": q.String(), "keys": c06Keyed{nkeys, desc, c06PoolNames[poolKind], n, useThis}, "batch_sizes": sizes, "first_values": fmtVals(vals, 6)})
	maxRuns, ties := c06SortCheck(c, o, r, zctx, c06SortSpec{Program: q.String(), NKeys: nkeys, Eff: eff, UseThis: useThis, NullsLst: nulls != "first",
		Vals: vals, Norm: norm, Cols: cols, Sizes: sizes})
	if maxRuns >= 1 && ties {
		o.Nontrivial(fmt.Sprint("sort/", o.Index))
		c.Count("sort_cases_spilled_with_ties", 1)
	}
	if o.Index%97 == 0 {
		o.Sample(map[string]any{"kind": "sort", "program": q.String(), "values": n, "batches": len(sizes), "max_spill_runs": maxRuns, "first_values": fmtVals(vals, 4)})
	}
}

// c06DirectedFieldPos: three records of two record types whose key field k
// sits at different positions, spilled as two runs.
func c06DirectedFieldPos(c *rt.Ctx, o *rt.Obs) {
	zctx := zed.NewContext()
	mk := func(names []string, vals []zed.Value) zed.Value {
		var fields []zed.Field
		var b zcode.Builder
		for i, n := range names {
			fields = append(fields, zed.NewField(n, vals[i].Type()))
			b.Append(vals[i].Bytes())
		}
		return zed.NewValue(zctx.MustLookupTypeRecord(fields), append([]byte{}, b.Bytes()...))
	}
	i64 := func(x int64) zed.Value { return zed.NewValue(zed.TypeInt64, zed.EncodeInt(x)) }
	str := func(x string) zed.Value { return zed.NewValue(zed.TypeString, zed.EncodeString(x)) }
	vals := []zed.Value{
		mk([]string{"x", "k0", "s"}, []zed.Value{str("a"), i64(2), i64(0)}),
		mk([]string{"k0", "y", "s"}, []zed.Value{i64(1), str("b"), i64(1)}),
		mk([]string{"x", "k0", "s"}, []zed.Value{str("c"), i64(0), i64(2)}),
	}
	norm := []zed.Value{
		mk([]string{"k0", "x", "s"}, []zed.Value{i64(2), str("a"), i64(0)}),
		mk([]string{"k0", "y", "s"}, []zed.Value{i64(1), str("b"), i64(1)}),
		mk([]string{"k0", "x", "s"}, []zed.Value{i64(0), str("c"), i64(2)}),
	}
	o.Desc(map[string]any{"program": "sort k0", "values": fmtVals(vals, 3), "batch_sizes": []int{2, 1}, "MemMaxBytes": 1})
	c06SortCheck(c, o, o.R, zctx, c06SortSpec{Program: "sort k0", NKeys: 1, Eff: []bool{false}, NullsLst: true,
		Vals: vals, Norm: norm, Cols: [][]zed.Value{{i64(2), i64(1), i64(0)}}, Sizes: []int{2, 1}, Limits: []int{1}})
}

// c06Around lists both sequences around their first difference.
func c06Around(want, got []zed.Value) string {
	i := 0
	for i < len(want) && i < len(got) && gen.RecOf(want[i]) == gen.RecOf(got[i]) {
		i++
	}
	var sb strings.Builder
	for j := max(0, i-3); j < i+5; j++ {
		w, g := "-", "-"
		if j < len(want) {
			w = fmtVal(want[j])
		}
		if j < len(got) {
			g = fmtVal(got[j])
		}
		fmt.Fprintf(&sb, " [%d] in-memory %s | spilled %s\n", j, w, g)
	}
	return sb.String()
}

// ---------------------------------------------------------------------------
// (4) merge

type c06Puller struct {
	batches [][]zed.Value
	next    int
}

func (p *c06Puller) Pull(done bool) (zbuf.Batch, error) {
	if done {
		p.next = len(p.batches)
	}
	if p.next >= len(p.batches) {
		return nil, nil
	}
	b := newC06Batch(p.batches[p.next])
	p.next++
	return b, nil
}

func c06Merge(c *rt.Ctx, o *rt.Obs) {
	r := o.R
	zctx := zed.NewContext()
	U := c06Universe(zctx, false, c.Seed)
	k := r.Range(1, 5)
	useThis := r.Chance(1, 3)
	poolKind := rt.Pick(r, []int{0, 1, 1, 2, 3})
	desc := []bool{r.Chance(1, 3)}
	nullsMax := r.Chance(3, 4) // the compiled merge operator always uses true
	cmpr := c06KeyComparator(zctx, nullsMax, desc, useThis)
	pool := c06Pool(r, U, poolKind, r.Range(1, 10))
	var all []zed.Value
	var parents []zbuf.Puller
	var shape []string
	var col []zed.Value
	var b zcode.Builder
	seq := 0
	for i := 0; i < k; i++ {
		n := r.Intn(c.N(40, 80) + 1)
		if r.Chance(1, 10) {
			n = 0
		}
		var vals []zed.Value
		for j := 0; j < n; j++ {
			key := rt.Pick(r, pool)
			if r.Chance(1, 12) {
				key = zed.NewValue(key.Type(), nil)
			}
			col = append(col, key)
			if useThis {
				vals = append(vals, key)
				continue
			}
			var fields []zed.Field
			b.Reset()
			if !r.Chance(1, 15) {
				fields = append(fields, zed.NewField("k0", key.Type()))
				b.Append(key.Bytes())
			}
			fields = append(fields, zed.NewField("s", zed.TypeInt64))
			b.Append(zed.EncodeInt(int64(seq)))
			seq++
			vals = append(vals, zed.NewValue(zctx.MustLookupTypeRecord(fields), append([]byte{}, b.Bytes()...)))
		}
		sort.SliceStable(vals, func(x, y int) bool { return cmpr.Compare(vals[x], vals[y]) < 0 })
		mode := r.Intn(4)
		batches := c06Split(r, vals, mode)
		shape = append(shape, fmt.Sprintf("%d values in %d batches", n, len(batches)))
		parents = append(parents, &c06Puller{batches: batches})
		all = append(all, vals...)
	}
	o.Desc(map[string]any{"inputs": shape, "key_is_this": useThis, "desc": desc[0], "nulls_max": nullsMax, "pool": c06PoolNames[poolKind], "first_values": fmtVals(all, 6)})
	known := c06HasKnownPair([][]zed.Value{col})
	// inputs must really be sorted (with a non-transitive comparison a stable sort need not achieve it)
	inputsSorted := true
	for _, p := range parents {
		var prev *zed.Value
		for _, bt := range p.(*c06Puller).batches {
			for i := range bt {
				if prev != nil && cmpr.Compare(*prev, bt[i]) > 0 {
					inputsSorted = false
				}
				prev = &bt[i]
			}
		}
	}
	if !inputsSorted {
		if known {
			c.Count("known_hits_int_float_keys", 1)
			c.Count("merge_cases_skipped_inputs_unsortable", 1)
			return
		}
		o.Violation("merge:harness-could-not-sort-inputs", "a stable sort by the code's comparison left an input out of order, so the comparison is not a preorder on these keys")
		return
	}
	ctx, cancel := context.WithCancel(context.Background())
	defer cancel()
	fast0, slow0 := verifhook.Count("merge.fastpath"), verifhook.Count("merge.slowpath")
	m := merge.New(ctx, parents, cmpr.Compare, expr.Resetters{})
	var out []zed.Value
	for {
		bt, err := m.Pull(false)
		if err != nil {
			o.Violation("merge:error", err.Error())
			return
		}
		if bt == nil {
			break
		}
		for _, v := range bt.Values() {
			out = append(out, v.Copy())
		}
		bt.Unref()
	}
	fast, slow := verifhook.Count("merge.fastpath")-fast0, verifhook.Count("merge.slowpath")-slow0
	c.Count("merge_fastpath_batches", fast)
	c.Count("merge_slowpath_pulls", slow)
	c.Count("merge_values", int64(len(all)))
	var problems [][2]string
	if d := multisetDiff(gen.RecsOf(all), gen.RecsOf(out)); d != "" {
		problems = append(problems, [2]string{"merge:multiset-differs", d})
	} else {
		for i := 1; i < len(out); i++ {
			if cmpr.Compare(out[i-1], out[i]) > 0 {
				problems = append(problems, [2]string{"merge:not-sorted", fmt.Sprintf("output[%d] > output[%d] (cmp=%d; %d fast-path batches, %d slow-path pulls)\n [%d]=%s\n [%d]=%s", i-1, i, cmpr.Compare(out[i-1], out[i]), fast, slow, i-1, c06Show(out[i-1]), i, c06Show(out[i]))})
				break
			}
		}
	}
	c06Report(o, c, known, problems)
	if fast > 0 && slow > 0 {
		o.Nontrivial(fmt.Sprint("merge/", o.Index))
		c.Count("merge_cases_both_paths", 1)
	}
	if o.Index%199 == 0 {
		o.Sample(map[string]any{"kind": "merge", "inputs": shape, "fastpath": fast, "slowpath": slow})
	}
}

package main

import (
	"fmt"
	"math"
	"math/big"
	"net/netip"
	"strings"
	"sync"

	zed "github.com/brimdata/super"
	"github.com/brimdata/super/pkg/nano"
	"github.com/brimdata/super/zson"

	"verif/internal/gen"
	"verif/internal/rt"
)

// c06Universe builds the curated universe of boundary values used by the
// exhaustive comparison-matrix check of C06.  Everything lives in one type
// context.  The thorough universe is a superset of the quick one.
func c06Universe(zctx *zed.Context, thorough bool, seed uint64) []zed.Value {
	// Built once per process in a template context, then translated (types
	// in the same order) into the case's fresh context.
	key := fmt.Sprint(thorough, seed)
	tpl := func() []zed.Value {
		c06TemplateMu.Lock()
		defer c06TemplateMu.Unlock()
		tpl, ok := c06Templates[key]
		if !ok {
			tpl = c06BuildUniverse(zed.NewContext(), thorough, seed)
			c06Templates[key] = tpl
		}
		return tpl
	}()
	out := make([]zed.Value, len(tpl))
	for i, v := range tpl {
		t, err := zctx.TranslateType(v.Type())
		if err != nil {
			panic(fmt.Sprintf("c06 universe: translate %s: %v", gen.TypeString(v.Type()), err))
		}
		if v.IsNull() {
			out[i] = zed.NewValue(t, nil)
		} else {
			out[i] = zed.NewValue(t, append([]byte{}, v.Bytes()...))
		}
	}
	return out
}

var (
	c06TemplateMu sync.Mutex
	c06Templates  = map[string][]zed.Value{}
)

func c06BuildUniverse(zctx *zed.Context, thorough bool, seed uint64) []zed.Value {
	var u []zed.Value
	var bad []string
	defer func() {
		if len(bad) > 0 {
			panic(fmt.Sprintf("c06 universe: cannot build %s", strings.Join(bad, "; ")))
		}
	}()
	add := func(vs ...zed.Value) {
		for _, v := range vs {
			// bytes-backed, as a reader would produce it
			if v.IsNull() {
				u = append(u, zed.NewValue(v.Type(), nil))
			} else {
				u = append(u, zed.NewValue(v.Type(), append([]byte{}, v.Bytes()...)))
			}
		}
	}
	z := func(srcs ...string) {
		for _, s := range srcs {
			v, err := zson.ParseValue(zctx, s)
			if err != nil {
				bad = append(bad, fmt.Sprintf("%q: %v", s, err))
				continue
			}
			add(v)
		}
	}
	ints := func(t zed.Type, xs ...int64) {
		for _, x := range xs {
			add(zed.NewInt(t, x))
		}
	}
	uints := func(t zed.Type, xs ...uint64) {
		for _, x := range xs {
			add(zed.NewUint(t, x))
		}
	}
	floats := func(t zed.Type, xs ...float64) {
		for _, x := range xs {
			add(zed.NewFloat(t, x))
		}
	}
	const p53 = int64(1) << 53
	// --- numbers -----------------------------------------------------------
	uints(zed.TypeUint8, 0, 255)
	uints(zed.TypeUint16, 65535)
	uints(zed.TypeUint32, 1<<32-1)
	uints(zed.TypeUint64, 0, 1, 1<<53, 1<<53+1, 1<<63-1, 1<<63, 1<<63+1, math.MaxUint64-1, math.MaxUint64)
	ints(zed.TypeInt8, -128, 127)
	ints(zed.TypeInt16, -32768)
	ints(zed.TypeInt32, math.MaxInt32)
	ints(zed.TypeInt64, math.MinInt64, math.MinInt64+1, -(p53 + 1), -p53, -1, 0, 1, p53-1, p53, p53+1, math.MaxInt64-1, math.MaxInt64)
	ints(zed.TypeDuration, math.MinInt64, -1, 0, 1, p53+1, math.MaxInt64)
	ints(zed.TypeTime, math.MinInt64, 0, 1, p53, math.MaxInt64)
	floats(zed.TypeFloat16, 0, 1, 65504, math.Inf(1), math.NaN())
	floats(zed.TypeFloat32, math.Copysign(0, -1), 1, 16777216, math.MaxFloat32, math.Inf(-1), math.NaN())
	floats(zed.TypeFloat64, math.Inf(-1), -math.MaxFloat64, -0x1p63, -0x1p53, -1, math.Copysign(0, -1), 0,
		math.SmallestNonzeroFloat64, 0.5, 1, 1.5, 0x1p53, 0x1p53+2, 0x1p63, 0x1p64, math.MaxFloat64, math.Inf(1),
		math.NaN(), math.Float64frombits(0x7ff8000000000123), math.Float64frombits(0xfff8000000000001))
	// --- other primitives --------------------------------------------------
	add(zed.NewBool(false), zed.NewBool(true))
	add(zed.NewBytes([]byte{}), zed.NewBytes([]byte{0}), zed.NewBytes([]byte("a")), zed.NewBytes([]byte{0xff}))
	for _, s := range []string{"", "a", "ab", "b", "B", "é", "\U0010ffff", "1"} {
		add(zed.NewString(s))
	}
	for _, s := range []string{"0.0.0.0", "10.1.2.3", "255.255.255.255", "::", "::1", "::ffff:10.1.2.3", "ffff:ffff:ffff:ffff:ffff:ffff:ffff:ffff"} {
		add(zed.NewIP(netip.MustParseAddr(s)))
	}
	for _, s := range []string{"0.0.0.0/0", "10.0.0.0/8", "10.0.0.0/16", "::/0", "fe80::/10"} {
		add(zed.NewNet(netip.MustParsePrefix(s)))
	}
	z(`<int64>`, `<string>`, `<{a:int64}>`, `<{a:string}>`, `<[int64]>`, `<foo=int64>`, `<bar=int64>`, `<(int64,string)>`, `<null>`, `<error(string)>`)
	// --- nulls of each kind, missing, errors ---------------------------------
	add(zed.Null)
	for _, t := range []zed.Type{zed.TypeInt64, zed.TypeUint64, zed.TypeFloat64, zed.TypeString, zed.TypeBytes, zed.TypeIP, zed.TypeType, zed.TypeBool, zed.TypeTime} {
		add(zed.NewValue(t, nil))
	}
	z(`null([int64])`, `null({a:int64})`, `null((int64,string))`, `null(foo=int64)`, `null(|[int64]|)`, `null(|{int64:string}|)`, `null(error(string))`)
	add(zctx.Missing(), zctx.Quiet())
	z(`error("x")`, `error("y")`, `error({a:1})`, `error(1)`)
	// --- containers ----------------------------------------------------------
	z(`[]([int64])`, `[1]`, `[1,2]`, `[2]`, `[null(int64)]`, `[1,null(int64)]`, `[null(int64),1]`,
		`[1.]`, `[2.]`, `["a"]`, `[[1]]`, `[[1],[2]]`, `[1,"a"]`, `["a",1]`, `[{a:1}]`, `[9007199254740993]`, `[9007199254740992.]`)
	z(`|[]|(|[int64]|)`, `|[1]|`, `|[1,2]|`, `|[2]|`, `|["a"]|`)
	z(`|{}|(|{int64:string}|)`, `|{1:"a"}|`, `|{1:"b"}|`, `|{2:"a"}|`, `|{"a":1}|`)
	z(`{}`, `{a:1}`, `{a:2}`, `{a:null(int64)}`, `{a:1,b:"x"}`, `{b:1}`, `{a:"x"}`, `{a:{b:1}}`, `{a:1.}`, `{a:[1]}`, `{b:1,a:1}`)
	// --- unions, enums, named -------------------------------------------------
	z(`1((int64,string))`, `2((int64,string))`, `"a"((int64,string))`, `null((int64,string))`, `1((int64,float64))`, `1.((int64,float64))`)
	z(`%A(enum(A,B))`, `%B(enum(A,B))`, `%A(enum(A))`)
	z(`1(foo=int64)`, `9007199254740993(foo=int64)`, `1(bar=int64)`, `"a"(foo=string)`, `{a:1}(=rec)`, `{a:2}(=rec)`, `[1](=arr)`,
		`1.(flt=float64)`, `1(foo=bar=int64)`)
	if !thorough {
		return u
	}
	// ------------------------------------------------------------------------
	// thorough additions
	for _, t := range []zed.Type{zed.TypeUint8, zed.TypeUint16, zed.TypeUint32} {
		uints(t, 0, 1, 127, 128)
	}
	uints(zed.TypeUint16, 255, 256)
	uints(zed.TypeUint32, 65535, 65536, 1<<24, 1<<24+1, 1<<31)
	uints(zed.TypeUint64, 2, 1<<24+1, 1<<32, 1<<53-1, 1<<53+2, 1<<62, 1<<63-1025, 1<<63+1024, 1<<63+1025, 1<<64-2048, 1<<64-2049, 1<<64-1025)
	for _, t := range []zed.Type{zed.TypeInt8, zed.TypeInt16, zed.TypeInt32} {
		ints(t, -1, 0, 1, 127, -128)
	}
	ints(zed.TypeInt16, 32767, 128, -129)
	ints(zed.TypeInt32, math.MinInt32, 1<<24, 1<<24+1, 32768)
	ints(zed.TypeInt64, 2, -2, 1<<24+1, 1<<31, 1<<32, -(p53 - 1), -(p53 + 2), p53+2, p53+3, 1<<62, -(1 << 62), math.MaxInt64-511, math.MaxInt64-512, math.MaxInt64-1023,
		math.MinInt64+512, math.MinInt64+1024, math.MinInt64+1025)
	ints(zed.TypeDuration, -p53-1, p53, p53+2, 1000000000, math.MinInt64+1, math.MaxInt64-1)
	ints(zed.TypeTime, -1, p53+1, -p53-1, 1700000000000000000, math.MaxInt64-1, math.MinInt64+1)
	floats(zed.TypeFloat16, -1, 0.5, 2048, 2050, -65504, math.Inf(-1), 5.9604645e-08, math.Copysign(0, -1))
	floats(zed.TypeFloat32, 0, -1, 0.5, 16777218, -16777216, math.SmallestNonzeroFloat32, -math.MaxFloat32, math.Inf(1), float64(float32(0.1)), 0x1p63, 0x1p64, 0x1p53)
	floats(zed.TypeFloat64, 0.1, -0.5, 2, 1<<24+1, math.Nextafter(0x1p53, 0), 0x1p53+4, -0x1p53-2, math.Nextafter(0x1p63, 0), math.Nextafter(0x1p63, math.Inf(1)),
		math.Nextafter(-0x1p63, 0), math.Nextafter(-0x1p63, math.Inf(-1)), math.Nextafter(0x1p64, 0), math.Nextafter(0x1p64, math.Inf(1)),
		-math.SmallestNonzeroFloat64, 2.2250738585072014e-308, 1e100, -1e100, 0x1p62, 9223372036854775295, 1e19, 1.8446744073709552e19, 1.7e19,
		4294967296, 255, 256, 127.5, -128, -128.5, 65535.5, 1700000000000000000)
	for _, s := range []string{"A", "a\x00", "a\x00b", "aa", "è", "é", "Ａ", "日本", " ", "0", "10", "9", "null", "~", "\x7f", "\u0080", "퟿", ""} {
		add(zed.NewString(s))
	}
	add(zed.NewBytes([]byte{0, 0}), zed.NewBytes([]byte("ab")), zed.NewBytes([]byte{0x80}), zed.NewBytes([]byte{0xff, 0}), zed.NewBytes([]byte("b")))
	for _, s := range []string{"127.0.0.1", "10.1.2.4", "9.255.255.255", "128.0.0.0", "fe80::1", "2001:db8::1", "::ffff:0.0.0.0", "::fffe:ffff:ffff", "1::"} {
		add(zed.NewIP(netip.MustParseAddr(s)))
	}
	for _, s := range []string{"10.0.0.0/9", "192.168.1.0/24", "1.2.3.4/32", "128.0.0.0/1", "::1/128", "2001:db8::/32", "::ffff:10.0.0.0/104"} {
		add(zed.NewNet(netip.MustParsePrefix(s)))
	}
	z(`<uint8>`, `<float64>`, `<bool>`, `<type>`, `<ip>`, `<{}>`, `<{a:int64,b:string}>`, `<{b:int64}>`, `<[string]>`, `<[[int64]]>`, `<|[int64]|>`, `<|{int64:string}|>`,
		`<|{string:int64}|>`, `<foo=string>`, `<foo={a:int64}>`, `<(int64,float64)>`, `<(int64,string,float64)>`, `<enum(A,B)>`, `<enum(B,A)>`, `<error(int64)>`, `<error({a:int64})>`,
		`<{a:foo=int64}>`, `<[foo=int64]>`, `<foo=bar=int64>`)
	for _, t := range []zed.Type{zed.TypeUint8, zed.TypeInt8, zed.TypeInt32, zed.TypeDuration, zed.TypeFloat16, zed.TypeFloat32, zed.TypeNet} {
		add(zed.NewValue(t, nil))
	}
	z(`null([string])`, `null({a:string})`, `null(enum(A,B))`, `null(bar=int64)`, `null(foo=string)`, `null([[int64]])`, `null({})`)
	z(`error("")`, `error("missing ")`, `error({a:2})`, `error(2)`, `error(null(int64))`, `error([1])`, `error(error("x"))`, `error(1.)`)
	z(`[3]`, `[1,1]`, `[1,2,3]`, `[-1]`, `[1.,2.]`, `[0.5]`, `[NaN]`, `[-0.]`, `[0.]`, `["a","b"]`, `["b"]`, `[""]`, `[[1,2]]`, `[[]([int64])]`, `[[2]]`, `[1,1.]`, `[1.,1]`,
		`[{a:2}]`, `[{a:1},{a:2}]`, `[null({a:int64})]`, `[1(uint64)]`, `[18446744073709551615(uint64)]`, `[9223372036854775807]`, `[true]`, `[1(foo=int64)]`, `[2(foo=int64)]`,
		`[1(foo=bar=int64)]`, `[3(foo=bar=int64)]`, `[null(int64),null(int64)]`, `[1,null(int64),2]`, `[error("x")]`, `[<int64>]`, `[1.1.1.1]`)
	z(`|[3]|`, `|[1,3]|`, `|[1.]|`, `|["a","b"]|`, `|[[1]]|`, `|[null(int64)]|`, `|[1,null(int64)]|`, `|[1,"a"]|`, `|[{a:1}]|`)
	z(`|{1:"a",2:"b"}|`, `|{1:null(string)}|`, `|{"a":2}|`, `|{"b":1}|`, `|{1:1}|`, `|{1.:"a"}|`, `|{}|(|{string:int64}|)`, `|{[1]:1}|`, `|{{a:1}:1}|`)
	z(`{a:3}`, `{a:-1}`, `{a:1,b:"y"}`, `{a:2,b:"x"}`, `{a:1,b:null(string)}`, `{a:null(int64),b:"x"}`, `{b:2}`, `{a:"y"}`, `{a:{b:2}}`, `{a:{c:1}}`, `{a:2.}`, `{a:[2]}`,
		`{a:1,b:1}`, `{a:1,b:1,c:1}`, `{"":1}`, `{a:1(uint64)}`, `{a:null}`, `{a:1(foo=int64)}`, `{a:2(foo=int64)}`, `{a:1(foo=bar=int64)}`, `{a:3(foo=bar=int64)}`, `{a:|[1]|}`, `{a:error("x")}`)
	z(`"b"((int64,string))`, `2((int64,float64))`, `1((int64,string,float64))`, `"a"((int64,string,float64))`, `1.((int64,string,float64))`, `{a:1}((int64,{a:int64}))`,
		`1((int64,{a:int64}))`, `[1]((int64,[int64]))`, `null((int64,float64))`, `1(u=(int64,string))`, `"a"(u=(int64,string))`)
	z(`%A(enum(B,A))`, `%B(enum(B,A))`, `%C(enum(A,B,C))`)
	z(`2(foo=int64)`, `2(bar=int64)`, `"b"(foo=string)`, `{a:3}(=rec)`, `{a:1}(=rec2)`, `[2](=arr)`, `[1](=arr2)`, `2.(flt=float64)`, `3(foo=bar=int64)`, `1(bar=foo=int64)`,
		`1(baz=uint64)`, `1.1.1.1(addr=ip)`, `null(rec={a:int64})`, `|[1]|(=st)`, `|{1:"a"}|(=mp)`, `error("x")(=er)`)
	// seeded random values of generated types (depth ≤ 2)
	r := rt.NewRand(seed ^ 0xc06c06c06)
	tg := &gen.TypeGen{Zctx: zctx, R: r, O: gen.TypeOpts{PlainNames: true, FewFields: true}}
	vg := &gen.ValGen{R: r, O: gen.ValOpts{MaxElems: 3, SmallStrings: true}}
	for i := 0; i < 12; i++ {
		t := tg.Type(2)
		for j := 0; j < 3; j++ {
			add(vg.Value(t))
		}
	}
	return u
}

// ---------------------------------------------------------------------------
// Exact numeric comparison (harness side, used only to *classify* a failure
// of the code's comparison, never to decide one).

type c06Num struct {
	isFloat bool
	isUint  bool
	f       float64
	i       int64
	u       uint64
}

func c06NumOf(v zed.Value) (c06Num, bool) {
	if v.IsNull() {
		return c06Num{}, false
	}
	id := v.Type().ID()
	switch {
	case zed.IsFloat(id):
		return c06Num{isFloat: true, f: v.Float()}, true
	case zed.IsUnsigned(id):
		return c06Num{isUint: true, u: v.Uint()}, true
	case zed.IsSigned(id):
		return c06Num{i: v.Int()}, true
	}
	return c06Num{}, false
}

func (n c06Num) isNaN() bool { return n.isFloat && n.f != n.f }

func (n c06Num) big() *big.Float {
	x := new(big.Float).SetPrec(2200)
	switch {
	case n.isFloat:
		return x.SetFloat64(n.f)
	case n.isUint:
		return x.SetUint64(n.u)
	}
	return x.SetInt64(n.i)
}

// c06ExactCmp orders numbers by their exact mathematical value, NaN below
// everything and equal to itself (the convention of Go's cmp.Compare, which
// the code under test uses for float against float).
func c06ExactCmp(a, b c06Num) int {
	an, bn := a.isNaN(), b.isNaN()
	switch {
	case an && bn:
		return 0
	case an:
		return -1
	case bn:
		return 1
	}
	return a.big().Cmp(b.big())
}

// c06IntFloatInexact reports whether (a,b) is an integer/float pair whose
// comparison through float64 conversion differs from the exact one.
func c06IntFloatInexact(a, b zed.Value) bool {
	na, ok1 := c06NumOf(a)
	nb, ok2 := c06NumOf(b)
	if !ok1 || !ok2 || na.isFloat == nb.isFloat {
		return false
	}
	var viaFloat int
	fa, fb := na.asFloat(), nb.asFloat()
	switch {
	case fa != fa && fb != fb:
		viaFloat = 0
	case fa != fa:
		viaFloat = -1
	case fb != fb:
		viaFloat = 1
	case fa < fb:
		viaFloat = -1
	case fa > fb:
		viaFloat = 1
	}
	return viaFloat != c06ExactCmp(na, nb)
}

func (n c06Num) asFloat() float64 {
	switch {
	case n.isFloat:
		return n.f
	case n.isUint:
		return float64(n.u)
	}
	return float64(n.i)
}

var _ = nano.Ts(0)

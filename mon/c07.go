package main

import (
	"context"
	"encoding/json"
	"fmt"
	"regexp"
	"runtime"
	"sort"
	"strings"
	"time"

	zed "github.com/brimdata/super"
	"github.com/brimdata/super/compiler"
	"github.com/brimdata/super/compiler/ast"
	"github.com/brimdata/super/compiler/ast/dag"
	"github.com/brimdata/super/compiler/data"
	"github.com/brimdata/super/order"
	"github.com/brimdata/super/pkg/field"
	zrt "github.com/brimdata/super/runtime"
	"github.com/brimdata/super/zbuf"

	"verif/internal/lk"
	"verif/internal/prog"
	"verif/internal/rt"
)

func init() { register("C07", runC07) }

// c07Arm is one execution of a program: as analyzed, or optimized.
type c07Arm struct {
	out      []zed.Value
	dag      string
	entry    dag.Seq
	compile  error // parse/analyze
	optimize error // error or panic of Job.Optimize
	build    error
	run      error
	hung     bool // did not return and every goroutine of the code under test is blocked
	slow     bool // did not return but something was still running (inconclusive)
	slowAt   string
	hungAt   string // innermost repo frames of the blocked goroutines (sorted, unique)
}

// c07RunningFrames names the innermost repo frame of each goroutine that is
// not parked (diagnostics for runs set aside as slow).
func c07RunningFrames() string {
	buf := make([]byte, 16<<20)
	n := runtime.Stack(buf, true)
	var out []string
	for _, g := range strings.Split(string(buf[:n]), "\n\n") {
		if !strings.Contains(g, "github.com/brimdata/super/") {
			continue
		}
		lines := strings.Split(g, "\n")
		if strings.Contains(lines[0], "[running") || strings.Contains(lines[0], "[runnable") {
			for _, l := range lines[1:] {
				if strings.HasPrefix(l, "github.com/brimdata/super") {
					if i := strings.LastIndex(l, "("); i > 0 {
						l = l[:i]
					}
					out = append(out, strings.TrimPrefix(l, "github.com/brimdata/super/"))
					break
				}
			}
		}
	}
	return strings.Join(out, ",")
}

// c07BlockedFrames names the innermost repo frame of every goroutine of the
// code under test (all are parked when this is called).
func c07BlockedFrames() string {
	buf := make([]byte, 16<<20)
	n := runtime.Stack(buf, true)
	set := map[string]bool{}
	for _, g := range strings.Split(string(buf[:n]), "\n\n") {
		if !strings.Contains(g, "github.com/brimdata/super/") {
			continue
		}
		for _, l := range strings.Split(g, "\n")[1:] {
			if strings.HasPrefix(l, "github.com/brimdata/super/") {
				if i := strings.LastIndex(l, "("); i > 0 {
					l = l[:i]
				}
				set[strings.TrimPrefix(l, "github.com/brimdata/super/")] = true
				break
			}
		}
	}
	var out []string
	for f := range set {
		out = append(out, f)
	}
	sort.Strings(out)
	return strings.Join(out, ",")
}

func (a *c07Arm) err() error {
	switch {
	case a.compile != nil:
		return a.compile
	case a.optimize != nil:
		return a.optimize
	case a.build != nil:
		return a.build
	}
	return a.run
}

type c07Declared struct {
	Field string `json:"field"`
	Desc  bool   `json:"desc,omitempty"`
}

type c07Exec struct {
	zctx  *zed.Context
	seq   ast.Seq // parsed once (NewJob copies it); parsing dominates under -race
	perr  error
	text  string
	vals  []zed.Value
	decl  *c07Declared
	limit time.Duration
	lake  *lk.Lake // pool-scan input: vals are already loaded; the program starts with `from`
}

var c07NumRE = regexp.MustCompile(`0x[0-9a-fA-F]+|\d+`)

// c07WalkOps calls fn for every operator of seq, including those nested in
// fork/scatter/switch/over/scope/mirror bodies.
func c07WalkOps(seq dag.Seq, fn func(dag.Op)) {
	for _, op := range seq {
		fn(op)
		switch op := op.(type) {
		case *dag.Fork:
			for _, p := range op.Paths {
				c07WalkOps(p, fn)
			}
		case *dag.Scatter:
			for _, p := range op.Paths {
				c07WalkOps(p, fn)
			}
		case *dag.Switch:
			for _, cs := range op.Cases {
				c07WalkOps(cs.Path, fn)
			}
		case *dag.Over:
			c07WalkOps(op.Body, fn)
		case *dag.Scope:
			c07WalkOps(op.Body, fn)
		case *dag.Mirror:
			c07WalkOps(op.Main, fn)
			c07WalkOps(op.Mirror, fn)
		}
	}
}

// c07Blocked samples the goroutines: it returns ok=true when every goroutine
// with a frame of the code under test is parked on a channel operation, a
// select or a WaitGroup/Cond wait, together with a fingerprint of those
// goroutines (ids and states).
func c07Blocked() (bool, string) {
	buf := make([]byte, 16<<20)
	n := runtime.Stack(buf, true)
	var fp strings.Builder
	worker := false
	for _, g := range strings.Split(string(buf[:n]), "\n\n") {
		if !strings.Contains(g, "github.com/brimdata/super/") {
			continue
		}
		if strings.Contains(g, "(*c07Exec).run.func") && strings.Contains(g, "prog.Drain") {
			worker = true // the arm's own goroutine, inside Pull
		}
		head := g
		if i := strings.Index(g, "\n"); i > 0 {
			head = g[:i]
		}
		parked := false
		for _, st := range []string{"[chan receive", "[chan send", "[select", "[sync.WaitGroup.Wait", "[sync.Cond.Wait"} {
			if strings.Contains(head, st) {
				parked = true
			}
		}
		if !parked {
			return false, ""
		}
		if i := strings.Index(head, ","); i > 0 {
			head = head[:i] // drop the "N minutes" part
		}
		fp.WriteString(head)
		fp.WriteString(";")
	}
	if !worker {
		return false, ""
	}
	return true, fp.String()
}

// c07Deadlocked: parked twice, 300 ms apart, with the same goroutines in the
// same states: nothing of the code under test can make progress any more.
func c07Deadlocked() bool {
	ok1, fp1 := c07Blocked()
	if !ok1 {
		return false
	}
	time.Sleep(300 * time.Millisecond)
	ok2, fp2 := c07Blocked()
	return ok2 && fp1 == fp2
}

// run executes the program.  pre, if set, edits the analyzed DAG before
// optimization (in both arms); post edits the optimized DAG before it is
// built.  A declared sort key is set on the DefaultScan in both arms; only the
// optimizer reads it.
func (x *c07Exec) run(optimize bool, pre, post func(dag.Seq)) *c07Arm {
	arm := &c07Arm{}
	res := &c07Arm{}
	// The run is stopped through a parent context rather than through
	// runtime.Context.Cancel: Cancel also waits on the context's WaitGroup,
	// and that Wait races (race detector) with operators that are still
	// starting, e.g. the sort on the far side of a join that has already
	// returned its end of stream.
	ctx, cancel := context.WithCancel(context.Background())
	rctx := zrt.NewContext(ctx, x.zctx)
	done := make(chan any, 1)
	type planned struct {
		dag   string
		entry dag.Seq
	}
	plan := make(chan planned, 1)
	go func() {
		defer func() { done <- recover() }()
		if x.seq == nil && x.perr == nil {
			x.seq, _, x.perr = compiler.Parse(x.text)
		}
		if x.perr != nil {
			res.compile = x.perr
			return
		}
		src := data.NewSource(nil, nil)
		if x.lake != nil {
			src = data.NewSource(x.lake.Eng, x.lake.Root)
		}
		job, err := compiler.NewJob(rctx, x.seq, src, nil)
		if err != nil {
			res.compile = err
			return
		}
		if x.decl != nil && x.lake == nil {
			if scan, ok := job.DefaultScan(); ok {
				which := order.Asc
				if x.decl.Desc {
					which = order.Desc
				}
				scan.SortKeys = order.SortKeys{order.NewSortKey(which, field.Path{x.decl.Field})}
			}
		}
		if pre != nil {
			pre(job.Entry())
		}
		if optimize {
			func() {
				defer func() {
					if r := recover(); r != nil {
						res.optimize = fmt.Errorf("panic: %v", r)
					}
				}()
				if err := job.Optimize(); err != nil {
					res.optimize = err
				}
			}()
			if res.optimize != nil {
				return
			}
			if post != nil {
				post(job.Entry())
			}
		}
		res.entry = job.Entry()
		if b, err := json.Marshal(job.Entry()); err == nil {
			res.dag = string(b)
		}
		plan <- planned{res.dag, res.entry}
		if x.lake != nil {
			err = job.Build()
		} else {
			err = job.Build(zbuf.NewArray(append([]zed.Value(nil), x.vals...)))
		}
		if err != nil {
			res.build = err
			return
		}
		p := job.Puller()
		if p == nil {
			return
		}
		res.out, res.run = prog.Drain(p)
	}()
	limit := x.limit
	if limit == 0 {
		limit = 2 * time.Second
	}
	var pan any
	select {
	case pan = <-done:
		*arm = *res
	case <-time.After(limit):
		// Deadlock or slowness?  Decided by the state of the goroutines,
		// never by the time that has passed; a run that can still make
		// progress gets more time.
		for i := 0; i < 120 && !c07Deadlocked(); i++ {
			select {
			case pan = <-done:
				*arm = *res
				goto finished
			case <-time.After(time.Second):
			}
		}
		if c07Deadlocked() {
			arm.hung = true
			arm.hungAt = c07BlockedFrames()
		} else {
			arm.slow = true
			arm.slowAt = c07RunningFrames()
		}
		select {
		case pl := <-plan:
			arm.dag, arm.entry = pl.dag, pl.entry
		default:
		}
		cancel()
		select {
		case <-done:
		case <-time.After(2 * time.Second):
		}
		return arm
	}
finished:
	cancel()
	if pan != nil {
		panic(fmt.Sprintf("%v", pan))
	}
	return arm
}

// c07Rewrites names the rewrites visible in the difference of the two DAGs.
func c07Rewrites(a, b string) []string {
	var out []string
	cnt := func(s, sub string) int { return strings.Count(s, sub) }
	if cnt(b, `"kind":"Filter"`) < cnt(a, `"kind":"Filter"`) {
		out = append(out, "filters_merged_or_pushed")
	}
	if strings.Contains(b, `"kind":"DefaultScan","filter":{`) {
		out = append(out, "filter_pushed_into_scan")
	}
	if cnt(b, `"kind":"Pass"`) < cnt(a, `"kind":"Pass"`) {
		out = append(out, "pass_removed")
	}
	if cnt(b, `"partials_in":true`) > 0 {
		out = append(out, "summarize_split_into_partials")
	}
	if cnt(b, `"input_sort_dir"`) > 0 {
		out = append(out, "summarize_streaming_on_sorted_input")
	}
	if cnt(b, `"kind":"Merge"`) > cnt(a, `"kind":"Merge"`) {
		out = append(out, "sort_lifted_into_legs_with_merge")
	}
	if cnt(b, `"kind":"Head"`) > cnt(a, `"kind":"Head"`) || cnt(b, `"kind":"Tail"`) > cnt(a, `"kind":"Tail"`) {
		out = append(out, "head_tail_copied_into_legs")
	}
	if cnt(b, `"left_dir":"asc"`)+cnt(b, `"left_dir":"desc"`)+cnt(b, `"right_dir":"asc"`)+cnt(b, `"right_dir":"desc"`) > 0 {
		out = append(out, "join_input_order_propagated")
	}
	if c07SeqScanFilterRE.MatchString(b) {
		out = append(out, "filter_pushed_into_pool_scan")
	}
	if strings.Contains(b, `"key_pruner":{`) {
		out = append(out, "pool_key_range_pruner")
	}
	if strings.Contains(b, `"kind":"SeqScan"`) && !strings.Contains(b, `"kind":"Slicer"`) {
		out = append(out, "pool_scan_without_slicer")
	}
	if len(out) == 0 {
		out = append(out, "other")
	}
	return out
}

var c07SeqScanFilterRE = regexp.MustCompile(`"kind":"SeqScan","pool":"[^"]*","commit":"[^"]*","fields":[^{]*"filter":\{`)

var c07SortFields = []string{prog.FG, prog.FS, prog.FTs, prog.FK, prog.FId}

func runC07(c *rt.Ctx) {
	c.Note("rule", "case = one program (generated with order-state, or from the ztest/valid.zed corpus) over one input, run as analyzed (NewJob→Build→Pull) and optimized (NewJob→Optimize→Build→Pull) with the same declared DefaultScan sort key; outputs compared in the program's compare mode (sequence / sorted-by-key+multiset / multiset, normal forms for collect/any/fuse) and on error-ness and termination; non-trivial = the serialized optimized DAG differs from the analyzed one (Output/demand annotations do not differ for stream inputs); distinct by case id")
	c.Note("granularity", "non-termination is decided by state, not by time: an arm that has not returned counts as hung only when no goroutine of the code under test is running or runnable (all blocked on channels); a still-running arm is given more time and then set aside as slow")
	c.Note("assumptions", strings.Join([]string{
		"inputs are records over the general field alphabet of internal/prog (heterogeneous shapes, nulls, missing and duplicate keys; floats exactly summable); no now()/random",
		"a sort key is declared only on inputs that really are sorted on it: ascending = `sort f` (nulls last), descending = exact reverse with no null/missing key (sort, group-by and join disagree about where nulls belong in a descending order)",
		"head/tail/uniq are generated only where the order is language-defined and tie-free; corpus programs that apply them elsewhere (or use top, or a key-guessing sort on an undefined order) are compared on error-ness only",
		"`with -limit` only on keys from one comparable class, so that the known C10 spill-grouping defect does not leak into this property",
		"not generated because they hang or crash both arms alike on the unchanged tree (reported separately): uniq downstream of fork/switch/join, the fuse operator inside a fork/switch leg or on an undefined order, fuse() aggregate downstream of a fork or with -limit, arithmetic on a null of union type after fuse",
		"a difference is attributed to a known defect only after re-running with exactly that defect's cause neutralised in the DAG (filters made total, join directions cleared, streaming flag cleared) makes the two arms agree",
		"lake family: the same general grammar behind `from p`, p a pool on the in-memory engine keyed on one of id/g/s/ts/k (asc or desc), filled by 1–4 loads with a small object threshold so that objects overlap in key range (sometimes compacted); as analyzed = raw PoolScan (kernel: sorted lister→slicer→scanner, no filter), optimized = lister(+range pruner)→(slicer)→scanner(+pushed filter); the generator's order-state for the source is OrdSorted on the pool key (ties undefined); a descending pool holds no null/missing key (same reason as for declared sort keys)",
	}, "\n"))
	// Small batches, so that streaming operators see many of them.  Set once
	// per process: operators of finished runs may still be reading it.
	zbuf.PullerBatchValues = 3
	ngen := c.N(1600, 20000)
	for i := 0; i < ngen; i++ {
		c.Case("gen", i, func(o *rt.Obs) { c07Gen(c, o) })
	}
	nlake := c.N(300, 5000)
	for i := 0; i < nlake; i++ {
		c.Case("lake", i, func(o *rt.Obs) { c07Lake(c, o) })
	}
	nmerge := c.N(200, 4000)
	for i := 0; i < nmerge; i++ {
		c.Case("merge", i, func(o *rt.Obs) { c07Merge(c, o) })
	}
	njoin := c.N(300, 6000)
	for i := 0; i < njoin; i++ {
		c.Case("join", i, func(o *rt.Obs) { c07Join(c, o) })
	}
	for i, n := 0, c.N(200, 4000); i < n; i++ {
		c.Case("clobber", i, func(o *rt.Obs) { c07Clobber(c, o) })
	}
	corpus, err := prog.LoadCorpus(prog.RepoDir())
	if err != nil || len(corpus) == 0 {
		c.Note("corpus_error", fmt.Sprint(err))
	}
	for i := range corpus {
		c.Case("corpus", i, func(o *rt.Obs) { c07Corpus(c, o, &corpus[i], false) })
	}
	ncg := c.N(300, 3000)
	for i := 0; i < ncg && len(corpus) > 0; i++ {
		c.Case("corpus-gen", i, func(o *rt.Obs) { c07Corpus(c, o, &corpus[i%len(corpus)], true) })
	}
	for i := range c07Directed {
		c.Case("directed", i, func(o *rt.Obs) { c07DirectedCase(c, o, i) })
	}
}

// c07Lake: the general grammar over a pool scan.
func c07Lake(c *rt.Ctx, o *rt.Obs) {
	r := o.R
	zctx := zed.NewContext()
	ctx := context.Background()
	key := rt.Pick(r, c07SortFields)
	desc := r.Chance(1, 3)
	ord := "asc"
	if desc {
		ord = "desc"
	}
	spec := lk.PoolSpec{Name: "p", Key: key, Order: ord, Thresh: rt.Pick(r, []int64{1, 60, 150, 400, 0}), Stride: rt.Pick(r, []int{1, 16, 0})}
	_, l, m, err := newMemLake(ctx, false, spec)
	if err != nil {
		o.Violation("lake-setup", err.Error())
		return
	}
	in := prog.InputOpts{SortedBy: key, Desc: desc}
	if r.Chance(1, 4) {
		in.DistinctG, in.DistinctS = 3, 3
	}
	nrows := r.Range(0, 40)
	if !c.Quick() && r.Chance(1, 10) {
		nrows = r.Range(40, 250)
	}
	vals := prog.GenInput(r, zctx, nrows, in)
	shuffled := make([]zed.Value, len(vals))
	for i, j := range r.Perm(len(vals)) {
		shuffled[i] = vals[j]
	}
	vals = shuffled
	nloads := r.Range(1, 4)
	loads := 0
	for i := 0; i < nloads; i++ {
		lo, hi := i*len(vals)/nloads, (i+1)*len(vals)/nloads
		if lo == hi {
			continue
		}
		if _, err := l.Load(ctx, zctx, m.PoolID, "main", vals[lo:hi]); err != nil {
			o.Violation("lake-setup", "load: "+err.Error())
			return
		}
		loads++
	}
	objs, _ := l.Objects(ctx, "p", "main")
	o.Count("pool_objects", int64(len(objs)))
	c.Max("max_pool_objects", int64(len(objs)))
	opts := prog.Opts{InputOrder: prog.OrdSorted, InputKeys: []prog.SortKey{{Path: []string{key}, Desc: desc}}, Sorted: key, SortedDesc: desc, From: "from p"}
	if r.Chance(1, 3) {
		// an explicit sort on the pool key, in the pool's direction or against it
		// (the optimizer drops a sort that the source already provides)
		sdesc := r.Chance(1, 2)
		if key == prog.FK && !desc {
			sdesc = false // an ascending k pool may hold nulls; see the note on descending orders
		}
		opts.InputKeys = []prog.SortKey{{Path: []string{key}, Desc: sdesc}}
		opts.SortedDesc = sdesc
		opts.From = "from p | sort " + key
		if sdesc {
			opts.From += " desc"
		}
		o.Count("lake_explicit_sort_on_pool_key", 1)
	}
	p := prog.Gen(r, opts)
	if strings.Contains(p.Text, "with -limit") || strings.Contains(p.Text, "join") && !r.Chance(1, 5) {
		// see c07Gen: the same two known defects are reachable through the
		// pool's sort key
		opts.Sorted, opts.NoJoin = "", true
		for strings.Contains(p.Text, "with -limit") || strings.Contains(p.Text, "join") {
			p = prog.Gen(r, opts)
		}
	}
	o.Desc(map[string]any{"program": p, "pool": spec, "rows": len(vals), "loads": loads, "objects": len(objs), "input": prog.FormatValues(vals, 60)})
	x := &c07Exec{zctx: zctx, text: p.Text, vals: vals, lake: l}
	c07CheckExec(c, o, x, p)
}

// c07Merge: an explicit `merge <key>` over fork or switch legs that are sorted on
// the key, sorted on something else, or not sorted at all, followed by consumers
// of a sort order (group-by on the key, head/tail-free so that only multisets
// are compared).  What the optimizer believes about the merge's output order
// (and what it lifts into the legs) is exercised far more often than by the
// general grammar.
func c07Merge(c *rt.Ctx, o *rt.Obs) {
	r := o.R
	zctx := zed.NewContext()
	key := rt.Pick(r, []string{"g", "v", "id", "s"})
	dir := rt.Pick(r, []string{"", "", " desc"})
	leg := func() string {
		var parts []string
		if r.Chance(2, 3) {
			parts = append(parts, rt.Pick(r, []string{"where id % 2 == 0", "where id % 2 == 1", "where v > 2", "where id % 3 != 1", "where g >= 0", "where g < 0"}))
		}
		switch r.Intn(4) {
		case 0:
			parts = append(parts, "sort "+key+dir)
		case 1:
			parts = append(parts, "sort id")
		}
		if len(parts) == 0 {
			return "pass"
		}
		return strings.Join(parts, " | ")
	}
	var head string
	if r.Chance(1, 2) {
		head = fmt.Sprintf("fork (=> %s => %s)", leg(), leg())
	} else {
		head = fmt.Sprintf("switch (case id %% 2 == 0 => %s case true => %s)", leg(), leg())
	}
	mid := rt.Pick(r, []string{"", "", " | put w:=id+1", " | cut id,g,v,s", " | where v >= 0 or v < 0", " | head 1000"})
	tail := rt.Pick(r, []string{
		"count() by " + key,
		"sum(id) by " + key,
		"count() by " + key + " | sort " + key,
		"count() by " + key + ",id",
		"collect(id) by " + key,
		"yield " + key,
	})
	text := fmt.Sprintf("where %s != null | %s | merge %s%s%s | %s", key, head, key, dir, mid, tail)
	p := &prog.Program{Text: text, Mode: prog.ModeMultiset, ModeName: "multiset"}
	if strings.HasPrefix(tail, "collect") {
		p.Norm = map[string]prog.Norm{"collect": prog.NormMultiset}
	}
	in := prog.InputOpts{}
	if r.Chance(1, 2) {
		in.DistinctG, in.DistinctS = 3, 3
	}
	vals := prog.GenInput(r, zctx, r.Range(4, 40), in)
	c07Check(c, o, zctx, p, vals, nil, zbuf.PullerBatchValues, "")
}

// c07Join is a family of its own: joins fed from a fork whose legs have every
// combination of known sort state, in every join style, so that the
// optimizer's propagation of sort directions into the join (and the kernel's
// use of them) is exercised far more often than the general grammar does.
func c07Join(c *rt.Ctx, o *rt.Obs) {
	r := o.R
	zctx := zed.NewContext()
	key := rt.Pick(r, []string{"g", "v", "id"})
	leg := func() string {
		var parts []string
		if r.Chance(1, 2) {
			parts = append(parts, rt.Pick(r, []string{"where id % 2 == 0", "where v > 2", "where id % 3 != 1", "where g >= -1"}))
		}
		switch r.Intn(4) {
		case 0:
			parts = append(parts, "sort "+key)
		case 1:
			parts = append(parts, "sort "+key+" desc")
		case 2:
			parts = append(parts, "sort id")
		}
		if len(parts) == 0 {
			return "pass"
		}
		return strings.Join(parts, " | ")
	}
	style := rt.Pick(r, []string{"", "inner ", "left ", "right ", "right ", "anti "})
	args := " jv:=id"
	if style == "anti " {
		args = ""
	}
	text := fmt.Sprintf("where %s != null | fork (=> %s => %s) | %sjoin on %s=%s%s", key, leg(), leg(), style, key, key, args)
	p := &prog.Program{Text: text, Mode: prog.ModeMultiset, ModeName: "multiset"}
	in := prog.InputOpts{}
	if r.Chance(1, 3) {
		in.DistinctG = 3
	}
	vals := prog.GenInput(r, zctx, r.Range(2, 30), in)
	c07Check(c, o, zctx, p, vals, nil, zbuf.PullerBatchValues, "")
}

// c07Clobber: the input is declared (and really is) sorted on a field, an
// operator then re-assigns that field to something that is not sorted (a
// computed expression, another field, a renamed field), and a group-by on the
// field follows.  The optimizer must forget the order at the re-assignment;
// if it does not, the group-by streams on an unsorted key and emits a group
// more than once (batches hold 3 values).
func c07Clobber(c *rt.Ctx, o *rt.Obs) {
	r := o.R
	zctx := zed.NewContext()
	key := rt.Pick(r, []string{prog.FG, prog.FId, prog.FS, prog.FK})
	decl := &c07Declared{Field: key, Desc: r.Chance(1, 4)}
	other := rt.Pick(r, []string{"id % 3", "(id * 7) % 5", "-id", "id % 2 == 0", "len(s)", "g", "string(id % 4)", "id - 2 * (id % 4)", "v", "coalesce(v, 0) % 3"})
	if key == prog.FG && other == "g" {
		other = "id % 3"
	}
	var clobber string
	switch r.Intn(6) {
	case 0:
		clobber = fmt.Sprintf("cut %s:=%s, id", key, other)
	case 1:
		clobber = fmt.Sprintf("cut id, %s:=%s", key, other)
	case 2:
		clobber = fmt.Sprintf("put %s:=%s", key, other)
	case 3:
		clobber = fmt.Sprintf("put w:=1, %s:=%s", key, other)
	case 4:
		clobber = fmt.Sprintf("yield {%s:%s, id:id}", key, other)
	default:
		clobber = fmt.Sprintf("drop %s | put %s:=%s", key, key, other)
	}
	pre := rt.Pick(r, []string{"", "", "where id >= 0 | ", "put w:=id | ", "where " + key + " != null | "})
	mid := rt.Pick(r, []string{"", "", " | where id >= 0", " | put u:=1", " | cut id, " + key, " | pass"})
	tail := rt.Pick(r, []string{
		"count() by " + key,
		"sum(id) by " + key,
		"count() by " + key + " | sort " + key,
		"collect(id) by " + key,
		"count() by " + key + ", odd:=id % 2",
		"min(id), max(id) by " + key,
	})
	text := pre + clobber + mid + " | " + tail
	p := &prog.Program{Text: text, Mode: prog.ModeMultiset, ModeName: "multiset"}
	if strings.HasPrefix(tail, "collect") {
		p.Norm = map[string]prog.Norm{"collect": prog.NormMultiset}
	}
	in := prog.InputOpts{SortedBy: key, Desc: decl.Desc}
	if r.Chance(1, 2) {
		in.DistinctG, in.DistinctS = 3, 3
	}
	vals := prog.GenInput(r, zctx, r.Range(8, 40), in)
	c07Check(c, o, zctx, p, vals, decl, zbuf.PullerBatchValues, "")
}

func c07Gen(c *rt.Ctx, o *rt.Obs) {
	r := o.R
	zctx := zed.NewContext()
	var decl *c07Declared
	opts := prog.Opts{}
	in := prog.InputOpts{}
	if r.Chance(3, 5) {
		decl = &c07Declared{Field: rt.Pick(r, c07SortFields), Desc: r.Chance(1, 3)}
		opts.Sorted, opts.SortedDesc = decl.Field, decl.Desc
		in.SortedBy, in.Desc = decl.Field, decl.Desc
	}
	nrows := r.Range(0, 40)
	if !c.Quick() && r.Chance(1, 10) {
		nrows = r.Range(40, 250)
	}
	if r.Chance(1, 4) {
		in.DistinctG, in.DistinctS = 3, 3
	}
	vals := prog.GenInput(r, zctx, nrows, in)
	p := prog.Gen(r, opts)
	if decl != nil && strings.Contains(p.Text, "with -limit") {
		// a group-by on sorted input that also spills crashes the process
		// (C10 finding, covered there by a directed case in a child process)
		decl = nil
	}
	if decl != nil && strings.Contains(p.Text, "join") && !r.Chance(1, 5) {
		// a join over a forked stream whose key is the declared sort key
		// deadlocks when optimized (known finding; the directed case and a
		// fifth of the generated ones keep it covered)
		decl = nil
	}
	batch := zbuf.PullerBatchValues
	c07Check(c, o, zctx, p, vals, decl, batch, "")
}

// differ applies the oracle to two arms: "" = agree.
func c07Differ(p *prog.Program, zctx *zed.Context, a, b *c07Arm) string {
	switch {
	case a.slow || b.slow:
		return ""
	case a.hung && b.hung:
		return ""
	case b.hung:
		return fmt.Sprintf("the plan as analyzed returned %d values (err=%v); the optimized plan did not return and all its goroutines are blocked", len(a.out), a.err())
	case a.hung:
		return fmt.Sprintf("the optimized plan returned %d values (err=%v); the plan as analyzed did not return and all its goroutines are blocked", len(b.out), b.err())
	}
	ea, eb := a.err(), b.err()
	if (ea != nil) != (eb != nil) {
		return fmt.Sprintf("error-ness differs: as analyzed err=%v (%d values); optimized err=%v (%d values)", ea, len(a.out), eb, len(b.out))
	}
	if ea != nil {
		return ""
	}
	if d := prog.Compare(p, zctx, a.out, b.out); d != "" {
		return fmt.Sprintf("mode %s: %s\nas analyzed (%d): %v\noptimized   (%d): %v", p.ModeName, d, len(a.out), prog.FormatValues(a.out, 12), len(b.out), prog.FormatValues(b.out, 12))
	}
	return ""
}

// c07TotalFilters rewrites every filter expression E into
// `typeof(E)==<bool> and E`, which is false wherever E is an error or not a
// boolean and E otherwise.
func c07TotalFilters(seq dag.Seq) {
	c07WalkOps(seq, func(op dag.Op) {
		f, ok := op.(*dag.Filter)
		if !ok {
			return
		}
		if b, err := json.Marshal(f.Expr); err != nil || strings.Contains(string(b), `"kind":"Agg"`) {
			return
		}
		isBool := dag.NewBinaryExpr("==",
			&dag.Call{Kind: "Call", Name: "typeof", Args: []dag.Expr{f.Expr}},
			&dag.Literal{Kind: "Literal", Value: "<bool>"})
		f.Expr = dag.NewBinaryExpr("and", isBool, f.Expr)
	})
}

// c07LiftedSortFlags describes the sort that directly follows a fork in the
// analyzed DAG (the one the optimizer lifts into the legs).
func c07LiftedSortFlags(seq dag.Seq) string {
	var flags []string
	var walk func(seq dag.Seq)
	walk = func(seq dag.Seq) {
		for i, op := range seq {
			if sc, ok := op.(*dag.Scope); ok {
				walk(sc.Body)
			}
			if _, ok := op.(*dag.Fork); !ok || i+1 >= len(seq) {
				continue
			}
			s, ok := seq[i+1].(*dag.Sort)
			if !ok || len(s.Args) != 1 {
				continue
			}
			if s.Args[0].Order == order.Desc {
				flags = append(flags, "desc")
			}
			if s.Reverse {
				flags = append(flags, "reverse")
			}
			if s.NullsFirst {
				flags = append(flags, "nullsfirst")
			}
		}
	}
	walk(seq)
	return strings.Join(flags, "+")
}

// c07Check runs both arms and applies the oracle.
func c07Check(c *rt.Ctx, o *rt.Obs, zctx *zed.Context, p *prog.Program, vals []zed.Value, decl *c07Declared, batch int, name string, parsed ...ast.Seq) {
	desc := map[string]any{"program": p, "declared_sort": decl, "rows": len(vals), "puller_batch_values": batch, "input": prog.FormatValues(vals, 60)}
	if name != "" {
		desc["corpus"] = name
	}
	o.Desc(desc)
	x := &c07Exec{zctx: zctx, text: p.Text, vals: vals, decl: decl}
	if len(parsed) > 0 {
		x.seq = parsed[0]
	}
	c07CheckExec(c, o, x, p)
}

func c07CheckExec(c *rt.Ctx, o *rt.Obs, x *c07Exec, p *prog.Program) {
	zctx, vals, decl := x.zctx, x.vals, x.decl
	start := time.Now()
	a := x.run(false, nil, nil)
	if !a.hung && !a.slow {
		// at least 300× the time the plan as analyzed took
		if d := 300 * time.Since(start); d > 2*time.Second && d < time.Minute {
			x.limit = d
		}
	}
	b := x.run(true, nil, nil)
	if a.compile != nil {
		o.Count("programs_not_compiling", 1)
		if b.compile == nil {
			o.Violation("compile-error-only-unoptimized", fmt.Sprintf("as analyzed: %v; optimized compiles", a.compile))
		}
		return
	}
	if o.Index%400 == 0 && o.Kind == "gen" {
		o.Sample(map[string]any{"program": p.Text, "mode": p.ModeName, "declared_sort": decl, "rows": len(vals)})
	}
	o.Count("mode_"+p.ModeName, 1)
	var rewrites []string
	if a.dag != b.dag && a.dag != "" && b.dag != "" {
		rewrites = c07Rewrites(a.dag, b.dag)
		// a pool scan is always rewritten into lister→slicer→scanner: that alone
		// does not count
		if x.lake == nil || strings.Join(rewrites, "") != "other" {
			o.Nontrivial(fmt.Sprint(o.Kind, "/", o.Index))
		}
		for _, rw := range rewrites {
			o.Count("rewrite_"+rw, 1)
		}
	}
	if a.slow || b.slow {
		o.Count("set_aside_slow", 1)
		o.Count("slow_at_"+a.slowAt+b.slowAt, 1)
		return
	}
	if a.hung && b.hung {
		o.Count("both_arms_do_not_terminate", 1)
		return
	}
	if a.err() != nil && b.err() != nil {
		o.Count("both_arms_error", 1)
	}
	o.Count("values_compared", int64(len(a.out)))
	d := c07Differ(p, zctx, a, b)
	if d == "" {
		return
	}
	detail := fmt.Sprintf("%s\nanalyzed DAG:  %s\noptimized DAG: %s", d, a.dag, b.dag)
	if b.optimize != nil && strings.HasPrefix(b.optimize.Error(), "panic:") {
		msg := c07NumRE.ReplaceAllString(b.optimize.Error(), "N")
		o.Violation("optimize-panics:"+strings.TrimPrefix(msg, "panic: "), detail)
		return
	}
	// Attribute the difference: neutralise one suspected cause at a time and
	// see whether the two arms then agree.
	o.Count("differences_attributed_by_rerun", 1)
	// (1) filters that evaluate to an error or a non-boolean
	if !b.hung && !a.hung {
		a2 := x.run(false, c07TotalFilters, nil)
		b2 := x.run(true, c07TotalFilters, nil)
		if a2.err() == nil && c07Differ(p, zctx, a2, b2) == "" {
			o.Violation("filter-rewrite-changes-emitted-error-values", "agree once every filter expression E is replaced by `typeof(E)==<bool> and E`\n"+detail)
			return
		}
	}
	// (2) join taken as already sorted on both sides
	if strings.Contains(strings.Join(rewrites, " "), "join_input_order_propagated") {
		b2 := x.run(true, nil, func(seq dag.Seq) {
			c07WalkOps(seq, func(op dag.Op) {
				if j, ok := op.(*dag.Join); ok {
					j.LeftDir, j.RightDir = order.Unknown, order.Unknown
				}
			})
		})
		if c07Differ(p, zctx, a, b2) == "" {
			kind := "output-differs"
			if b.hung {
				kind = "does-not-terminate"
			} else if strings.Contains(b.dag, `"left_dir":"desc"`) || strings.Contains(b.dag, `"right_dir":"desc"`) {
				kind = "desc:output-differs"
			}
			o.Violation("join-input-order-propagated:"+kind, "agree once the optimized Join's left_dir/right_dir are cleared (the join then sorts its inputs itself)\n"+detail)
			return
		}
	}
	// (3) streaming (sorted-input) group-by
	if strings.Contains(strings.Join(rewrites, " "), "summarize_streaming_on_sorted_input") {
		// afterFork: only the summarizes that consume the combined (unordered)
		// output of a fork/switch/scatter, directly or behind per-value operators
		clear := func(afterFork bool) func(dag.Seq) {
			var walk func(seq dag.Seq)
			walk = func(seq dag.Seq) {
				combined := false
				for _, op := range seq {
					switch op := op.(type) {
					case *dag.Fork, *dag.Scatter, *dag.Switch:
						combined = true
					case *dag.Merge, *dag.Sort:
						combined = false
					case *dag.Scope:
						walk(op.Body)
					case *dag.Summarize:
						if combined || !afterFork {
							op.InputSortDir = 0
						}
					}
				}
			}
			return func(seq dag.Seq) {
				if afterFork {
					walk(seq)
					return
				}
				c07WalkOps(seq, func(op dag.Op) {
					if s, ok := op.(*dag.Summarize); ok {
						s.InputSortDir = 0
					}
				})
			}
		}
		if b2 := x.run(true, nil, clear(true)); c07Differ(p, zctx, a, b2) == "" {
			o.Violation("streaming-group-by-after-unordered-combine", "agree once input_sort_dir is cleared on the Summarize that consumes the fork's combined output (an unordered combination of the legs)\n"+detail)
			return
		}
		if b2 := x.run(true, nil, clear(false)); c07Differ(p, zctx, a, b2) == "" {
			o.Violation("streaming-group-by-on-input-not-sorted-by-its-key", "agree once input_sort_dir is cleared on every Summarize\n"+detail)
			return
		}
	}
	// (4) a sort lifted into fork legs and replaced by a merge
	if strings.Contains(strings.Join(rewrites, " "), "sort_lifted_into_legs_with_merge") && !b.hung && a.err() == nil && b.err() == nil && prog.SameMultiset(p, a.out, b.out) {
		if flags := c07LiftedSortFlags(a.entry); flags != "" {
			o.Count("lifted_sort_flags_"+flags, 1)
			o.Violation("lifted-sort-merged-ignoring-direction-or-null-placement", "lifted sort has "+flags+"; "+"same multiset; the merge that replaces the lifted sort does not order like the sort\n"+detail)
			return
		}
	}
	if len(rewrites) == 0 {
		// The optimizer left the plan unchanged, so whatever differs between the
		// two runs is run-to-run nondeterminism of the runtime (e.g. `… | head 1 |
		// sort | uniq -c` after `over` sometimes never terminates): not a statement
		// about the optimizer.  Counted, not alarmed.
		o.Count("identical_plans_diverged", 1)
		return
	}
	// A fork whose legs are combined again by an operator that has to take from
	// them in a data-dependent order (explicit merge, join): the router hands each
	// batch to the legs in turn and blocks on a leg that is not being read while
	// the combiner waits for the other leg.  One root cause, independent of what
	// the optimizer did (it only changes how much flows through the legs).
	if hung := a.hungAt + b.hungAt; (a.hung != b.hung) && strings.Contains(hung, "runtime/sam/op.(*Router)") && strings.Contains(hung, "runtime/sam/op/merge.") {
		which := "plan-as-analyzed"
		if b.hung {
			which = "optimized-plan"
		}
		o.Violation("fork-legs-recombined-by-merge-deadlock:"+which, fmt.Sprintf("blocked goroutines at: %s\n%s", hung, detail))
		return
	}
	kind := "output-differs"
	switch {
	case b.hung:
		kind = "optimized-does-not-terminate"
	case a.hung:
		kind = "unoptimized-does-not-terminate"
	case (a.err() != nil) != (b.err() != nil):
		kind = "error-ness-differs"
	case prog.SameMultiset(p, a.out, b.out):
		kind = "order-differs"
	}
	o.Violation(kind+":"+strings.Join(rewrites, "+"), detail)
}

func c07Corpus(c *rt.Ctx, o *rt.Obs, e *prog.CorpusEntry, generated bool) {
	r := o.R
	zctx := zed.NewContext()
	var vals []zed.Value
	if generated || e.Input == "" {
		vals = prog.GenInput(r, zctx, r.Range(0, 30), prog.InputOpts{})
	} else {
		var err error
		vals, err = e.ReadInput(zctx)
		if err != nil {
			o.Desc(map[string]any{"corpus": e.Name, "input_error": err.Error()})
			o.Count("corpus_inputs_unreadable", 1)
			return
		}
	}
	// The compare mode comes from the analyzed DAG.
	p := &prog.Program{Text: e.Text, Mode: prog.ModeAmbiguous, ModeName: "ambiguous"}
	seq, _, err := compiler.Parse(e.Text)
	if err == nil {
		rctx := zrt.NewContext(context.Background(), zctx)
		if job, err := compiler.NewJob(rctx, seq, data.NewSource(nil, nil), nil); err == nil {
			m := prog.ModeOfDAG(job.Entry(), prog.OrdSeq)
			m.Text = e.Text
			p = m
		}
		rctx.Cancel()
	}
	p.Name = e.Name
	if err == nil {
		c07Check(c, o, zctx, p, vals, nil, zbuf.PullerBatchValues, e.Name, seq)
	} else {
		c07Check(c, o, zctx, p, vals, nil, zbuf.PullerBatchValues, e.Name)
	}
}

// Directed cases: reproducers of genuine defects (they stay as regression
// cases once fixed).
var c07Directed = []struct {
	name, text, input string
	decl              *c07Declared
	batch             int
	mode              prog.Mode
	keys              []prog.SortKey
}{
	{name: "where-nonbool-then-filter", text: `head 5 | where s | where id > 0`, input: `{id:1,s:"a"}{id:2,s:"b"}`, mode: prog.ModeSequence},
	{name: "where-error-pushed-into-scan", text: `where 10/(id-1) > 2`, input: `{id:1}{id:2}{id:3}`, mode: prog.ModeSequence},
	{name: "join-on-declared-sort-key-over-forked-stream", text: `fork (=> pass => where v > 1) | inner join on k=k w:=v`, input: `{k:0,v:0}{k:0,v:1}{k:1,v:2}{k:1,v:3}{k:2,v:4}{k:2,v:5}{k:3,v:6}{k:3,v:7}{k:4,v:8}{k:4,v:9}{k:5,v:10}{k:5,v:11}{k:6,v:12}{k:6,v:13}{k:7,v:14}{k:7,v:15}{k:8,v:16}{k:8,v:17}{k:9,v:18}{k:9,v:19}{k:10,v:20}{k:10,v:21}{k:11,v:22}{k:11,v:23}{k:12,v:24}{k:12,v:25}{k:13,v:26}{k:13,v:27}{k:14,v:28}{k:14,v:29}{k:15,v:30}{k:15,v:31}{k:16,v:32}{k:16,v:33}{k:17,v:34}{k:17,v:35}{k:18,v:36}{k:18,v:37}{k:19,v:38}{k:19,v:39}`, decl: &c07Declared{Field: "k"}, mode: prog.ModeMultiset},
	{name: "two-lifted-operators-in-one-sequence", text: `fork (=> pass => pass) | put x:=1 | fork (=> pass => pass) | put y:=2`, input: `{a:1}{a:2}`, mode: prog.ModeMultiset},
	{name: "streaming-group-by-after-fork", text: `fork (=> pass => tail 100) | count() by k`, input: `{k:1,v:1}{k:1,v:2}{k:2,v:3}{k:2,v:4}{k:3,v:5}{k:3,v:6}`, decl: &c07Declared{Field: "k"}, batch: 1, mode: prog.ModeMultiset},
	{name: "join-leg-sorted-desc-null-keys", text: `fork (=> where id < 3 => where id >= 3 | sort v desc) | inner join on v=v w:=id`, input: `{id:1,v:1}{id:2,v:null(int64)}{id:3,v:5}{id:4,v:null(int64)}`, mode: prog.ModeMultiset},
	{name: "lifted-sort-desc", text: `fork (=> where v<3 => where v>=3) | sort k desc`, input: `{k:1,v:1}{k:2,v:2}{k:null(int64),v:3}{k:3,v:4}`, mode: prog.ModeSorted, keys: []prog.SortKey{{Path: []string{"k"}, Desc: true}}},
	{name: "lifted-sort-reverse", text: `fork (=> where v<3 => where v>=3) | sort -r k`, input: `{k:1,v:1}{k:2,v:2}{k:null(int64),v:3}{k:3,v:4}`, mode: prog.ModeSorted, keys: []prog.SortKey{{Path: []string{"k"}, Desc: true}}},
	{name: "lifted-sort-nulls-first", text: `fork (=> where v<3 => where v>=3) | sort -nulls first k`, input: `{k:1,v:1}{k:2,v:2}{k:null(int64),v:3}{k:3,v:4}`, mode: prog.ModeSorted, keys: []prog.SortKey{{Path: []string{"k"}}}},
	{name: "over-scope-head-done-after-input-ends", text: `n >= 2.5 | over a => (sum(this)) | where this >= 1 | head 1`, input: c07InOverHead, decl: &c07Declared{Field: "ts"}, mode: prog.ModeSequence},
	{name: "fork-leg-head-done-while-other-leg-has-eos", text: `ts > 1970-01-01T05:00:00Z | fork (=> pass => tail 8 | head 6) | search x | over a | where this == 0 | pass`, input: c07InForkHead, decl: &c07Declared{Field: "s", Desc: true}, mode: prog.ModeMultiset},
	{name: "fork-leg-over-head-done-while-other-leg-has-eos", text: `fork (=> pass => over a with id => (yield {id,e:this}) | head 8) | m1:=sum(id), m2:=count() where has(id) and id >= 4 | sort m1 desc, m2 | sort -nulls first m2`, input: c07InForkOverHead, decl: &c07Declared{Field: "g"}, mode: prog.ModeSequence},
	{name: "streaming-group-by-sorted-key-is-not-the-first-key", text: `m1:=count() by v,g`, input: `{g:0,v:0}{g:0,v:0}{g:0,v:0}{g:0,v:1}{g:0,v:1}{g:0,v:1}{g:0,v:0}{g:0,v:0}{g:0,v:0}{g:1,v:0}`, decl: &c07Declared{Field: "g"}, mode: prog.ModeMultiset},
	{name: "fork-legs-recombined-by-an-explicit-merge", text: `where v != null | fork (=> where g < 0 | sort v => pass) | merge v | count() by v,id`, input: c07InForkMerge, mode: prog.ModeMultiset},
}

func c07DirectedCase(c *rt.Ctx, o *rt.Obs, i int) {
	d := c07Directed[i]
	zctx := zed.NewContext()
	e := prog.CorpusEntry{Name: d.name, Text: d.text, Input: d.input}
	vals, err := e.ReadInput(zctx)
	if err != nil {
		o.Violation("directed-input-unreadable", err.Error())
		return
	}
	p := &prog.Program{Text: d.text, Mode: d.mode, ModeName: d.mode.String(), SortKeys: d.keys, Name: d.name}
	c07Check(c, o, zctx, p, vals, d.decl, zbuf.PullerBatchValues, d.name)
}

package main

import (
	"context"
	"fmt"
	"github.com/brimdata/super/zcode"
	"runtime"
	"sort"
	"strings"
	"sync"

	zed "github.com/brimdata/super"
	"github.com/brimdata/super/pkg/verifhook"

	"verif/internal/gen"
	"verif/internal/lk"
	"verif/internal/rt"
)

func init() { register("C08", runC08) }

// c08Prog is a lake program with the comparison mode its language-defined
// order allows.
type c08Prog struct {
	Text string `json:"program"`
	// Mode: "sequence" (order fully defined), "keyorder" (pool-key order, ties
	// free: non-decreasing on the key + multiset), "multiset", "agg" (multiset
	// after normalising order-dependent aggregate results).
	Mode string `json:"mode"`
}

// c08Gen generates a program over pool p whose values are {k:<key>,id:<unique>,v:<small int>,s:<string>}.
func c08Gen(r *rt.Rand, uniqueKeys bool) c08Prog {
	filters := []string{"", "", " | where k > 3", " | where id % 3 == 0", " | where k <= 5 and v > 1", " | where s == \"a\" or k == 2", " | where not (k < 4)", " | where v in [1,3]"}
	f := rt.Pick(r, filters)
	switch r.Intn(16) {
	case 0:
		return c08Prog{"from p" + f, "keyorder"}
	case 1:
		return c08Prog{"from p" + f + " | cut id,k", "keyorder"}
	case 2:
		return c08Prog{"from p" + f + " | put w:=v+1 | drop s", "keyorder"}
	case 3:
		return c08Prog{"from p" + f + " | sort id", "sequence"}
	case 4:
		return c08Prog{fmt.Sprintf("from p%s | sort -r id | head %d", f, r.Range(1, 9)), "sequence"}
	case 5:
		return c08Prog{fmt.Sprintf("from p%s | sort id | tail %d", f, r.Range(1, 9)), "sequence"}
	case 6:
		if uniqueKeys {
			return c08Prog{fmt.Sprintf("from p%s | head %d", f, r.Range(1, 12)), "sequence"}
		}
		return c08Prog{fmt.Sprintf("from p%s | sort k, id | head %d", f, r.Range(1, 12)), "sequence"}
	case 7:
		if uniqueKeys {
			return c08Prog{fmt.Sprintf("from p%s | tail %d", f, r.Range(1, 12)), "sequence"}
		}
		return c08Prog{"from p" + f + " | count()", "multiset"}
	case 8:
		return c08Prog{"from p" + f + " | count() by k", "multiset"}
	case 9:
		return c08Prog{"from p" + f + " | sum(v), count(), min(id), max(id) by k", "multiset"}
	case 10:
		return c08Prog{"from p" + f + " | summarize c:=count(), t:=sum(id) by s | sort s", "sequence"}
	case 11:
		return c08Prog{"from p" + f + " | collect(id) by k", "agg"}
	case 12:
		return c08Prog{"from p" + f + " | union(v) by s", "agg"}
	case 13:
		return c08Prog{"from p" + f + " | avg(v), and(v>0), or(v>2)", "multiset"}
	case 14:
		return c08Prog{"from p" + f + " | count() by k | sort -r count, k | head 3", "sequence-if-total"}
	default:
		return c08Prog{"from p" + f + " | sum(v) by every:=k>4 | sort every", "sequence"}
	}
}

// partitionLegs records which scanner object (leg) received how many partitions.
type c08Legs struct {
	mu   sync.Mutex
	legs map[any]int
}

var c08legs = &c08Legs{legs: map[any]int{}}

func (l *c08Legs) reset() {
	l.mu.Lock()
	l.legs = map[any]int{}
	l.mu.Unlock()
}

func (l *c08Legs) snapshot() (legs, parts int) {
	l.mu.Lock()
	defer l.mu.Unlock()
	for _, n := range l.legs {
		legs++
		parts += n
	}
	return
}

func runC08(c *rt.Ctx) {
	c.Note("rule", "case = one generated pool (key k asc/desc, 1–40 small objects — one pool in five: hundreds of values in objects of 30–100 values — from several loads with overlapping, nested, disjoint and identical key ranges, optional null/missing/mixed-type keys) and 6 generated programs (scan, filters, cut/put/drop, sort, head/tail at tie-free boundaries, count/sum/min/max/avg/and/or/collect/union by key, every-style grouping) each run at parallelism 1 (reference) and at 2,3,8,16 under GOMAXPROCS 1,2,16 with repetitions; results compared in the program's mode: exact sequence where the language defines a total order, pool-key order + multiset for ordered scans, multiset (with collect/union normalised) otherwise; evaluations = (program, parallelism, GOMAXPROCS) runs; non-trivial = run in which ≥2 scan legs each received ≥1 partition (counted through the verif hook in the sequence scanner)")
	c.Note("granularity", "scan-worker interleavings are whatever the Go scheduler produces under GOMAXPROCS 1/2/16 with repetitions; the race detector is on")
	c.Note("assumptions", "head/tail are only generated after a sort on unique ids or on pools whose keys are unique; float aggregates use small integers so that re-association cannot change a bit")
	verifhook.SetAtObj(func(point string, obj any, n int) {
		if point == "meta.sequence.partition" {
			c08legs.mu.Lock()
			c08legs.legs[obj]++
			c08legs.mu.Unlock()
		}
	})
	n := c.N(40, 320)
	for i := 0; i < n; i++ {
		c.Case("pool", i, func(o *rt.Obs) { c08Case(c, o) })
	}
}

func c08Case(c *rt.Ctx, o *rt.Obs) {
	ctx := context.Background()
	r := o.R
	spec := lk.PoolSpec{Name: "p", Key: "k", Order: rt.Pick(r, []string{"asc", "desc"}),
		Thresh: rt.Pick(r, []int64{1, 30, 80, 300}), Stride: rt.Pick(r, []int{1, 50, 0})}
	uniqueKeys := r.Chance(1, 3)
	oddKeys := !uniqueKeys && r.Chance(1, 3)
	// one pool in five is big: hundreds of values in objects of 30–100 values with
	// overlapping key ranges, so that merges of three and more legs see batches
	// that interleave
	big := r.Chance(1, 5)
	if big {
		spec.Thresh = rt.Pick(r, []int64{400, 1500, 4000})
		o.Count("big_pools", 1)
	}
	eng, l, m, err := newMemLake(ctx, false, spec)
	if err != nil {
		o.Violation("setup-failed", err.Error())
		return
	}
	id := 0
	nloads := r.Range(1, 7)
	var loads [][]string
	for i := 0; i < nloads; i++ {
		var vals []string
		base := r.Intn(10)
		nvals := r.Range(1, 10)
		if big {
			nvals = r.Range(40, 120)
		}
		for j := 0; j < nvals; j++ {
			id++
			k := fmt.Sprint(base + r.Intn(6))
			if big {
				k = fmt.Sprint(base + r.Intn(60))
			}
			if uniqueKeys {
				k = fmt.Sprint(id*7%101 + 1000*(id%3))
			} else if oddKeys {
				k = rt.Pick(r, []string{"1", "2.5", "null", "\"a\"", "3(uint64)", "MISSING", "4", "null(int64)"})
			}
			kf := "k:" + k + ","
			if k == "MISSING" {
				kf = ""
			}
			vals = append(vals, fmt.Sprintf("{%sid:%d,v:%d,s:%q}", kf, id, id%4, rt.Pick(r, []string{"a", "b", "c"})))
		}
		loads = append(loads, vals)
		out := m.Exec(ctx, l, eng.B, lk.Op{Kind: "load", Branch: "main", Vals: vals})
		if out.Err != nil {
			o.Violation("setup-failed", out.Err.Error())
			return
		}
	}
	nobj := len(m.State(m.Branches["main"]))
	var progs []c08Prog
	for i := 0; i < 6; i++ {
		progs = append(progs, c08Gen(r, uniqueKeys))
	}
	if big {
		progs = append(progs, c08Prog{"from p | sort id", "sequence"}, c08Prog{"from p | sort v, id", "sequence"}, c08Prog{"from p | count() by id | sort id", "sequence"})
	}
	desc := map[string]any{"pool": spec, "objects": nobj, "loads": loads, "programs": progs}
	o.Desc(desc)
	if o.Index%30 == 0 {
		o.Sample(map[string]any{"pool": spec, "objects": nobj, "values": id, "programs": progs})
	}
	c.Max("max_objects_in_a_pool", int64(nobj))
	for _, pg := range progs {
		ref, rerr := l.QueryPar(ctx, pg.Text, 1)
		mode := pg.Mode
		if mode == "sequence-if-total" {
			// the final sort is total only if no two groups share (count,k): check on the reference
			mode = "sequence"
			seen := map[string]bool{}
			for _, rec := range ref {
				// two groups with the same count and keys that compare equal without
				// being identical (null / null(int64), 3 / 3.) are a tie as well:
				// the order is taken as defined only where the counts differ
				it := zcode.Bytes(rec.Bytes).Iter()
				it.Next()
				cnt := ""
				if !it.Done() {
					cnt = string(it.Next())
				}
				if seen[cnt] {
					mode = "multiset"
				}
				seen[cnt] = true
			}
			if len(ref) == 3 {
				// the head boundary may cut through a tie we cannot see (groups with
				// the same count whose keys compare equal, e.g. null and null(int64)):
				// which of the tied groups survives is not defined, their counts are
				mode = "head-cut"
			}
		}
		for _, par := range []int{2, 3, 8, 16} {
			for _, procs := range []int{1, 2, 16} {
				if c.Quick() && (par+procs+o.Index)%3 != 0 {
					continue
				}
				prev := runtime.GOMAXPROCS(procs)
				c08legs.reset()
				got, gerr := l.QueryPar(ctx, pg.Text, par)
				legs, parts := c08legs.snapshot()
				runtime.GOMAXPROCS(prev)
				o.AddEvaluations(1)
				o.Count("runs", 1)
				o.Count("partitions_scanned", int64(parts))
				if legs >= 2 {
					o.Count("runs_with_2plus_active_legs", 1)
					o.Nontrivial(fmt.Sprintf("%d/%s/%d/%d", o.Index, pg.Text, par, procs))
				}
				where := fmt.Sprintf("pool %+v (%d objects), program %q, parallelism %d vs 1, GOMAXPROCS %d, %d legs got partitions", spec, nobj, pg.Text, par, procs, legs)
				if (rerr != nil) != (gerr != nil) {
					o.Violation("error-depends-on-parallelism", fmt.Sprintf("%s: error at parallelism 1: %v; at %d: %v", where, rerr, par, gerr))
					continue
				}
				if rerr != nil {
					continue
				}
				if d := c08Compare(mode, spec, ref, got); d != "" {
					o.Violation("result-depends-on-parallelism:"+mode, fmt.Sprintf("%s: %s", where, d))
				}
			}
		}
	}
}

func c08Compare(mode string, spec lk.PoolSpec, ref, got []gen.Rec) string {
	switch mode {
	case "sequence":
		return diffRecs(ref, got)
	case "multiset":
		return multisetDiff(ref, got)
	case "head-cut":
		// rows are {k, count}: compare the multiset of counts only
		proj := func(recs []gen.Rec) []gen.Rec {
			out := make([]gen.Rec, len(recs))
			for i, r := range recs {
				it := zcode.Bytes(r.Bytes).Iter()
				it.Next()
				var cnt zcode.Bytes
				if !it.Done() {
					cnt = it.Next()
				}
				out[i] = gen.Rec{Type: "count", Bytes: string(cnt)}
			}
			return out
		}
		return multisetDiff(proj(ref), proj(got))
	case "agg":
		return multisetDiff(c08NormAgg(ref), c08NormAgg(got))
	case "keyorder":
		if d := multisetDiff(ref, got); d != "" {
			return d
		}
		vals := make([]zed.Value, len(got))
		zctx := zed.NewContext()
		for i, r := range got {
			v, err := recToValue(zctx, r)
			if err != nil {
				return ""
			}
			vals[i] = v
		}
		return checkKeyOrder(vals, "k", spec.Order)
	}
	return "unknown mode " + mode
}

// c08NormAgg normalises rows whose aggregate column is an array/set built in
// arrival order: the container's elements are sorted bytewise.
func c08NormAgg(recs []gen.Rec) []gen.Rec {
	out := make([]gen.Rec, len(recs))
	for i, r := range recs {
		out[i] = gen.Rec{Type: r.Type, Null: r.Null, Bytes: normContainers(r.Type, r.Bytes)}
	}
	return out
}

// normContainers sorts the elements of every top-level-record field that is
// an array or set (by re-walking the ZNG container framing).
func normContainers(typ string, b string) string {
	if !strings.HasPrefix(typ, "rec{") {
		return b
	}
	it := []byte(b)
	var fields [][]byte
	for len(it) > 0 {
		n, sz := uvarint(it)
		if sz <= 0 {
			return b
		}
		if n == 0 {
			fields = append(fields, it[:sz])
			it = it[sz:]
			continue
		}
		l := int(n) - 1
		if sz+l > len(it) {
			return b
		}
		fields = append(fields, it[:sz+l])
		it = it[sz+l:]
	}
	// sort the elements inside each field that looks like a container of ≥2 elements
	var sb strings.Builder
	for _, f := range fields {
		n, sz := uvarint(f)
		body := f[sz:]
		_ = n
		elems, ok := splitElems(body)
		if ok && len(elems) > 1 {
			sort.Slice(elems, func(i, j int) bool { return string(elems[i]) < string(elems[j]) })
			sb.Write(f[:sz])
			for _, e := range elems {
				sb.Write(e)
			}
		} else {
			sb.Write(f)
		}
	}
	return sb.String()
}

func uvarint(b []byte) (uint64, int) {
	var x uint64
	var s uint
	for i, c := range b {
		if c < 0x80 {
			return x | uint64(c)<<s, i + 1
		}
		x |= uint64(c&0x7f) << s
		s += 7
	}
	return 0, 0
}

func splitElems(b []byte) ([][]byte, bool) {
	var out [][]byte
	for len(b) > 0 {
		n, sz := uvarint(b)
		if sz <= 0 {
			return nil, false
		}
		l := 0
		if n > 0 {
			l = int(n) - 1
		}
		if sz+l > len(b) {
			return nil, false
		}
		out = append(out, b[:sz+l])
		b = b[sz+l:]
	}
	return out, true
}

// recToValue rebuilds a value for key inspection from a record whose type the
// harness printed as rec{"k":pN,...}: only used to read field k.
func recToValue(zctx *zed.Context, r gen.Rec) (zed.Value, error) {
	if !strings.HasPrefix(r.Type, "rec{") {
		return zed.Null, fmt.Errorf("not a record")
	}
	inner := strings.TrimSuffix(strings.TrimPrefix(r.Type, "rec{"), "}")
	var fields []zed.Field
	for _, part := range strings.Split(inner, ",") {
		kv := strings.SplitN(part, ":", 2)
		if len(kv) != 2 || !strings.HasPrefix(kv[1], "p") {
			return zed.Null, fmt.Errorf("unsupported field type %q", part)
		}
		var id int
		fmt.Sscanf(kv[1], "p%d", &id)
		t, err := zed.LookupPrimitiveByID(id)
		if err != nil {
			return zed.Null, err
		}
		fields = append(fields, zed.NewField(strings.Trim(kv[0], `"`), t))
	}
	rtyp, err := zctx.LookupTypeRecord(fields)
	if err != nil {
		return zed.Null, err
	}
	return zed.NewValue(rtyp, []byte(r.Bytes)), nil
}

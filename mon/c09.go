package main

import (
	"bytes"
	"context"
	"fmt"
	"regexp"
	"sort"
	"strings"
	"time"

	zed "github.com/brimdata/super"
	"github.com/brimdata/super/compiler"
	"github.com/brimdata/super/runtime"
	"github.com/brimdata/super/runtime/vcache"
	"github.com/brimdata/super/vng"
	"github.com/brimdata/super/zbuf"
	"github.com/brimdata/super/zcode"
	"github.com/brimdata/super/zio"
	"github.com/brimdata/super/zio/vngio"

	"verif/internal/gen"
	"verif/internal/lk"
	"verif/internal/rt"
)

func init() { register("C09", runC09) }

// field classes of the generated data: name → ZSON spellings of candidate values
var c09Fields = map[string][]string{
	"s": {`"a"`, `"b"`, `"c"`, `""`, `"a"`},       // strings (dict/const encodable)
	"n": {"1", "2", "3", "-4", "0", "100"},        // int64
	"u": {"1(uint64)", "2(uint64)", "7(uint64)"},  // uint64
	"x": {"1.", "2.5", "-0.5", "4."},              // float64
	"b": {"true", "false"},                        // bool
	"z": {"null(int64)", "5", "null(int64)", "6"}, // int64 with nulls
	"t": {`"a"`, "null(string)", `"b"`},           // string with nulls
	"m": {"1", `"a"`, "2.", "null", "3(uint64)"},  // mixed types (a union-less heterogeneous column via different record types)
	"c": {"7"},                                    // constant
}

func c09Row(r *rt.Rand, id int, fields []string, missingChance int) string {
	parts := []string{fmt.Sprintf("id:%d", id)}
	for _, f := range fields {
		if missingChance > 0 && r.Chance(1, missingChance) {
			continue
		}
		parts = append(parts, fmt.Sprintf("%s:%s", f, rt.Pick(r, c09Fields[f])))
	}
	return "{" + strings.Join(parts, ",") + "}"
}

func runC09(c *rt.Ctx) {
	c.Note("rule", "(a) lake: pools whose objects hold records with fields of every class (string, int, uint, float, bool, nullable int/string, mixed-type, constant, sometimes missing), several objects; the auto-vectorized shapes `count() by <f>` and `sum(<f>)` are run at parallelism 2 with no vectors, after vector add on every object, and after vector delete; the three results must be equal as multisets and error-free together; (b) whole programs from a small grammar over the vector compiler's subset (yield, cut, drop, put, rename, where, head, tail, sort, arithmetic, comparison, logic, field access, len/fields/typeof-free functions) compiled with compiler.VectorCompile over a vcache object built from the VNG encoding of the data versus the sequential runtime on the same values; programs the vector compiler rejects are outside the claim and only counted; disagreements are classified by the program's shape (field names replaced by type classes, literals abstracted) and the kind of disagreement; non-trivial = (a) plan contained a vector operator (all objects had vectors), (b) the vector compiler accepted the program")
	c.Note("assumptions", "union-typed and enum columns are excluded from C09's data (their vector-cache loading defects are C03's findings and would kill the process)\nfloat sums use values exactly representable so association cannot change a bit")
	na := c.N(24, 400)
	for i := 0; i < na; i++ {
		c.Case("lake", i, func(o *rt.Obs) { c09Lake(c, o) })
	}
	nb := c.N(400, 12000)
	for i := 0; i < nb; i++ {
		c.Case("prog", i, func(o *rt.Obs) { c09Prog(c, o, "", "") })
	}
	// reproducers of the open findings (re-executed on every run)
	c.Case("directed", 0, func(o *rt.Obs) { c09Lake(c, o) })
	for i, d := range c09Directed {
		d := d
		c.Case("directed", i+1, func(o *rt.Obs) { c09Prog(c, o, d[0], d[1]) })
	}
}

// c09Directed: (program, shape) pairs run over fixed rows.
var c09Directed = [][2]string{
	{"where b | cut id,s", "where <bool> | cut id,<string>"},
	{"put y:=not true", "put y:=not <bool>"},
	{"yield n/0", "yield (<int64>/<zero>)"},
	{"yield not s", "yield not <string>"},
	{"where (z<null)", "where (<int64-with-nulls><<null>)"},
}

var c09FixedRows = []string{
	`{id:1,s:"a",n:1,u:2(uint64),x:4.,b:true,z:null(int64),t:"a"}`,
	`{id:2,s:"c",n:3,u:7(uint64),x:-0.5,b:false,z:6,t:null(string)}`,
	`{id:3,s:"",n:0,u:1(uint64),x:1.,b:true,z:5,t:"b"}`,
}

var c09num = regexp.MustCompile(`-?\d+(\.\d*)?`)

func c09Lake(c *rt.Ctx, o *rt.Obs) {
	ctx := context.Background()
	r := o.R
	spec := lk.PoolSpec{Name: "p", Key: "id", Order: "asc", Thresh: rt.Pick(r, []int64{1 << 20, 200})}
	eng, l, m, err := newMemLake(ctx, false, spec)
	if err != nil {
		o.Violation("setup-failed", err.Error())
		return
	}
	fields := []string{"s", "n", "u", "x", "b", "z", "t", "m", "c"}
	id := 0
	var loads [][]string
	for i := 0; i < r.Range(1, 3); i++ {
		var vals []string
		for j := 0; j < r.Range(2, 12); j++ {
			id++
			vals = append(vals, c09Row(r, id, fields, 6))
		}
		loads = append(loads, vals)
		if out := m.Exec(ctx, l, eng.B, lk.Op{Kind: "load", Branch: "main", Vals: vals}); out.Err != nil {
			o.Violation("setup-failed", out.Err.Error())
			return
		}
	}
	o.Desc(map[string]any{"loads": loads})
	if o.Index%50 == 0 {
		o.Sample(map[string]any{"loads": loads, "programs": "from p | count() by <f> ; from p | sum(<f>) for every field f"})
	}
	var progs []string
	for _, f := range fields {
		progs = append(progs, "from p | count() by "+f, "from p | sum("+f+")")
	}
	run := func() map[string]c09Out {
		out := map[string]c09Out{}
		for _, p := range progs {
			var recs []gen.Rec
			var err error
			ok, pan, _ := rt.Watchdog(15*time.Second, func() { recs, err = l.QueryPar(ctx, p, 2) })
			if !ok {
				err = fmt.Errorf("hang: query did not return within the watchdog")
			} else if pan != nil {
				sig, _ := rt.PanicSignature(pan)
				err = fmt.Errorf("panic: %s", sig)
			}
			out[p] = c09Out{recs: recs, err: err}
		}
		return out
	}
	base := run()
	objs := lk.SortedIDs(m.State(m.Branches["main"]))
	if _, err := l.API.AddVectors(ctx, "p", "main", objs, lk.Msg); err != nil {
		o.Violation("vector-add-failed", err.Error())
		return
	}
	withVec := run()
	o.Nontrivial(fmt.Sprint("lake/", o.Index))
	if _, err := l.API.DeleteVectors(ctx, "p", "main", objs, lk.Msg); err != nil {
		o.Violation("vector-delete-failed", err.Error())
		return
	}
	after := run()
	for _, p := range progs {
		o.AddEvaluations(1)
		f := strings.TrimSuffix(strings.TrimPrefix(strings.TrimPrefix(p, "from p | count() by "), "from p | sum("), ")")
		shape := "count-by"
		if strings.Contains(p, "sum(") {
			shape = "sum"
		}
		if d := c09Diff(base[p], withVec[p]); d != "" {
			o.Violation(fmt.Sprintf("lake:%s:%s:%s", shape, c09Kind(base[p], withVec[p]), c09Class[f]), fmt.Sprintf("%q with vectors on every object differs from the same query without vectors: %s", p, d))
		}
		if d := c09Diff(base[p], after[p]); d != "" {
			o.Violation("lake:after-vector-delete:"+shape, fmt.Sprintf("%q after vector delete differs from before vector add: %s", p, d))
		}
	}
}

var c09Class = map[string]string{"s": "string", "n": "int64", "u": "uint64", "x": "float64", "b": "bool", "z": "int64-with-nulls", "t": "string-with-nulls", "m": "mixed-types", "c": "constant-int", "id": "int64"}

type c09Out struct {
	recs []gen.Rec
	err  error
	// noErr is the same result with the payload of every error value erased
	noErr []gen.Rec
}

// c09Pull drains p keeping, next to the exact records, a rendering in which
// every error-typed (sub)value is replaced by a marker.
func c09Pull(p zbuf.Puller) ([]gen.Rec, []gen.Rec, error) {
	var recs, noErr []gen.Rec
	for {
		b, err := p.Pull(false)
		if err != nil {
			if _, ok := err.(*zbuf.Control); ok {
				continue
			}
			return recs, noErr, err
		}
		if b == nil {
			return recs, noErr, nil
		}
		for _, v := range b.Values() {
			recs = append(recs, gen.RecOf(v))
			noErr = append(noErr, gen.Rec{Bytes: c09Canon(v.Type(), v.Bytes())})
		}
		b.Unref()
	}
}

func c09Canon(t zed.Type, b zcode.Bytes) string {
	if b == nil {
		if _, ok := zed.TypeUnder(t).(*zed.TypeError); ok {
			return "ERR"
		}
		return "null:" + gen.TypeString(t)
	}
	switch t := t.(type) {
	case *zed.TypeNamed:
		return c09Canon(t.Type, b)
	case *zed.TypeError:
		return "ERR"
	case *zed.TypeRecord:
		var sb strings.Builder
		sb.WriteString("{")
		it := b.Iter()
		for _, f := range t.Fields {
			if it.Done() {
				break
			}
			sb.WriteString(f.Name + ":" + c09Canon(f.Type, it.Next()) + ",")
		}
		return sb.String() + "}"
	case *zed.TypeArray:
		var sb strings.Builder
		sb.WriteString("[")
		for it := b.Iter(); !it.Done(); {
			sb.WriteString(c09Canon(t.Type, it.Next()) + ",")
		}
		return sb.String() + "]"
	}
	return fmt.Sprintf("%s:%x", gen.TypeString(t), []byte(b))
}

func c09Diff(a, b c09Out) string {
	if (a.err != nil) != (b.err != nil) {
		return fmt.Sprintf("sequential: err=%v (%d values); vector: err=%v (%d values)", a.err, len(a.recs), b.err, len(b.recs))
	}
	if a.err != nil {
		return ""
	}
	return multisetDiff(a.recs, b.recs)
}

// c09Kind names the kind of disagreement.
func c09Kind(seq, vec c09Out) string {
	switch {
	case seq.err == nil && vec.err != nil && strings.HasPrefix(vec.err.Error(), "hang:"):
		return "vector-hangs"
	case seq.err == nil && vec.err != nil:
		msg := c09num.ReplaceAllString(vec.err.Error(), "N")
		if strings.Contains(msg, "panic") {
			return "vector-panics"
		}
		if len(msg) > 40 {
			msg = msg[:40]
		}
		return "vector-errors(" + strings.Join(strings.Fields(msg), "-") + ")"
	case seq.err != nil && vec.err == nil:
		return "sequential-errors-only"
	case len(seq.recs) != len(vec.recs):
		return "row-count"
	}
	// same count: types or values?
	ta, tb := map[string]int{}, map[string]int{}
	for _, r := range seq.recs {
		ta[r.Type]++
	}
	for _, r := range vec.recs {
		tb[r.Type]++
	}
	for t, n := range ta {
		if tb[t] != n {
			return "type"
		}
	}
	return "value"
}

// ---- (b) whole programs ----------------------------------------------------------------

type c09Expr struct {
	text  string
	shape string
}

func c09GenExpr(r *rt.Rand, depth int) c09Expr {
	fields := []string{"s", "n", "u", "x", "b", "z", "t", "id"}
	if depth <= 0 || r.Chance(1, 3) {
		if r.Chance(1, 3) {
			lit := rt.Pick(r, []string{"1", "2", "0", "2.5", `"a"`, "true", "null"})
			cls := "int"
			switch {
			case strings.HasPrefix(lit, `"`):
				cls = "str"
			case strings.Contains(lit, "."):
				cls = "float"
			case lit == "true":
				cls = "bool"
			case lit == "null":
				cls = "null"
			}
			if lit == "0" {
				cls = "zero"
			}
			return c09Expr{lit, "<" + cls + ">"}
		}
		f := rt.Pick(r, fields)
		return c09Expr{f, "<" + c09Class[f] + ">"}
	}
	a, b := c09GenExpr(r, depth-1), c09GenExpr(r, depth-1)
	switch r.Intn(5) {
	case 0:
		op := rt.Pick(r, []string{"+", "-", "*", "/"})
		return c09Expr{"(" + a.text + " " + op + " " + b.text + ")", "(" + a.shape + op + b.shape + ")"}
	case 1:
		op := rt.Pick(r, []string{"==", "!=", "<", "<=", ">", ">="})
		return c09Expr{"(" + a.text + " " + op + " " + b.text + ")", "(" + a.shape + op + b.shape + ")"}
	case 2:
		op := rt.Pick(r, []string{"and", "or"})
		return c09Expr{"(" + a.text + " " + op + " " + b.text + ")", "(" + a.shape + " " + op + " " + b.shape + ")"}
	case 3:
		return c09Expr{"not " + a.text, "not " + a.shape}
	default:
		fn := rt.Pick(r, []string{"len", "lower", "upper", "coalesce"})
		if fn == "coalesce" {
			return c09Expr{"coalesce(" + a.text + ", " + b.text + ")", "coalesce(" + a.shape + "," + b.shape + ")"}
		}
		return c09Expr{fn + "(" + a.text + ")", fn + "(" + a.shape + ")"}
	}
}

func c09GenProg(r *rt.Rand) (text, shape string) {
	switch r.Intn(10) {
	case 0:
		e := c09GenExpr(r, 2)
		return "yield " + e.text, "yield " + e.shape
	case 1:
		e := c09GenExpr(r, 2)
		return "where " + e.text, "where " + e.shape
	case 2:
		e := c09GenExpr(r, 1)
		return "put y:=" + e.text, "put y:=" + e.shape
	case 3:
		f := rt.Pick(r, []string{"s", "n", "x", "z"})
		g := rt.Pick(r, []string{"id", "b", "t"})
		return "cut " + f + "," + g, "cut <" + c09Class[f] + ">,<" + c09Class[g] + ">"
	case 4:
		f := rt.Pick(r, []string{"s", "n", "x", "z"})
		return "drop " + f, "drop <" + c09Class[f] + ">"
	case 5:
		f := rt.Pick(r, []string{"s", "n", "x"})
		return "rename q:=" + f, "rename q:=<" + c09Class[f] + ">"
	case 6:
		return fmt.Sprintf("head %d", r.Range(1, 5)), "head N"
	case 7:
		return fmt.Sprintf("tail %d", r.Range(1, 5)), "tail N"
	case 8:
		f := rt.Pick(r, []string{"id", "n", "x", "s", "z"})
		return "sort " + f + ", id", "sort <" + c09Class[f] + ">,id"
	default:
		e := c09GenExpr(r, 1)
		f := rt.Pick(r, []string{"n", "s"})
		return "where " + e.text + " | cut id," + f, "where " + e.shape + " | cut id,<" + c09Class[f] + ">"
	}
}

func c09Prog(c *rt.Ctx, o *rt.Obs, fixedText, fixedShape string) {
	ctx := context.Background()
	r := o.R
	zctx := zed.NewContext()
	fields := []string{"s", "n", "u", "x", "b", "z", "t"}
	var rows []string
	for i := 0; i < r.Range(1, 8); i++ {
		rows = append(rows, c09Row(r, i+1, fields, 0))
	}
	text, shape := c09GenProg(r)
	if fixedText != "" {
		text, shape, rows = fixedText, fixedShape, c09FixedRows
	}
	o.Desc(map[string]any{"program": text, "rows": rows})
	if o.Index%300 == 0 {
		o.Sample(map[string]any{"program": text, "rows": rows})
	}
	vals, err := lk.ParseVals(zctx, rows)
	if err != nil {
		o.Violation("setup-failed", err.Error())
		return
	}
	// sequential reference
	var seq c09Out
	{
		prog, sset, err := compiler.Parse(text)
		if err != nil {
			o.Count("programs_rejected_by_parser", 1)
			return
		}
		q, err := runtime.CompileQuery(ctx, zctx, compiler.NewCompiler(), prog, sset, []zio.Reader{&c09Reader{vals: vals}})
		if err != nil {
			o.Count("programs_rejected_by_sequential_compiler", 1)
			return
		}
		seq.recs, seq.noErr, seq.err = c09Pull(q)
		q.Pull(true)
	}
	// vector path
	var buf bytes.Buffer
	w := vngio.NewWriter(nopCloser{&buf})
	for _, v := range vals {
		if err := w.Write(v); err != nil {
			o.Violation("setup-failed", "vng write: "+err.Error())
			return
		}
	}
	if err := w.Close(); err != nil {
		o.Violation("setup-failed", "vng close: "+err.Error())
		return
	}
	obj, err := vng.NewObject(bytes.NewReader(buf.Bytes()))
	if err != nil {
		o.Violation("setup-failed", "vng object: "+err.Error())
		return
	}
	var vec c09Out
	runVec := func(limit time.Duration) bool {
		vec = c09Out{}
		okw, _, _ := rt.Watchdog(limit, func() {
			defer func() {
				if p := recover(); p != nil {
					sig, _ := rt.PanicSignature(p)
					vec.err = fmt.Errorf("panic: %s", sig)
				}
			}()
			vo := vcache.NewObjectFromVNG(obj)
			rctx := runtime.NewContext(ctx, zed.NewContext())
			defer rctx.Cancel()
			p, err := compiler.VectorCompile(rctx, text, vo)
			if err != nil {
				vec.err = fmt.Errorf("compile: %w", err)
				return
			}
			vec.recs, vec.noErr, vec.err = c09Pull(p)
		})
		return okw
	}
	// A hang counts only when confirmed by a second, longer solo attempt.
	if !runVec(10*time.Second) && !runVec(60*time.Second) {
		vec = c09Out{err: fmt.Errorf("hang: vector program did not return within the watchdog (10 s, then 60 s)")}
	}
	if vec.err != nil && strings.HasPrefix(vec.err.Error(), "compile:") {
		o.Count("programs_rejected_by_vector_compiler", 1)
		return
	}
	o.AddEvaluations(1)
	o.Count("programs_run_on_both_runtimes", 1)
	o.Nontrivial(shape)
	mode := "sequence"
	d := ""
	if (seq.err != nil) != (vec.err != nil) {
		d = fmt.Sprintf("sequential: err=%v (%d values); vector: err=%v (%d values)", seq.err, len(seq.recs), vec.err, len(vec.recs))
	} else if seq.err == nil {
		d = diffRecs(seq.recs, vec.recs)
	}
	if d != "" {
		kind := c09Kind(seq, vec)
		if kind == "value" && multisetDiff(seq.recs, vec.recs) == "" {
			kind = "order"
		}
		if seq.err == nil && vec.err == nil && diffRecs(seq.noErr, vec.noErr) == "" {
			// identical once the payload of error values is ignored
			shape, kind = "{}", "error-payload-differs"
		} else {
			shape = c09Ops(shape)
		}
		op, opset, _ := strings.Cut(shape, "{")
		o.Violation("prog:"+op+":"+kind+":{"+opset, fmt.Sprintf("program %q over %v (%s comparison): %s\nsequential: %s\nvector:     %s", text, rows, mode, d, c09Show(seq), c09Show(vec)))
	}
}

var c09opRE = regexp.MustCompile(`not |and|or|==|!=|<=|>=|<|>|\+|-|\*|/|len|lower|upper|coalesce`)

// c09Ops reduces a program shape to its operator and the set of expression
// operators it uses, e.g. "where{<,not}".
func c09Ops(shape string) string {
	op := strings.Fields(shape)[0]
	rest := shape[len(op):]
	// drop the type-class placeholders before looking for operators
	rest = regexp.MustCompile(`<[a-z0-9-]+>`).ReplaceAllString(rest, "T")
	set := map[string]bool{}
	for _, m := range c09opRE.FindAllString(rest, -1) {
		m = strings.TrimSpace(m)
		switch m {
		case "==", "!=", "<=", ">=", "<", ">":
			m = "cmp"
		case "+", "-", "*", "/":
			m = "arith"
		case "and", "or":
			m = "andor"
		}
		set[m] = true
	}
	var ops []string
	for k := range set {
		ops = append(ops, k)
	}
	sort.Strings(ops)
	if strings.Contains(shape, " | cut") {
		op += "+cut"
	}
	return op + "{" + strings.Join(ops, ",") + "}"
}

func c09Show(o c09Out) string {
	if o.err != nil {
		return "error: " + o.err.Error()
	}
	var parts []string
	for _, r := range o.recs {
		parts = append(parts, fmtRec(r))
	}
	sort.Strings(parts)
	s := strings.Join(parts, " ")
	if len(s) > 600 {
		s = s[:600] + "…"
	}
	return s
}

type c09Reader struct {
	vals []zed.Value
	i    int
}

func (s *c09Reader) Read() (*zed.Value, error) {
	if s.i >= len(s.vals) {
		return nil, nil
	}
	v := &s.vals[s.i]
	s.i++
	return v, nil
}

package main

import (
	"context"
	"encoding/json"
	"fmt"
	"math"
	"os"
	"os/exec"
	"sort"
	"strings"
	"time"

	zed "github.com/brimdata/super"
	"github.com/brimdata/super/compiler"
	"github.com/brimdata/super/compiler/ast"
	"github.com/brimdata/super/compiler/ast/dag"
	"github.com/brimdata/super/compiler/data"
	"github.com/brimdata/super/compiler/kernel"
	"github.com/brimdata/super/compiler/semantic"
	"github.com/brimdata/super/order"
	"github.com/brimdata/super/pkg/verifhook"
	zrt "github.com/brimdata/super/runtime"
	"github.com/brimdata/super/runtime/sam/expr/agg"
	"github.com/brimdata/super/runtime/sam/op/groupby"
	"github.com/brimdata/super/zbuf"
	"github.com/brimdata/super/zcode"

	"verif/internal/gen"
	"verif/internal/prog"
	"verif/internal/rt"
)

func init() {
	register("C10", runC10)
	register("C10-helper", runC10Helper)
}

// runC10Helper runs one scenario that may take the whole process down (a
// panic inside a goroutine of the code under test cannot be recovered); the
// directed case that owns the scenario runs it as a child process and reads
// the outcome from its output.
func runC10Helper(c *rt.Ctx) {
	switch os.Getenv("C10_HELPER_CASE") {
	case "sorted-input-spill":
		zctx := zed.NewContext()
		var vals []zed.Value
		for i := 0; i < 12; i++ {
			// a wide input record so that the input's first record type and the
			// spill file's first record type (same type id, other context) differ
			vals = append(vals, prog.Record(zctx, []string{"a", "b", "c", "d", "g"},
				[]zed.Value{zed.NewInt64(0), zed.NewInt64(0), zed.NewInt64(0), zed.NewInt64(0), zed.NewInt64(int64(i / 2))}))
		}
		seq, _, err := compiler.Parse("summarize c:=count() by g")
		if err != nil {
			fmt.Println("HELPER-ERROR", err)
			return
		}
		base, _ := c10Analyze(seq)
		res := c10RunDAG(zctx, c10BuildGB(base, c10Config{Limit: 2, SortDir: 1}), vals)
		fmt.Printf("HELPER-RESULT err=%v spills=%d rows=%v\n", res.err, res.spills, prog.FormatValues(res.vals, 20))
	default:
		fmt.Println("HELPER-ERROR unknown case")
	}
}

// c10Helper runs a helper scenario in a child process.
func c10Helper(name string) (string, error) {
	cmd := exec.Command(os.Args[0], "C10-helper", "--tier", "quick")
	cmd.Env = append(os.Environ(), "C10_HELPER_CASE="+name, "GORACE=halt_on_error=0 exitcode=0")
	out, err := cmd.CombinedOutput()
	return string(out), err
}

// ---------------------------------------------------------------- running

func c10CopyOp(op dag.Op) dag.Op {
	b, err := json.Marshal(op)
	if err != nil {
		panic(err)
	}
	cp, err := dag.UnmarshalOp(b)
	if err != nil {
		panic(err)
	}
	return cp
}

// c10Analyze turns a parsed program into a fresh DAG.
func c10Analyze(seq ast.Seq) (dag.Seq, error) {
	return semantic.AnalyzeAddSource(context.Background(), ast.CopySeq(seq), data.NewSource(nil, nil), nil)
}

type c10Out struct {
	vals   []zed.Value
	err    error
	spills int64
	hung   bool
}

// c10RunDAG builds and runs a DAG over vals through kernel.Builder.
func c10RunDAG(zctx *zed.Context, entry dag.Seq, vals []zed.Value) *c10Out {
	out := &c10Out{}
	res := &c10Out{}
	ctx, cancel := context.WithCancel(context.Background())
	defer cancel()
	rctx := zrt.NewContext(ctx, zctx)
	before := verifhook.Count("spill.mergesort.run")
	done := make(chan any, 1)
	go func() {
		defer func() { done <- recover() }()
		outputs, err := kernel.NewBuilder(rctx, data.NewSource(nil, nil)).Build(entry, zbuf.NewArray(append([]zed.Value(nil), vals...)))
		if err != nil {
			res.err = err
			return
		}
		p, ok := outputs["main"]
		if !ok {
			res.err = fmt.Errorf("no main output")
			return
		}
		res.vals, res.err = prog.Drain(p)
	}()
	select {
	case pan := <-done:
		if pan != nil {
			panic(pan)
		}
		*out = *res
	case <-time.After(120 * time.Second):
		out.hung = true
	}
	out.spills = verifhook.Count("spill.mergesort.run") - before
	return out
}

// ---------------------------------------------------------------- group-by

// c10KeyDomain: values a key field may take; numerically equal values of
// different types, nulls of different types, strings that look like numbers.
type c10KeyVal struct {
	zson string
	val  func() zed.Value
}

var c10KeyDomain = []zed.Value{
	zed.NewInt64(1), zed.NewUint64(1), zed.NewFloat64(1), zed.NewInt64(2), zed.NewFloat64(2), zed.NewUint64(2),
	zed.NewInt64(0), zed.NewFloat64(0), zed.NewInt64(-1), zed.NewInt64(3), zed.NewFloat64(2.5),
	zed.NullInt64, zed.NullString, zed.NullFloat64,
	zed.NewString("1"), zed.NewString("a"), zed.NewString("b"), zed.NewString(""), zed.True, zed.False,
}

type c10Row struct {
	id      int64
	val     zed.Value
	g       int64
	v       *int64      // nil = null
	keys    []zed.Value // evaluated key tuple
	keyID   string
	anyArgs []zed.Value
}

type c10Agg struct {
	name  string // output field
	fn    string
	arg   string
	where string
	norm  prog.Norm
}

func (a c10Agg) text() string {
	s := a.name + ":=" + a.fn + "(" + a.arg + ")"
	if a.where != "" {
		s += " where " + a.where
	}
	return s
}

type c10GBCase struct {
	Text     string   `json:"program"`
	Keys     []string `json:"keys"`
	Rows     []string `json:"rows"`
	SortedOn string   `json:"input_sorted_on,omitempty"`
}

type c10Config struct {
	Perm      int    `json:"permutation"`
	Limit     int    `json:"limit,omitempty"`         // Summarize.Limit (`with -limit N`)
	DefLimit  int    `json:"default_limit,omitempty"` // groupby.DefaultLimit
	SortDir   int    `json:"input_sort_dir,omitempty"`
	Partials  string `json:"partials,omitempty"` // "", "chain", "fork"
	BatchVals int    `json:"-"`
}

func c10GenRows(r *rt.Rand, zctx *zed.Context, n int, sortedG bool) []*c10Row {
	rows := make([]*c10Row, n)
	perm := r.Perm(n)
	nk := r.Range(2, 6) // few distinct values per key column
	var dom []zed.Value
	for i := 0; i < nk; i++ {
		dom = append(dom, rt.Pick(r, c10KeyDomain))
	}
	// make sure numerically equal values of different types meet often
	if r.Chance(1, 2) {
		dom = append(dom, zed.NewInt64(1), zed.NewUint64(1), zed.NewFloat64(1))
	}
	for i := range rows {
		row := &c10Row{id: int64(perm[i])}
		names := []string{"id"}
		vals := []zed.Value{zed.NewInt64(row.id)}
		for _, k := range []string{"k1", "k2", "k3"} {
			if r.Chance(1, 8) {
				continue // missing key
			}
			names = append(names, k)
			vals = append(vals, rt.Pick(r, dom))
		}
		row.g = int64(r.Intn(6)) - 1
		names = append(names, "g")
		vals = append(vals, zed.NewInt64(row.g))
		if r.Chance(1, 6) {
			names = append(names, "v")
			vals = append(vals, zed.NullInt64)
		} else {
			v := int64(r.Intn(41)) - 20
			row.v = &v
			names = append(names, "v")
			vals = append(vals, zed.NewInt64(v))
		}
		if !r.Chance(1, 6) {
			names = append(names, "f")
			vals = append(vals, zed.NewFloat64(float64(r.Intn(65)-32)/8))
		}
		if !r.Chance(1, 5) {
			names = append(names, "b")
			if r.Chance(1, 6) {
				vals = append(vals, zed.NullBool)
			} else {
				vals = append(vals, zed.NewBool(r.Bool()))
			}
		}
		names = append(names, "s")
		vals = append(vals, zed.NewString(rt.Pick(r, []string{"a", "B", "b", "cc", ""})))
		row.val = prog.Record(zctx, names, vals)
		rows[i] = row
	}
	if sortedG {
		sort.SliceStable(rows, func(i, j int) bool { return rows[i].g < rows[j].g })
	}
	return rows
}

var c10KeyExprs = []string{"k1", "k2", "k3", "k1", "k2", "g", "s", "typeof(k1)", "lower(s)", "len(s)", "g%2", "k1==k2", "coalesce(k1, k2)", "has(k3)", "k2+1"}

func c10GenAggs(r *rt.Rand) []c10Agg {
	cands := []c10Agg{
		{fn: "count"}, {fn: "count", where: "v > 0"}, {fn: "count", where: "has(k1)"},
		{fn: "sum", arg: "v"}, {fn: "sum", arg: "f"}, {fn: "sum", arg: "v", where: "s==\"a\""},
		{fn: "min", arg: "v"}, {fn: "max", arg: "v"}, {fn: "min", arg: "f"}, {fn: "max", arg: "f"}, {fn: "max", arg: "g"},
		{fn: "avg", arg: "v"}, {fn: "avg", arg: "f"}, {fn: "avg", arg: "g", where: "b"},
		{fn: "and", arg: "b"}, {fn: "or", arg: "b"},
		{fn: "collect", arg: "v", norm: prog.NormMultiset}, {fn: "collect", arg: "s", norm: prog.NormMultiset}, {fn: "collect", arg: "k1", norm: prog.NormMultiset, where: "g > 0"},
		{fn: "union", arg: "s"}, {fn: "union", arg: "v"}, {fn: "union", arg: "k2"},
		{fn: "dcount", arg: "s"}, {fn: "dcount", arg: "v"},
		{fn: "fuse", arg: "this", norm: prog.NormFuseType},
		{fn: "any", arg: "s", norm: prog.NormAny}, {fn: "any", arg: "v", norm: prog.NormAny}, {fn: "any", arg: "k1", norm: prog.NormAny},
	}
	n := r.Range(1, 4)
	var out []c10Agg
	for i := 0; i < n; i++ {
		a := rt.Pick(r, cands)
		a.name = fmt.Sprintf("a%d", i)
		out = append(out, a)
	}
	return out
}

// c10Field reads the named field out of a record value.
func c10Field(v zed.Value, name string) (zed.Value, bool) {
	rec, ok := zed.TypeUnder(v.Type()).(*zed.TypeRecord)
	if !ok || v.IsNull() {
		return zed.Null, false
	}
	it := v.Bytes().Iter()
	for _, f := range rec.Fields {
		b := it.Next()
		if f.Name == name {
			return zed.NewValue(f.Type, b), true
		}
	}
	return zed.Null, false
}

func c10RawKey(v zed.Value) string {
	if v.IsNull() {
		return gen.TypeString(v.Type()) + "\x00N"
	}
	return gen.TypeString(v.Type()) + "\x00V" + string(v.Bytes())
}

// c10NormField renders one output field under a normal form.
func c10NormField(v zed.Value, n prog.Norm) string {
	p := &prog.Program{Norm: map[string]prog.Norm{"": n}}
	if n == prog.NormNone {
		return c10RawKey(v)
	}
	return prog.Key(p, v)
}

// c10CoarseEq: the equivalence the spill path's key comparator induces:
// numbers by numeric value across types, null ≡ missing ≡ null of any type.
func c10CoarseKey(v zed.Value) string {
	if v.IsNull() || v.IsMissing() {
		return "null"
	}
	id := v.Type().ID()
	switch {
	case zed.IsFloat(id):
		return fmt.Sprintf("num:%v", v.Float())
	case zed.IsSigned(id) && id <= zed.IDInt64:
		return fmt.Sprintf("num:%v", float64(v.Int()))
	case zed.IsUnsigned(id):
		return fmt.Sprintf("num:%v", float64(v.Uint()))
	}
	return c10RawKey(v)
}

type c10Group struct {
	keys []zed.Value
	rows []*c10Row
}

func c10GroupBy(rows []*c10Row, keyOf func(*c10Row) string) []*c10Group {
	idx := map[string]*c10Group{}
	var out []*c10Group
	for _, r := range rows {
		k := keyOf(r)
		g, ok := idx[k]
		if !ok {
			g = &c10Group{keys: r.keys}
			idx[k] = g
			out = append(out, g)
		}
		g.rows = append(g.rows, r)
	}
	return out
}

func runC10(c *rt.Ctx) {
	c.Note("rule", "group-by case = one summarize program (1–3 keys incl. computed keys, 1–4 aggregates, where clauses) over one input (unique ids; mixed-type, numerically equal, null and missing keys) run under several configurations (input permutations, `with -limit`/groupby.DefaultLimit forcing spills, input_sort_dir on truly sorted input, direct vs partials-out|partials-in chain or fork built with semantic.AnalyzeAddSource + kernel.Builder); every output compared as a multiset of rows with the harness's own grouping by evaluated key (type string, bytes) and, per group, the repo's aggregate run ungrouped/unspilled/direct over exactly that group's rows (count/sum/min/max on integers re-computed by the harness); join case = rows with lid/rid joined under all styles, orders and declared directions against a nested-loop pair set; non-trivial = group-by configuration with ≥1 spill in which some key occurs in ≥2 spilled runs (by simulating the table), or a join with a key of multiplicity ≥2 on both sides; distinct by case id")
	c.Note("assumptions", strings.Join([]string{
		"float aggregates get multiples of 1/8 only (exactly summable); sum/min/max/avg arguments are single-typed columns (int64 or float64), so that no result depends on the order of promotion",
		"collect() is compared as a multiset, any() by membership in the group's non-missing argument values (non-null preferred), fuse() modulo field/member order; dcount only on ≤ 40 values",
		"aggregate arguments are plain fields: an aggregate whose partial result is an error value (or a fuse() over a group without values) makes the merge of partials panic inside a runtime goroutine, which ends the process; those are covered at the aggregate-function level by the directed cases instead",
		"input_sort_dir is exercised on a never-null, never-missing int64 key; join directions through sorts in the legs; descending with null keys is a directed case (sort, group-by and join disagree where nulls go)",
		"join rows whose key is missing are neither expected nor flagged (the statement excludes them)",
	}, "\n"))
	ngb := c.N(700, 10000)
	for i := 0; i < ngb; i++ {
		c.Case("gb", i, func(o *rt.Obs) { c10GroupByCase(c, o) })
	}
	nj := c.N(500, 8000)
	for i := 0; i < nj; i++ {
		c.Case("join", i, func(o *rt.Obs) { c10JoinCase(c, o) })
	}
	for i := range c10Directed {
		c.Case("directed", i, func(o *rt.Obs) { c10Directed[i].fn(c, o) })
	}
}

// c10Expected computes the expected output rows (as canonical strings) for a
// grouping of the rows.  anyIdx lists the aggregates compared by membership.
type c10Expect struct {
	keys    [][]zed.Value     // per expected row: the key tuple
	aggPart []string          // per expected row: canonical aggregate part with any() fields blanked
	anySets []map[string]bool // per expected row: allowed values per any-aggregate (joined by name)
}

func c10KeyPart(keys []zed.Value, coarse bool) string {
	var sb strings.Builder
	for i, k := range keys {
		if coarse {
			fmt.Fprintf(&sb, "key%d=%s\x02", i, c10CoarseKey(k))
		} else {
			fmt.Fprintf(&sb, "key%d=%s\x02", i, c10RawKey(k))
		}
	}
	return sb.String()
}

func c10GroupByCase(c *rt.Ctx, o *rt.Obs) {
	r := o.R
	zctx := zed.NewContext()
	n := r.Range(1, 36)
	if !c.Quick() && r.Chance(1, 8) {
		n = r.Range(36, 120)
	}
	sortedG := r.Chance(1, 4)
	rows := c10GenRows(r, zctx, n, sortedG)
	nkeys := r.Range(1, 3)
	var keyExprs []string
	if sortedG {
		keyExprs = append(keyExprs, "g")
	}
	for len(keyExprs) < nkeys {
		keyExprs = append(keyExprs, rt.Pick(r, c10KeyExprs))
	}
	aggs := c10GenAggs(r)
	var aggTxt, keyTxt []string
	for _, a := range aggs {
		aggTxt = append(aggTxt, a.text())
	}
	keyNames := make([]string, len(keyExprs))
	for i, e := range keyExprs {
		keyNames[i] = fmt.Sprintf("key%d", i)
		if sortedG && i == 0 {
			// input_sort_dir is only ever set (by the optimizer) on a key that
			// keeps the name of the sorted field; the operator evaluates the
			// key expression on its own output rows when it spills
			keyNames[i] = "g"
		}
		keyTxt = append(keyTxt, fmt.Sprintf("%s:=%s", keyNames[i], e))
	}
	text := "summarize " + strings.Join(aggTxt, ", ") + " by " + strings.Join(keyTxt, ", ")
	vals := make([]zed.Value, len(rows))
	var rowTxt []string
	for i, row := range rows {
		vals[i] = row.val
		rowTxt = append(rowTxt, prog.FormatValue(row.val))
	}
	desc := &c10GBCase{Text: text, Keys: keyExprs, Rows: rowTxt}
	if sortedG {
		desc.SortedOn = "g asc"
	}
	o.Desc(desc)
	if o.Index%200 == 0 {
		o.Sample(map[string]any{"program": text, "rows": len(rows), "first_rows": rowTxt[:min(3, len(rowTxt))]})
	}
	seq, _, err := compiler.Parse(text)
	if err != nil {
		o.Violation("harness:program-does-not-parse", err.Error())
		return
	}
	base, err := c10Analyze(seq)
	if err != nil || len(base) != 3 {
		o.Violation("harness:unexpected-dag", fmt.Sprint(err, len(base)))
		return
	}
	sum := base[1].(*dag.Summarize)

	// 1. evaluate the key tuple (and the any() arguments) of every row
	{
		elems := []dag.RecordElem{&dag.Field{Kind: "Field", Name: "id", Value: &dag.This{Kind: "This", Path: []string{"id"}}}}
		for i, k := range sum.Keys {
			elems = append(elems, &dag.Field{Kind: "Field", Name: fmt.Sprintf("ekey%d", i), Value: k.RHS})
		}
		for i, a := range sum.Aggs {
			if aggs[i].norm == prog.NormAny {
				elems = append(elems, &dag.Field{Kind: "Field", Name: "any_" + aggs[i].name, Value: a.RHS.(*dag.Agg).Expr})
			}
		}
		y := &dag.Yield{Kind: "Yield", Exprs: []dag.Expr{&dag.RecordExpr{Kind: "RecordExpr", Elems: elems}}}
		ev := c10RunDAG(zctx, dag.Seq{c10CopyOp(base[0]), c10CopyOp(y), c10CopyOp(base[2])}, vals)
		if ev.err != nil || len(ev.vals) != len(rows) {
			o.Violation("harness:key-evaluation-failed", fmt.Sprintf("err=%v, %d of %d rows", ev.err, len(ev.vals), len(rows)))
			return
		}
		byID := map[int64]*c10Row{}
		for _, row := range rows {
			byID[row.id] = row
		}
		for _, v := range ev.vals {
			idv, _ := c10Field(v, "id")
			row := byID[idv.Int()]
			for i := range sum.Keys {
				kv, _ := c10Field(v, fmt.Sprintf("ekey%d", i))
				row.keys = append(row.keys, kv.Copy())
				row.keyID += c10RawKey(kv) + "\x03"
			}
			for i := range sum.Aggs {
				if aggs[i].norm == prog.NormAny {
					av, _ := c10Field(v, "any_"+aggs[i].name)
					row.anyArgs = append(row.anyArgs, av.Copy())
				}
			}
		}
	}

	// 2. expected rows for a grouping
	aggOnly := c10CopyOp(sum).(*dag.Summarize)
	aggOnly.Keys = nil
	expect := func(groups []*c10Group) (*c10Expect, string) {
		ex := &c10Expect{}
		for _, g := range groups {
			gv := make([]zed.Value, len(g.rows))
			for i, row := range g.rows {
				gv[i] = row.val
			}
			res := c10RunDAG(zctx, dag.Seq{c10CopyOp(base[0]), c10CopyOp(aggOnly), c10CopyOp(base[2])}, gv)
			if res.err != nil || len(res.vals) != 1 {
				return nil, fmt.Sprintf("ungrouped aggregate over one group: err=%v, %d values", res.err, len(res.vals))
			}
			var sb strings.Builder
			anySet := map[string]bool{}
			anyN := 0
			for _, a := range aggs {
				av, ok := c10Field(res.vals[0], a.name)
				if !ok {
					return nil, "ungrouped aggregate result lacks field " + a.name
				}
				if a.norm == prog.NormAny {
					// membership: any non-missing argument value of the group; a
					// non-null one if there is one
					nonNull := false
					for _, row := range g.rows {
						if v := row.anyArgs[anyN]; !v.IsMissing() && !v.IsNull() {
							nonNull = true
						}
					}
					seen := false
					for _, row := range g.rows {
						v := row.anyArgs[anyN]
						if v.IsMissing() || (nonNull && v.IsNull()) {
							continue
						}
						seen = true
						anySet[a.name+"="+c10RawKey(v)] = true
					}
					if !seen || !nonNull {
						// nothing non-null: the untyped null of an aggregate
						// that saw no value is a possible outcome as well
						// (partials of sub-groups without any value)
						anySet[a.name+"="+c10RawKey(zed.Null)] = true
					}
					anyN++
					fmt.Fprintf(&sb, "%s=<any>\x02", a.name)
					continue
				}
				fmt.Fprintf(&sb, "%s=%s\x02", a.name, c10NormField(av, a.norm))
				// harness arithmetic for integer count/sum/min/max without where
				if a.where == "" && (a.fn == "count" || a.arg == "v" && (a.fn == "sum" || a.fn == "min" || a.fn == "max")) {
					if d := c10CheckInt(a, g.rows, av); d != "" {
						return nil, "integer cross-check: " + d
					}
				}
			}
			ex.keys = append(ex.keys, g.keys)
			ex.aggPart = append(ex.aggPart, sb.String())
			ex.anySets = append(ex.anySets, anySet)
		}
		return ex, ""
	}
	fine := c10GroupBy(rows, func(r *c10Row) string { return r.keyID })
	exFine, msg := expect(fine)
	if msg != "" {
		o.Violation("groupby:ungrouped-aggregate-unusable", msg)
		return
	}
	var exCoarse *c10Expect // computed on demand
	coarseOf := func(r *c10Row) string {
		var sb strings.Builder
		for _, k := range r.keys {
			sb.WriteString(c10CoarseKey(k))
			sb.WriteString("\x03")
		}
		return sb.String()
	}
	coarse := c10GroupBy(rows, coarseOf)
	hasCoarser := len(coarse) < len(fine)
	if hasCoarser {
		o.Count("gb_cases_with_keys_equal_only_numerically_or_null_vs_missing", 1)
	}

	// 3. compare one output with an expectation
	match := func(out []zed.Value, ex *c10Expect, coarseKeys bool) string {
		var got []string
		gotAny := make([]map[string]string, len(out))
		for i, v := range out {
			var sb strings.Builder
			gotAny[i] = map[string]string{}
			for k := range sum.Keys {
				kv, ok := c10Field(v, keyNames[k])
				if !ok {
					return fmt.Sprintf("output row %s lacks %s", prog.FormatValue(v), keyNames[k])
				}
				if coarseKeys {
					fmt.Fprintf(&sb, "key%d=%s\x02", k, c10CoarseKey(kv))
				} else {
					fmt.Fprintf(&sb, "key%d=%s\x02", k, c10RawKey(kv))
				}
			}
			for _, a := range aggs {
				av, ok := c10Field(v, a.name)
				if !ok {
					return fmt.Sprintf("output row %s lacks %s", prog.FormatValue(v), a.name)
				}
				if a.norm == prog.NormAny {
					gotAny[i][a.name] = a.name + "=" + c10RawKey(av)
					fmt.Fprintf(&sb, "%s=<any>\x02", a.name)
					continue
				}
				fmt.Fprintf(&sb, "%s=%s\x02", a.name, c10NormField(av, a.norm))
			}
			got = append(got, sb.String())
		}
		want := make([]string, len(ex.aggPart))
		for i := range ex.aggPart {
			want[i] = c10KeyPart(ex.keys[i], coarseKeys) + ex.aggPart[i]
		}
		// multiset compare, remembering which expected row each output matched
		idx := map[string][]int{}
		for i, w := range want {
			idx[w] = append(idx[w], i)
		}
		for i, gstr := range got {
			l := idx[gstr]
			if len(l) == 0 {
				return fmt.Sprintf("unexpected output row (or one too many) %s", prog.FormatValue(out[i]))
			}
			wi := l[0]
			idx[gstr] = l[1:]
			for _, a := range aggs {
				if a.norm == prog.NormAny && !ex.anySets[wi][gotAny[i][a.name]] {
					return fmt.Sprintf("%s of row %s is not a (preferred non-null) member of its group's argument values", a.name, prog.FormatValue(out[i]))
				}
			}
		}
		for w, l := range idx {
			if len(l) > 0 {
				return fmt.Sprintf("missing output row for group %q", strings.ReplaceAll(strings.ReplaceAll(w, "\x02", " "), "\x00", ":"))
			}
		}
		return ""
	}

	// 4. configurations
	nperm := 3
	if len(rows) <= 4 {
		nperm = 6
	}
	nontrivial := false
	for ci := 0; ci < nperm; ci++ {
		cfg := c10Config{Perm: ci}
		order := make([]int, len(rows))
		for i := range order {
			order[i] = i
		}
		if ci > 0 && !sortedG {
			order = r.Perm(len(rows))
		}
		switch r.Intn(6) {
		case 0:
		case 1, 2:
			cfg.Limit = r.Range(1, 6)
		case 3:
			cfg.DefLimit = r.Range(1, 8)
		case 4:
			cfg.Partials = "chain"
		case 5:
			cfg.Partials = "fork"
			if r.Bool() {
				cfg.Limit = r.Range(1, 5)
			}
		}
		if hasCoarser && cfg.Partials != "" {
			// With keys that the spill merge confuses (known finding) a
			// two-stage plan merges them in some stages only; the finding
			// is attributed exactly on single-stage plans, so the
			// two-stage ones run unspilled on such inputs.
			cfg.Limit, cfg.DefLimit = 0, 0
		}
		if sortedG && r.Chance(2, 3) {
			// Streaming (sorted-input) group-by that also spills evaluates the
			// key expression, compiled against the input's type context, on
			// rows read back from the spill file's own context and crashes
			// the process (directed case 3, run in a child process): no
			// spills together with input_sort_dir here.
			cfg.SortDir = 1
			cfg.Limit, cfg.DefLimit = 0, 0
		}
		pv := make([]zed.Value, len(rows))
		prow := make([]*c10Row, len(rows))
		for i, j := range order {
			pv[i] = rows[j].val
			prow[i] = rows[j]
		}
		if sortedG && r.Chance(1, 3) {
			// the same input read backwards is sorted descending
			for i, j := 0, len(pv)-1; i < j; i, j = i+1, j-1 {
				pv[i], pv[j] = pv[j], pv[i]
				prow[i], prow[j] = prow[j], prow[i]
			}
			if cfg.SortDir != 0 {
				cfg.SortDir = -1
			}
		}
		entry := c10BuildGB(base, cfg)
		savedDef := groupby.DefaultLimit
		if cfg.DefLimit > 0 {
			groupby.DefaultLimit = cfg.DefLimit
		}
		res := c10RunDAG(zctx, entry, pv)
		groupby.DefaultLimit = savedDef
		cfgJSON, _ := json.Marshal(cfg)
		if res.hung {
			o.Violation("groupby:does-not-return", fmt.Sprintf("config %s", cfgJSON))
			return
		}
		if res.err != nil {
			o.Violation("groupby:error", fmt.Sprintf("config %s: %v", cfgJSON, res.err))
			continue
		}
		o.Count("gb_configurations_run", 1)
		o.Count("spill_runs_observed", res.spills)
		if res.spills > 0 {
			o.Count("gb_configurations_with_spill", 1)
			c.Max("max_spill_runs_in_one_configuration", res.spills)
		}
		if cfg.SortDir != 0 {
			o.Count("gb_configurations_input_sort_dir", 1)
		}
		if cfg.Partials != "" {
			o.Count("gb_configurations_partials_"+cfg.Partials, 1)
		}
		// non-triviality: simulate the table to see whether a key recurs across runs
		if lim := max(cfg.Limit, cfg.DefLimit); lim > 0 && res.spills > 0 && cfg.Partials == "" {
			runsOf := map[string]map[int]bool{}
			table := map[string]bool{}
			run := 0
			for _, row := range prow {
				if !table[row.keyID] {
					if len(table) >= lim {
						table = map[string]bool{}
						run++
					}
					table[row.keyID] = true
				}
				if runsOf[row.keyID] == nil {
					runsOf[row.keyID] = map[int]bool{}
				}
				runsOf[row.keyID][run] = true
			}
			for _, m := range runsOf {
				if len(m) >= 2 {
					nontrivial = true
				}
			}
		}
		d := match(res.vals, exFine, false)
		if d == "" {
			continue
		}
		detail := fmt.Sprintf("config %s (%d spill runs): %s\noutput (%d rows): %v", cfgJSON, res.spills, d, len(res.vals), prog.FormatValues(res.vals, 20))
		// Known defect: a spilled table is merged with a comparator under which
		// numerically equal keys of different type, and null/missing, are equal.
		if hasCoarser && res.spills > 0 {
			if exCoarse == nil {
				exCoarse, msg = expect(coarse)
			}
			if exCoarse != nil && match(res.vals, exCoarse, true) == "" {
				o.Count("known_hits_spill_merges_equal_compare_keys", 1)
				o.Violation("groupby:spill-merges-numerically-equal-keys-of-different-type", "equal to the expectation once keys that compare equal (numbers across types; null/missing) are grouped together and aggregated together\n"+detail)
				continue
			}
		}
		kind := "direct"
		switch {
		case res.spills > 0 && cfg.Partials != "":
			kind = "spill+partials"
		case res.spills > 0:
			kind = "spill"
		case cfg.Partials != "":
			kind = "partials"
		}
		if cfg.SortDir != 0 {
			kind += "+sorted-input"
		}
		o.Violation("groupby:wrong-result:"+kind, detail)
	}
	if nontrivial {
		o.Nontrivial(fmt.Sprint("gb/", o.Index))
	}
}

// c10CheckInt recomputes count/sum/min/max over v with harness arithmetic.
func c10CheckInt(a c10Agg, rows []*c10Row, got zed.Value) string {
	switch a.fn {
	case "count":
		if got.Type() != zed.TypeUint64 || got.IsNull() || got.Uint() != uint64(len(rows)) {
			return fmt.Sprintf("count() over %d rows = %s", len(rows), prog.FormatValue(got))
		}
		return ""
	}
	var have bool
	var acc int64
	for _, r := range rows {
		if r.v == nil {
			continue
		}
		switch {
		case !have:
			acc = *r.v
		case a.fn == "sum":
			acc += *r.v
		case a.fn == "min":
			acc = min(acc, *r.v)
		case a.fn == "max":
			acc = max(acc, *r.v)
		}
		have = true
	}
	if !have {
		if !got.IsNull() {
			return fmt.Sprintf("%s(v) over only-null v = %s", a.fn, prog.FormatValue(got))
		}
		return ""
	}
	if got.Type() != zed.TypeInt64 || got.IsNull() || got.Int() != acc {
		return fmt.Sprintf("%s(v) = %s, harness computes %d", a.fn, prog.FormatValue(got), acc)
	}
	return ""
}

// c10BuildGB edits a copy of [scan, summarize, output] according to cfg.
func c10BuildGB(base dag.Seq, cfg c10Config) dag.Seq {
	scan := c10CopyOp(base[0])
	sum := c10CopyOp(base[1]).(*dag.Summarize)
	out := c10CopyOp(base[2])
	sum.Limit = cfg.Limit
	sum.InputSortDir = cfg.SortDir
	switch cfg.Partials {
	case "":
		return dag.Seq{scan, sum, out}
	case "chain":
		first := c10CopyOp(sum).(*dag.Summarize)
		first.PartialsOut = true
		final := c10CopyOp(sum).(*dag.Summarize)
		final.PartialsIn = true
		final.InputSortDir = 0
		for k := range final.Keys {
			final.Keys[k].RHS = final.Keys[k].LHS
		}
		return dag.Seq{scan, first, final, out}
	default: // fork: the rows are split over two legs by id parity
		leg := func(parity string) dag.Seq {
			f := dag.NewFilter(dag.NewBinaryExpr("==",
				dag.NewBinaryExpr("%", &dag.This{Kind: "This", Path: []string{"id"}}, &dag.Literal{Kind: "Literal", Value: "2"}),
				&dag.Literal{Kind: "Literal", Value: parity}))
			p := c10CopyOp(sum).(*dag.Summarize)
			p.PartialsOut = true
			return dag.Seq{f, p}
		}
		final := c10CopyOp(sum).(*dag.Summarize)
		final.PartialsIn = true
		final.InputSortDir = 0
		for k := range final.Keys {
			final.Keys[k].RHS = final.Keys[k].LHS
		}
		return dag.Seq{scan, &dag.Fork{Kind: "Fork", Paths: []dag.Seq{leg("0"), leg("1")}}, final, out}
	}
}

// ---------------------------------------------------------------- join

type c10JoinRow struct {
	id      int64
	key     zed.Value
	missing bool
	val     zed.Value
}

var c10JoinKeys = []zed.Value{
	zed.NewInt64(1), zed.NewInt64(2), zed.NewInt64(3), zed.NewUint64(1), zed.NewFloat64(2), zed.NewFloat64(2.5),
	zed.NewString("a"), zed.NewString("b"), zed.NewString("1"), zed.NullInt64, zed.NullString,
}

// c10JoinEq is the harness's own key equality: numbers numerically, null with
// null, everything else by type and bytes.
func c10JoinEq(a, b zed.Value) bool {
	if a.IsNull() || b.IsNull() {
		return a.IsNull() && b.IsNull()
	}
	num := func(v zed.Value) (float64, bool) {
		id := v.Type().ID()
		switch {
		case zed.IsFloat(id):
			return v.Float(), true
		case zed.IsUnsigned(id):
			return float64(v.Uint()), true
		case zed.IsSigned(id) && id <= zed.IDInt64:
			return float64(v.Int()), true
		}
		return 0, false
	}
	if x, ok := num(a); ok {
		y, ok2 := num(b)
		return ok2 && x == y && !math.IsNaN(x)
	}
	return c10RawKey(a) == c10RawKey(b)
}

type c10JoinDesc struct {
	Text  string   `json:"program"`
	Style string   `json:"style"`
	Opt   bool     `json:"optimized"`
	Left  []string `json:"left"`
	Right []string `json:"right"`
	Legs  string   `json:"legs"`
}

func c10JoinCase(c *rt.Ctx, o *rt.Obs) {
	r := o.R
	zctx := zed.NewContext()
	nl, nr := r.Range(0, 12), r.Range(0, 12)
	ndom := r.Range(1, 5)
	var dom []zed.Value
	for i := 0; i < ndom; i++ {
		dom = append(dom, rt.Pick(r, c10JoinKeys))
	}
	desc := r.Chance(1, 4)
	mk := func(n int, side, idName, keyName string) []*c10JoinRow {
		rows := make([]*c10JoinRow, n)
		for i := range rows {
			row := &c10JoinRow{id: int64(i)}
			names := []string{"side", idName}
			vals := []zed.Value{zed.NewString(side), zed.NewInt64(row.id)}
			if r.Chance(1, 10) {
				row.missing = true
			} else {
				row.key = rt.Pick(r, dom)
				if desc && row.key.IsNull() {
					// descending join order with null keys is the directed case
					row.key = zed.NewInt64(7)
				}
				names = append(names, keyName)
				vals = append(vals, row.key)
			}
			names = append(names, "pay")
			vals = append(vals, zed.NewString(fmt.Sprintf("%s%d", side, i)))
			row.val = prog.Record(zctx, names, vals)
			rows[i] = row
		}
		return rows
	}
	left := mk(nl, "L", "lid", "l")
	right := mk(nr, "R", "rid", "r")
	style := rt.Pick(r, []string{"inner", "left", "right", "anti", ""})
	legs := rt.Pick(r, []string{"unsorted", "unsorted", "sorted", "left-sorted", "right-sorted"})
	dir := ""
	if desc {
		dir = " desc"
	}
	ll, rl := `where side=="L"`, `where side=="R"`
	if legs == "sorted" || legs == "left-sorted" {
		ll += " | sort l" + dir
	}
	if legs == "sorted" || legs == "right-sorted" {
		rl += " | sort r" + dir
	}
	assign := " jr:=rid"
	switch style {
	case "anti":
		assign = ""
	case "right":
		assign = " jl:=lid"
	}
	sty := style
	if sty != "" {
		sty += " "
	}
	text := fmt.Sprintf("fork (=> %s => %s) | %sjoin on l=r%s", ll, rl, sty, assign)
	optimize := legs != "unsorted" || r.Bool()
	// the input: left and right rows interleaved at random
	var vals []zed.Value
	var ltxt, rtxt []string
	li, ri := 0, 0
	for li < len(left) || ri < len(right) {
		if ri >= len(right) || (li < len(left) && r.Bool()) {
			vals = append(vals, left[li].val)
			li++
		} else {
			vals = append(vals, right[ri].val)
			ri++
		}
	}
	for _, row := range left {
		ltxt = append(ltxt, prog.FormatValue(row.val))
	}
	for _, row := range right {
		rtxt = append(rtxt, prog.FormatValue(row.val))
	}
	o.Desc(&c10JoinDesc{Text: text, Style: style, Opt: optimize, Left: ltxt, Right: rtxt, Legs: legs + dir})
	if o.Index%200 == 0 {
		o.Sample(map[string]any{"program": text, "optimized": optimize, "left_rows": len(left), "right_rows": len(right)})
	}
	out, dagText, err := c10RunJoin(zctx, text, vals, optimize)
	if err != nil {
		o.Violation("join:error", err.Error())
		return
	}
	if d := c10CheckJoin(style, left, right, out); d != "" {
		sig := "join:wrong-pairs:" + legs
		if desc {
			sig += "+desc"
		}
		if optimize {
			sig += ":optimized"
		}
		o.Violation(sig, fmt.Sprintf("%s\noutput (%d): %v\nDAG: %s", d, len(out), prog.FormatValues(out, 30), dagText))
	}
	// non-trivial: some key value with multiplicity ≥2 on both sides
	for _, a := range left {
		if a.missing {
			continue
		}
		na, nb := 0, 0
		for _, x := range left {
			if !x.missing && c10JoinEq(a.key, x.key) {
				na++
			}
		}
		for _, y := range right {
			if !y.missing && c10JoinEq(a.key, y.key) {
				nb++
			}
		}
		if na >= 2 && nb >= 2 {
			o.Nontrivial(fmt.Sprint("join/", o.Index))
			break
		}
	}
	o.Count("join_cases_"+legs+dir, 1)
}

func c10RunJoin(zctx *zed.Context, text string, vals []zed.Value, optimize bool) ([]zed.Value, string, error) {
	seq, _, err := compiler.Parse(text)
	if err != nil {
		return nil, "", err
	}
	ctx, cancel := context.WithCancel(context.Background())
	defer cancel()
	rctx := zrt.NewContext(ctx, zctx)
	job, err := compiler.NewJob(rctx, seq, data.NewSource(nil, nil), nil)
	if err != nil {
		return nil, "", err
	}
	if optimize {
		if err := job.Optimize(); err != nil {
			return nil, "", err
		}
	}
	dagText := ""
	if b, err := json.Marshal(job.Entry()); err == nil {
		dagText = string(b)
	}
	if err := job.Build(zbuf.NewArray(append([]zed.Value(nil), vals...))); err != nil {
		return nil, dagText, err
	}
	type res struct {
		vals []zed.Value
		err  error
	}
	ch := make(chan res, 1)
	go func() {
		v, err := prog.Drain(job.Puller())
		ch <- res{v, err}
	}()
	select {
	case r := <-ch:
		return r.vals, dagText, r.err
	case <-time.After(120 * time.Second):
		return nil, dagText, fmt.Errorf("join did not return")
	}
}

// c10CheckJoin compares the output with the nested-loop pair set.
func c10CheckJoin(style string, left, right []*c10JoinRow, out []zed.Value) string {
	outer, inner := left, right
	outerID, innerID, innerField := "lid", "rid", "jr"
	if style == "right" {
		outer, inner = right, left
		outerID, innerID, innerField = "rid", "lid", "jl"
	}
	_ = innerID
	type pair struct{ o, i int64 }
	want := map[pair]int{}
	for _, a := range outer {
		if a.missing {
			continue
		}
		matches := 0
		for _, b := range inner {
			if b.missing {
				continue
			}
			if c10JoinEq(a.key, b.key) {
				matches++
				if style != "anti" {
					want[pair{a.id, b.id}]++
				}
			}
		}
		if matches == 0 && (style == "left" || style == "right" || style == "anti") {
			want[pair{a.id, -1}]++
		}
	}
	missingOuter := map[int64]bool{}
	byID := map[int64]*c10JoinRow{}
	for _, a := range outer {
		byID[a.id] = a
		if a.missing {
			missingOuter[a.id] = true
		}
	}
	for _, v := range out {
		oid, ok := c10Field(v, outerID)
		if !ok {
			return fmt.Sprintf("output row %s lacks %s", prog.FormatValue(v), outerID)
		}
		if missingOuter[oid.Int()] {
			continue // outside the claim
		}
		p := pair{oid.Int(), -1}
		if iv, ok := c10Field(v, innerField); ok {
			p.i = iv.Int()
		}
		if want[p] == 0 {
			return fmt.Sprintf("unexpected output row %s (pair %s=%d, %s=%d)", prog.FormatValue(v), outerID, p.o, innerField, p.i)
		}
		want[p]--
		// the outer row's own fields come first, unchanged
		src := byID[p.o]
		rec := zed.TypeRecordOf(v.Type())
		srcRec := zed.TypeRecordOf(src.val.Type())
		if rec == nil || len(rec.Fields) < len(srcRec.Fields) {
			return fmt.Sprintf("output row %s does not start with its %s row %s", prog.FormatValue(v), outerID, prog.FormatValue(src.val))
		}
		it, sit := v.Bytes().Iter(), src.val.Bytes().Iter()
		for k, f := range srcRec.Fields {
			if rec.Fields[k].Name != f.Name || gen.TypeString(rec.Fields[k].Type) != gen.TypeString(f.Type) || string(it.Next()) != string(sit.Next()) {
				return fmt.Sprintf("output row %s does not carry its %s row %s unchanged", prog.FormatValue(v), outerID, prog.FormatValue(src.val))
			}
		}
	}
	for p, n := range want {
		if n > 0 {
			return fmt.Sprintf("missing output for pair %s=%d, %s=%d (-1 = unmatched outer row)", outerID, p.o, innerField, p.i)
		}
	}
	return ""
}

// ---------------------------------------------------------------- directed

var c10AggNames = []string{"count", "any", "avg", "dcount", "fuse", "sum", "min", "max", "union", "collect", "and", "or"}

var c10Directed = []struct {
	name string
	fn   func(c *rt.Ctx, o *rt.Obs)
}{
	{"spill-merges-1-1u-1f-and-null-missing", func(c *rt.Ctx, o *rt.Obs) {
		zctx := zed.NewContext()
		e := prog.CorpusEntry{Input: `{k:1,id:0}{k:1(uint64),id:1}{k:1.,id:2}{k:null(int64),id:3}{id:4}{k:1,id:5}`}
		vals, err := e.ReadInput(zctx)
		if err != nil {
			o.Violation("harness:directed-input", err.Error())
			return
		}
		text := "summarize c:=count() by k"
		o.Desc(map[string]any{"program": text, "input": e.Input, "configs": "no limit vs `with -limit 1`"})
		seq, _, _ := compiler.Parse(text)
		base, _ := c10Analyze(seq)
		direct := c10RunDAG(zctx, c10BuildGB(base, c10Config{}), vals)
		spilled := c10RunDAG(zctx, c10BuildGB(base, c10Config{Limit: 1}), vals)
		if direct.err != nil || spilled.err != nil {
			o.Violation("groupby:error", fmt.Sprint(direct.err, spilled.err))
			return
		}
		o.Count("spill_runs_observed", spilled.spills)
		if len(direct.vals) != 5 {
			o.Violation("groupby:wrong-result:direct", fmt.Sprintf("5 distinct keys (1, 1(uint64), 1., null, missing) but %d rows: %v", len(direct.vals), prog.FormatValues(direct.vals, 10)))
			return
		}
		p := &prog.Program{Mode: prog.ModeMultiset}
		if d := prog.Compare(p, zctx, direct.vals, spilled.vals); d != "" {
			if len(spilled.vals) == 2 {
				o.Violation("groupby:spill-merges-numerically-equal-keys-of-different-type", fmt.Sprintf("in memory: %v\nspilled (%d runs): %v", prog.FormatValues(direct.vals, 10), spilled.spills, prog.FormatValues(spilled.vals, 10)))
			} else {
				o.Violation("groupby:wrong-result:spill", d)
			}
		}
		o.Nontrivial("directed/0")
	}},
	{"aggregate-partial-of-empty-group-composes", func(c *rt.Ctx, o *rt.Obs) {
		// The partial result of an aggregate that consumed nothing (a group
		// whose argument is missing in every row of one spill run / one
		// fork leg) must compose: feeding it to a fresh function as a
		// partial, followed by real values, gives what the values alone give.
		zctx := zed.NewContext()
		o.Desc(map[string]any{"aggregates": c10AggNames, "sequence": "f1.ResultAsPartial() with nothing consumed → f2.ConsumeAsPartial → f2.Consume(values) → f2.Result"})
		samples := []zed.Value{zed.NewInt64(3), zed.NewInt64(5)}
		bools := []zed.Value{zed.True, zed.False}
		var failed []string
		for _, name := range c10AggNames {
			func() {
				defer func() {
					if r := recover(); r != nil {
						failed = append(failed, name)
						o.Violation("agg-partial:empty-partial-does-not-compose:"+name, fmt.Sprintf("%s: panic: %v", name, r))
					}
				}()
				pat, err := agg.NewPattern(name, true)
				if err != nil {
					o.Violation("harness:unknown-aggregate", err.Error())
					return
				}
				in := samples
				if name == "and" || name == "or" {
					in = bools
				}
				direct := pat()
				for _, v := range in {
					direct.Consume(v)
				}
				want := direct.Result(zctx)
				empty := pat()
				partial := empty.ResultAsPartial(zctx)
				f2 := pat()
				f2.ConsumeAsPartial(partial)
				for _, v := range in {
					f2.Consume(v)
				}
				got := f2.Result(zctx)
				if c10RawKey(want) != c10RawKey(got) && name != "any" {
					o.Violation("agg-partial:empty-partial-changes-result:"+name, fmt.Sprintf("%s: direct %s, after an empty partial %s", name, prog.FormatValue(want), prog.FormatValue(got)))
				}
			}()
		}
		o.Count("aggregates_checked_for_empty_partial", int64(len(c10AggNames)))
		o.Nontrivial("directed/1")
	}},
	{"collect-of-records-of-two-types-spilled", func(c *rt.Ctx, o *rt.Obs) {
		zctx := zed.NewContext()
		e := prog.CorpusEntry{Input: `{k:1,r:{x:1}}{k:1,r:{x:1,y:"a"}}{k:2,r:{x:2}}{k:1,r:{x:3}}{k:2,r:{x:4,y:"b"}}`}
		vals, err := e.ReadInput(zctx)
		if err != nil {
			o.Violation("harness:directed-input", err.Error())
			return
		}
		text := "summarize c:=collect(r) by k"
		o.Desc(map[string]any{"program": text, "input": e.Input, "configs": "no limit vs `with -limit 1`"})
		seq, _, _ := compiler.Parse(text)
		base, _ := c10Analyze(seq)
		direct := c10RunDAG(zctx, c10BuildGB(base, c10Config{}), vals)
		spilled := c10RunDAG(zctx, c10BuildGB(base, c10Config{Limit: 1}), vals)
		o.Nontrivial("directed/collect")
		if direct.err != nil || spilled.err != nil {
			o.Violation("groupby:error", fmt.Sprint(direct.err, spilled.err))
			return
		}
		o.Count("spill_runs_observed", spilled.spills)
		p := &prog.Program{Mode: prog.ModeMultiset, Norm: map[string]prog.Norm{"c": prog.NormMultiset}}
		if d := prog.Compare(p, zctx, direct.vals, spilled.vals); d != "" {
			invalid := false
			for _, v := range spilled.vals {
				if v.Validate() != nil {
					invalid = true
				}
			}
			if invalid {
				o.Violation("agg-partial:collect:elements-from-spill-context:invalid-union-value", "the spilled result does not validate: its array elements are tagged against a union of the query's context with member types of the spill file's private context\n"+d)
			} else {
				o.Violation("groupby:wrong-result:spill", d)
			}
		}
	}},
	{"join-descending-legs-null-keys", func(c *rt.Ctx, o *rt.Obs) {
		zctx := zed.NewContext()
		mk := func(side, idName, keyName string, keys []zed.Value) []*c10JoinRow {
			var rows []*c10JoinRow
			for i, k := range keys {
				row := &c10JoinRow{id: int64(i), key: k}
				row.val = prog.Record(zctx, []string{"side", idName, keyName}, []zed.Value{zed.NewString(side), zed.NewInt64(int64(i)), k})
				rows = append(rows, row)
			}
			return rows
		}
		left := mk("L", "lid", "l", []zed.Value{zed.NewInt64(1), zed.NullInt64, zed.NewInt64(2)})
		right := mk("R", "rid", "r", []zed.Value{zed.NewInt64(3), zed.NullInt64})
		var vals []zed.Value
		for _, x := range append(left, right...) {
			vals = append(vals, x.val)
		}
		text := `fork (=> where side=="L" | sort l desc => where side=="R" | sort r desc) | inner join on l=r jr:=rid`
		o.Desc(map[string]any{"program": text, "left_keys": "1, null, 2", "right_keys": "3, null", "optimized": true})
		out, dagText, err := c10RunJoin(zctx, text, vals, true)
		if err != nil {
			o.Violation("join:error", err.Error())
			return
		}
		if d := c10CheckJoin("inner", left, right, out); d != "" {
			// the same join with ascending legs is right?
			asc := strings.ReplaceAll(text, " desc", "")
			out2, _, err2 := c10RunJoin(zctx, asc, vals, true)
			if err2 == nil && c10CheckJoin("inner", left, right, out2) == "" && len(out) == 0 {
				o.Violation("join:descending-order:null-keys-do-not-match", fmt.Sprintf("%s\noutput: %v\nwith ascending legs the pair (null,null) comes out\nDAG: %s", d, prog.FormatValues(out, 10), dagText))
			} else {
				o.Violation("join:wrong-pairs:sorted+desc:optimized", fmt.Sprintf("%s\noutput: %v\nDAG: %s", d, prog.FormatValues(out, 10), dagText))
			}
		}
		o.Nontrivial("directed/2")
	}},
}

func init() {
	c10Directed = append(c10Directed, struct {
		name string
		fn   func(c *rt.Ctx, o *rt.Obs)
	}{"sorted-input-group-by-that-spills", func(c *rt.Ctx, o *rt.Obs) {
		o.Desc(map[string]any{"program": "summarize c:=count() by g", "input": "12 rows {a,b,c,d,g} sorted on g, two per key", "config": "input_sort_dir=1, limit=2 (child process)"})
		out, err := c10Helper("sorted-input-spill")
		o.Nontrivial("directed/3")
		if err == nil && strings.Contains(out, "HELPER-RESULT err=<nil>") {
			// it ran: the six groups must each count 2
			if strings.Count(out, "c:2(uint64)") != 6 {
				o.Violation("groupby:wrong-result:spill+sorted-input", out)
			}
			return
		}
		if i := strings.Index(out, "panic:"); i >= 0 {
			line := out[i:]
			if j := strings.Index(line, "\n"); j > 0 {
				line = line[:j]
			}
			msg := c07NumRE.ReplaceAllString(line, "N")
			o.Violation("groupby:sorted-input+spill:process-crash:"+rt.InnermostRepoFrame(out[i:]), msg+"\n"+rt.TrimStack(out[i:], 30))
			return
		}
		o.Violation("groupby:sorted-input+spill:helper-failed", fmt.Sprintf("%v\n%s", err, rt.TrimStack(out, 30)))
	}})
}

var _ = zcode.Bytes(nil)
var _ = order.Asc

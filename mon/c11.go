package main

import (
	"bytes"
	"context"
	"encoding/binary"
	"encoding/hex"
	"encoding/json"
	"fmt"
	"io"
	"io/fs"
	"os"
	"path/filepath"
	"reflect"
	"regexp"
	"runtime"
	"runtime/debug"
	"sort"
	"strings"
	"sync"
	"time"

	zed "github.com/brimdata/super"
	"github.com/brimdata/super/compiler"
	"github.com/brimdata/super/compiler/data"
	"github.com/brimdata/super/compiler/optimizer/demand"
	"github.com/brimdata/super/compiler/semantic"
	"github.com/brimdata/super/vng"
	"github.com/brimdata/super/zio"
	"github.com/brimdata/super/zio/anyio"
	"github.com/brimdata/super/zio/csvio"
	"github.com/brimdata/super/zio/zngio"
	"github.com/brimdata/super/ztest"

	"verif/internal/gen"
	"verif/internal/rt"
)

func init() { register("C11", runC11) }

const c11ReadMax = 1 << 20 // ReaderOpts.Max for every ZNG reader of this monitor

// c11Reader is one reader configuration.
type c11Reader struct {
	Format   string `json:"format"` // zng vng zson zjson json csv tsv zeek line | auto
	Threads  int    `json:"threads,omitempty"`
	Validate bool   `json:"validate,omitempty"`
	Size     int    `json:"size,omitempty"`
	Seekable bool   `json:"seekable,omitempty"`
}

func (rc c11Reader) name() string {
	switch rc.Format {
	case "zng":
		if rc.Threads == 1 {
			return "zng-sync"
		}
		return "zng-threaded"
	case "auto":
		if rc.Seekable {
			return "auto-seekable"
		}
		return "auto-stream"
	}
	return rc.Format
}

type c11Out struct {
	Label      string // reader package a panic belongs to (from the full stack)
	Detected   string // reader type that produced the values (for auto: what detection chose)
	Values     int
	Err        string
	Panic      string // message
	PanicSig   string // innermost repo frame + message without numbers
	Stack      string
	Timeout    bool
	Alloc      uint64
	Walk       string // first structural inconsistency found by the harness walk
	WalkVal    string
	BadLeaves  int
	Walked     int
	Leaked     int
	LeakSample string
}

// onlyReader hides Seek/ReadAt so that anyio takes its streaming path.
type onlyReader struct{ r io.Reader }

func (o onlyReader) Read(p []byte) (int, error) { return o.r.Read(p) }

var c11NumRE = regexp.MustCompile(`0x[0-9a-fA-F]+|\d+`)

var c11ReaderPkgs = []struct{ frag, label string }{
	{"brimdata/super/zio/vngio.", "vng"}, {"brimdata/super/vng.", "vng"}, {"brimdata/super/zio/zngio.", "zng"},
	{"brimdata/super/zio/zsonio.", "zson"}, {"brimdata/super/zson.", "zson"}, {"brimdata/super/zio/zjsonio.", "zjson"},
	{"brimdata/super/zio/jsonio.", "json"}, {"brimdata/super/zio/csvio.", "csv"}, {"brimdata/super/zio/zeekio.", "zeek"},
	{"brimdata/super/zio/lineio.", "line"}, {"brimdata/super/zio/arrowio.", "arrows"}, {"brimdata/super/zio/parquetio.", "parquet"},
}

// c11ReaderLabel names the reader a panic belongs to by the outermost reader
// package on its stack (so that a VNG panic reached through auto-detection
// and through the explicit reader is one defect).
func c11ReaderLabel(stack, fallback string) string {
	// in a dump of all goroutines only one block is the event: for a hang the
	// goroutine executing the request, for a fatal error the first goroutine
	// listed after the error line that has a repo frame
	if blocks := strings.Split(stack, "\n\n"); len(blocks) > 1 {
		pick := ""
		for _, b := range blocks {
			if strings.Contains(b, "main.c11ExecLocal") || strings.Contains(b, "main.c11CompileLocal") {
				pick = b
			}
		}
		if i := strings.Index(stack, "fatal error:"); i >= 0 || strings.Contains(stack, "\npanic:") || strings.HasPrefix(stack, "panic:") {
			for _, b := range blocks {
				if strings.Contains(b, "github.com/brimdata/super") && (strings.Contains(b, "[running]") || strings.Contains(b, "goroutine ")) {
					pick = b
					break
				}
			}
		}
		if pick != "" {
			stack = pick
		}
	}
	lines := strings.Split(stack, "\n")
	for i := len(lines) - 1; i >= 0; i-- {
		for _, p := range c11ReaderPkgs {
			if strings.Contains(lines[i], p.frag) && !strings.HasPrefix(lines[i], "\t") {
				if p.label == "csv" && strings.HasPrefix(fallback, "tsv") {
					return "csv"
				}
				return p.label
			}
		}
	}
	return fallback
}

func c11FullStack() string {
	buf := make([]byte, 1<<20)
	n := runtime.Stack(buf, false)
	return string(buf[:n])
}

var c11QuotedRE = regexp.MustCompile("\"[^\"]*\"|`[^`]*`")

func c11PanicSig(pan any, stack string) string {
	// numbers and quoted (input-dependent) text are stripped from the message
	msg := c11QuotedRE.ReplaceAllString(fmt.Sprint(pan), "\"…\"")
	msg = c11NumRE.ReplaceAllString(msg, "N")
	if len(msg) > 120 {
		msg = msg[:120]
	}
	return rt.InnermostRepoFrame(stack) + ":" + msg
}

// c11ExecLocal runs one reader over input in this process (the helper
// process, see c11_helper.go).  Everything inside is either a call of the
// reader under test (NewReader, Read, Close) or harness code that cannot panic
// (the structural walk has its own recover and reports itself), so the recover
// here is exactly the reader-call scope.
func c11ExecLocal(rc c11Reader, input []byte) (out c11Out) {
	base := runtime.NumGoroutine()
	func() {
		var ms0, ms1 runtime.MemStats
		runtime.ReadMemStats(&ms0)
		defer func() {
			if r := recover(); r != nil {
				out.Panic = fmt.Sprint(r)
				full := c11FullStack()
				out.Label = c11ReaderLabel(full, "")
				out.Stack = rt.TrimStack(full, 60)
				out.PanicSig = c11PanicSig(r, out.Stack)
			}
			runtime.ReadMemStats(&ms1)
			out.Alloc = ms1.TotalAlloc - ms0.TotalAlloc
		}()
		zctx := zed.NewContext()
		var src io.Reader = bytes.NewReader(input)
		if rc.Format == "auto" && !rc.Seekable {
			src = onlyReader{src}
		}
		opts := anyio.ReaderOpts{Format: rc.Format}
		opts.ZNG = zngio.ReaderOpts{Validate: rc.Validate, Threads: rc.Threads, Size: rc.Size, Max: c11ReadMax}
		if rc.Format == "tsv" {
			opts.CSV = csvio.ReaderOpts{Delim: '\t'}
		}
		zr, err := anyio.NewReaderWithOpts(zctx, src, demand.All(), opts)
		if err != nil {
			out.Err = err.Error()
			return
		}
		defer zr.Close()
		out.Detected = c11Detected(zr)
		for {
			v, err := zr.Read()
			if err != nil {
				out.Err = err.Error()
				return
			}
			if v == nil {
				return
			}
			out.Values++
			if rc.Validate && out.Detected == "zng" {
				w := c11WalkValue(*v)
				out.Walked++
				out.BadLeaves += w.badLeaves
				if w.problem != "" && out.Walk == "" {
					out.Walk = w.problem
					out.WalkVal = fmt.Sprintf("type %s bytes %x", gen.TypeString(v.Type()), v.Bytes())
					if len(out.WalkVal) > 1500 {
						out.WalkVal = out.WalkVal[:1500] + "…"
					}
				}
			}
		}
	}()
	if len(out.Err) > 300 {
		out.Err = out.Err[:300]
	}
	// goroutines: after Close nothing of the reader may be left running
	if n, sample := settleGoroutines("github.com/brimdata/super/", base); n > 0 {
		out.Leaked = n
		out.LeakSample = rt.TrimStack(sample, 30)
	}
	return out
}

// c11Detected names the concrete reader behind what anyio returned.
func c11Detected(zr any) string {
	v := reflect.ValueOf(zr)
	for i := 0; i < 3 && v.IsValid(); i++ {
		if v.Kind() == reflect.Struct && v.NumField() > 0 && strings.HasSuffix(v.Type().String(), "ReadCloser") {
			v = v.Field(0)
			if v.Kind() == reflect.Interface {
				v = v.Elem()
			}
			continue
		}
		break
	}
	if !v.IsValid() {
		return "?"
	}
	t := v.Type().String()
	for _, m := range []struct{ frag, label string }{{"zngio.", "zng"}, {"vng.", "vng"}, {"zsonio.", "zson"}, {"zjsonio.", "zjson"}, {"jsonio.", "json"},
		{"csvio.", "csv"}, {"zeekio.", "zeek"}, {"lineio.", "line"}, {"arrowio.", "arrows"}, {"parquetio.", "parquet"}} {
		if strings.Contains(t, m.frag) {
			return m.label
		}
	}
	return t
}

// ------------------------------------------------------------ structural walk

type c11Walk struct {
	problem   string
	badLeaves int
	nodes     int
}

type c11Elem struct {
	raw  []byte // tag + body
	body []byte
	null bool
}

// c11Split splits a container body into its elements; ok=false on bad framing.
func c11Split(b []byte) (elems []c11Elem, ok bool) {
	for len(b) > 0 {
		var u uint64
		n := 0
		for shift := uint(0); ; shift += 7 {
			if n >= len(b) || n >= 10 {
				return nil, false
			}
			c := b[n]
			n++
			u |= uint64(c&0x7f) << shift
			if c < 0x80 {
				break
			}
		}
		if u == 0 {
			elems = append(elems, c11Elem{raw: b[:n], null: true})
			b = b[n:]
			continue
		}
		l := u - 1
		if l > uint64(len(b)-n) {
			return nil, false
		}
		end := n + int(l)
		elems = append(elems, c11Elem{raw: b[:end], body: b[n:end]})
		b = b[end:]
	}
	return elems, true
}

// c11Next parses the first element of a container body.
func c11Next(b []byte) (e c11Elem, n int, ok bool) {
	var u uint64
	for shift := uint(0); ; shift += 7 {
		if n >= len(b) || n >= 10 {
			return e, 0, false
		}
		c := b[n]
		n++
		u |= uint64(c&0x7f) << shift
		if c < 0x80 {
			break
		}
	}
	if u == 0 {
		return c11Elem{raw: b[:n], null: true}, n, true
	}
	l := u - 1
	if l > uint64(len(b)-n) {
		return e, 0, false
	}
	end := n + int(l)
	return c11Elem{raw: b[:end], body: b[n:end]}, end, true
}

// counted (little-endian, variable width) integers, with the same wrap-around
// the code's own decoder has for over-long encodings.
func c11Uint(b []byte) uint64 {
	var u uint64
	for i := len(b) - 1; i >= 0; i-- {
		u = u<<8 | uint64(b[i])
	}
	return u
}

func c11Int(b []byte) int64 {
	u := c11Uint(b)
	if u&1 != 0 {
		u >>= 1
		if u == 0 {
			return -1 << 63
		}
		return -int64(u)
	}
	return int64(u >> 1)
}

func c11WalkValue(v zed.Value) (w c11Walk) {
	defer func() {
		if r := recover(); r != nil {
			w.problem = fmt.Sprintf("HARNESS-BUG: walk panicked: %v", r)
		}
	}()
	if v.Type() == nil {
		w.problem = "value has nil type"
		return w
	}
	w.walk(v.Type(), v.Bytes(), v.IsNull(), 0)
	return w
}

func (w *c11Walk) fail(s string) {
	if w.problem == "" {
		w.problem = s
	}
}

var c11LeafWidth = map[int][2]int{ // id → min,max byte width of a non-null value
	zed.IDUint8: {0, 8}, zed.IDUint16: {0, 8}, zed.IDUint32: {0, 8}, zed.IDUint64: {0, 8},
	zed.IDInt8: {0, 8}, zed.IDInt16: {0, 8}, zed.IDInt32: {0, 8}, zed.IDInt64: {0, 8},
	zed.IDDuration: {0, 8}, zed.IDTime: {0, 8},
	zed.IDFloat16: {2, 2}, zed.IDFloat32: {4, 4}, zed.IDFloat64: {8, 8}, zed.IDBool: {1, 1},
}

func (w *c11Walk) walk(t zed.Type, b []byte, null bool, depth int) {
	w.nodes++
	if w.problem != "" || null {
		return
	}
	if depth > 500 || w.nodes > 1<<20 {
		return
	}
	switch t := t.(type) {
	case nil:
		w.fail("nil type inside value")
	case *zed.TypeNamed:
		w.walk(t.Type, b, null, depth+1)
	case *zed.TypeError:
		w.walk(t.Type, b, null, depth+1)
	case *zed.TypeRecord:
		// exactly one element per field; what follows the last field is
		// reported separately from broken framing inside the fields
		rest := b
		for _, f := range t.Fields {
			if len(rest) == 0 {
				w.fail("record: fewer elements than fields")
				return
			}
			e, n, ok := c11Next(rest)
			if !ok {
				w.fail("record: container framing broken")
				return
			}
			rest = rest[n:]
			w.walk(f.Type, e.body, e.null, depth+1)
		}
		if len(rest) > 0 {
			w.fail("record: bytes after the last field")
		}
	case *zed.TypeArray:
		elems, ok := c11Split(b)
		if !ok {
			w.fail("array: container framing broken")
			return
		}
		for _, e := range elems {
			w.walk(t.Type, e.body, e.null, depth+1)
		}
	case *zed.TypeSet:
		elems, ok := c11Split(b)
		if !ok {
			w.fail("set: container framing broken")
			return
		}
		for i, e := range elems {
			if i > 0 {
				switch bytes.Compare(elems[i-1].raw, e.raw) {
				case 0:
					w.fail("set: duplicate element")
				case 1:
					w.fail("set: elements not sorted")
				}
			}
		}
		for _, e := range elems {
			w.walkInSet(t.Type, e.body, e.null, depth+1)
		}
	case *zed.TypeMap:
		elems, ok := c11Split(b)
		if !ok {
			w.fail("map: container framing broken")
			return
		}
		if len(elems)%2 != 0 {
			w.fail("map: odd number of elements")
			return
		}
		for i, e := range elems {
			if i%2 == 0 {
				w.walk(t.KeyType, e.body, e.null, depth+1)
			} else {
				w.walk(t.ValType, e.body, e.null, depth+1)
			}
		}
	case *zed.TypeUnion:
		elems, ok := c11Split(b)
		if !ok {
			w.fail("union: container framing broken")
			return
		}
		if len(elems) != 2 {
			w.fail(fmt.Sprintf("union: container has %d elements instead of 2", min(len(elems), 3)))
			return
		}
		tag := c11Int(elems[0].body)
		if tag < 0 || tag >= int64(len(t.Types)) {
			w.fail("union: tag out of range")
			return
		}
		w.walk(t.Types[tag], elems[1].body, elems[1].null, depth+1)
	case *zed.TypeEnum:
		if c11Uint(b) >= uint64(len(t.Symbols)) {
			w.fail("enum: selector out of range")
		}
	default:
		if wd, ok := c11LeafWidth[t.ID()]; ok && (len(b) < wd[0] || len(b) > wd[1]) {
			w.badLeaves++
		}
	}
}

// walkInSet marks problems found below a set so that the signature tells
// whether the repo's validator would have had to descend into a set.
func (w *c11Walk) walkInSet(t zed.Type, b []byte, null bool, depth int) {
	before := w.problem
	w.walk(t, b, null, depth)
	if before == "" && w.problem != "" && !strings.HasPrefix(w.problem, "inside set: ") {
		w.problem = "inside set: " + w.problem
	}
}

// ------------------------------------------------------------ corpus

var c11Corpus struct {
	once    sync.Once
	root    string
	yamls   []string
	queries []string // valid.zed lines
}

func c11RepoRoot() string {
	if bi, ok := debug.ReadBuildInfo(); ok {
		for _, d := range bi.Deps {
			if d.Path == "github.com/brimdata/super" && d.Replace != nil && d.Replace.Path != "" {
				return d.Replace.Path
			}
		}
	}
	return "/repo"
}

func c11LoadCorpus() {
	c11Corpus.once.Do(func() {
		root := c11RepoRoot()
		if !filepath.IsAbs(root) {
			if vd := os.Getenv("VERIF_DIR"); vd != "" {
				root = filepath.Join(vd, root)
			}
		}
		c11Corpus.root = root
		filepath.WalkDir(root, func(p string, d fs.DirEntry, err error) error {
			if err != nil {
				return nil
			}
			if d.IsDir() {
				if n := d.Name(); n == ".git" || n == "node_modules" {
					return filepath.SkipDir
				}
				return nil
			}
			if strings.HasSuffix(p, ".yaml") && strings.Contains(p, "ztests") {
				c11Corpus.yamls = append(c11Corpus.yamls, p)
			}
			return nil
		})
		sort.Strings(c11Corpus.yamls)
		if b, err := os.ReadFile(filepath.Join(root, "compiler/parser/valid.zed")); err == nil {
			for _, l := range strings.Split(string(b), "\n") {
				if strings.TrimSpace(l) != "" {
					c11Corpus.queries = append(c11Corpus.queries, l)
				}
			}
		}
	})
}

var c11FallbackQueries = []string{"count() by _path", "sort -r a, b | head 5", "yield {a:1,b:[1,2,3]} | over b => (sum(this))",
	"from ( file a.zson => put x:=1 file b.zson ) | join on a=b c:=d", "switch x ( case 1 => yield 'a' default => pass )",
	"const X = 1 func f(a): (a+X) yield f(2)", "yield <{a:int64,b:[string]}>, |[1,2]|, |{1:\"a\"}|, 1.2.3.4/24, 2020-01-01T00:00:00Z, 1h3m",
	"where a matches /fo+/ and not (b in [1,2,3]) or c?d:e", "summarize c:=collect(x) by k with -limit 10", "type T = {a:int64} yield <T>, cast({a:1}, <T>)"}

// c11Program picks a seed program: a valid.zed line or a ztest's zed field.
func c11Program(r *rt.Rand) (string, string) {
	c11LoadCorpus()
	nq, ny := len(c11Corpus.queries), len(c11Corpus.yamls)
	if nq+ny == 0 {
		return rt.Pick(r, c11FallbackQueries), "fallback"
	}
	for try := 0; try < 8; try++ {
		i := r.Intn(nq + ny + len(c11FallbackQueries))
		if i < nq {
			return c11Corpus.queries[i], fmt.Sprintf("valid.zed:%d", i)
		}
		i -= nq
		if i < len(c11FallbackQueries) {
			return c11FallbackQueries[i], "fallback"
		}
		i -= len(c11FallbackQueries)
		zt, err := c11LoadYAML(c11Corpus.yamls[i])
		if err != nil || zt.Zed == "" || len(zt.Zed) > 4000 {
			continue
		}
		return zt.Zed, strings.TrimPrefix(c11Corpus.yamls[i], c11Corpus.root+"/")
	}
	return rt.Pick(r, c11FallbackQueries), "fallback"
}

func c11LoadYAML(path string) (zt *ztest.ZTest, err error) {
	defer func() {
		if r := recover(); r != nil {
			err = fmt.Errorf("yaml: %v", r)
		}
	}()
	return ztest.FromYAMLFile(path)
}

// c11CorpusInput picks the inline input of a ztest (a repo test input).
func c11CorpusInput(r *rt.Rand) ([]byte, string) {
	c11LoadCorpus()
	if len(c11Corpus.yamls) == 0 {
		return nil, ""
	}
	for try := 0; try < 6; try++ {
		p := rt.Pick(r, c11Corpus.yamls)
		zt, err := c11LoadYAML(p)
		if err != nil || zt.Input == "" || len(zt.Input) > 3000 {
			continue
		}
		return []byte(zt.Input), strings.TrimPrefix(p, c11Corpus.root+"/")
	}
	return nil, ""
}

// ------------------------------------------------------------ seeds

var c11ByteFormats = []string{"zng", "zng", "zson", "zjson", "json", "csv", "tsv", "zeek", "line"}

var c11StaticSeeds = map[string]string{
	"zson":  "{a:1,b:\"x\",c:[1,2,3],d:|[1,2]|,e:|{1:\"a\"}|,f:1.5,g:<int64>,h:{i:1.2.3.4}}\n{a:2}(=foo)\n",
	"zjson": `{"type":{"kind":"record","id":30,"fields":[{"name":"a","type":{"kind":"primitive","name":"int64"}}]},"value":["1"]}` + "\n",
	"json":  `{"a":1,"b":[1,2.5,"x",null,true],"c":{"d":{}}}` + "\n[1,2]\n",
	"csv":   "a,b,c\n1,x,1.5\n2,\"y,z\",\n",
	"tsv":   "a\tb\tc\n1\tx\t1.5\n2\ty\t\n",
	"zeek":  "#separator \\x09\n#set_separator\t,\n#empty_field\t(empty)\n#unset_field\t-\n#path\tconn\n#fields\tts\tid\tn\n#types\ttime\tstring\tint\n1.5\ta\t1\n",
	"line":  "hello\nworld\n\nlast",
}

// c11Seed produces a valid encoding in format f plus the structural hot spots.
func c11Seed(r *rt.Rand, f string, quick bool) (seed []byte, hot []int, src string) {
	zctx := zed.NewContext()
	n := r.Range(1, 10)
	if f == "vng" {
		n = r.Range(1, 6)
	}
	switch f {
	case "zson", "line":
		if r.Chance(1, 3) {
			if b, p := c11CorpusInput(r); b != nil {
				return b, nil, "ztest input " + p
			}
		}
	}
	wfmt := f
	if f == "line" {
		wfmt = "text"
	}
	var vals []zed.Value
	if wfmt == "zng" {
		vals = gen.Sequence(r, zctx, gen.TypeOpts{}, gen.ValOpts{}, r.Range(1, 3), r.Range(1, 4), n)
	} else {
		vals = c18Values(r, zctx, wfmt, n)
	}
	var buf bytes.Buffer
	err := func() (err error) {
		defer func() {
			if r := recover(); r != nil {
				err = fmt.Errorf("writer panic: %v", r)
			}
		}()
		opts := anyio.WriterOpts{Format: wfmt}
		if wfmt == "zng" {
			opts.ZNG = &zngio.WriterOpts{Compress: r.Chance(1, 3), FrameThresh: rt.Pick(r, []int{1, 7, 64, 300, zngio.DefaultFrameThresh})}
		}
		if wfmt == "zson" {
			opts.ZSON.Pretty = rt.Pick(r, []int{0, 0, 2})
		}
		w, err := anyio.NewWriter(nopCloser{&buf}, opts)
		if err != nil {
			return err
		}
		eos := -1
		if wfmt == "zng" && len(vals) > 1 && r.Chance(1, 3) {
			eos = r.Intn(len(vals))
		}
		for i, v := range vals {
			if i == eos {
				if zw, ok := w.(*zngio.Writer); ok {
					zw.EndStream()
				}
			}
			if err := w.Write(v); err != nil {
				return err
			}
		}
		return w.Close()
	}()
	if err != nil || buf.Len() == 0 {
		if s, ok := c11StaticSeeds[f]; ok {
			return []byte(s), nil, "static"
		}
		if f == "zng" || f == "vng" {
			// a minimal valid stream of the format
			var b bytes.Buffer
			w, _ := anyio.NewWriter(nopCloser{&b}, anyio.WriterOpts{Format: f})
			w.Write(zed.NewInt64(1))
			w.Close()
			return b.Bytes(), nil, "minimal"
		}
	}
	seed = buf.Bytes()
	switch f {
	case "zng":
		hot = gen.ZNGHotspots(seed)
	case "vng":
		if len(seed) >= vng.HeaderSize {
			meta := int(binary.LittleEndian.Uint64(seed[8:]))
			if meta < 0 || meta > len(seed) {
				meta = 0
			}
			hot = gen.PrefixHotspots(vng.HeaderSize+meta, len(seed))
		}
	}
	return seed, hot, fmt.Sprintf("generated %d values", len(vals))
}

// ------------------------------------------------------------ monitor

type c11Desc struct {
	Format  string      `json:"format"`
	Seed    string      `json:"seed_source"`
	Ops     []string    `json:"mutations"`
	Len     int         `json:"len"`
	Hex     string      `json:"hex"`
	Readers []c11Reader `json:"readers"`
}

func c11Hex(b []byte) string {
	if len(b) > 4096 {
		return hex.EncodeToString(b[:4096]) + fmt.Sprintf("…(+%d bytes; regenerate by replay)", len(b)-4096)
	}
	return hex.EncodeToString(b)
}

type c11State struct {
	c        *rt.Ctx
	h        *c11Helper
	wd, wd2  time.Duration
	maxAlloc map[string]uint64
}

func runC11(c *rt.Ctx) {
	c.Note("rule", "case = one deterministic structured mutant (truncation, bit flips and byte overwrites biased to frame headers / typedef frames / tags / VNG header+metadata, huge varints, insert/delete/duplicate/splice, for text formats also structural tokens, nesting runs and long tokens) of a valid encoding (generated values or a ztest input) fed to the format's explicit reader(s) and to anyio auto-detection (seekable / streaming); or one token-level mutant of a corpus program (valid.zed, ztest zed fields) fed to compiler.Parse + semantic.AnalyzeAddSource; non-trivial = the reader handed out ≥1 value before it failed (bytes) or the mutant still parsed and reached semantic analysis (query); distinct by case id")
	c.Note("assumptions", strings.Join([]string{
		"recover scope is the reader's own calls (anyio.NewReaderWithOpts/lookup, Read, Close) and compiler.Parse/semantic.Analyze; values handed out are never formatted or evaluated with repo code (consumer-side panics on malformed leaves are outside the statement)",
		"every reader / compiler call runs in a helper process of the monitor child (same binary): a panic on a reader-owned goroutine or any Go fatal error (out of memory under ulimit -v 6 GiB, stack overflow) kills only the helper and is reported as fatal:<reader>:<frame>:<message> with the input; the helper is restarted",
		"hang = no answer within the watchdog (30 s, ≥1000× the normal case time), confirmed by re-running the single input alone in a fresh helper with a 120 s watchdog before it counts; generated nesting runs are kept ≤400 (text) / ≤40 (query) so that parsers whose cost is polynomial in nesting depth stay far below the watchdog; the stuck frame is read from the helper's SIGQUIT goroutine dump",
		"allocation bound for ZNG with ReaderOpts.Max = 1 MiB: TotalAlloc delta ≤ 24 MiB + 64·len(input) + 2·(threads+2)·Max; other readers have no configurable limit and are held to the linear bound 64 MiB + 1024·len(input) (auto-detection: twice that plus the ZNG term, since every candidate reader runs once)",
		"with Validate on, each handed-out value is checked by a harness walk: container framing, field count, map arity, union arity and tag range, enum selector range, set order and uniqueness; leaf widths are counted but not demanded (Validate documents that it does not check leaves)",
		"goroutines: after Close the process goroutine count returns to the case's baseline (600 yields/sleeps) or no goroutine with a repo frame is left",
		"Go's native fuzzing engine is not used (optional in the design); thorough is the deterministic generator ×10",
	}, "\n"))
	debug.SetGCPercent(400)
	st := &c11State{c: c, wd: 30 * time.Second, wd2: 120 * time.Second, maxAlloc: map[string]uint64{}}
	st.h = newC11Helper(c)
	defer st.h.stop()
	nbytes := c.N(6300, 40000)
	nvng := c.N(1200, 8000)
	nquery := c.N(1500, 10000)
	for i := range c11Directed {
		c.Case("directed", i, func(o *rt.Obs) { st.directedCase(o, i) })
	}
	for i := 0; i < nquery; i++ {
		c.Case("query", i, func(o *rt.Obs) { st.queryCase(o, i) })
	}
	// grammar-generated programs: typed constants in every argument slot
	nqgen := c.N(3000, 40000)
	for i := 0; i < nqgen; i++ {
		c.Case("qgen", i, func(o *rt.Obs) { st.qgenCase(o, i) })
	}
	// slot sweep: every count / limit / key / function argument slot × every typed
	// constant (quick: a seeded third)
	for i, n := 0, c11SlotCases(); i < n; i++ {
		if c.Quick() && int(rt.NewRand(uint64(i)*2654435761+c.Seed).Uint64()%3) != 0 {
			continue
		}
		c.Case("qslot", i, func(o *rt.Obs) { st.qslotCase(o, i) })
	}
	for i := 0; i < nbytes; i++ {
		c.Case("bytes", i, func(o *rt.Obs) { st.bytesCase(o, c11ByteFormats[i%len(c11ByteFormats)], i) })
	}
	// VNG last: its reader has no allocation limit, so a fatal out-of-memory
	// there cannot take the other formats' cases with it
	for i := 0; i < nvng; i++ {
		c.Case("vng", i, func(o *rt.Obs) { st.bytesCase(o, "vng", i) })
	}
	for k, v := range st.maxAlloc {
		c.Max("max_alloc_bytes_"+k, int64(v))
	}
	c.Count("helper_process_starts", int64(st.h.starts))
}

func (st *c11State) readersFor(r *rt.Rand, f string, i int) []c11Reader {
	size := rt.Pick(r, []int{4096, 4096, 65536, 0})
	auto := c11Reader{Format: "auto", Seekable: i%2 == 0, Threads: rt.Pick(r, []int{1, 4}), Validate: r.Bool(), Size: size}
	switch f {
	case "zng":
		return []c11Reader{
			{Format: "zng", Threads: 1, Validate: r.Bool(), Size: size},
			{Format: "zng", Threads: 4, Validate: r.Bool(), Size: size},
			auto,
		}
	case "vng":
		auto.Seekable = true
		return []c11Reader{{Format: "vng"}, auto}
	}
	return []c11Reader{{Format: f}, auto}
}

func (st *c11State) bytesCase(o *rt.Obs, f string, i int) {
	r := o.R
	quick := st.c.Quick()
	seed, hot, src := c11Seed(r, f, quick)
	var other []byte
	if r.Chance(1, 6) {
		other, _, _ = c11Seed(r, rt.Pick(r, c11ByteFormats), quick)
	}
	text := f != "zng" && f != "vng"
	// nesting runs and long tokens stay small enough that the super-linear
	// (quadratic) costs some parsers have in nesting depth remain far below the
	// watchdog: slow-but-terminating is not what the watchdog is for
	maxNest := 300
	if !quick {
		maxNest = 400
	}
	mutant, ops := gen.Mutate(r, seed, gen.MutOpts{Hot: hot, Text: text, MaxNest: maxNest, Other: other})
	if i%50 == 49 { // a share of unmutated inputs keeps the harness honest
		mutant, ops = seed, []string{"none"}
	}
	readers := st.readersFor(r, f, i)
	desc := c11Desc{Format: f, Seed: src, Ops: ops, Len: len(mutant), Hex: c11Hex(mutant), Readers: readers}
	o.Desc(desc)
	if i%4000 == 0 {
		o.Sample(map[string]any{"format": f, "seed": src, "mutations": ops, "len": len(mutant), "readers": readers})
	}
	st.runReaders(o, readers, mutant)
}

func (st *c11State) runReaders(o *rt.Obs, readers []c11Reader, input []byte) {
	c := st.c
	nontrivial := false
	for _, rc := range readers {
		name := rc.name()
		rcJSON, _ := json.Marshal(rc)
		replay := fmt.Sprintf("READER-JSON: %s\nINPUT-HEX: %s", rcJSON, c11Hex(input))
		var out c11Out
		status, post := st.h.call(c11Req{Kind: "reader", RC: rc, Hex: hex.EncodeToString(input)}, &out, st.wd)
		if status == "timeout" {
			// confirm alone (fresh helper process), with a longer allowance, before it counts
			c.Count("watchdog_first_fired", 1)
			status, post = st.h.call(c11Req{Kind: "reader", RC: rc, Hex: hex.EncodeToString(input)}, &out, st.wd2)
			if status == "timeout" {
				frame := c11StuckFrameOf(post)
				o.Violation("hang:"+c11ReaderLabel(post, name)+":"+c11EntryFrameOf(post), fmt.Sprintf("reader %+v did not return within %v, and again not within %v when re-run alone in a fresh process; stuck at %s\n%s\n%s", rc, st.wd, st.wd2, frame, replay, rt.TrimStack(post, 60)))
				continue
			}
		}
		if status == "died" {
			c.Count("outcome_fatal_"+name, 1)
			sig, head := c11FatalSig(post)
			o.Violation("fatal:"+c11ReaderLabel(post, name)+":"+sig, fmt.Sprintf("reader %+v killed the process (not recoverable by the caller): %s\n%s\n%s", rc, head, replay, rt.TrimStack(post, 50)))
			continue
		}
		c.Count("reader_runs_"+name, 1)
		c.Count("values_handed_out", int64(out.Values))
		if out.Alloc > st.maxAlloc[name] {
			st.maxAlloc[name] = out.Alloc
		}
		switch {
		case out.Panic != "":
			c.Count("outcome_panic_"+name, 1)
			label := out.Label
			if label == "" {
				label = c11ReaderLabel(out.Stack, name)
			}
			o.Violation("panic:"+label+":"+out.PanicSig, fmt.Sprintf("reader %+v panicked: %s\n%s\n%s", rc, out.Panic, replay, rt.TrimStack(out.Stack, 36)))
		case out.Err != "":
			c.Count("outcome_error_"+name, 1)
		default:
			c.Count("outcome_values_only_"+name, 1)
		}
		if out.Values > 0 && (out.Err != "" || out.Panic != "") {
			nontrivial = true
		}
		if out.Walked > 0 {
			c.Count("validated_values_walked", int64(out.Walked))
			c.Count("validated_values_with_odd_leaf_width(not demanded)", int64(out.BadLeaves))
		}
		if out.Walk != "" {
			wsig := out.Walk
			if strings.HasPrefix(wsig, "inside set: ") {
				// whatever is wrong below a set is one defect: Validate
				// stops at the set (checks order only) and never visits
				// its elements
				wsig = "inside a set element (set elements are not visited)"
			}
			o.Violation("validate-accepts:"+wsig, fmt.Sprintf("reader %+v with Validate on handed out a value that is not structurally consistent with its type: %s\n%s\n%s", rc, out.Walk, out.WalkVal, replay))
		}
		// allocation bound
		alabel := name
		if rc.Format == "auto" {
			alabel = "auto-detect"
			if out.Detected != "" {
				alabel = out.Detected
			}
		} else if rc.Format == "zng" {
			alabel = "zng"
		} else if rc.Format == "tsv" {
			alabel = "csv"
		}
		var bound uint64
		if rc.Format == "zng" {
			bound = 24<<20 + 64*uint64(len(input)) + 2*uint64(rc.Threads+2)*c11ReadMax
		} else {
			bound = 64<<20 + 1024*uint64(len(input))
			if rc.Format == "auto" {
				// detection runs every candidate reader once before the chosen one
				bound = 2*bound + 24<<20 + 2*uint64(rc.Threads+2)*c11ReadMax
			}
		}
		if out.Alloc > bound {
			o.Violation("alloc:"+alabel, fmt.Sprintf("reader %+v (detected %q) allocated %d bytes for an input of %d bytes (linear bound %d)\n%s", rc, out.Detected, out.Alloc, len(input), bound, replay))
		}
		if out.Leaked > 0 {
			o.Violation("goroutine-leak:"+name, fmt.Sprintf("%d goroutine(s) with repo frames alive after Close of reader %+v\n%s\n%s", out.Leaked, rc, replay, out.LeakSample))
		}
	}
	if nontrivial {
		o.Nontrivial(fmt.Sprintf("%s/%d", o.Kind, o.Index))
	}
}

// ------------------------------------------------------------ query text

var c11QueryTokens = []string{"|", "=>", ":=", "==", "!=", "<=", "(", ")", "[", "]", "{", "}", "|[", "]|", "|{", "}|", "<", ">", ",", ".", "..", "...", ":", "?", "*", "/", "+", "-", "!", "~",
	"and", "or", "not", "in", "by", "with", "from", "file", "pool", "get", "pass", "fork", "switch", "case", "default", "over", "yield", "where", "sort", "head", "tail", "uniq", "cut", "drop", "put", "rename", "summarize",
	"join", "on", "left", "right", "anti", "inner", "const", "func", "op", "type", "this", "null", "true", "false", "error", "count()", "sum(x)", "collect(this)", "union(a)", "any(a)", "fuse", "shape", "cast(a,<int64>)",
	"<int64>", "<{a:int64}>", "<[int64]>", "<(int64,string)>", "<enum(a,b)>", "<error(string)>", "<foo=int64>", "<foo>", "1", "-1", "1.5", "1e400", "0x10", "9223372036854775808", "18446744073709551616",
	"\"s\"", "'s'", "\"${a}\"", "f\"{a}\"", "/re/", "/(/", "1.2.3.4", "::1", "1.2.3.4/24", "2020-01-01T00:00:00Z", "1h", "1y1y", "a[1:2]", "a[", "grep(/x/)", "grep(\"*\")", "*.foo", "@main", "p@main:objects", "format zson",
	"-limit", "-r", "-nulls", "first", "=~", "matches", "like", "is", "load p", "merge a", "explode a by <int64>", "nest_dotted()", "regexp(\"(\", a)", "over a with b=c => (yield b)", "lateral", "order asc", "sample", "assert a", "debug", "\\", "\x00", "é", "$", "#", "`", ";"}

type c11QOut struct {
	ParseErr, SemErr string
	Parsed, Analyzed bool
	Panic, PanicSig  string
	Stack            string
	Stage            string
	Timeout          bool
	Alloc            uint64
}

func c11CompileLocal(q string) (out c11QOut) {
	var ms0, ms1 runtime.MemStats
	runtime.ReadMemStats(&ms0)
	defer func() {
		if r := recover(); r != nil {
			out.Panic = fmt.Sprint(r)
			out.Stack = rt.TrimStack(rt.StackString(), 60)
			out.PanicSig = c11PanicSig(r, out.Stack)
		}
		runtime.ReadMemStats(&ms1)
		out.Alloc = ms1.TotalAlloc - ms0.TotalAlloc
	}()
	out.Stage = "parse"
	seq, _, err := compiler.Parse(q)
	if err != nil {
		out.ParseErr = err.Error()
		return
	}
	out.Parsed = true
	out.Stage = "semantic"
	if _, err := semantic.AnalyzeAddSource(context.Background(), seq, data.NewSource(nil, nil), nil); err != nil {
		out.SemErr = err.Error()
		return
	}
	out.Analyzed = true
	return
}

func (st *c11State) queryCase(o *rt.Obs, i int) {
	r := o.R
	prog, src := c11Program(r)
	// (the PEG parser needs ~1 s, ~60 s under the race detector on a loaded
	// machine, for some failing parses with 100 nested openers)
	maxNest := 40
	extra := c11QueryTokens
	if r.Chance(1, 4) {
		p2, _ := c11Program(r)
		extra = append([]string{p2}, extra...)
	}
	q, ops := gen.MutateText(r, prog, extra, maxNest)
	if i%25 == 24 {
		q, ops = prog, []string{"none"}
	}
	hx := q
	if len(hx) > 4096 {
		hx = hx[:4096] + fmt.Sprintf("…(+%d bytes)", len(q)-4096)
	}
	o.Desc(map[string]any{"seed_program": src, "mutations": ops, "len": len(q), "query": hx})
	if i%2000 == 0 {
		o.Sample(map[string]any{"seed_program": src, "mutations": ops, "query": hx})
	}
	st.runQuery(o, q)
}

func (st *c11State) runQuery(o *rt.Obs, q string) {
	c := st.c
	hx := q
	if len(hx) > 4096 {
		hx = hx[:4096] + "…"
	}
	qj, _ := json.Marshal(hx)
	replay := "QUERY-JSON: " + string(qj)
	var out c11QOut
	status, post := st.h.call(c11Req{Kind: "query", Query: q}, &out, st.wd)
	if status == "timeout" {
		c.Count("watchdog_first_fired", 1)
		status, post = st.h.call(c11Req{Kind: "query", Query: q}, &out, st.wd2)
		if status == "timeout" {
			frame := c11StuckFrameOf(post)
			o.Violation("hang:compiler:"+c11EntryFrameOf(post), fmt.Sprintf("compiler did not return within %v, and again not within %v alone in a fresh process; stuck at %s\n%s\n%s", st.wd, st.wd2, frame, replay, rt.TrimStack(post, 60)))
			return
		}
	}
	if status == "died" {
		c.Count("query_fatal", 1)
		sig, head := c11FatalSig(post)
		o.Violation("fatal:compiler:"+sig, fmt.Sprintf("compiling the query killed the process: %s\n%s\n%s", head, replay, rt.TrimStack(post, 50)))
		return
	}
	c.Count("query_runs", 1)
	if out.Alloc > st.maxAlloc["compiler"] {
		st.maxAlloc["compiler"] = out.Alloc
	}
	switch {
	case out.Panic != "":
		c.Count("query_panic", 1)
		o.Violation("panic:compiler-"+out.Stage+":"+out.PanicSig, fmt.Sprintf("%s panicked: %s\n%s\n%s", out.Stage, out.Panic, replay, rt.TrimStack(out.Stack, 36)))
	case out.ParseErr != "":
		c.Count("query_parse_error", 1)
		c.Count(o.Kind+"_parse_error", 1)
	case out.SemErr != "":
		c.Count("query_semantic_error", 1)
		c.Count(o.Kind+"_semantic_error", 1)
	default:
		c.Count("query_compiled", 1)
		c.Count(o.Kind+"_compiled", 1)
	}
	if out.Parsed {
		o.Nontrivial(fmt.Sprintf("%s/%d", o.Kind, o.Index))
	}
	if bound := uint64(512<<20) + 65536*uint64(len(q)); out.Alloc > bound {
		o.Violation("alloc:compiler", fmt.Sprintf("compiling %d bytes of query text allocated %d bytes (bound %d)\n%s", len(q), out.Alloc, bound, replay))
	}
}

// ------------------------------------------------------------ directed

type c11DirectedSpec struct {
	name   string
	reader c11Reader
	hex    string // input bytes
	query  string // or query text
	build  func() []byte
	wd     int // seconds; 0 = the monitor's watchdogs (for reproducers of hangs: short ones)
}

func (st *c11State) directedCase(o *rt.Obs, i int) {
	d := c11Directed[i]
	if d.wd > 0 {
		wd, wd2 := st.wd, st.wd2
		st.wd, st.wd2 = time.Duration(d.wd)*time.Second, 3*time.Duration(d.wd)*time.Second
		defer func() { st.wd, st.wd2 = wd, wd2 }()
	}
	if d.query != "" {
		o.Desc(map[string]any{"directed": d.name, "query": d.query})
		st.runQuery(o, d.query)
		return
	}
	var input []byte
	if d.build != nil {
		input = d.build()
	} else {
		input, _ = hex.DecodeString(d.hex)
	}
	o.Desc(map[string]any{"directed": d.name, "reader": d.reader, "len": len(input), "hex": c11Hex(input)})
	st.runReaders(o, []c11Reader{d.reader}, input)
}

// c11ZNGOf encodes hand-built values as one uncompressed ZNG stream (the
// writer does not validate, so malformed bodies pass through).
func c11ZNGOf(vals ...zed.Value) []byte {
	var buf bytes.Buffer
	w := zngio.NewWriterWithOpts(nopCloser{&buf}, zngio.WriterOpts{FrameThresh: zngio.DefaultFrameThresh})
	for _, v := range vals {
		w.Write(v)
	}
	w.Close()
	return buf.Bytes()
}

var _ = zio.NopCloser

// c11Directed: hand-built cases first (Validate gaps, regression probes that
// are silent on the unchanged tree), then the table generated from discovery
// runs (c11_directed.go: one fixed small mutant per distinct panic / fatal /
// allocation signature).
var c11Directed = append([]c11DirectedSpec{
	{ // 0: Validate never looks inside set elements
		name:   "validate-set-elements",
		reader: c11Reader{Format: "zng", Threads: 1, Validate: true, Size: 4096},
		build: func() []byte {
			zctx := zed.NewContext()
			t := zctx.LookupTypeSet(zctx.LookupTypeArray(zed.TypeInt64))
			// one set element: an array whose body says "4 more bytes" and ends
			return c11ZNGOf(zed.NewValue(t, []byte{0x02, 0x05}))
		},
	},
	{ // 1: Validate accepts bytes after a record's last field
		name:   "validate-record-trailing",
		reader: c11Reader{Format: "zng", Threads: 1, Validate: true, Size: 4096},
		build: func() []byte {
			zctx := zed.NewContext()
			t := zctx.MustLookupTypeRecord([]zed.Field{zed.NewField("a", zed.TypeInt64)})
			return c11ZNGOf(zed.NewValue(t, []byte{0x02, 0x02, 0x02, 0x04, 0xff}))
		},
	},
	{ // 2: enum selector ≥ 2^63 (int conversion goes negative in checkEnum)
		name:   "validate-enum-selector-high-bit",
		reader: c11Reader{Format: "zng", Threads: 1, Validate: true, Size: 4096},
		build: func() []byte {
			zctx := zed.NewContext()
			t := zctx.LookupTypeEnum([]string{"a", "b"})
			return c11ZNGOf(zed.NewValue(t, []byte{0xff, 0xff, 0xff, 0xff, 0xff, 0xff, 0xff, 0xff}))
		},
	},
	{ // 3: probe — a compressed values frame that claims 512 MiB of output must be refused by Max = 1 MiB without allocating it
		name:   "probe-compressed-frame-claims-512MiB",
		reader: c11Reader{Format: "zng", Threads: 1, Validate: true, Size: 4096},
		build: func() []byte {
			// code: values frame (1<<4) | compressed (0x40) | low length nibble; length 8 = format byte + 5-byte size varint + 2 payload bytes
			return []byte{0x40 | 0x10 | 0x08, 0x00, 0x00, 0x80, 0x80, 0x80, 0x80, 0x02, 0x00, 0x00}
		},
	},
	{ // 4: probe — same through the threaded scanner
		name:   "probe-compressed-frame-claims-512MiB-threaded",
		reader: c11Reader{Format: "zng", Threads: 4, Validate: false, Size: 4096},
		build: func() []byte {
			return []byte{0x40 | 0x10 | 0x08, 0x00, 0x00, 0x80, 0x80, 0x80, 0x80, 0x02, 0x00, 0x00}
		},
	},
	{ // 5: probe — an uncompressed frame longer than Max
		name:   "probe-frame-longer-than-max",
		reader: c11Reader{Format: "zng", Threads: 1, Validate: true, Size: 4096},
		build: func() []byte {
			return append([]byte{0x10, 0x80, 0x80, 0x80, 0x01}, bytes.Repeat([]byte{0x09, 0x02, 0x02}, 100)...)
		},
	},
	{ // 6: probe — a broken container with Validate on must come back as an error (Validate's recover), not as a panic
		name:   "probe-validate-recovers-broken-framing",
		reader: c11Reader{Format: "zng", Threads: 1, Validate: true, Size: 4096},
		build: func() []byte {
			zctx := zed.NewContext()
			t := zctx.LookupTypeArray(zed.TypeInt64)
			return c11ZNGOf(zed.NewValue(t, []byte{0x05, 0x01}))
		},
	},
	{ // 7: probe — 7 000 nested arrays must not exhaust the stack of the ZSON reader (it does not; but memory is quadratic in the depth: finding alloc:zson)
		name:   "probe-zson-deep-nesting",
		reader: c11Reader{Format: "zson"},
		build:  func() []byte { return []byte(strings.Repeat("[", 7000) + "1" + strings.Repeat("]", 7000)) },
		wd:     200, // quadratic in depth: slow under the race detector, but it ends
	},
	{ // 8: probe — same for JSON
		name:   "probe-json-deep-nesting",
		reader: c11Reader{Format: "json"},
		build:  func() []byte { return []byte(strings.Repeat("[", 7000) + "1" + strings.Repeat("]", 7000)) },
		wd:     200,
	},
	{ // 9: zeek header whose field name has 3 400 dotted components: memory quadratic in the depth
		name:   "zeek-dotted-field-depth",
		reader: c11Reader{Format: "zeek"},
		wd:     200,
		build: func() []byte {
			return []byte("#separator \\x09\n#fields\tv" + strings.Repeat(".", 3400) + "\n#types\tstring\nx\n")
		},
	},
}, c11GeneratedDirected...)

package main

import (
	"bufio"
	"encoding/hex"
	"encoding/json"
	"fmt"
	"io"
	"os"
	"os/exec"
	"path/filepath"
	"runtime/debug"
	"strings"
	"syscall"
	"time"

	"verif/internal/rt"
)

// The C11 monitor child never calls the code under test itself: every reader
// run and every compile is executed by a helper process (this same binary,
// sub-command C11-helper) that answers one JSON line per request.  A Go fatal
// error, a panic on a reader-owned goroutine or a hang therefore costs one
// helper, not the batch, and is attributed to exactly the input that caused it.

func init() { register("C11-helper", runC11Helper) }

type c11Req struct {
	Kind  string    `json:"kind"` // reader | query
	RC    c11Reader `json:"rc"`
	Hex   string    `json:"hex,omitempty"`
	Query string    `json:"query,omitempty"`
}

func runC11Helper(c *rt.Ctx) {
	debug.SetGCPercent(400)
	// unbounded recursion ends as "fatal error: stack overflow" after 32 MiB
	// of stack instead of after the default 1 GB (which, under the race
	// detector, takes longer than the watchdog to fill); legitimate recursion
	// on the generated inputs (nesting ≤ 1500) stays far below
	debug.SetMaxStack(32 << 20)
	in := bufio.NewReaderSize(os.Stdin, 1<<20)
	out := bufio.NewWriter(os.Stdout)
	for {
		line, err := in.ReadBytes('\n')
		if len(line) > 0 {
			var req c11Req
			if json.Unmarshal(line, &req) != nil {
				fmt.Fprintln(out, `{"HarnessErr":"bad request"}`)
				out.Flush()
				continue
			}
			var resp any
			switch req.Kind {
			case "reader":
				input, _ := hex.DecodeString(req.Hex)
				resp = c11ExecLocal(req.RC, input)
			case "query":
				resp = c11CompileLocal(req.Query)
			default:
				resp = map[string]string{"HarnessErr": "unknown kind"}
			}
			b, _ := json.Marshal(resp)
			out.Write(b)
			out.WriteByte('\n')
			out.Flush()
		}
		if err != nil {
			return
		}
	}
}

type c11Helper struct {
	c       *rt.Ctx
	cmd     *exec.Cmd
	stdin   io.WriteCloser
	lines   chan []byte
	errPath string
	starts  int
}

func newC11Helper(c *rt.Ctx) *c11Helper {
	dir := os.TempDir()
	if c.OutDir != "" {
		dir = c.OutDir
	}
	return &c11Helper{c: c, errPath: filepath.Join(dir, fmt.Sprintf("c11-helper-stderr.%d.%d.txt", c.Batch, os.Getpid()))}
}

func (h *c11Helper) start() error {
	f, err := os.Create(h.errPath)
	if err != nil {
		return err
	}
	cmd := exec.Command(os.Args[0], "C11-helper", "--tier", h.c.Tier)
	cmd.Stderr = f
	cmd.Env = append(os.Environ(), "GOTRACEBACK=all")
	stdin, err := cmd.StdinPipe()
	if err != nil {
		f.Close()
		return err
	}
	stdout, err := cmd.StdoutPipe()
	if err != nil {
		f.Close()
		return err
	}
	if err := cmd.Start(); err != nil {
		f.Close()
		return err
	}
	f.Close()
	h.cmd, h.stdin = cmd, stdin
	h.starts++
	lines := make(chan []byte, 1)
	h.lines = lines
	go func() {
		r := bufio.NewReaderSize(stdout, 1<<20)
		for {
			line, err := r.ReadBytes('\n')
			if len(line) > 0 && err == nil {
				lines <- line
			}
			if err != nil {
				close(lines)
				return
			}
		}
	}()
	return nil
}

func (h *c11Helper) stop() {
	if h.cmd == nil {
		return
	}
	h.stdin.Close()
	done := make(chan struct{})
	go func() { h.cmd.Wait(); close(done) }()
	select {
	case <-done:
	case <-time.After(5 * time.Second):
		h.cmd.Process.Kill()
		<-done
	}
	h.cmd = nil
	os.Remove(h.errPath)
}

func (h *c11Helper) reap() string {
	if h.cmd != nil {
		h.stdin.Close()
		done := make(chan struct{})
		cmd := h.cmd
		go func() { cmd.Wait(); close(done) }()
		select {
		case <-done:
		case <-time.After(20 * time.Second):
			cmd.Process.Kill()
			<-done
		}
		h.cmd = nil
	}
	b, _ := os.ReadFile(h.errPath)
	if len(b) > 1<<20 {
		b = b[:1<<20]
	}
	return string(b)
}

// call sends one request.  status is "ok" (resp filled), "died" (the helper
// process ended: post holds its stderr) or "timeout" (no answer within wd:
// the helper got SIGQUIT and post holds its goroutine dump).  After "died" or
// "timeout" the next call starts a fresh helper.
func (h *c11Helper) call(req c11Req, resp any, wd time.Duration) (status, post string) {
	if h.cmd == nil {
		if err := h.start(); err != nil {
			return "died", "HARNESS: cannot start helper: " + err.Error()
		}
	}
	b, _ := json.Marshal(req)
	b = append(b, '\n')
	if _, err := h.stdin.Write(b); err != nil {
		return "died", h.reap()
	}
	timer := time.NewTimer(wd)
	defer timer.Stop()
	select {
	case line, ok := <-h.lines:
		if !ok {
			return "died", h.reap()
		}
		if err := json.Unmarshal(line, resp); err != nil {
			return "died", "HARNESS: bad helper response: " + err.Error() + "\n" + h.reap()
		}
		return "ok", ""
	case <-timer.C:
		h.cmd.Process.Signal(syscall.SIGQUIT)
		return "timeout", h.reap()
	}
}

// c11FatalSig derives (signature, headline) from the stderr of a dead helper:
// the first "fatal error:" / "panic:" line and the innermost repo frame of the
// stack that follows it.
func c11FatalSig(post string) (string, string) {
	lines := strings.Split(post, "\n")
	for i, l := range lines {
		if strings.HasPrefix(l, "fatal error:") || strings.HasPrefix(l, "panic:") || strings.HasPrefix(l, "runtime: goroutine stack exceeds") {
			head := l
			if strings.HasPrefix(l, "runtime: goroutine stack exceeds") {
				head = "fatal error: stack overflow"
			}
			msg := c11NumRE.ReplaceAllString(head, "N")
			if len(msg) > 100 {
				msg = msg[:100]
			}
			frame := "unknown"
			if strings.Contains(head, "stack overflow") {
				// mutual recursion: which function is innermost when the stack
				// runs out is arbitrary; name the entry point instead
				block := strings.Join(lines[i:], "\n")
				if k := strings.Index(block, "\n\ngoroutine "); k > 0 {
					if j := strings.Index(block[k+2:], "\n\n"); j > 0 {
						block = block[:k+2+j]
					}
				}
				bl := strings.Split(block, "\n")
				for j := len(bl) - 1; j >= 0; j-- {
					m := bl[j]
					if strings.HasPrefix(m, "github.com/brimdata/super") && !strings.Contains(m, "/zio/anyio.") {
						if k := strings.LastIndex(m, "("); k > 0 {
							m = m[:k]
						}
						frame = strings.TrimPrefix(strings.TrimPrefix(m, "github.com/brimdata/super/"), "github.com/brimdata/super.")
						break
					}
				}
				return frame + ":" + msg, head
			}
			for _, m := range lines[i:] {
				if strings.HasPrefix(m, "github.com/brimdata/super") {
					if k := strings.LastIndex(m, "("); k > 0 {
						m = m[:k]
					}
					frame = strings.TrimPrefix(strings.TrimPrefix(m, "github.com/brimdata/super/"), "github.com/brimdata/super.")
					break
				}
			}
			return frame + ":" + msg, head
		}
	}
	if strings.Contains(post, "signal: killed") || post == "" {
		return "killed-without-message", "helper ended without a Go error message (killed?)"
	}
	return "exit-without-go-error", "helper ended without a Go error message"
}

// c11StuckFrameOf finds, in a SIGQUIT goroutine dump, the goroutine that was
// executing the request and names the innermost repo frame it was in.
func c11StuckFrameOf(dump string) string {
	for _, g := range strings.Split(dump, "\n\n") {
		if strings.Contains(g, "main.c11ExecLocal") || strings.Contains(g, "main.c11CompileLocal") {
			for _, line := range strings.Split(g, "\n") {
				if strings.HasPrefix(line, "github.com/brimdata/super") {
					if i := strings.LastIndex(line, "("); i > 0 {
						line = line[:i]
					}
					return strings.TrimPrefix(strings.TrimPrefix(line, "github.com/brimdata/super/"), "github.com/brimdata/super.")
				}
			}
		}
	}
	return "unknown"
}

// c11EntryFrameOf names the outermost repo frame (below the harness and
// anyio's dispatch) of the goroutine that was executing the request: the
// reader entry point that did not return.  Unlike the sampled innermost frame
// it is the same on every run.
func c11EntryFrameOf(dump string) string {
	for _, g := range strings.Split(dump, "\n\n") {
		if strings.Contains(g, "main.c11ExecLocal") || strings.Contains(g, "main.c11CompileLocal") {
			lines := strings.Split(g, "\n")
			for i := len(lines) - 1; i >= 0; i-- {
				line := lines[i]
				if strings.HasPrefix(line, "github.com/brimdata/super") && !strings.Contains(line, "/zio/anyio.") {
					if k := strings.LastIndex(line, "("); k > 0 {
						line = line[:k]
					}
					return strings.TrimPrefix(strings.TrimPrefix(line, "github.com/brimdata/super/"), "github.com/brimdata/super.")
				}
			}
		}
	}
	return "unknown"
}

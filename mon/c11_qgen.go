package main

import (
	"fmt"
	"strings"

	"verif/internal/rt"
)

// Grammar-driven query text for C11 (kind "qgen"): syntactically plausible
// programs in which every argument slot of every operator, aggregate and
// built-in function is filled with a constant expression of an arbitrary type
// (casts to every primitive, durations, times, addresses, type values,
// containers, errors, nulls) or a field reference.  The token-level mutants of
// corpus programs mostly die in the parser; these reach the semantic analyzer's
// per-operator argument handling and its constant folding, which evaluates
// functions and casts at compile time.

var c11Funcs = []string{"coalesce", "grep", "grok", "len", "abs", "every", "ceil", "flatten", "floor", "join", "ksuid", "levenshtein", "log", "max", "min", "round", "pow", "sqrt", "replace", "rune_len", "lower", "upper", "trim", "split", "bucket", "typename", "typeof", "typeunder", "nameof", "fields", "has", "has_error", "is", "is_error", "error", "kind", "base64", "hex", "compare", "cidr_match", "missing", "network_of", "nest_dotted", "parse_uri", "parse_zson", "quiet", "regexp", "regexp_replace", "strftime", "under", "unflatten", "cast", "shape", "fill", "crop", "fit", "order", "map", "nosuchfunc"}

var c11Aggs = []string{"count", "any", "avg", "dcount", "fuse", "sum", "collect_map", "min", "max", "union", "collect", "and", "or"}

var c11Casts = []string{"uint8", "uint16", "uint32", "uint64", "int8", "int16", "int32", "int64", "float16", "float32", "float64", "duration", "time", "string", "bytes", "ip", "net", "bool", "type", "error"}

var c11Lits = []string{"0", "1", "2", "-1", "3", "255", "256", "65536", "4294967296", "9223372036854775807", "-9223372036854775808", "18446744073709551615", "1.5", "-0.0", "1e308", "NaN", "+Inf",
	`"s"`, `""`, `"1"`, `"int64"`, `"é"`, "true", "false", "null", "1h", "-1ns", "1s", "2020-01-01T00:00:00Z", "1970-01-01T00:00:00Z", "10.0.0.1", "::1", "10.0.0.0/8", "0x0102", "0x",
	"<int64>", "<{a:int64}>", "<[int64]>", "<(int64,string)>", "<foo=int64>", "<enum(a,b)>", "[1,2]", "[]", `[1,"a"]`, "{a:1}", "{}", "|[1,2]|", `|{"a":1}|`, `error("x")`, "error({a:1})",
	"null(int64)", "null(uint8)", "null(string)", "uint8(1)", "uint64(4)", "float16(1)"}

var c11Fields = []string{"a", "b", "this", "a.b", "a[0]", "a[1:2]", `this["a b"]`, "x", "nosuch", "a.b.c"}

type c11QGen struct {
	r     *rt.Rand
	depth int
}

func (g *c11QGen) pick(xs []string) string { return xs[g.r.Intn(len(xs))] }

// konst: a constant expression (no field reference).
func (g *c11QGen) konst(d int) string {
	r := g.r
	switch x := r.Intn(12); {
	case d <= 0 || x < 4:
		return g.pick(c11Lits)
	case x < 8:
		return g.pick(c11Casts) + "(" + g.konst(d-1) + ")"
	case x < 9:
		return "(" + g.konst(d-1) + " " + g.pick([]string{"+", "-", "*", "/", "%", "==", "<", "and", "or", "in"}) + " " + g.konst(d-1) + ")"
	case x < 10:
		return g.call(d-1, true)
	case x < 11:
		return "-(" + g.konst(d-1) + ")"
	default:
		return "[" + g.konst(d-1) + "," + g.konst(d-1) + "]"
	}
}

func (g *c11QGen) call(d int, constOnly bool) string {
	n := g.r.Intn(4)
	if g.r.Chance(1, 10) {
		n = g.r.Intn(7)
	}
	args := make([]string, n)
	for i := range args {
		if constOnly {
			args[i] = g.konst(d)
		} else {
			args[i] = g.expr(d)
		}
	}
	return g.pick(c11Funcs) + "(" + strings.Join(args, ",") + ")"
}

func (g *c11QGen) expr(d int) string {
	r := g.r
	switch x := r.Intn(16); {
	case d <= 0 || x < 3:
		return g.pick(c11Fields)
	case x < 6:
		return g.konst(d - 1)
	case x < 9:
		return g.call(d-1, false)
	case x < 11:
		return "(" + g.expr(d-1) + " " + g.pick([]string{"+", "-", "*", "/", "%", "==", "!=", "<", "<=", ">", ">=", "and", "or", "in"}) + " " + g.expr(d-1) + ")"
	case x < 12:
		return g.pick(c11Casts) + "(" + g.expr(d-1) + ")"
	case x < 13:
		return "(" + g.expr(d-1) + " ? " + g.expr(d-1) + " : " + g.expr(d-1) + ")"
	case x < 14:
		return "{" + g.pick([]string{"a", "b", `"a b"`}) + ":" + g.expr(d-1) + ",..." + g.pick(c11Fields) + "}"
	case x < 15:
		return g.agg(d-1) + ""
	default:
		return "not " + g.expr(d-1)
	}
}

func (g *c11QGen) agg(d int) string {
	name := g.pick(c11Aggs)
	arg := ""
	if name != "count" || g.r.Chance(1, 4) {
		arg = g.expr(d)
	}
	s := name + "(" + arg + ")"
	if g.r.Chance(1, 4) {
		s += " where " + g.expr(d)
	}
	return s
}

func (g *c11QGen) lval() string { return g.pick([]string{"a", "b", "x", "a.b", "c", `this["a b"]`}) }

// arg: what goes into a slot that wants a count or a key — usually a constant
// of some type, sometimes any expression.
func (g *c11QGen) arg() string {
	if g.r.Chance(3, 4) {
		return g.konst(2)
	}
	return g.expr(2)
}

func (g *c11QGen) op(d int) string {
	r := g.r
	seq := func() string { return g.seq(d-1, r.Range(1, 2)) }
	switch r.Intn(30) {
	case 0:
		return "head " + g.arg()
	case 1:
		return "tail " + g.arg()
	case 2:
		s := "top " + g.arg()
		if r.Chance(1, 5) {
			s = "top"
		}
		if r.Chance(1, 5) {
			s += " -flush"
		}
		return s + " " + g.lval() + g.pick([]string{"", ", " + g.lval()})
	case 3:
		return "sort " + g.pick([]string{"", "-r ", "-nulls first ", "-nulls last "}) + g.expr(1) + g.pick([]string{"", " asc", " desc", ", " + g.expr(1) + " desc"})
	case 4:
		return "uniq" + g.pick([]string{"", " -c"})
	case 5:
		return "cut " + g.lval() + ":=" + g.expr(2) + g.pick([]string{"", "," + g.lval()})
	case 6:
		return "drop " + g.lval() + g.pick([]string{"", "," + g.lval()})
	case 7:
		return "put " + g.lval() + ":=" + g.expr(2)
	case 8:
		return "rename " + g.lval() + ":=" + g.lval()
	case 9:
		return "yield " + g.expr(3) + g.pick([]string{"", ", " + g.expr(1)})
	case 10:
		return "where " + g.expr(3)
	case 11:
		s := g.pick([]string{"summarize ", ""}) + g.agg(2)
		if r.Bool() {
			s += " by " + g.pick([]string{g.lval(), g.lval() + ":=" + g.expr(2)})
		}
		if r.Chance(1, 3) {
			s += " with -limit " + g.arg()
		}
		return s
	case 12:
		return "fuse"
	case 13:
		return "pass"
	case 14:
		return "sample" + g.pick([]string{"", " " + g.expr(1)})
	case 15:
		s := "over " + g.expr(2)
		if r.Chance(1, 3) {
			s += " with v=" + g.expr(1)
		}
		if d > 0 && r.Bool() {
			s += " => (" + seq() + ")"
		}
		return s
	case 16:
		if d <= 0 {
			return "pass"
		}
		return "fork (=> " + seq() + " => " + seq() + ")"
	case 17:
		if d <= 0 {
			return "pass"
		}
		return "switch " + g.pick([]string{"", g.expr(1) + " "}) + "(case " + g.arg() + " => " + seq() + " default => " + seq() + ")"
	case 18:
		return "merge " + g.expr(1) + g.pick([]string{"", " desc"})
	case 19:
		return "explode " + g.expr(1) + " by " + g.pick([]string{"<int64>", "<string>", "<{a:int64}>", g.konst(1)}) + g.pick([]string{"", " as v"})
	case 20:
		return "assert " + g.expr(2)
	case 21:
		return g.pick([]string{"", "left ", "right ", "anti ", "inner "}) + "join (" + g.pick([]string{"file x", "from p", "pass", "yield " + g.konst(1)}) + ") on " + g.expr(1) + "=" + g.expr(1) + g.pick([]string{"", " " + g.lval() + ":=" + g.lval()})
	case 22:
		return g.pick([]string{"from p", "from p@main", "from p@main:objects", "file x.zng", "file x format json", "get http://x/y", "from (pool p => head " + g.arg() + ")", "from " + g.konst(1)})
	case 23:
		return g.call(2, false)
	case 24:
		return "search " + g.pick([]string{"foo", `"a b"`, "a*b", "/re/", "1.5", "10.0.0.1", g.konst(1)})
	case 25:
		return "shape(" + g.konst(1) + ")"
	case 26:
		return "load " + g.pick([]string{"p", "p@main", g.konst(0)}) + g.pick([]string{"", " author " + g.konst(0), " message " + g.konst(0), " meta " + g.konst(0)})
	case 27:
		return "output " + g.pick([]string{"main", "x", g.konst(0)})
	case 28:
		return "debug " + g.expr(1)
	default:
		return g.lval() + ":=" + g.expr(2)
	}
}

func (g *c11QGen) seq(d, n int) string {
	ops := make([]string, n)
	for i := range ops {
		ops[i] = g.op(d)
	}
	return strings.Join(ops, " | ")
}

func (g *c11QGen) program() string {
	r := g.r
	var sb strings.Builder
	for n := r.Intn(3); n > 0; n-- {
		switch r.Intn(4) {
		case 0:
			fmt.Fprintf(&sb, "const %s = %s\n", g.pick([]string{"K", "a", "PI"}), g.konst(2))
		case 1:
			fmt.Fprintf(&sb, "func %s(%s): (%s)\n", g.pick([]string{"f", "g", "len"}), g.pick([]string{"", "a", "a,b"}), g.expr(2))
		case 2:
			fmt.Fprintf(&sb, "type %s = %s\n", g.pick([]string{"T", "foo", "int64"}), g.pick([]string{"{a:int64}", "int64", "[T]", "(int64,string)", "foo"}))
		default:
			fmt.Fprintf(&sb, "op %s(%s): (%s)\n", g.pick([]string{"o", "p"}), g.pick([]string{"", "a", "a,b"}), g.seq(1, 1))
		}
	}
	sb.WriteString(g.seq(2, r.Range(1, 4)))
	return sb.String()
}

func (st *c11State) qgenCase(o *rt.Obs, i int) {
	g := &c11QGen{r: o.R}
	q := g.program()
	o.Desc(map[string]any{"generated": true, "query": q})
	if i%500 == 0 {
		o.Sample(map[string]any{"generated": true, "query": q})
	}
	st.runQuery(o, q)
}

// Slot sweep (kind "qslot"): every operator or function argument slot that
// takes a count, a limit or a key, filled in turn with every typed constant of
// the list (literals and casts of 0/1/-1/"1"/null to every primitive), as a
// one-operator program and after a group-by.
var c11SlotTemplates = []string{
	"head %s", "tail %s", "top %s a", "top %s a, b", "count() by a | top %s count", "sample %s", "count() by a with -limit %s", "sort | head %s",
	"yield a[%s]", "yield a[%s:%s]", "yield bucket(a, %s)", "yield round(%s)", "yield pow(%s, %s)", "yield split(a, %s)", "yield strftime(%s, %s)", "yield cidr_match(%s, %s)", "yield network_of(%s, %s)",
	"yield regexp(%s, a)", "yield replace(a, %s, %s)", "yield levenshtein(%s, %s)", "yield cast(%s, %s)", "yield shape(%s)", "yield %s::%s", "explode a by %s", "switch %s (case %s => pass default => head %s)",
	"over a with n=%s => (head %s)", "where a in %s", "where a == %s", "merge %s", "fork (=> head %s => tail %s) | merge a", "yield hex(%s)", "yield base64(%s)", "yield ksuid(%s)", "yield error(%s)", "yield missing(%s)",
	"yield typename(%s)", "yield nameof(%s)", "yield fields(%s)", "yield flatten(%s)", "yield unflatten(%s)", "yield nest_dotted(%s)", "yield parse_uri(%s)", "yield parse_zson(%s)", "yield grok(%s, %s)", "yield join(%s, %s)",
	"yield len(%s)", "yield abs(%s)", "yield log(%s)", "yield sqrt(%s)", "yield ceil(%s)", "yield floor(%s)", "yield trim(%s)", "yield lower(%s)", "yield rune_len(%s)", "yield compare(%s, %s)", "yield coalesce(%s, %s)",
	"yield every(%s)", "yield under(%s)", "yield typeunder(%s)", "yield kind(%s)", "yield is(%s, %s)", "yield has(%s)", "yield quiet(%s)", "yield grep(%s, %s)", "yield regexp_replace(%s, %s, %s)",
}

func c11SlotConsts() []string {
	out := append([]string{}, c11Lits...)
	for _, c := range c11Casts {
		for _, v := range []string{"0", "1", "-1", `"1"`, "null", "1.5"} {
			out = append(out, c+"("+v+")")
		}
	}
	return out
}

func c11SlotCases() int { return len(c11SlotTemplates) * len(c11SlotConsts()) }

func (st *c11State) qslotCase(o *rt.Obs, i int) {
	consts := c11SlotConsts()
	tmpl := c11SlotTemplates[i/len(consts)]
	k := consts[i%len(consts)]
	n := strings.Count(tmpl, "%s")
	args := make([]any, n)
	for j := range args {
		args[j] = k
		if j > 0 && o.R.Bool() {
			args[j] = consts[o.R.Intn(len(consts))]
		}
	}
	q := fmt.Sprintf(tmpl, args...)
	o.Desc(map[string]any{"slot_sweep": tmpl, "query": q})
	if i%997 == 0 {
		o.Sample(map[string]any{"slot_sweep": tmpl, "query": q})
	}
	st.runQuery(o, q)
}

package main

import (
	"context"
	"fmt"
	"github.com/brimdata/super/pkg/verifhook"
	"slices"
	"sort"
	"strings"
	"sync"
	"sync/atomic"
	"time"

	"github.com/anishathalye/porcupine"
	zed "github.com/brimdata/super"
	"github.com/segmentio/ksuid"

	"verif/internal/gen"
	"verif/internal/lk"
	"verif/internal/rt"
	"verif/internal/store"
)

func init() { register("C12", runC12) }

// c12Op is one client operation.  Object and commit references are indices
// into the pre-state (known before the concurrent phase starts).
type c12Op struct {
	Kind    string   `json:"op"` // load delete delete-where compact add-vectors revert merge create-pool rename-pool drop-pool create-branch drop-branch
	Branch  string   `json:"branch,omitempty"`
	Vals    []string `json:"vals,omitempty"`
	IDs     []int    `json:"ids,omitempty"`  // value ids carried by Vals / targeted by delete-where
	Objs    []int    `json:"objs,omitempty"` // indices into the pre-state objects of main
	Name    string   `json:"name,omitempty"`
	NewName string   `json:"new_name,omitempty"`
}

func (o c12Op) String() string {
	switch o.Kind {
	case "load":
		return fmt.Sprintf("load(%s,ids%v)", o.Branch, o.IDs)
	case "delete-where":
		return fmt.Sprintf("delete-where(%s,id in %v)", o.Branch, o.IDs)
	case "delete", "compact", "add-vectors":
		return fmt.Sprintf("%s(%s,objs%v)", o.Kind, o.Branch, o.Objs)
	case "rename-pool":
		return fmt.Sprintf("rename-pool(%s→%s)", o.Name, o.NewName)
	case "create-pool", "drop-pool", "create-branch", "drop-branch":
		return fmt.Sprintf("%s(%s)", o.Kind, o.Name)
	}
	return fmt.Sprintf("%s(%s)", o.Kind, o.Branch)
}

type c12Event struct {
	Client string `json:"client"`
	Op     string `json:"op"`
	op     c12Op
	Call   int64  `json:"call"`
	Return int64  `json:"return"`
	Commit string `json:"commit,omitempty"`
	commit ksuid.KSUID
	Err    string `json:"err,omitempty"`
	// name-table observations
	gotID string
}

// c12World is the lake plus what is known about its pre-state.
type c12World struct {
	eng     *store.Engine
	poolID  ksuid.KSUID
	objs    []ksuid.KSUID         // objects of main before the run, sorted
	objVals map[ksuid.KSUID][]int // value ids per object
	preMain []ksuid.KSUID         // main's chain before the run (tip first)
	preB1   []ksuid.KSUID
	preIDs  map[string][]int      // branch → value ids before the run
	loadOf  map[ksuid.KSUID][]int // pre-state load commits → ids (for revert)
	b1Extra []int                 // ids only on b1 (merge adds these)
	b1Gone  []int                 // ids of the shared object that b1 deleted (merge removes these)
	qID     string
	clock   atomic.Int64
}

func idsVals(ids ...int) []string {
	out := make([]string, len(ids))
	for i, id := range ids {
		out[i] = fmt.Sprintf("{k:%d,id:%d}", id%7, id)
	}
	return out
}

// c12Real, set for the duration of a "realfs-*" case (cases run one after the
// other in a process), puts the world on a scratch directory driven through
// the repository's own file engine instead of the in-memory model.
var c12Real bool

func c12Setup(ctx context.Context, fileLike bool) (*c12World, error) {
	w := &c12World{objVals: map[ksuid.KSUID][]int{}, preIDs: map[string][]int{}, loadOf: map[ksuid.KSUID][]int{}}
	w.eng = store.New(newBacking(c12Real), fileLike)
	l, err := lk.Create(ctx, w.eng)
	if err != nil {
		return nil, err
	}
	w.poolID, err = l.CreatePool(ctx, lk.PoolSpec{Name: "p", Key: "k", Order: "asc"})
	if err != nil {
		return nil, err
	}
	qid, err := l.CreatePool(ctx, lk.PoolSpec{Name: "q", Key: "k", Order: "asc"})
	if err != nil {
		return nil, err
	}
	w.qID = qid.String()
	zctx := zed.NewContext()
	load := func(br string, ids ...int) (ksuid.KSUID, error) {
		vals, _ := lk.ParseVals(zctx, idsVals(ids...))
		before := map[ksuid.KSUID]bool{}
		for _, id := range lk.DataObjectIDs(w.eng.B, w.poolID) {
			before[id] = true
		}
		c, err := l.Load(ctx, zctx, w.poolID, br, vals)
		if err != nil {
			return c, err
		}
		for _, id := range lk.DataObjectIDs(w.eng.B, w.poolID) {
			if !before[id] {
				w.objVals[id] = ids
				if br == "main" {
					w.objs = append(w.objs, id)
				}
			}
		}
		w.preIDs[br] = append(w.preIDs[br], ids...)
		w.loadOf[c] = ids
		return c, nil
	}
	for _, ids := range [][]int{{1, 2}, {3, 4}, {5}} {
		if _, err := load("main", ids...); err != nil {
			return nil, err
		}
	}
	tip, err := l.API.CommitObject(ctx, w.poolID, "main")
	if err != nil {
		return nil, err
	}
	if err := l.API.CreateBranch(ctx, w.poolID, "b1", tip); err != nil {
		return nil, err
	}
	w.preIDs["b1"] = append([]int(nil), w.preIDs["main"]...)
	if _, err := load("b1", 90, 91); err != nil {
		return nil, err
	}
	w.b1Extra = []int{90, 91}
	// b1 also deletes the third object it shares with main, so that a merge has
	// a delete to replay (and to conflict with)
	if _, err := l.API.Delete(ctx, w.poolID, "b1", []ksuid.KSUID{w.objs[2]}, lk.Msg); err != nil {
		return nil, err
	}
	w.b1Gone = append([]int(nil), w.objVals[w.objs[2]]...)
	{
		var keep []int
		for _, id := range w.preIDs["b1"] {
			if !slices.Contains(w.b1Gone, id) {
				keep = append(keep, id)
			}
		}
		w.preIDs["b1"] = keep
	}
	w.preMain, err = c12Chain(ctx, l, "p", "main")
	if err != nil {
		return nil, err
	}
	w.preB1, err = c12Chain(ctx, l, "p", "b1")
	return w, err
}

func (w *c12World) clone() *c12World {
	c := &c12World{poolID: w.poolID, objs: w.objs, objVals: w.objVals, preMain: w.preMain, preB1: w.preB1,
		preIDs: w.preIDs, loadOf: w.loadOf, b1Extra: w.b1Extra, b1Gone: w.b1Gone, qID: w.qID}
	c.eng = store.New(w.eng.B.Clone(), w.eng.FileLike)
	return c
}

// c12Chain returns the branch's parent chain, tip first, via the log meta query.
func c12Chain(ctx context.Context, l *lk.Lake, pool, branch string) ([]ksuid.KSUID, error) {
	vals, err := l.QueryVals(ctx, fmt.Sprintf("from %s@%s:log", pool, branch))
	if err != nil {
		return nil, err
	}
	var out []ksuid.KSUID
	var prevParent *ksuid.KSUID
	for i := range vals {
		idv, pv := vals[i].Deref("id"), vals[i].Deref("parent")
		if idv == nil || pv == nil || len(idv.Bytes()) != 20 {
			continue
		}
		var id, parent ksuid.KSUID
		copy(id[:], idv.Bytes())
		copy(parent[:], pv.Bytes())
		if prevParent != nil && *prevParent != id {
			return out, fmt.Errorf("log of %s@%s is not a chain: commit %s follows a commit whose parent is %s", pool, branch, id, *prevParent)
		}
		out = append(out, id)
		p := parent
		prevParent = &p
	}
	if prevParent != nil && *prevParent != ksuid.Nil {
		return out, fmt.Errorf("log of %s@%s does not end at the root: last parent %s", pool, branch, *prevParent)
	}
	return out, nil
}

func (w *c12World) exec(ctx context.Context, l *lk.Lake, client string, op c12Op) c12Event {
	ev := c12Event{Client: client, Op: op.String(), op: op}
	ev.Call = w.clock.Add(1)
	var commit ksuid.KSUID
	var err error
	pick := func() []ksuid.KSUID {
		var ids []ksuid.KSUID
		for _, i := range op.Objs {
			ids = append(ids, w.objs[i%len(w.objs)])
		}
		return ids
	}
	switch op.Kind {
	case "load":
		zctx := zed.NewContext()
		vals, _ := lk.ParseVals(zctx, op.Vals)
		commit, err = l.Load(ctx, zctx, w.poolID, op.Branch, vals)
	case "delete-where":
		var terms []string
		for _, id := range op.IDs {
			terms = append(terms, fmt.Sprintf("id == %d", id))
		}
		commit, err = l.API.DeleteWhere(ctx, w.poolID, op.Branch, strings.Join(terms, " or "), lk.Msg)
	case "delete":
		commit, err = l.API.Delete(ctx, w.poolID, op.Branch, pick(), lk.Msg)
	case "compact":
		commit, err = l.API.Compact(ctx, w.poolID, op.Branch, pick(), false, lk.Msg)
	case "add-vectors":
		commit, err = l.API.AddVectors(ctx, "p", op.Branch, pick(), lk.Msg)
	case "revert":
		// revert the pre-state load commit with index Objs[0]
		var target ksuid.KSUID
		n := 0
		for _, c := range w.preMain {
			if _, ok := w.loadOf[c]; ok {
				if n == op.Objs[0]%3 {
					target = c
				}
				n++
			}
		}
		commit, err = l.API.Revert(ctx, w.poolID, op.Branch, target, lk.Msg)
	case "merge":
		commit, err = l.API.MergeBranch(ctx, w.poolID, "b1", "main", lk.Msg)
	case "create-pool":
		var id ksuid.KSUID
		id, err = l.CreatePool(ctx, lk.PoolSpec{Name: op.Name, Key: "k", Order: "asc"})
		ev.gotID = id.String()
	case "rename-pool":
		var id ksuid.KSUID
		id, err = l.API.PoolID(ctx, op.Name)
		if err == nil {
			ev.gotID = id.String()
			err = l.API.RenamePool(ctx, id, op.NewName)
		} else {
			ev.gotID = "lookup-failed"
		}
	case "drop-pool":
		var id ksuid.KSUID
		id, err = l.API.PoolID(ctx, op.Name)
		if err == nil {
			ev.gotID = id.String()
			err = l.API.RemovePool(ctx, id)
		} else {
			ev.gotID = "lookup-failed"
		}
	case "create-branch":
		err = l.API.CreateBranch(ctx, w.poolID, op.Name, w.preMain[0])
	case "drop-branch":
		err = l.API.RemoveBranch(ctx, w.poolID, op.Name)
	}
	ev.Return = w.clock.Add(1)
	ev.commit = commit
	if commit != ksuid.Nil {
		ev.Commit = commit.String()
	}
	if err != nil {
		ev.Err = err.Error()
	}
	return ev
}

// ---- generation ---------------------------------------------------------------

func c12GenOp(r *rt.Rand, nextID *int) c12Op {
	newIDs := func(n int) []int {
		ids := make([]int, n)
		for i := range ids {
			*nextID++
			ids[i] = *nextID
		}
		return ids
	}
	switch x := r.Intn(100); {
	case x < 30:
		ids := newIDs(r.Range(1, 2))
		return c12Op{Kind: "load", Branch: "main", IDs: ids, Vals: idsVals(ids...)}
	case x < 40:
		return c12Op{Kind: "delete-where", Branch: "main", IDs: []int{rt.Pick(r, []int{1, 2, 3, 4, 5})}}
	case x < 50:
		return c12Op{Kind: "delete", Branch: "main", Objs: []int{r.Intn(3)}}
	case x < 58:
		a := r.Intn(3)
		return c12Op{Kind: "compact", Branch: "main", Objs: []int{a, (a + 1) % 3}}
	case x < 63:
		return c12Op{Kind: "add-vectors", Branch: "main", Objs: []int{r.Intn(3)}}
	case x < 70:
		return c12Op{Kind: "revert", Branch: "main", Objs: []int{r.Intn(3)}}
	case x < 78:
		return c12Op{Kind: "merge", Branch: "main"}
	case x < 84:
		return c12Op{Kind: "create-pool", Name: rt.Pick(r, []string{"x", "y"})}
	case x < 90:
		return c12Op{Kind: "rename-pool", Name: rt.Pick(r, []string{"q", "x", "y"}), NewName: rt.Pick(r, []string{"x", "y", "q"})}
	case x < 93:
		return c12Op{Kind: "drop-pool", Name: rt.Pick(r, []string{"q", "x"})}
	case x < 97:
		return c12Op{Kind: "create-branch", Name: rt.Pick(r, []string{"b2", "b3"})}
	default:
		return c12Op{Kind: "drop-branch", Name: rt.Pick(r, []string{"b2", "b3"})}
	}
}

var c12PairAlphabet = []c12Op{
	{Kind: "load", Branch: "main", IDs: []int{11}, Vals: idsVals(11)},
	{Kind: "delete-where", Branch: "main", IDs: []int{3}},
	{Kind: "delete", Branch: "main", Objs: []int{0}},
	{Kind: "compact", Branch: "main", Objs: []int{0, 1}},
	{Kind: "add-vectors", Branch: "main", Objs: []int{2}},
	{Kind: "revert", Branch: "main", Objs: []int{1}},
	{Kind: "merge", Branch: "main"},
	{Kind: "create-pool", Name: "x"},
	{Kind: "rename-pool", Name: "q", NewName: "x"},
	{Kind: "drop-pool", Name: "q"},
	{Kind: "create-branch", Name: "b2"},
	{Kind: "rename-pool", Name: "q", NewName: "y"},
	{Kind: "delete", Branch: "main", Objs: []int{2}}, // the object b1 deleted: conflicts with the merge
}

// c12ConflictPair: merge against an operation on the object the child deleted.
func c12ConflictPair(a, b c12Op) bool {
	hits := func(op c12Op) bool { return op.Kind == "delete" && len(op.Objs) == 1 && op.Objs[0] == 2 }
	return (a.Kind == "merge" && (hits(b) || b.Kind == "merge")) || (b.Kind == "merge" && hits(a))
}

func c12PoolTableOp(op c12Op) bool {
	return op.Kind == "create-pool" || op.Kind == "rename-pool" || op.Kind == "drop-pool"
}

func runC12(c *rt.Ctx) {
	// released zngio buffers are overwritten (H1): lake code that keeps using a
	// value after the reader has moved on reads garbage deterministically
	verifhook.SetPoison(true)
	c.Note("rule", "case = 2–4 clients (each its own lake handle, i.e. its own caches, on one shared storage) issuing 1–3 operations each under the operation-level scheduler; (i) exhaustive single-preemption: for ordered pairs (A,B) of operations from a 13-operation alphabet, every schedule 'A runs k storage operations, B runs to completion, A finishes' for every k (quick: all 16 pairs of pool-table operations, the merge/delete conflict pairs and a seeded eighth of the others); (ii) random segment schedules with 2–4 preemptions for 3–4 clients; (iii) free-running clients on one shared lake handle (the service's situation) under the race detector; storage with atomic puts and with file semantics; evaluations = schedules executed; non-trivial = schedule in which the second client ran while the first had performed some but not all of its storage operations; distinct by the hash of the executed (client, op kind, path class) sequence")
	c.Note("granularity", "interleavings are explored at storage-operation granularity (every Get/Put/PutIfNotExists/Delete…; on file semantics also every Write); preemptions inside an in-memory critical section are only produced by the free-running stress part")
	c.Note("assumptions", "clients in different processes share nothing but storage (separate lake.Root per client)\nan operation that fails because the journal's bounded retry loop was starved is a reported failure and is checked as such (no trace)\nporcupine v1.3.0 checks the pool-name table history against a sequential map model")
	idx := 0
	for ai := range c12PairAlphabet {
		for bi := range c12PairAlphabet {
			ai, bi := ai, bi
			// quick: every pair of pool-table operations, and a seeded eighth of the rest
			tablePair := c12PoolTableOp(c12PairAlphabet[ai]) && c12PoolTableOp(c12PairAlphabet[bi]) || c12ConflictPair(c12PairAlphabet[ai], c12PairAlphabet[bi])
			if c.Quick() && !tablePair && int(rt.NewRand(uint64(ai*131+bi)+c.Seed*7).Uint64()%8) != 0 {
				idx++
				continue
			}
			c.Case("pair", idx, func(o *rt.Obs) { c12Pair(c, o, c12PairAlphabet[ai], c12PairAlphabet[bi], (ai+bi)%2 == 1) })
			idx++
		}
	}
	nr := c.N(70, 2500)
	for i := 0; i < nr; i++ {
		c.Case("rand", i, func(o *rt.Obs) { c12Random(c, o) })
	}
	ns := c.N(10, 200)
	for i := 0; i < ns; i++ {
		c.Case("stress", i, func(o *rt.Obs) { c12Stress(c, o) })
	}
	// the same single-preemption enumeration on a real directory through
	// pkg/storage/file.go (one FileSystem per client, as in separate processes):
	// quick: load/load, load/delete, merge/delete-conflict, create-pool/rename-pool
	real := [][2]int{{0, 0}, {0, 2}, {6, 12}, {7, 8}}
	if !c.Quick() {
		real = nil
		for ai := range c12PairAlphabet {
			for bi := range c12PairAlphabet {
				if int(rt.NewRand(uint64(ai*977+bi)+c.Seed*13).Uint64()%4) == 0 {
					real = append(real, [2]int{ai, bi})
				}
			}
		}
	}
	for i, ab := range real {
		ab := ab
		if ab[0] >= len(c12PairAlphabet) || ab[1] >= len(c12PairAlphabet) {
			continue
		}
		c.Case("realfs-pair", i, func(o *rt.Obs) {
			c12Real = true
			defer func() { c12Real = false }()
			c12Pair(c, o, c12PairAlphabet[ab[0]], c12PairAlphabet[ab[1]], true)
		})
	}
}

// c12Pair enumerates every single-preemption schedule of (A by client a, B by client b).
func c12Pair(c *rt.Ctx, o *rt.Obs, A, B c12Op, fileLike bool) {
	ctx := context.Background()
	if A.Kind == "load" && B.Kind == "load" {
		// two loads of the same value would legitimately leave it twice
		B = c12Op{Kind: "load", Branch: "main", IDs: []int{12}, Vals: idsVals(12)}
	}
	// solo run of A to learn its number of storage operations
	clients := []c12ClientSpec{{"a", []c12Op{A}}, {"b", []c12Op{B}}}
	o.Desc(map[string]any{"file_semantics": fileLike, "A": A.String(), "B": B.String()})
	if o.Index%20 == 0 {
		o.Sample(map[string]any{"file_semantics": fileLike, "A": A.String(), "B": B.String(), "schedules": "A runs k storage operations, B runs to completion, A finishes; k = 0..len(A)"})
	}
	base, err := c12Setup(ctx, fileLike)
	if err != nil {
		o.Violation("setup-failed", err.Error())
		return
	}
	defer store.Discard(base.eng.B)
	if c12Real {
		o.Count("cases_on_real_file_engine", 1)
	}
	res, err := c12RunSchedule(ctx, base, fileLike, clients, []store.Segment{{Client: "a", N: -1}}, false)
	if err != nil {
		o.Violation("setup-failed", err.Error())
		return
	}
	nA := res.opsOf["a"]
	c.Max("max_ops_of_one_operation", int64(nA))
	// k = nA+1: A has returned to its caller before B starts (a segment of nA
	// operations ends with A's last storage operation, while A is still on its
	// way back), so that the real-time order "A before B" is established
	for k := 0; k <= nA+1; k++ {
		segs := []store.Segment{{Client: "a", N: k}, {Client: "b", N: -1}, {Client: "a", N: -1}}
		what := fmt.Sprintf("A=%s B=%s, A preempted after %d of %d storage operations", A, B, k, nA)
		if k == 0 {
			segs = segs[1:]
		}
		if k == nA+1 {
			segs = []store.Segment{{Client: "a", N: -1}, {Client: "b", N: -1}}
			what = fmt.Sprintf("A=%s B=%s, A has returned before B starts", A, B)
		}
		res, err := c12RunSchedule(ctx, base, fileLike, clients, segs, true)
		if err != nil {
			o.Violation("setup-failed", err.Error())
			return
		}
		if c12Real {
			o.Count("schedules_on_real_file_engine", 1)
		}
		c12Judge(c, o, res, what, k > 0 && k < nA)
		store.Discard(res.w.eng.B)
	}
}

func c12Random(c *rt.Ctx, o *rt.Obs) {
	ctx := context.Background()
	r := o.R
	fileLike := r.Chance(1, 3)
	nc := r.Range(2, 4)
	nextID := 20
	var clients []c12ClientSpec
	var names []string
	for i := 0; i < nc; i++ {
		name := string(rune('a' + i))
		names = append(names, name)
		var ops []c12Op
		for j := 0; j < r.Range(1, 3); j++ {
			ops = append(ops, c12GenOp(r, &nextID))
		}
		clients = append(clients, c12ClientSpec{name, ops})
	}
	var segs []store.Segment
	for i := 0; i < r.Range(2, 5); i++ {
		segs = append(segs, store.Segment{Client: rt.Pick(r, names), N: r.Range(1, 14)})
	}
	desc := map[string]any{"file_semantics": fileLike, "clients": clients, "segments": segs}
	o.Desc(desc)
	if o.Index%40 == 0 {
		o.Sample(desc)
	}
	base, err := c12Setup(ctx, fileLike)
	if err != nil {
		o.Violation("setup-failed", err.Error())
		return
	}
	res, err := c12RunSchedule(ctx, base, fileLike, clients, segs, true)
	if err != nil {
		o.Violation("setup-failed", err.Error())
		return
	}
	c12Judge(c, o, res, fmt.Sprintf("clients %v segments %v", clients, segs), true)
}

type c12ClientSpec struct {
	Name string  `json:"client"`
	Ops  []c12Op `json:"ops"`
}

func (s c12ClientSpec) String() string {
	var parts []string
	for _, op := range s.Ops {
		parts = append(parts, op.String())
	}
	return s.Name + ":" + strings.Join(parts, ";")
}

type c12Result struct {
	w        *c12World
	events   []c12Event
	trace    []store.Op
	opsOf    map[string]int
	probes   []string // problems seen by mid-schedule probes
	nprobes  int
	fileLike bool
}

// c12RunSchedule sets up a fresh world and runs the clients under the schedule.
func c12RunSchedule(ctx context.Context, base *c12World, fileLike bool, clients []c12ClientSpec, segs []store.Segment, probe bool) (*c12Result, error) {
	// every schedule runs on its own copy of the same pre-state
	w := base.clone()
	order := make([]string, len(clients))
	for i, cl := range clients {
		order[i] = cl.Name
	}
	sched := store.NewSched(order, segs)
	res := &c12Result{w: w, opsOf: map[string]int{}, fileLike: fileLike}
	// every client opens its handle before the scheduled phase
	lakes := make([]*lk.Lake, len(clients))
	for i := range clients {
		eng := w.eng.Fork()
		l, err := lk.Open(ctx, eng)
		if err != nil {
			return nil, err
		}
		eng.Gate = sched
		lakes[i] = l
	}
	if probe {
		var mu sync.Mutex
		sched.OnSwitch = func() {
			// all clients are parked: read everything from a cold, ungated handle
			if fileLike && c12TransientHead(w.eng.B) {
				return
			}
			mu.Lock()
			defer mu.Unlock()
			res.nprobes++
			if p := c12Probe(ctx, w); p != "" {
				res.probes = append(res.probes, p)
			}
		}
	}
	var wg sync.WaitGroup
	var mu sync.Mutex
	for i, cl := range clients {
		wg.Add(1)
		go func(i int, cl c12ClientSpec) {
			defer wg.Done()
			defer sched.Done(cl.Name)
			cctx := store.WithClient(ctx, cl.Name)
			for _, op := range cl.Ops {
				ev := w.exec(cctx, lakes[i], cl.Name, op)
				mu.Lock()
				res.events = append(res.events, ev)
				mu.Unlock()
			}
		}(i, cl)
	}
	done := make(chan struct{})
	go func() { wg.Wait(); close(done) }()
	select {
	case <-done:
	case <-time.After(5 * time.Minute):
		sched.Disable()
		<-done
		return nil, fmt.Errorf("watchdog: schedule did not finish (segments %v)", segs)
	}
	sched.Disable()
	res.trace = sched.Trace()
	for _, cl := range clients {
		res.opsOf[cl.Name] = sched.OpsOf(cl.Name)
	}
	return res, nil
}

// c12TransientHead reports whether some journal HEAD/TAIL is currently empty
// (file semantics: between the truncate and the write of a Put), a state the
// journal reader explicitly tolerates by retrying.
func c12TransientHead(b store.Backing) bool {
	for _, p := range b.Paths() {
		cls := store.Classify(p)
		if strings.HasSuffix(cls, "-HEAD") || strings.HasSuffix(cls, "-TAIL") {
			if d, _ := b.Get(p); len(d) == 0 {
				return true
			}
		}
	}
	return false
}

// c12Probe reads every branch of pool p from a cold handle.
func c12Probe(ctx context.Context, w *c12World) string {
	l, err := lk.Open(ctx, store.New(w.eng.B, w.eng.FileLike))
	if err != nil {
		return "lake.Open: " + err.Error()
	}
	pool, err := l.Root.OpenPool(ctx, w.poolID)
	if err != nil {
		return "" // pool p is never dropped; a failure here would show in the final check too
	}
	branches, err := pool.ListBranches(ctx)
	if err != nil {
		return "list branches: " + err.Error()
	}
	for _, b := range branches {
		if _, err := l.Query(ctx, "from p@"+b.Name); err != nil {
			return fmt.Sprintf("branch %s not readable: %v", b.Name, err)
		}
	}
	return ""
}

// ---- the oracle -----------------------------------------------------------------

func c12Judge(c *rt.Ctx, o *rt.Obs, res *c12Result, what string, preempted bool) {
	ctx := context.Background()
	w := res.w
	o.AddEvaluations(1)
	o.Count("schedules_executed", 1)
	o.Count("mid_schedule_probes", int64(res.nprobes))
	o.Count("storage_operations_scheduled", int64(len(res.trace)))
	sw := store.Switches(res.trace)
	c.Max("max_client_switches_in_a_schedule", int64(sw))
	if preempted && sw >= 2 {
		o.Nontrivial(fmt.Sprintf("%x", store.TraceHash(res.trace)))
	}
	sort.Slice(res.events, func(i, j int) bool { return res.events[i].Call < res.events[j].Call })
	hist := func() string {
		var sb strings.Builder
		for _, e := range res.events {
			fmt.Fprintf(&sb, "  [%d,%d] %s %s → commit=%s err=%q\n", e.Call, e.Return, e.Client, e.Op, e.Commit, e.Err)
		}
		var tr []string
		for _, op := range res.trace {
			tr = append(tr, op.String())
		}
		return what + "\nhistory:\n" + sb.String() + "storage schedule: " + strings.Join(tr, " ")
	}
	anomaly := c12TraceAnomaly(res.trace)
	viol := func(sig, detail string) {
		if anomaly != "" {
			sig += "|" + anomaly
		}
		o.Violation(sig, detail)
	}
	for _, p := range res.probes {
		viol("unreadable-at-a-scheduling-point", fmt.Sprintf("%s\nmid-schedule probe: %s", hist(), p))
	}
	for _, e := range res.events {
		if e.Err != "" {
			o.Count("operations_reported_failure", 1)
		} else {
			o.Count("operations_acknowledged", 1)
		}
	}
	l, err := lk.Open(ctx, store.New(w.eng.B, res.fileLike))
	if err != nil {
		viol("unreadable-after-run", fmt.Sprintf("%s\nlake.Open: %v", hist(), err))
		return
	}
	// --- pool p, branch main: chain, acknowledged commits, real-time order, content
	chain, err := c12Chain(ctx, l, "p", "main")
	if err != nil {
		viol("unreadable-after-run", fmt.Sprintf("%s\n%v", hist(), err))
		return
	}
	pos := map[ksuid.KSUID]int{} // distance from root
	for i, id := range chain {
		if _, dup := pos[id]; dup {
			viol("commit-twice-in-chain", fmt.Sprintf("%s\ncommit %s appears twice in main's chain", hist(), id))
		}
		pos[id] = len(chain) - i
	}
	pre := map[ksuid.KSUID]bool{}
	for _, id := range w.preMain {
		pre[id] = true
		if _, ok := pos[id]; !ok {
			viol("acknowledged-commit-lost", fmt.Sprintf("%s\npre-existing commit %s is no longer in main's chain", hist(), id))
		}
	}
	byCommit := map[ksuid.KSUID]*c12Event{}
	for i := range res.events {
		e := &res.events[i]
		if e.op.Branch != "main" {
			continue
		}
		if e.Err == "" && e.commit != ksuid.Nil {
			byCommit[e.commit] = e
			if _, ok := pos[e.commit]; !ok {
				viol("acknowledged-commit-lost", fmt.Sprintf("%s\n%s %s was acknowledged with commit %s which is not in main's chain", hist(), e.Client, e.Op, e.commit))
			}
		}
	}
	for _, id := range chain {
		if !pre[id] && byCommit[id] == nil {
			viol("trace-of-unacknowledged-operation", fmt.Sprintf("%s\nmain's chain contains commit %s which no acknowledged operation returned", hist(), id))
		}
	}
	for i := range res.events {
		for j := range res.events {
			a, b := &res.events[i], &res.events[j]
			if a.Err != "" || b.Err != "" || a.commit == ksuid.Nil || b.commit == ksuid.Nil || a.op.Branch != "main" || b.op.Branch != "main" {
				continue
			}
			if a.Return < b.Call && pos[a.commit] > pos[b.commit] && pos[b.commit] > 0 {
				viol("real-time-order-violated", fmt.Sprintf("%s\n%s returned before %s was called but comes later in main's chain", hist(), a.Op, b.Op))
			}
		}
	}
	// replay the chain at value level
	state := map[int]bool{}
	for _, id := range w.preIDs["main"] {
		state[id] = true
	}
	merged := false
	for i := len(chain) - 1; i >= 0; i-- {
		e := byCommit[chain[i]]
		if e == nil {
			continue
		}
		switch e.op.Kind {
		case "load":
			for _, id := range e.op.IDs {
				state[id] = true
			}
		case "delete-where":
			for _, id := range e.op.IDs {
				delete(state, id)
			}
		case "delete":
			for _, oi := range e.op.Objs {
				for _, id := range w.objVals[w.objs[oi%len(w.objs)]] {
					if !state[id] {
						viol("delete-of-absent-object-committed", fmt.Sprintf("%s\n%s was committed although value %d of the object was already gone", hist(), e.Op, id))
					}
					delete(state, id)
				}
			}
		case "revert":
			n := 0
			for _, cm := range w.preMain {
				if ids, ok := w.loadOf[cm]; ok {
					if n == e.op.Objs[0]%3 {
						for _, id := range ids {
							delete(state, id)
						}
					}
					n++
				}
			}
		case "merge":
			if !merged {
				for _, id := range w.b1Extra {
					state[id] = true
				}
				for _, id := range w.b1Gone {
					if !state[id] {
						viol("merge-committed-a-delete-of-an-absent-object", fmt.Sprintf("%s\n%s was committed although value %d of the object b1 deleted was already gone from main", hist(), e.Op, id))
					}
					delete(state, id)
				}
				merged = true
			}
		}
	}
	got, err := l.Query(ctx, "from p@main | yield id")
	if err != nil {
		viol("unreadable-after-run", fmt.Sprintf("%s\nquery of p@main: %v", hist(), err))
		return
	}
	gotIDs := map[int]int{}
	for _, r := range got {
		gotIDs[int(zed.DecodeInt([]byte(r.Bytes)))]++
	}
	var lost, extra []int
	for id := range state {
		if gotIDs[id] == 0 {
			lost = append(lost, id)
		}
	}
	for id, n := range gotIDs {
		if !state[id] || n > 1 {
			extra = append(extra, id)
		}
	}
	sort.Ints(lost)
	sort.Ints(extra)
	if len(lost) > 0 {
		viol("acknowledged-update-lost", fmt.Sprintf("%s\nreplaying the acknowledged operations in chain order predicts value ids %v on main, which are missing", hist(), lost))
	}
	if len(extra) > 0 {
		viol("unexpected-values", fmt.Sprintf("%s\nmain holds value ids %v that the acknowledged operations in chain order do not produce (failed operation left a trace, or an effect was applied twice)", hist(), extra))
	}
	// b1 must be untouched and readable
	if gotB1, err := l.Query(ctx, "from p@b1 | yield id"); err != nil {
		viol("unreadable-after-run", fmt.Sprintf("%s\nquery of p@b1: %v", hist(), err))
	} else if len(gotB1) != len(w.preIDs["b1"]) {
		viol("unexpected-values", fmt.Sprintf("%s\nb1 holds %d values, expected its %d", hist(), len(gotB1), len(w.preIDs["b1"])))
	}
	c12Names(c, o, res, l, hist)
	_ = gen.Rec{}
}

// c12TraceAnomaly names the first storage-level hazard in the executed
// schedule: a client reading a file that another client has opened for
// writing and not yet closed (only possible with file semantics, where a Put
// truncates first and fills later).
func c12TraceAnomaly(trace []store.Op) string {
	open := map[string]string{} // path → writer
	for _, op := range trace {
		switch op.Kind {
		case "put-open", "pine-create":
			open[op.Path] = op.Client
		case "close", "pine-fill":
			delete(open, op.Path)
		case "get":
			if w, ok := open[op.Path]; ok && w != op.Client {
				return "read-of-file-being-written(" + op.Class + ")"
			}
		}
	}
	return ""
}

// ---- name tables: porcupine -------------------------------------------------------

type c12NameIn struct {
	Kind    string // create rename drop list
	Name    string
	NewName string
	ID      string // rename/drop: the pool id the client resolved
}
type c12NameOut struct {
	OK      bool
	ID      string
	Listing string
}

func c12Names(c *rt.Ctx, o *rt.Obs, res *c12Result, l *lk.Lake, hist func() string) {
	ctx := context.Background()
	pools, err := l.Root.ListPools(ctx)
	if err != nil {
		o.Violation("unreadable-after-run", fmt.Sprintf("%s\nlist pools: %v", hist(), err))
		return
	}
	seen := map[string]bool{}
	var listing []string
	for _, p := range pools {
		if seen[p.Name] {
			o.Violation("duplicate-pool-name", fmt.Sprintf("%s\npool name %q is listed twice", hist(), p.Name))
		}
		seen[p.Name] = true
		listing = append(listing, p.Name+"="+p.ID.String())
	}
	sort.Strings(listing)
	var ops []porcupine.Operation
	nclient := map[string]int{}
	for _, e := range res.events {
		var in c12NameIn
		switch e.op.Kind {
		case "create-pool":
			in = c12NameIn{Kind: "create", Name: e.op.Name}
		case "rename-pool":
			if e.gotID == "lookup-failed" {
				continue
			}
			in = c12NameIn{Kind: "rename", Name: e.op.Name, NewName: e.op.NewName, ID: e.gotID}
		case "drop-pool":
			if e.gotID == "lookup-failed" {
				continue
			}
			in = c12NameIn{Kind: "drop", Name: e.op.Name, ID: e.gotID}
		default:
			continue
		}
		if _, ok := nclient[e.Client]; !ok {
			nclient[e.Client] = len(nclient)
		}
		ops = append(ops, porcupine.Operation{ClientId: nclient[e.Client], Input: in, Call: e.Call, Output: c12NameOut{OK: e.Err == "", ID: e.gotID}, Return: e.Return})
	}
	if len(ops) == 0 {
		return
	}
	end := res.w.clock.Add(1)
	ops = append(ops, porcupine.Operation{ClientId: len(nclient), Input: c12NameIn{Kind: "list"}, Call: end, Output: c12NameOut{OK: true, Listing: strings.Join(listing, ",")}, Return: end + 1})
	// initial table: p and q with their real ids
	init := map[string]string{}
	for _, p := range pools {
		_ = p
	}
	init["p"] = res.w.poolID.String()
	// q's id is whatever the setup created; recover it from any event or the listing
	qid := ""
	if id, err := lookupPoolIDFromBacking(ctx, res); err == nil {
		qid = id
	}
	init["q"] = qid
	model := porcupine.Model{
		Init: func() any { return cloneNames(init) },
		Step: func(st, in, out any) (bool, any) {
			s := st.(map[string]string)
			i, ou := in.(c12NameIn), out.(c12NameOut)
			switch i.Kind {
			case "create":
				if !ou.OK {
					return true, s // a reported failure has no effect (it may also be spurious: retries exhausted)
				}
				if _, exists := s[i.Name]; exists {
					return false, s
				}
				n := cloneNames(s)
				n[i.Name] = ou.ID
				return true, n
			case "rename":
				if !ou.OK {
					return true, s
				}
				cur := ""
				for name, id := range s {
					if id == i.ID {
						cur = name
					}
				}
				if cur == "" {
					return false, s
				}
				if _, exists := s[i.NewName]; exists {
					return false, s
				}
				n := cloneNames(s)
				delete(n, cur)
				n[i.NewName] = i.ID
				return true, n
			case "drop":
				if !ou.OK {
					return true, s
				}
				cur := ""
				for name, id := range s {
					if id == i.ID {
						cur = name
					}
				}
				if cur == "" {
					return false, s
				}
				n := cloneNames(s)
				delete(n, cur)
				return true, n
			case "list":
				var l []string
				for name, id := range s {
					l = append(l, name+"="+id)
				}
				sort.Strings(l)
				return strings.Join(l, ",") == ou.Listing, s
			}
			return false, s
		},
		Equal: func(a, b any) bool {
			x, y := a.(map[string]string), b.(map[string]string)
			if len(x) != len(y) {
				return false
			}
			for k, v := range x {
				if y[k] != v {
					return false
				}
			}
			return true
		},
	}
	result, _ := porcupine.CheckOperationsVerbose(model, ops, 60*time.Second)
	o.Count("porcupine_histories_checked", 1)
	switch result {
	case porcupine.Illegal:
		o.Violation("pool-name-table-not-linearizable", fmt.Sprintf("%s\nthe pool create/rename/drop history with final listing %v has no linearization against a name→id map", hist(), listing))
	case porcupine.Unknown:
		o.Inconclusive("porcupine timed out")
	}
}

func cloneNames(m map[string]string) map[string]string {
	n := make(map[string]string, len(m))
	for k, v := range m {
		n[k] = v
	}
	return n
}

// lookupPoolIDFromBacking finds pool q's id as created by the setup: it is the
// only pool directory besides p that existed before the run (recorded by setup
// order: the second pool created).
func lookupPoolIDFromBacking(ctx context.Context, res *c12Result) (string, error) {
	// the setup's q pool is the one whose journal entry is number 2 in the pools journal;
	// simplest is to ask a handle restricted to the pre-run pools: any event that resolved
	// q reports its id; otherwise scan storage for pool directories other than p.
	for _, e := range res.events {
		if (e.op.Kind == "rename-pool" || e.op.Kind == "drop-pool") && e.op.Name == "q" && e.gotID != "lookup-failed" && e.gotID != "" {
			return e.gotID, nil
		}
	}
	if res.w.qID != "" {
		return res.w.qID, nil
	}
	return "", fmt.Errorf("unknown")
}

// ---- free-running stress on one shared handle (the service's situation) ---------------

func c12Stress(c *rt.Ctx, o *rt.Obs) {
	ctx := context.Background()
	r := o.R
	w, err := c12Setup(ctx, false)
	if err != nil {
		o.Violation("setup-failed", err.Error())
		return
	}
	l, err := lk.Open(ctx, w.eng.Fork())
	if err != nil {
		o.Violation("setup-failed", err.Error())
		return
	}
	nc := r.Range(4, 8)
	nextID := 100
	var specs []c12ClientSpec
	for i := 0; i < nc; i++ {
		var ops []c12Op
		for j := 0; j < 3; j++ {
			ops = append(ops, c12GenOp(r, &nextID))
		}
		specs = append(specs, c12ClientSpec{fmt.Sprintf("s%d", i), ops})
	}
	o.Desc(map[string]any{"shared_handle": true, "clients": specs})
	res := &c12Result{w: w, opsOf: map[string]int{}}
	var wg sync.WaitGroup
	var mu sync.Mutex
	for _, cl := range specs {
		wg.Add(1)
		go func(cl c12ClientSpec) {
			defer wg.Done()
			for _, op := range cl.Ops {
				ev := w.exec(ctx, l, cl.Name, op)
				mu.Lock()
				res.events = append(res.events, ev)
				mu.Unlock()
			}
		}(cl)
	}
	wg.Wait()
	o.Count("stress_runs", 1)
	o.Count("stress_concurrent_goroutines", int64(nc))
	c12Judge(c, o, res, fmt.Sprintf("free-running on one shared lake handle: %v", specs), false)
}

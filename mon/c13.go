package main

import (
	"context"
	"fmt"
	"github.com/brimdata/super/pkg/verifhook"
	"sort"
	"strings"
	"sync"
	"time"

	zed "github.com/brimdata/super"
	"github.com/brimdata/super/zbuf"
	"github.com/segmentio/ksuid"

	"verif/internal/gen"
	"verif/internal/lk"
	"verif/internal/rt"
	"verif/internal/store"
)

func init() { register("C13", runC13) }

func runC13(c *rt.Ctx) {
	// released zngio buffers are overwritten (H1): lake code that keeps using a
	// value after the reader has moved on reads garbage deterministically
	verifhook.SetPoison(true)
	c.Note("rule", "(a) histories: random multi-branch lake histories (loads, deletes, delete-where, compactions, merges, reverts, vector adds, vacuum, pool rename); after every step every commit created so far is re-queried by id, from the acting handle and from a cold one, and must equal what the model recorded when the commit was created (a commit whose objects were vacuumed may fail but never answer differently); (b) reader isolation under the operation-level scheduler: a reader (compile + batch-by-batch pulls of `from p@main`, on a handle with warm caches) against 1–2 writers (load, delete, delete-where, compact, revert, merge, add-vectors, pool rename): every single-preemption schedule reader/writer in both roles, plus random segment schedules; the reader must return exactly the value set of one commit of main's final chain, not older than the last commit acknowledged before the reader was started and not newer than the last commit started before it returned; (c) free-running readers and writers on one shared handle under the race detector; evaluations = history steps + schedules; non-trivial = (a) history with a compaction or revert after a re-queried commit, (b) schedule in which a writer committed between two reader pulls")
	c.Note("granularity", "reader/writer interleavings at storage-operation granularity (scheduler), plus free-running goroutines under the race detector for in-memory state")
	c.Note("assumptions", "vacuum is the only operation allowed to make an old commit unreadable\nthe reader's warm caches are produced by running a query on its handle before the scheduled phase")
	nh := c.N(60, 1500)
	for i := 0; i < nh; i++ {
		c.Case("hist", i, func(o *rt.Obs) { c13History(c, o) })
	}
	for i, d := range c13Directed {
		c.Case("directed", i, func(o *rt.Obs) { c13RunHistory(c, o, d.spec, i%2 == 1, d.ops, -1) })
	}
	writers := []c12Op{
		{Kind: "load", Branch: "main", IDs: []int{11, 12}, Vals: idsVals(11, 12)},
		{Kind: "delete-where", Branch: "main", IDs: []int{3}},
		{Kind: "delete", Branch: "main", Objs: []int{0}},
		{Kind: "compact", Branch: "main", Objs: []int{0, 1}},
		{Kind: "revert", Branch: "main", Objs: []int{1}},
		{Kind: "merge", Branch: "main"},
		{Kind: "add-vectors", Branch: "main", Objs: []int{2}},
		{Kind: "rename-pool", Name: "p", NewName: "pp"},
	}
	idx := 0
	for wi := range writers {
		for role := 0; role < 2; role++ {
			for fl := 0; fl < 2; fl++ {
				wi, role, fl := wi, role, fl
				if c.Quick() && (wi+role+fl)%2 == 1 {
					idx++
					continue
				}
				c.Case("pair", idx, func(o *rt.Obs) { c13Pair(c, o, writers[wi], role == 0, fl == 1) })
				idx++
			}
		}
	}
	nr := c.N(40, 1500)
	for i := 0; i < nr; i++ {
		c.Case("rand", i, func(o *rt.Obs) { c13Random(c, o) })
	}
	ns := c.N(8, 150)
	for i := 0; i < ns; i++ {
		c.Case("stress", i, func(o *rt.Obs) { c13Stress(c, o) })
	}
	// reader × writer single-preemption schedules on a real directory through
	// pkg/storage/file.go (quick: load, compact, merge writers; thorough: all)
	for wi := range writers {
		if c.Quick() && wi != 0 && wi != 3 && wi != 5 {
			continue
		}
		for role := 0; role < 2; role++ {
			wi, role := wi, role
			c.Case("realfs-pair", wi*2+role, func(o *rt.Obs) {
				c12Real = true
				defer func() { c12Real = false }()
				o.Count("cases_on_real_file_engine", 1)
				c13Pair(c, o, writers[wi], role == 0, true)
			})
		}
	}
}

// ---- (a) immutability over histories ------------------------------------------------

func c13History(c *rt.Ctx, o *rt.Obs) {
	r := o.R
	spec := genPoolSpec(r, "p")
	if spec.Key == "this" {
		spec.Key = "k"
	}
	fileLike := r.Bool()
	hg := &histGen{r: r, key: spec.Key, branches: []string{"main"}, multi: true, vg: &lakeValGen{r: r, key: spec.Key, noNull: true}}
	n := r.Range(4, c.N(10, 22))
	ops := []lk.Op{{Kind: "load", Branch: "main", Vals: hg.vg.vals(r.Range(2, 6))}}
	for len(ops) < n {
		ops = append(ops, hg.op())
	}
	renameAt := -1
	if r.Chance(1, 3) {
		renameAt = r.Intn(n)
	}
	c13RunHistory(c, o, spec, fileLike, ops, renameAt)
}

// c13Directed: fixed histories (regression cases / shapes the random histories rarely produce).
var c13Directed = []struct {
	spec lk.PoolSpec
	ops  []lk.Op
}{
	// 0: a commit records a vector for an object; the object is then deleted from the
	// branch (not vacuumed) and a second vector add names it again: the refused request
	// must leave the first commit's vector object alone
	{lk.PoolSpec{Name: "p", Key: "k", Order: "asc"}, []lk.Op{
		{Kind: "load", Branch: "main", Vals: []string{"{k:1,id:1}", "{k:2,id:2}", "{k:3,id:3}"}},
		{Kind: "add-vectors", Branch: "main", Objs: []int{0}},
		{Kind: "delete", Branch: "main", Objs: []int{0}},
		{Kind: "add-vectors", Branch: "main", Objs: []int{0}, Any: true},
		{Kind: "load", Branch: "main", Vals: []string{"{k:4,id:4}"}},
		{Kind: "del-vectors", Branch: "main", Objs: []int{0}, Any: true},
		{Kind: "delete", Branch: "main", Objs: []int{0}, Any: true}}},
}

func c13RunHistory(c *rt.Ctx, o *rt.Obs, spec lk.PoolSpec, fileLike bool, ops []lk.Op, renameAt int) {
	ctx := context.Background()
	desc := map[string]any{"pool": spec, "file_semantics": fileLike, "ops": ops, "rename_pool_after_step": renameAt}
	o.Desc(desc)
	if o.Index%100 == 0 {
		o.Sample(desc)
	}
	eng, l, m, err := newMemLake(ctx, fileLike, spec)
	if err != nil {
		o.Violation("setup-failed", err.Error())
		return
	}
	nontrivial := false
	for step, op := range ops {
		out := m.Exec(ctx, l, eng.B, op)
		if out.Skipped {
			continue
		}
		o.AddEvaluations(1)
		if out.Err == nil && (op.Kind == "compact" || op.Kind == "revert") && len(m.Order) > 1 {
			nontrivial = true
		}
		if step == renameAt {
			if err := l.API.RenamePool(ctx, m.PoolID, "renamed"); err == nil {
				m.Spec.Name = "renamed"
			}
		}
		var h *lk.Lake = l
		if step%2 == 1 {
			h, err = lk.Open(ctx, eng.Fork())
			if err != nil {
				o.Violation("unreadable", fmt.Sprintf("after step %d (%s): cold open: %v", step, op, err))
				return
			}
		}
		order := append([]ksuid.KSUID(nil), m.Order...)
		if step%2 == 1 {
			// cold handle: newest commit first, so that older commits are served by a
			// process that has already derived newer snapshots from their persisted ones
			for i, j := 0, len(order)-1; i < j; i, j = i+1, j-1 {
				order[i], order[j] = order[j], order[i]
			}
		}
		for ci, commit := range order {
			want := gen.RecsOf(m.Values(commit))
			got, err := h.Query(ctx, fmt.Sprintf("from %s@%s", m.Spec.Name, commit))
			o.Count("commit_requeries", 1)
			if err != nil {
				if m.NeedsVacuumed(commit) {
					o.Count("requery_of_vacuumed_commit_failed_ok", 1)
					continue
				}
				o.Violation("commit-unreadable-later", fmt.Sprintf("after step %d (%s): commit #%d %s (a %s) can no longer be queried: %v", step, op, ci, commit, m.Commits[commit].Kind, err))
				continue
			}
			if d := multisetDiff(want, got); d != "" {
				sig := "commit-contents-changed"
				if m.NeedsVacuumed(commit) {
					sig = "vacuumed-commit-answers-differently"
				}
				o.Violation(sig, fmt.Sprintf("after step %d (%s): commit #%d %s (a %s) now reads differently from when it was created: %s", step, op, ci, commit, m.Commits[commit].Kind, d))
			}
			// the vector objects the commit lists are part of what a (vectorized)
			// query at that commit reads: they must stay in place until vacuumed
			if m.NeedsVacuumed(commit) {
				continue
			}
			vecs, err := h.Vectors(ctx, m.Spec.Name, commit.String())
			if err != nil {
				o.Violation("commit-unreadable-later", fmt.Sprintf("after step %d (%s): vector listing of commit #%d %s failed: %v", step, op, ci, commit, err))
				continue
			}
			for _, v := range vecs {
				o.Count("commit_vector_objects_checked", 1)
				if m.Vacuumed[v.ID] {
					continue
				}
				if st := lk.VectorStatus(eng.B, m.PoolID, v.ID); strings.HasPrefix(st, "ERR vector file does not exist") || strings.HasPrefix(st, "ERR vector file does not open") {
					o.Violation("commit-vector-object-gone", fmt.Sprintf("after step %d (%s): commit #%d %s (a %s) lists a vector for object %s; its vector object: %s (nothing was vacuumed)", step, op, ci, commit, m.Commits[commit].Kind, v.ID, st))
				}
			}
		}
	}
	if nontrivial {
		o.Nontrivial(fmt.Sprint("hist/", o.Index))
	}
}

// ---- (b) reader isolation under the scheduler -------------------------------------------

type c13Read struct {
	Call, Return int64
	IDs          []int
	Err          string
	Pulls        int
	PullTimes    []int64
}

// c13Reader compiles and drains `from <pool>@main` batch by batch.
func c13Reader(ctx context.Context, w *c12World, l *lk.Lake) c13Read {
	var rd c13Read
	rd.Call = w.clock.Add(1)
	q, err := l.API.Query(ctx, nil, "from p@main | yield id")
	if err != nil {
		rd.Err = err.Error()
		rd.Return = w.clock.Add(1)
		return rd
	}
	for {
		b, err := q.Pull(false)
		if err != nil {
			if _, ok := err.(*zbuf.Control); ok {
				continue
			}
			rd.Err = err.Error()
			break
		}
		if b == nil {
			break
		}
		rd.Pulls++
		rd.PullTimes = append(rd.PullTimes, w.clock.Add(1))
		for _, v := range b.Values() {
			rd.IDs = append(rd.IDs, int(v.Int()))
		}
		b.Unref()
	}
	q.Pull(true)
	rd.Return = w.clock.Add(1)
	sort.Ints(rd.IDs)
	return rd
}

type c13Result struct {
	*c12Result
	reads []c13Read
}

// c13Run runs one reader "r" and the writer clients under the schedule.
func c13Run(ctx context.Context, base *c12World, writers []c12ClientSpec, nreaders int, segs []store.Segment) (*c13Result, error) {
	w := base.clone()
	order := []string{}
	for i := 0; i < nreaders; i++ {
		order = append(order, fmt.Sprintf("r%d", i))
	}
	for _, cl := range writers {
		order = append(order, cl.Name)
	}
	sched := store.NewSched(order, segs)
	res := &c13Result{c12Result: &c12Result{w: w, opsOf: map[string]int{}, fileLike: w.eng.FileLike}}
	open := func(warm bool) (*lk.Lake, error) {
		eng := w.eng.Fork()
		l, err := lk.Open(ctx, eng)
		if err != nil {
			return nil, err
		}
		if warm {
			if _, err := l.Query(ctx, "from p@main | count()"); err != nil {
				return nil, err
			}
		}
		eng.Gate = sched
		return l, nil
	}
	var wg sync.WaitGroup
	var mu sync.Mutex
	for i := 0; i < nreaders; i++ {
		l, err := open(true)
		if err != nil {
			return nil, err
		}
		name := fmt.Sprintf("r%d", i)
		wg.Add(1)
		go func() {
			defer wg.Done()
			defer sched.Done(name)
			rd := c13Reader(store.WithClient(ctx, name), w, l)
			mu.Lock()
			res.reads = append(res.reads, rd)
			mu.Unlock()
		}()
	}
	for _, cl := range writers {
		l, err := open(false)
		if err != nil {
			return nil, err
		}
		cl := cl
		wg.Add(1)
		go func() {
			defer wg.Done()
			defer sched.Done(cl.Name)
			cctx := store.WithClient(ctx, cl.Name)
			for _, op := range cl.Ops {
				ev := w.exec(cctx, l, cl.Name, op)
				mu.Lock()
				res.events = append(res.events, ev)
				mu.Unlock()
			}
		}()
	}
	done := make(chan struct{})
	go func() { wg.Wait(); close(done) }()
	select {
	case <-done:
	case <-time.After(5 * time.Minute):
		sched.Disable()
		<-done
		return nil, fmt.Errorf("watchdog: schedule did not finish (segments %v)", segs)
	}
	sched.Disable()
	res.trace = sched.Trace()
	for _, n := range order {
		res.opsOf[n] = sched.OpsOf(n)
	}
	return res, nil
}

func c13Pair(c *rt.Ctx, o *rt.Obs, wop c12Op, readerFirst bool, fileLike bool) {
	ctx := context.Background()
	desc := map[string]any{"file_semantics": fileLike, "writer": wop.String(), "reader_preempted": readerFirst}
	o.Desc(desc)
	if o.Index%8 == 0 {
		o.Sample(desc)
	}
	base, err := c12Setup(ctx, fileLike)
	if err != nil {
		o.Violation("setup-failed", err.Error())
		return
	}
	defer store.Discard(base.eng.B)
	writers := []c12ClientSpec{{"w", []c12Op{wop}}}
	first, second := "r0", "w"
	if !readerFirst {
		first, second = "w", "r0"
	}
	solo, err := c13Run(ctx, base, writers, 1, []store.Segment{{Client: first, N: -1}})
	if err != nil {
		o.Violation("setup-failed", err.Error())
		return
	}
	n := solo.opsOf[first]
	// k = n+1: the first client runs until it has returned (a segment of k = n
	// operations ends with its last storage operation, while the client is still
	// on its way back to the caller), so that "acknowledged before the other one
	// started" really holds
	for k := 0; k <= n+1; k++ {
		segs := []store.Segment{{Client: first, N: k}, {Client: second, N: -1}, {Client: first, N: -1}}
		what := fmt.Sprintf("writer %s; %s preempted after %d of %d storage operations", wop, first, k, n)
		if k == 0 {
			segs = segs[1:]
		}
		if k == n+1 {
			segs = []store.Segment{{Client: first, N: -1}, {Client: second, N: -1}}
			what = fmt.Sprintf("writer %s; %s has returned before %s starts", wop, first, second)
		}
		res, err := c13Run(ctx, base, writers, 1, segs)
		if err != nil {
			o.Violation("setup-failed", err.Error())
			return
		}
		c13Judge(c, o, res, what)
		if c12Real {
			o.Count("schedules_on_real_file_engine", 1)
			store.Discard(res.w.eng.B)
		}
	}
}

func c13Random(c *rt.Ctx, o *rt.Obs) {
	ctx := context.Background()
	r := o.R
	fileLike := r.Chance(1, 3)
	nw := r.Range(1, 2)
	nreaders := r.Range(1, 2)
	nextID := 40
	var writers []c12ClientSpec
	names := []string{"r0"}
	if nreaders == 2 {
		names = append(names, "r1")
	}
	for i := 0; i < nw; i++ {
		var ops []c12Op
		for j := 0; j < r.Range(1, 2); j++ {
			op := c12GenOp(r, &nextID)
			for op.Kind == "create-pool" || op.Kind == "drop-pool" || op.Kind == "create-branch" || op.Kind == "drop-branch" || (op.Kind == "rename-pool" && op.Name != "p") {
				op = c12GenOp(r, &nextID)
			}
			ops = append(ops, op)
		}
		name := fmt.Sprintf("w%d", i)
		writers = append(writers, c12ClientSpec{name, ops})
		names = append(names, name)
	}
	var segs []store.Segment
	for i := 0; i < r.Range(2, 6); i++ {
		segs = append(segs, store.Segment{Client: rt.Pick(r, names), N: r.Range(1, 16)})
	}
	desc := map[string]any{"file_semantics": fileLike, "readers": nreaders, "writers": writers, "segments": segs}
	o.Desc(desc)
	if o.Index%25 == 0 {
		o.Sample(desc)
	}
	base, err := c12Setup(ctx, fileLike)
	if err != nil {
		o.Violation("setup-failed", err.Error())
		return
	}
	res, err := c13Run(ctx, base, writers, nreaders, segs)
	if err != nil {
		o.Violation("setup-failed", err.Error())
		return
	}
	c13Judge(c, o, res, fmt.Sprintf("writers %v segments %v", writers, segs))
}

// c13States replays main's chain at value level and returns the value-id set
// after each chain position (index 0 = pre-state tip).
func c13States(w *c12World, chain []ksuid.KSUID, byCommit map[ksuid.KSUID]*c12Event) ([]ksuid.KSUID, [][]int) {
	state := map[int]bool{}
	for _, id := range w.preIDs["main"] {
		state[id] = true
	}
	snap := func() []int {
		var ids []int
		for id := range state {
			ids = append(ids, id)
		}
		sort.Ints(ids)
		return ids
	}
	var commits []ksuid.KSUID
	var states [][]int
	commits = append(commits, w.preMain[0])
	states = append(states, snap())
	merged := false
	for i := len(chain) - 1; i >= 0; i-- {
		e := byCommit[chain[i]]
		if e == nil {
			continue
		}
		switch e.op.Kind {
		case "load":
			for _, id := range e.op.IDs {
				state[id] = true
			}
		case "delete-where":
			for _, id := range e.op.IDs {
				delete(state, id)
			}
		case "delete":
			for _, oi := range e.op.Objs {
				for _, id := range w.objVals[w.objs[oi%len(w.objs)]] {
					delete(state, id)
				}
			}
		case "revert":
			n := 0
			for _, cm := range w.preMain {
				if ids, ok := w.loadOf[cm]; ok {
					if n == e.op.Objs[0]%3 {
						for _, id := range ids {
							delete(state, id)
						}
					}
					n++
				}
			}
		case "merge":
			if !merged {
				for _, id := range w.b1Extra {
					state[id] = true
				}
				for _, id := range w.b1Gone {
					delete(state, id)
				}
				merged = true
			}
		}
		commits = append(commits, chain[i])
		states = append(states, snap())
	}
	return commits, states
}

func c13Judge(c *rt.Ctx, o *rt.Obs, res *c13Result, what string) {
	ctx := context.Background()
	w := res.w
	o.AddEvaluations(1)
	o.Count("schedules_executed", 1)
	sort.Slice(res.events, func(i, j int) bool { return res.events[i].Call < res.events[j].Call })
	hist := func() string {
		var sb strings.Builder
		for _, e := range res.events {
			fmt.Fprintf(&sb, "  [%d,%d] %s %s → commit=%s err=%q\n", e.Call, e.Return, e.Client, e.Op, e.Commit, e.Err)
		}
		for i, rd := range res.reads {
			fmt.Fprintf(&sb, "  [%d,%d] reader %d: %d pulls at %v → ids %v err=%q\n", rd.Call, rd.Return, i, rd.Pulls, rd.PullTimes, rd.IDs, rd.Err)
		}
		var tr []string
		for _, op := range res.trace {
			tr = append(tr, op.String())
		}
		return what + "\nhistory:\n" + sb.String() + "storage schedule: " + strings.Join(tr, " ")
	}
	anomaly := c12TraceAnomaly(res.trace)
	viol := func(sig, detail string) {
		if anomaly != "" {
			sig += "|" + anomaly
		}
		o.Violation(sig, detail)
	}
	l, err := lk.Open(ctx, store.New(w.eng.B, res.fileLike))
	if err != nil {
		viol("unreadable-after-run", fmt.Sprintf("%s\nlake.Open: %v", hist(), err))
		return
	}
	poolName := "p"
	for _, e := range res.events {
		if e.op.Kind == "rename-pool" && e.op.Name == "p" && e.Err == "" {
			poolName = e.op.NewName
		}
	}
	chain, err := c12Chain(ctx, l, poolName, "main")
	if err != nil {
		viol("unreadable-after-run", fmt.Sprintf("%s\n%v", hist(), err))
		return
	}
	pos := map[ksuid.KSUID]int{}
	byCommit := map[ksuid.KSUID]*c12Event{}
	for i := range res.events {
		e := &res.events[i]
		if e.Err == "" && e.commit != ksuid.Nil && e.op.Branch == "main" {
			byCommit[e.commit] = e
		}
	}
	commits, states := c13States(w, chain, byCommit)
	for i, cm := range commits {
		pos[cm] = i
	}
	for ri, rd := range res.reads {
		if rd.Err != "" && strings.Contains(rd.Err, "pool not found") && poolRenameBefore(res.events, rd.Return) {
			// the reader names the pool "p"; a rename that started before the reader
			// finished compiling legitimately makes that name unknown
			o.Count("reads_refused_pool_renamed", 1)
			continue
		}
		if rd.Err != "" {
			viol("reader-failed", fmt.Sprintf("%s\nreader %d failed: %s", hist(), ri, rd.Err))
			continue
		}
		// window of admissible chain positions
		lo, hi := 0, 0
		committedDuring := false
		for _, e := range res.events {
			if e.Err != "" || e.commit == ksuid.Nil || e.op.Branch != "main" {
				continue
			}
			p, ok := pos[e.commit]
			if !ok {
				continue
			}
			if e.Return < rd.Call && p > lo {
				lo = p
			}
			if e.Call < rd.Return && p > hi {
				hi = p
			}
			if len(rd.PullTimes) > 1 && e.Return > rd.PullTimes[0] && e.Return < rd.PullTimes[len(rd.PullTimes)-1] {
				committedDuring = true
			}
		}
		if hi < lo {
			hi = lo
		}
		if committedDuring {
			o.Nontrivial(fmt.Sprintf("%x", store.TraceHash(res.trace)))
			o.Count("schedules_with_commit_between_reader_pulls", 1)
		}
		match := -1
		for p := lo; p <= hi && p < len(states); p++ {
			if equalInts(states[p], rd.IDs) {
				match = p
				break
			}
		}
		if match >= 0 {
			o.Count("reads_checked", 1)
			continue
		}
		// diagnose
		older, anywhere := false, false
		for p := range states {
			if equalInts(states[p], rd.IDs) {
				anywhere = true
				if p < lo {
					older = true
				}
			}
		}
		switch {
		case older:
			viol("reader-missed-acknowledged-commit", fmt.Sprintf("%s\nreader %d returned ids %v = main at chain position < %d although the commit at position %d was acknowledged before the reader started", hist(), ri, rd.IDs, lo, lo))
		case anywhere:
			viol("reader-saw-future-commit", fmt.Sprintf("%s\nreader %d returned ids %v, a state of main newer than anything started before the reader returned (window %d..%d)", hist(), ri, rd.IDs, lo, hi))
		default:
			viol("reader-saw-mixed-state", fmt.Sprintf("%s\nreader %d returned ids %v which is the content of no commit of main (states by chain position: %v; admissible %d..%d)", hist(), ri, rd.IDs, states, lo, hi))
		}
	}
	_ = zed.Null
}

func equalInts(a, b []int) bool {
	if len(a) != len(b) {
		return false
	}
	for i := range a {
		if a[i] != b[i] {
			return false
		}
	}
	return true
}

// ---- (c) free-running on a shared handle under the race detector ---------------------------

func c13Stress(c *rt.Ctx, o *rt.Obs) {
	ctx := context.Background()
	r := o.R
	w, err := c12Setup(ctx, false)
	if err != nil {
		o.Violation("setup-failed", err.Error())
		return
	}
	l, err := lk.Open(ctx, w.eng.Fork())
	if err != nil {
		o.Violation("setup-failed", err.Error())
		return
	}
	nextID := 200
	nw, nrd := r.Range(2, 4), r.Range(2, 4)
	res := &c13Result{c12Result: &c12Result{w: w, opsOf: map[string]int{}}}
	var specs []c12ClientSpec
	for i := 0; i < nw; i++ {
		var ops []c12Op
		for j := 0; j < 3; j++ {
			op := c12GenOp(r, &nextID)
			for op.Branch != "main" {
				op = c12GenOp(r, &nextID)
			}
			ops = append(ops, op)
		}
		specs = append(specs, c12ClientSpec{fmt.Sprintf("w%d", i), ops})
	}
	o.Desc(map[string]any{"shared_handle": true, "writers": specs, "readers": nrd})
	var wg sync.WaitGroup
	var mu sync.Mutex
	for _, cl := range specs {
		cl := cl
		wg.Add(1)
		go func() {
			defer wg.Done()
			for _, op := range cl.Ops {
				ev := w.exec(ctx, l, cl.Name, op)
				mu.Lock()
				res.events = append(res.events, ev)
				mu.Unlock()
			}
		}()
	}
	for i := 0; i < nrd; i++ {
		wg.Add(1)
		go func() {
			defer wg.Done()
			for j := 0; j < 3; j++ {
				rd := c13Reader(ctx, w, l)
				mu.Lock()
				res.reads = append(res.reads, rd)
				mu.Unlock()
			}
		}()
	}
	wg.Wait()
	o.Count("stress_runs", 1)
	c13Judge(c, o, res, fmt.Sprintf("free-running on one shared handle: writers %v, %d readers", specs, nrd))
}

func poolRenameBefore(events []c12Event, t int64) bool {
	for _, e := range events {
		if e.op.Kind == "rename-pool" && e.op.Name == "p" && e.Call < t {
			return true
		}
	}
	return false
}

package main

import (
	"context"
	"fmt"
	"github.com/brimdata/super/pkg/verifhook"
	"os"

	"verif/internal/gen"
	"verif/internal/lk"
	"verif/internal/rt"
	"verif/internal/store"
)

func init() { register("C14", runC14) }

// c14Alphabet is the small alphabet for exhaustive short histories (object
// and commit references are indices resolved against the model at run time).
func c14Alphabet() []lk.Op {
	return []lk.Op{
		{Kind: "load", Branch: "main", Vals: []string{"{k:1,id:1}", "{k:5,id:2}", "{k:3,id:3}", "{id:4}"}},
		{Kind: "load", Branch: "main", Vals: []string{"{k:3,id:5}", "{k:null,id:6}", "{k:8,id:7}", "{k:2.5,id:8}"}},
		{Kind: "delete", Branch: "main", Objs: []int{0}},
		{Kind: "delete-where", Branch: "main", Pred: "k > 2"},
		{Kind: "delete-where", Branch: "main", Pred: "id == 3 or id == 7"},
		{Kind: "compact", Branch: "main", Objs: []int{0, 1, 2}},
		{Kind: "add-vectors", Branch: "main", Objs: []int{0}},
		{Kind: "vacuum", Branch: "main"},
		{Kind: "revert", Branch: "main", Commit: 0},
	}
}

func runC14(c *rt.Ctx) {
	// released zngio buffers are overwritten (H1): lake code that keeps using a
	// value after the reader has moved on reads garbage deterministically
	verifhook.SetPoison(true)
	c.Note("rule", "case = one lake history on a fresh in-memory lake (object-store or file semantics): exhaustive over all op sequences up to length L over a 9-op alphabet × 4 pool layouts, plus random histories (random pool key k/a.k/this, asc/desc, threshold 1 B…default, seek stride 1 B…default; loads with duplicate, mixed-type, null and missing keys); after every step the branch query multiset, the metadata listing, per-object count/key-range/sortedness, seek-index tiling and pool-key order of the scan (two handles, two parallelisms) are compared with the model; non-trivial = at some step the branch held ≥2 objects (a scan has to merge) and some delete-where or compaction rewrote objects; distinct by case id")
	c.Note("assumptions", "pool keys are generated only from numbers, strings, null and missing, for which the harness has its own order (numbers numerically < strings < null/missing)\ndelete-where's reference semantics is a plain in-memory `where` in the sequential runtime")
	alpha := c14Alphabet()
	maxLen := c.N(3, 4)
	layouts := []lk.PoolSpec{
		{Name: "p", Key: "k", Order: "asc", Thresh: 25, Stride: 1},
		{Name: "p", Key: "k", Order: "desc", Thresh: 40, Stride: 1},
		{Name: "p", Key: "k", Order: "asc", Thresh: 0, Stride: 0},
		{Name: "p", Key: "k", Order: "desc", Thresh: 1, Stride: 16},
	}
	// exhaustive enumeration
	idx := 0
	var seq []int
	var rec func(depth int)
	rec = func(depth int) {
		if depth > 0 {
			for li, spec := range layouts {
				if c.Quick() && depth == maxLen && (idx+li)%2 != 0 {
					// quick tier: the longest histories on every other layout
					continue
				}
				ops := make([]lk.Op, len(seq))
				for i, a := range seq {
					ops[i] = alpha[a]
				}
				spec := spec
				fl := (idx+li)%2 == 0
				c.Case("exh", idx*len(layouts)+li, func(o *rt.Obs) { c14History(c, o, spec, fl, ops) })
			}
			idx++
		}
		if depth == maxLen {
			return
		}
		for a := range alpha {
			if depth == 0 && alpha[a].Kind != "load" {
				continue // every history starts with a load (anything else is a no-op on an empty pool)
			}
			seq = append(seq, a)
			rec(depth + 1)
			seq = seq[:len(seq)-1]
		}
	}
	rec(0)
	for i, d := range c14Directed() {
		d := d
		c.Case("directed", i, func(o *rt.Obs) { c14History(c, o, d.spec, i%2 == 0, d.ops) })
	}
	c.Note("exhaustive", "false")
	nrand := c.N(220, 5000)
	for i := 0; i < nrand; i++ {
		c.Case("rand", i, func(o *rt.Obs) {
			r := o.R
			spec := genPoolSpec(r, "p")
			hg := &histGen{r: r, key: spec.Key, branches: []string{"main"}, vg: &lakeValGen{r: r, key: spec.Key}}
			n := r.Range(2, c.N(10, 30))
			ops := make([]lk.Op, 0, n)
			ops = append(ops, lk.Op{Kind: "load", Branch: "main", Vals: hg.vg.vals(r.Range(2, 8))})
			for len(ops) < n {
				ops = append(ops, hg.op())
			}
			c14History(c, o, spec, r.Bool(), ops)
		})
	}
	// histories on a real directory with `super db manage` steps (the
	// compaction planner of cmd/super/internal/lakemanage is reachable only
	// through the binary, which the driver builds from the same tree)
	if os.Getenv("VERIF_SUPER_BIN") == "" {
		c.Note("manage", "VERIF_SUPER_BIN not set: histories with `super db manage` steps not run")
		return
	}
	for i, d := range c14ManageDirected() {
		d := d
		c.Case("manage-directed", i, func(o *rt.Obs) { c14HistoryOn(c, o, d.spec, true, true, d.ops) })
	}
	nman := c.N(10, 300)
	for i := 0; i < nman; i++ {
		c.Case("manage", i, func(o *rt.Obs) {
			r := o.R
			spec := genPoolSpec(r, "p")
			if spec.Key == "this" {
				spec.Key = "k"
			}
			// manage groups objects until a run reaches the pool threshold: small
			// thresholds give several runs, large ones a single run
			spec.Thresh = rt.Pick(r, []int64{60, 200, 500, 2000, 0})
			hg := &histGen{r: r, key: spec.Key, branches: []string{"main"}, vg: &lakeValGen{r: r, key: spec.Key}}
			n := r.Range(4, c.N(9, 20))
			var ops []lk.Op
			for len(ops) < n {
				switch x := r.Intn(10); {
				case len(ops) < 2 || x < 4:
					ops = append(ops, lk.Op{Kind: "load", Branch: "main", Vals: hg.vg.vals(r.Range(1, 8))})
				case x < 7:
					ops = append(ops, lk.Op{Kind: "manage", Branch: "main", Vectors: r.Chance(1, 3)})
				default:
					op := hg.op()
					if op.Kind == "vacuum" {
						continue
					}
					ops = append(ops, op)
				}
			}
			ops = append(ops, lk.Op{Kind: "manage", Branch: "main"})
			c14HistoryOn(c, o, spec, true, true, ops)
		})
	}
}

// c14ManageDirected: fixed histories with manage steps — overlapping loads that
// one run must merge, then disjoint ones that stay apart, then a second pass.
func c14ManageDirected() []struct {
	spec lk.PoolSpec
	ops  []lk.Op
} {
	ld := func(vals ...string) lk.Op { return lk.Op{Kind: "load", Branch: "main", Vals: vals} }
	man := lk.Op{Kind: "manage", Branch: "main"}
	manv := lk.Op{Kind: "manage", Branch: "main", Vectors: true}
	return []struct {
		spec lk.PoolSpec
		ops  []lk.Op
	}{
		{lk.PoolSpec{Name: "p", Key: "k", Order: "asc", Thresh: 100}, []lk.Op{
			ld("{k:1,id:1}", "{k:9,id:2}"), ld("{k:5,id:3}", "{k:7,id:4}"), ld("{k:20,id:5}", "{k:30,id:6}"), man,
			ld("{k:25,id:7}"), ld("{k:null,id:8}", "{id:9}", "{k:\"a\",id:10}"), manv, man}},
		{lk.PoolSpec{Name: "p", Key: "k", Order: "desc", Thresh: 60}, []lk.Op{
			ld("{k:1,id:1}", "{k:9,id:2}"), ld("{k:5,id:3}", "{k:null,id:4}"), ld("{k:20,id:5}", "{k:3.5,id:6}"), ld("{k:2,id:7}"), manv,
			{Kind: "delete-where", Branch: "main", Pred: "k > 4"}, ld("{k:6,id:11}"), ld("{k:6,id:12}", "{k:0,id:13}"), man,
			{Kind: "revert", Branch: "main", Commit: 4}, man}},
	}
}

func eraseTypes(recs []gen.Rec) []gen.Rec {
	out := make([]gen.Rec, len(recs))
	for i, r := range recs {
		out[i] = gen.Rec{Null: r.Null, Bytes: r.Bytes}
	}
	return out
}

// c14Directed are fixed histories: regression cases for repaired defects and
// reproducers of the open findings (re-executed on every run).
func c14Directed() []struct {
	spec lk.PoolSpec
	ops  []lk.Op
} {
	return []struct {
		spec lk.PoolSpec
		ops  []lk.Op
	}{
		// 0: a delete naming one object twice must be refused (or deduplicated), never committed
		{lk.PoolSpec{Name: "p", Key: "k", Order: "asc"}, []lk.Op{
			{Kind: "load", Branch: "main", Vals: []string{"{k:1,id:1}", "{k:2,id:2}"}},
			{Kind: "delete", Branch: "main", Objs: []int{0, 0}},
			{Kind: "load", Branch: "main", Vals: []string{"{k:3,id:3}"}}}},
		// 1: pool key `this`
		{lk.PoolSpec{Name: "p", Key: "this", Order: "asc"}, []lk.Op{
			{Kind: "load", Branch: "main", Vals: []string{"2.5", "1e3", "1(uint64)", "2"}}}},
		// 2: byte-identical values of different type tie in key and bytes
		{lk.PoolSpec{Name: "p", Key: "k", Order: "asc", Thresh: 1}, []lk.Op{
			{Kind: "load", Branch: "main", Vals: []string{"{k:null}", "{k:null(int64)}", "{k:null}", "{k:null(int64)}"}},
			{Kind: "load", Branch: "main", Vals: []string{"{k:null(int64)}", "{k:null}", "{k:null(float64)}"}},
			{Kind: "load", Branch: "main", Vals: []string{"{k:null}"}},
			{Kind: "load", Branch: "main", Vals: []string{"{k:null(int64)}"}}}},
		// 3: delete-where on a numeric comparison must not remove null keys (null is not 0)
		{lk.PoolSpec{Name: "p", Key: "k", Order: "asc", Thresh: 1, Stride: 1}, []lk.Op{
			{Kind: "load", Branch: "main", Vals: []string{"{k:1,id:1}", "{k:null(int64),id:2}", "{k:7,id:3}", "{k:null,id:4}", "{id:5}"}},
			{Kind: "delete-where", Branch: "main", Pred: "k <= 2.5"},
			{Kind: "delete-where", Branch: "main", Pred: "k < 8"}}},
		// 4: descending pool, objects [null..2], [0..0], [missing..-1]: the object listing must
		// keep the two objects that start at null together (0 and null have the same bytes);
		// every step re-lists the objects several times
		{lk.PoolSpec{Name: "p", Key: "k", Order: "desc"}, []lk.Op{
			{Kind: "load", Branch: "main", Vals: []string{"{k:null,id:1}", "{k:9,id:2}", "{k:2,id:3}"}},
			{Kind: "load", Branch: "main", Vals: []string{"{id:4}", "{k:8,id:5}", "{k:-1,id:6}"}},
			{Kind: "load", Branch: "main", Vals: []string{"{k:0,id:7}"}},
			{Kind: "add-vectors", Branch: "main", Objs: []int{0}},
			{Kind: "del-vectors", Branch: "main", Objs: []int{0}},
			{Kind: "add-vectors", Branch: "main", Objs: []int{1}},
			{Kind: "del-vectors", Branch: "main", Objs: []int{1}},
			{Kind: "add-vectors", Branch: "main", Objs: []int{2}},
			{Kind: "compact", Branch: "main", Objs: []int{0, 1, 2}},
			{Kind: "load", Branch: "main", Vals: []string{"{k:0,id:8}"}},
			{Kind: "load", Branch: "main", Vals: []string{"{k:null,id:9}", "{k:1,id:10}"}},
			{Kind: "compact", Branch: "main", Objs: []int{0, 1, 2}}}},
	}
}

func c14History(c *rt.Ctx, o *rt.Obs, spec lk.PoolSpec, fileLike bool, ops []lk.Op) {
	c14HistoryOn(c, o, spec, fileLike, false, ops)
}

// c14HistoryOn: with real set the lake lives in a scratch directory behind the
// repository's own file engine, which is what `manage` steps (the `super`
// binary run on that directory) need.
func c14HistoryOn(c *rt.Ctx, o *rt.Obs, spec lk.PoolSpec, fileLike, real bool, ops []lk.Op) {
	o.Desc(map[string]any{"pool": spec, "file_semantics": fileLike, "real_file_engine": real, "ops": ops})
	if o.Index%400 == 0 || real && o.Index%10 == 0 {
		o.Sample(map[string]any{"pool": spec, "file_semantics": fileLike, "real_file_engine": real, "ops": ops})
	}
	ctx := context.Background()
	backing := newBacking(real)
	defer store.Discard(backing)
	if real {
		o.Count("histories_on_real_file_engine", 1)
	}
	eng, l, m, err := newLakeOn(ctx, backing, fileLike, spec)
	if err != nil {
		o.Violation("setup-failed", err.Error())
		return
	}
	multiObjLoad, partialRewrite := false, false
	for step, op := range ops {
		out := m.Exec(ctx, l, eng.B, op)
		if out.Skipped {
			o.Count("ops_skipped_not_applicable", 1)
			continue
		}
		o.Count("ops_executed_"+op.Kind, 1)
		if out.Err != nil {
			o.Count("ops_reported_error", 1)
		}
		problemsToViolations(o, "", step, out.Problems)
		if out.Err == nil && out.Commit != [20]byte{} {
			if mc := m.Commits[out.Commit]; mc != nil {
				if op.Kind == "manage" {
					o.Count("manage_runs_that_rewrote_objects", 1)
					o.Count("manage_objects_compacted", int64(len(mc.Dels)))
					o.Count("manage_objects_written", int64(len(mc.Adds)))
				}
				// a scan has to merge objects: some load produced ≥2 objects, or the
				// branch holds ≥2 objects after the step
				if mc.Kind == "load" && len(mc.Adds) >= 2 || len(m.State(m.Branches[op.Branch])) >= 2 {
					multiObjLoad = true
				}
				// objects were rewritten: a delete-where kept part of an object, or a
				// compaction replaced objects
				if (mc.Kind == "delete-where" || mc.Kind == "compact") && len(mc.Adds) > 0 {
					partialRewrite = true
				}
			}
		}
		// The lake must agree with the model after every step, successful or not,
		// seen from the acting handle and from a cold one.
		problemsToViolations(o, "", step, m.CheckAll(ctx, l))
		cold, err := lk.Open(ctx, eng.Fork())
		if err != nil {
			o.Violation("unreadable", fmt.Sprintf("after step %d (%s): lake.Open on a cold handle: %v", step, op, err))
			return
		}
		problemsToViolations(o, "cold:", step, m.CheckAll(ctx, cold))
		if m.NeedsVacuumed(m.Branches["main"]) {
			continue
		}
		for _, p := range checkObjectMeta(ctx, cold, eng.B, m, "main") {
			if spec.Key == "this" && (p.Sig == "meta:key-range-wrong" || p.Sig == "meta:object-not-sorted" || p.Sig == "meta:seek-range-does-not-bound") {
				// Pool key `this` is documented as the whole value but implemented as a
				// field named "this" (one defect, three symptoms): keep it apart from other pools.
				p.Sig = "pool-key-this:not-the-whole-value"
			}
			problemsToViolations(o, "", step, []lk.Problem{p})
		}
		// pool-key order of an unfiltered scan; ties deterministic across handles and parallelism
		q := fmt.Sprintf("from %s@main", spec.Name)
		seq1, err := l.QueryVals(ctx, q)
		if err != nil {
			o.Violation("unreadable", fmt.Sprintf("after step %d (%s): %v", step, op, err))
			continue
		}
		if d := checkKeyOrder(seq1, spec.Key, spec.Order); d != "" {
			sig := "scan-out-of-key-order"
			if spec.Key == "this" {
				sig = "pool-key-this:not-the-whole-value"
			}
			o.Violation(sig, fmt.Sprintf("after step %d (%s): %s", step, op, d))
		}
		seq2, err := cold.QueryPar(ctx, q, 1+step%3)
		if err != nil {
			o.Violation("unreadable", fmt.Sprintf("after step %d (%s) at parallelism %d: %v", step, op, 1+step%3, err))
			continue
		}
		if d := diffRecs(gen.RecsOf(seq1), seq2); d != "" {
			sig := "scan-order-not-deterministic"
			if diffRecs(eraseTypes(gen.RecsOf(seq1)), eraseTypes(seq2)) == "" {
				// the two scans differ only in where values with identical key and
				// identical bytes but different types (null vs null(int64)) come
				sig = "scan-order-not-deterministic:byte-identical-values-of-different-type"
			}
			o.Violation(sig, fmt.Sprintf("after step %d (%s): two scans of the same commit differ (default vs parallelism %d on a cold handle): %s", step, op, 1+step%3, d))
		}
		o.Count("scans_order_checked", 1)
	}
	if multiObjLoad && partialRewrite {
		o.Nontrivial(fmt.Sprint(o.Kind, "/", o.Index))
	}
	_ = store.ErrCrashed
}

package main

import (
	"context"
	"fmt"
	"github.com/brimdata/super/pkg/verifhook"

	"github.com/segmentio/ksuid"

	"verif/internal/lk"
	"verif/internal/rt"
)

func init() { register("C15", runC15) }

// c15Side is the alphabet of per-branch operations for the exhaustive part;
// object indices are resolved against the branch's state at run time, so
// "delete object 0" on both sides is the both-sides-delete-the-same-object case.
func c15Side(branch string, base int) []lk.Op {
	return []lk.Op{
		{Kind: "load", Branch: branch, Vals: []string{fmt.Sprintf("{k:%d,id:%d}", base, base), fmt.Sprintf("{k:%d,id:%d}", base+1, base+1)}},
		{Kind: "delete", Branch: branch, Objs: []int{0}},
		{Kind: "delete", Branch: branch, Objs: []int{1}},
		{Kind: "delete-where", Branch: branch, Pred: "k >= 2"},
		{Kind: "compact", Branch: branch, Objs: []int{0, 1}},
	}
}

func runC15(c *rt.Ctx) {
	// released zngio buffers are overwritten (H1): lake code that keeps using a
	// value after the reader has moved on reads garbage deterministically
	verifhook.SetPoison(true)
	c.Note("rule", "case = one branching history on a fresh in-memory lake; exhaustive part: main gets two loads, a child branch is created, then every pair of operation sequences (≤L per side) over {load, delete obj0, delete obj1, delete-where, compact} on child and parent, followed by merge child→parent, merge again, revert of the merge commit and revert of the revert; random part: 1–3 branches created at any commit (also from an empty main, nested), random loads/deletes/delete-where/compactions on all sides, merges in both directions, reverts of any earlier commit; after every operation every branch is read from a cold handle and compared with an object-level model (merge: parent ∪ child-adds-since-ancestor ∖ child-deletes-since-ancestor; a failed merge or revert must leave everything unchanged); non-trivial = both sides changed since the common ancestor before a merge; distinct by case id")
	c.Note("assumptions", "the model's merge/revert formula is the one in the property statement, at data-object granularity\nan error from merge/revert is accepted whatever its text as long as no branch changes")
	L := c.N(2, 3)
	var seqs [][]int
	var rec func(cur []int)
	rec = func(cur []int) {
		seqs = append(seqs, append([]int(nil), cur...))
		if len(cur) == L {
			return
		}
		for a := 0; a < 5; a++ {
			rec(append(cur, a))
		}
	}
	rec(nil)
	idx := 0
	for _, cs := range seqs {
		for _, ps := range seqs {
			if len(cs) == 0 && len(ps) == 0 {
				continue
			}
			cs, ps := cs, ps
			c.Case("exh", idx, func(o *rt.Obs) {
				ops := []lk.Op{
					{Kind: "load", Branch: "main", Vals: []string{"{k:1,id:1}", "{k:2,id:2}"}},
					{Kind: "load", Branch: "main", Vals: []string{"{k:3,id:3}"}},
					{Kind: "create-branch", Branch: "child", From: "main"},
				}
				childAlpha, parentAlpha := c15Side("child", 100), c15Side("main", 200)
				// interleave: child ops first or alternating, chosen by the case's PRNG
				ci, pi := 0, 0
				for ci < len(cs) || pi < len(ps) {
					if pi >= len(ps) || (ci < len(cs) && o.R.Bool()) {
						op := childAlpha[cs[ci]]
						if op.Kind == "load" {
							op.Vals = []string{fmt.Sprintf("{k:%d,id:%d}", 100+ci*2, 100+ci*2), fmt.Sprintf("{k:%d,id:%d}", 101+ci*2, 101+ci*2)}
						}
						ops = append(ops, op)
						ci++
					} else {
						op := parentAlpha[ps[pi]]
						if op.Kind == "load" {
							op.Vals = []string{fmt.Sprintf("{k:%d,id:%d}", 200+pi*2, 200+pi*2), fmt.Sprintf("{k:%d,id:%d}", 201+pi*2, 201+pi*2)}
						}
						ops = append(ops, op)
						pi++
					}
				}
				ops = append(ops,
					lk.Op{Kind: "merge", Branch: "main", Child: "child"},
					lk.Op{Kind: "merge", Branch: "main", Child: "child"},
					lk.Op{Kind: "revert", Branch: "main", Commit: -1}, // last commit created
					lk.Op{Kind: "revert", Branch: "main", Commit: -1},
					lk.Op{Kind: "merge", Branch: "child", Child: "main"},
				)
				c15History(c, o, lk.PoolSpec{Name: "p", Key: "k", Order: "asc", Thresh: int64(40 * (o.Index % 2))}, o.Index%3 == 0, ops)
			})
			idx++
		}
	}
	for i, ops := range c15Directed() {
		ops := ops
		c.Case("directed", i, func(o *rt.Obs) {
			c15History(c, o, lk.PoolSpec{Name: "p", Key: "k", Order: "asc"}, false, ops)
		})
	}
	nr := c.N(200, 5000)
	for i := 0; i < nr; i++ {
		c.Case("rand", i, func(o *rt.Obs) {
			r := o.R
			spec := genPoolSpec(r, "p")
			if spec.Key == "this" {
				spec.Key = "k"
			}
			hg := &histGen{r: r, key: spec.Key, branches: []string{"main"}, multi: true, vg: &lakeValGen{r: r, key: spec.Key, noNull: true}}
			var ops []lk.Op
			if r.Chance(1, 5) {
				// branch from an empty main
				ops = append(ops, lk.Op{Kind: "create-branch", Branch: "b1", From: "main"})
				hg.branches = append(hg.branches, "b1")
			}
			n := r.Range(4, c.N(12, 25))
			for len(ops) < n {
				op := hg.op()
				if op.Kind == "vacuum" || op.Kind == "add-vectors" || op.Kind == "del-vectors" {
					continue
				}
				// more branching and merging than the C14 mix
				if r.Chance(1, 4) {
					if len(hg.branches) < 4 && r.Bool() {
						name := fmt.Sprintf("b%d", len(hg.branches))
						op = lk.Op{Kind: "create-branch", Branch: name, From: rt.Pick(r, hg.branches), Back: r.Intn(3)}
						hg.branches = append(hg.branches, name)
					} else {
						op = lk.Op{Kind: "merge", Branch: rt.Pick(r, hg.branches), Child: rt.Pick(r, hg.branches)}
					}
				}
				ops = append(ops, op)
			}
			c15History(c, o, spec, r.Bool(), ops)
		})
	}
}

// c15Directed: regression cases / reproducers.
func c15Directed() [][]lk.Op {
	load := func(br string, id int) lk.Op {
		return lk.Op{Kind: "load", Branch: br, Vals: []string{fmt.Sprintf("{k:%d,id:%d}", id, id)}}
	}
	return [][]lk.Op{
		// 0: both sides delete the same object, then merge (must fail cleanly or succeed; parent stays readable)
		{load("main", 1), load("main", 2), {Kind: "create-branch", Branch: "child", From: "main"},
			{Kind: "delete", Branch: "child", Objs: []int{0}}, {Kind: "delete", Branch: "main", Objs: []int{0}},
			{Kind: "merge", Branch: "main", Child: "child"}, load("main", 3)},
		// 1: both sides compact the same objects
		{load("main", 1), load("main", 2), {Kind: "create-branch", Branch: "child", From: "main"},
			{Kind: "compact", Branch: "child", Objs: []int{0, 1}}, {Kind: "compact", Branch: "main", Objs: []int{0, 1}},
			{Kind: "merge", Branch: "main", Child: "child"}, load("main", 3)},
		// 2: revert a merge commit, then revert the revert
		{load("main", 1), {Kind: "create-branch", Branch: "child", From: "main"}, load("child", 2), {Kind: "delete", Branch: "child", Objs: []int{0}},
			{Kind: "merge", Branch: "main", Child: "child"}, {Kind: "revert", Branch: "main", Commit: -1}, {Kind: "revert", Branch: "main", Commit: -1}},
	}
}

func c15History(c *rt.Ctx, o *rt.Obs, spec lk.PoolSpec, fileLike bool, ops []lk.Op) {
	o.Desc(map[string]any{"pool": spec, "file_semantics": fileLike, "ops": ops})
	if o.Index%300 == 0 {
		o.Sample(map[string]any{"pool": spec, "file_semantics": fileLike, "ops": ops})
	}
	ctx := context.Background()
	eng, l, m, err := newMemLake(ctx, fileLike, spec)
	if err != nil {
		o.Violation("setup-failed", err.Error())
		return
	}
	nontrivial := false
	for step, op := range ops {
		if op.Kind == "revert" && op.Commit == -1 {
			op.Commit = len(m.Order) - 1
		}
		if op.Kind == "merge" {
			if child, ok := m.Branches[op.Child]; ok {
				if parent, ok := m.Branches[op.Branch]; ok && op.Child != op.Branch {
					anc := c15Ancestor(m, parent, child)
					if anc != child && anc != parent {
						nontrivial = true
					}
				}
			}
		}
		out := m.Exec(ctx, l, eng.B, op)
		if out.Skipped {
			o.Count("ops_skipped_not_applicable", 1)
			continue
		}
		o.Count("ops_executed_"+op.Kind, 1)
		if out.Err != nil {
			o.Count("ops_reported_error_"+op.Kind, 1)
		}
		problemsToViolations(o, "", step, out.Problems)
		cold, err := lk.Open(ctx, eng.Fork())
		if err != nil {
			o.Violation("unreadable", fmt.Sprintf("after step %d (%s): lake.Open on a cold handle: %v", step, op, err))
			return
		}
		for _, p := range m.CheckAll(ctx, cold) {
			sig := p.Sig
			if out.Err != nil {
				sig = "after-failed-" + op.Kind + ":" + sig
			} else {
				sig = "after-" + op.Kind + ":" + sig
			}
			o.Violation(sig, fmt.Sprintf("after step %d (%s, returned %v): %s", step, op, out.Err, p.Detail))
		}
	}
	if nontrivial {
		o.Nontrivial(fmt.Sprint(o.Kind, "/", o.Index))
	}
}

func c15Ancestor(m *lk.Model, a, b ksuid.KSUID) ksuid.KSUID {
	in := map[ksuid.KSUID]bool{}
	for _, id := range m.Path(a) {
		in[id] = true
	}
	for _, id := range m.Path(b) {
		if in[id] {
			return id
		}
	}
	return ksuid.Nil
}

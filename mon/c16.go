package main

import (
	"context"
	"fmt"
	"strings"

	zed "github.com/brimdata/super"
	"github.com/brimdata/super/pkg/verifhook"
	"github.com/segmentio/ksuid"

	"verif/internal/gen"
	"verif/internal/lk"
	"verif/internal/rt"
	"verif/internal/store"
)

func init() { register("C16", runC16) }

// key domain of the exhaustive part (ZSON spellings); "" = missing key
var c16Keys = []string{"1", "2", "2.", "2.5", "3", `"a"`, `"b"`, "null", "null(int64)", ""}
var c16Consts = []string{"null", "1", "2", "3", "2.", "2.5", `"a"`, `"b"`}
var c16Ops = []string{"==", "!=", "<", "<=", ">", ">="}

func c16Val(key string, id int) string {
	if key == "" {
		return fmt.Sprintf("{id:%d}", id)
	}
	return fmt.Sprintf("{k:%s,id:%d}", key, id)
}

// c16Pool builds the exhaustive pool: one object for every (min,max) pair of
// the key domain (two or three values each), single-key objects with duplicate
// boundary keys, and one large object holding every key (so that seek ranges
// inside an object are pruned too).
func c16Pool(ctx context.Context, l *lk.Lake, m *lk.Model, b store.Backing) (int, error) {
	id := 0
	load := func(keys ...string) error {
		var vals []string
		for _, k := range keys {
			id++
			vals = append(vals, c16Val(k, id))
		}
		out := m.Exec(ctx, l, b, lk.Op{Kind: "load", Branch: "main", Vals: vals})
		if out.Err != nil {
			return out.Err
		}
		for _, p := range out.Problems {
			return fmt.Errorf("%s: %s", p.Sig, p.Detail)
		}
		return nil
	}
	n := 0
	for i, lo := range c16Keys {
		for j := i; j < len(c16Keys); j++ {
			hi := c16Keys[j]
			var err error
			switch {
			case i == j:
				err = load(lo, lo)
			case j == i+1:
				err = load(lo, hi)
			default:
				err = load(lo, c16Keys[(i+j)/2], hi)
			}
			if err != nil {
				return n, err
			}
			n++
		}
	}
	all := append([]string{}, c16Keys...)
	all = append(all, c16Keys...)
	if err := load(all...); err != nil {
		return n, err
	}
	return n + 1, nil
}

func c16Atoms() []string {
	var out []string
	for _, op := range c16Ops {
		for _, c := range c16Consts {
			out = append(out, fmt.Sprintf("k %s %s", op, c), fmt.Sprintf("%s %s k", c, op))
		}
	}
	return out
}

// c16Preds enumerates all predicates up to depth 2.
func c16Preds() []string {
	atoms := c16Atoms()
	out := append([]string{}, atoms...)
	for _, a := range atoms {
		out = append(out, "not ("+a+")")
	}
	for _, a := range atoms {
		out = append(out, a+" and id > 40", a+" or id == 7", "not ("+a+") and id <= 90")
	}
	for i, a := range atoms {
		for j, b := range atoms {
			if i == j {
				continue
			}
			out = append(out, a+" and "+b, a+" or "+b)
			if (i+j)%4 == 0 {
				out = append(out, "not ("+a+" and "+b+")", "not ("+a+") or "+b, a+" and not ("+b+")")
			}
		}
	}
	return out
}

func runC16(c *rt.Ctx) {
	// released zngio buffers are overwritten (H1): lake code that keeps using a
	// value after the reader has moved on reads garbage deterministically
	verifhook.SetPoison(true)
	c.Note("rule", "exhaustive part: every predicate up to depth 2 over atoms {k op c, c op k}, op ∈ {==,!=,<,<=,>,>=}, c ∈ {null,1,2,3,2.,2.5,\"a\",\"b\"} (quick: all atoms, all negations, all atom∘non-key conjuncts, a seeded tenth of the pairs; thorough: all) against one pool that holds an object for every [min,max] pair over the key domain {1,2,2.,2.5,3,\"a\",\"b\",null,null(int64),missing}, asc and desc, seek stride 1 B and default; random part: random pools × random predicates; for each predicate the pruned lake query (and, on a scratch branch, delete -where) is compared with a plain in-memory `where` over all pool values; a case is a batch of predicates on one freshly built pool; evaluations = predicates checked; non-trivial = predicate for which ≥1 object was pruned by its key range")
	c.Note("assumptions", "reference semantics of a predicate = the sequential runtime's `where` over an in-memory reader (no lake)\npredicates the compiler rejects (e.g. `k < null`) are outside the claim and only counted")
	preds := c16Preds()
	if c.Quick() {
		c.Note("exhaustive", "false")
	} else {
		c.Note("exhaustive", "true")
	}
	nAtomish := len(c16Atoms())*2 + len(c16Atoms())*3
	batch := 120
	configs := []lk.PoolSpec{
		{Name: "p", Key: "k", Order: "asc", Stride: 1},
		{Name: "p", Key: "k", Order: "desc", Stride: 1},
		{Name: "p", Key: "k", Order: "asc", Stride: 0},
		{Name: "p", Key: "k", Order: "desc", Stride: 40},
	}
	idx := 0
	for ci, spec := range configs {
		var sel []string
		for i, p := range preds {
			if i < nAtomish || !c.Quick() || rt.NewRand(uint64(i)*7919+c.Seed*104729+uint64(ci)).Intn(90) == 0 {
				sel = append(sel, p)
			}
		}
		for s := 0; s < len(sel); s += batch {
			e := s + batch
			if e > len(sel) {
				e = len(sel)
			}
			ps := sel[s:e]
			spec := spec
			wd := idx%5 == 0
			c.Case("exh", idx, func(o *rt.Obs) { c16Batch(c, o, spec, ps, true, wd) })
			idx++
		}
	}
	for i, d := range c16Directed() {
		d := d
		c.Case("directed", i, func(o *rt.Obs) { c16Batch(c, o, d.spec, d.preds, true, true) })
	}
	nr := c.N(40, 1200)
	for i := 0; i < nr; i++ {
		c.Case("rand", i, func(o *rt.Obs) {
			r := o.R
			spec := lk.PoolSpec{Name: "p", Key: rt.Pick(r, []string{"k", "k", "a.k"}), Order: rt.Pick(r, []string{"asc", "desc"}),
				Thresh: rt.Pick(r, []int64{1, 30, 100, 0}), Stride: rt.Pick(r, []int{1, 1, 20, 0})}
			hg := &histGen{r: r, key: spec.Key}
			var ps []string
			for j := 0; j < 25; j++ {
				p := hg.pred()
				if r.Chance(1, 3) {
					p = p + rt.Pick(r, []string{" and ", " or "}) + hg.pred()
				}
				if r.Chance(1, 5) {
					// literal on the left
					p = strings.Replace(p, spec.Key+" > 3", "3 < "+spec.Key, 1)
					p = strings.Replace(p, spec.Key+" <= 2.5", "2.5 >= "+spec.Key, 1)
					p = strings.Replace(p, spec.Key+" >= 7", "7 <= "+spec.Key, 1)
				}
				ps = append(ps, p)
			}
			c16Batch(c, o, spec, ps, false, true)
		})
	}
}

type c16Dir struct {
	spec  lk.PoolSpec
	preds []string
}

// c16Directed: regression cases for repaired defects.
func c16Directed() []c16Dir {
	return []c16Dir{
		// literal on the left must be mirrored, not negated (5 <= k keeps k==5)
		{lk.PoolSpec{Name: "p", Key: "k", Order: "asc", Stride: 1}, []string{"2 <= k", "2 >= k", "3 <= k", "1 >= k", "2.5 < k", "2.5 > k", "2 == k", "2 != k"}},
		{lk.PoolSpec{Name: "p", Key: "k", Order: "desc", Stride: 1}, []string{"2 <= k", "2 >= k", "3 <= k", "1 >= k", "2.5 < k", "2.5 > k"}},
		// null numbers are not 0
		{lk.PoolSpec{Name: "p", Key: "k", Order: "asc", Stride: 1}, []string{"k < 3", "k <= 2.5", "k != 2", "k < 1", "not (k >= 2)"}},
	}
}

func c16Batch(c *rt.Ctx, o *rt.Obs, spec lk.PoolSpec, preds []string, exhaustivePool bool, withDelete bool) {
	ctx := context.Background()
	o.Desc(map[string]any{"pool": spec, "exhaustive_pool": exhaustivePool, "predicates": preds})
	if o.Index%20 == 0 {
		o.Sample(map[string]any{"pool": spec, "exhaustive_pool": exhaustivePool, "predicates": preds[:min(len(preds), 6)]})
	}
	eng, l, m, err := newMemLake(ctx, false, spec)
	if err != nil {
		o.Violation("setup-failed", err.Error())
		return
	}
	if exhaustivePool {
		n, err := c16Pool(ctx, l, m, eng.B)
		if err != nil {
			o.Violation("setup-failed", "building the pool: "+err.Error())
			return
		}
		c.Max("max_objects_in_pool", int64(n))
	} else {
		vg := &lakeValGen{r: o.R, key: spec.Key}
		for i := 0; i < o.R.Range(3, 12); i++ {
			out := m.Exec(ctx, l, eng.B, lk.Op{Kind: "load", Branch: "main", Vals: vg.vals(o.R.Range(1, 9))})
			if out.Err != nil {
				o.Violation("setup-failed", out.Err.Error())
				return
			}
		}
	}
	tip := m.Branches["main"]
	all := m.Values(tip)
	for pi, pred := range preds {
		keep, err := lk.EvalWhere(ctx, m.Zctx, all, pred)
		if err != nil {
			// not a valid predicate for the in-memory runtime either: outside the claim
			o.Count("predicates_rejected_by_compiler", 1)
			continue
		}
		var want, rest []zed.Value
		for i, v := range all {
			if keep[i] {
				want = append(want, v)
			} else {
				rest = append(rest, v)
			}
		}
		pruned0 := verifhook.Count("meta.lister.pruned")
		seeks0 := countOps(eng.Log, "get", "seek-index")
		got, qerr := l.Query(ctx, fmt.Sprintf("from p | where %s", pred))
		pruned := verifhook.Count("meta.lister.pruned") - pruned0
		seeks := countOps(eng.Log, "get", "seek-index") - seeks0
		o.AddEvaluations(1)
		o.Count("predicates_checked", 1)
		o.Count("objects_pruned_by_key_range", pruned)
		o.Count("seek_indexes_consulted", int64(seeks))
		if pruned > 0 {
			o.Nontrivial(fmt.Sprintf("%s|%s|%d|%s", spec.Order, pred, spec.Stride, o.Kind))
		}
		if qerr != nil {
			o.Violation("query-error", fmt.Sprintf("pool %+v: `from p | where %s` failed: %v (in-memory evaluation succeeds)", spec, pred, qerr))
			continue
		}
		if d := multisetDiff(gen.RecsOf(want), got); d != "" {
			o.Violation("pruned-query-differs-from-full-scan", fmt.Sprintf("pool %+v (%d objects pruned, %d seek indexes read): `where %s`: %s", spec, pruned, seeks, pred, d))
		}
		if !withDelete || (o.Kind == "exh" && pi%4 != 0) {
			continue
		}
		// delete -where on a scratch branch created at main's tip
		bn := fmt.Sprintf("s%d", pi)
		if err := l.API.CreateBranch(ctx, m.PoolID, bn, tip); err != nil {
			o.Violation("setup-failed", "create scratch branch: "+err.Error())
			continue
		}
		_, derr := l.API.DeleteWhere(ctx, m.PoolID, bn, pred, lk.Msg)
		o.Count("delete_where_checked", 1)
		if derr != nil {
			if len(want) > 0 && !strings.Contains(derr.Error(), "empty") {
				o.Violation("delete-where-error", fmt.Sprintf("pool %+v: delete -where %q failed: %v (predicate is true for %d values)", spec, pred, derr, len(want)))
			} else if len(want) > 0 {
				o.Violation("delete-where-differs-from-full-scan", fmt.Sprintf("pool %+v: delete -where %q reports nothing to delete but the predicate is true for %d values", spec, pred, len(want)))
			}
			continue
		}
		after, qerr := l.Query(ctx, fmt.Sprintf("from p@%s", bn))
		if qerr != nil {
			o.Violation("query-error", fmt.Sprintf("after delete -where %q: %v", pred, qerr))
			continue
		}
		if d := multisetDiff(gen.RecsOf(rest), after); d != "" {
			o.Violation("delete-where-differs-from-full-scan", fmt.Sprintf("pool %+v: after delete -where %q the branch holds the wrong values: %s", spec, pred, d))
		}
	}
	_ = ksuid.Nil
}

func countOps(l *store.Log, kind, class string) int {
	n := 0
	for _, op := range l.Ops() {
		if op.Kind == kind && op.Class == class {
			n++
		}
	}
	return n
}

package main

import (
	"context"
	"fmt"
	"github.com/brimdata/super/pkg/verifhook"
	"sort"
	"strings"

	"verif/internal/gen"
	"verif/internal/lk"
	"verif/internal/rt"
	"verif/internal/store"
)

func init() { register("C17", runC17) }

// c17Victim is the operation interrupted by the crash.  Lake-level victims
// (init, pool and branch table changes) are handled here; data operations are
// lk.Ops resolved against the model.
type c17Victim struct {
	Kind string `json:"kind"` // op | init | create-pool | rename-pool | drop-pool | drop-branch
	Op   lk.Op  `json:"op,omitempty"`
	Name string `json:"name,omitempty"`
}

func (v c17Victim) String() string {
	if v.Kind == "op" {
		return v.Op.String()
	}
	return v.Kind + "(" + v.Name + ")"
}

// lakeState is what a client can observe: pool names → branch names → sorted
// multiset of values (as records).  Unreadable parts carry the error text.
type lakeState struct {
	Pools map[string]map[string]string
	Err   string
}

func (s lakeState) String() string {
	if s.Err != "" {
		return "ERR " + s.Err
	}
	var names []string
	for p := range s.Pools {
		names = append(names, p)
	}
	sort.Strings(names)
	var sb strings.Builder
	for _, p := range names {
		var bs []string
		for b := range s.Pools[p] {
			bs = append(bs, b)
		}
		sort.Strings(bs)
		for _, b := range bs {
			fmt.Fprintf(&sb, "%s@%s=%s; ", p, b, s.Pools[p][b])
		}
	}
	return sb.String()
}

func digestRecs(recs []gen.Rec) string {
	keys := make([]string, len(recs))
	for i, r := range recs {
		keys[i] = fmt.Sprintf("%v|%s|%x", r.Null, r.Type, r.Bytes)
	}
	sort.Strings(keys)
	return fmt.Sprintf("%d values #%016x", len(recs), hashStrings(keys))
}

func hashStrings(ss []string) uint64 {
	var h uint64 = 1469598103934665603
	for _, s := range ss {
		for i := 0; i < len(s); i++ {
			h ^= uint64(s[i])
			h *= 1099511628211
		}
		h ^= 0xff
		h *= 1099511628211
	}
	return h
}

// observe opens a cold handle on the backing store and reads everything a
// client can see.
func observe(ctx context.Context, b store.Backing, fileLike bool) (lakeState, *lk.Lake) {
	st := lakeState{Pools: map[string]map[string]string{}}
	l, err := lk.Open(ctx, store.New(b, fileLike))
	if err != nil {
		st.Err = "open: " + err.Error()
		return st, nil
	}
	pools, err := l.Root.ListPools(ctx)
	if err != nil {
		st.Err = "list pools: " + err.Error()
		return st, l
	}
	for _, pc := range pools {
		st.Pools[pc.Name] = map[string]string{}
		pool, err := l.Root.OpenPool(ctx, pc.ID)
		if err != nil {
			st.Err = fmt.Sprintf("open pool %s: %v", pc.Name, err)
			return st, l
		}
		branches, err := pool.ListBranches(ctx)
		if err != nil {
			st.Err = fmt.Sprintf("list branches of %s: %v", pc.Name, err)
			return st, l
		}
		for _, bc := range branches {
			recs, err := l.Query(ctx, fmt.Sprintf("from %s@%s", pc.Name, bc.Name))
			if err != nil {
				st.Err = fmt.Sprintf("query %s@%s: %v", pc.Name, bc.Name, err)
				return st, l
			}
			digest := digestRecs(recs)
			// the vector objects the branch claims: each must exist and hold
			// exactly its data object's values
			vecs, err := l.Vectors(ctx, pc.Name, bc.Name)
			if err != nil {
				st.Err = fmt.Sprintf("vector listing of %s@%s: %v", pc.Name, bc.Name, err)
				return st, l
			}
			if len(vecs) > 0 {
				var vs []string
				for _, v := range vecs {
					vs = append(vs, lk.VectorStatus(b, pc.ID, v.ID))
				}
				sort.Strings(vs)
				digest += fmt.Sprintf(" +%d vectors [%s]", len(vecs), strings.Join(vs, ", "))
			}
			st.Pools[pc.Name][bc.Name] = digest
		}
	}
	return st, l
}

func runVictim(ctx context.Context, l *lk.Lake, m *lk.Model, b store.Backing, v c17Victim) error {
	switch v.Kind {
	case "op":
		out := m.Exec(ctx, l, b, v.Op)
		if out.Skipped {
			return errSkipped
		}
		return out.Err
	case "create-pool":
		_, err := l.CreatePool(ctx, lk.PoolSpec{Name: v.Name, Key: "k", Order: "asc"})
		return err
	case "rename-pool":
		return l.API.RenamePool(ctx, m.PoolID, v.Name)
	case "drop-pool":
		return l.API.RemovePool(ctx, m.PoolID)
	case "drop-branch":
		return l.API.RemoveBranch(ctx, m.PoolID, v.Name)
	}
	return fmt.Errorf("unknown victim %s", v.Kind)
}

var errSkipped = fmt.Errorf("victim not applicable")

// followUp is the fixed workload that must succeed after recovery.
func followUp(ctx context.Context, l *lk.Lake, st lakeState, tag string) error {
	zctx := lk.NewZctx()
	// ids unique per follow-up round, so that a round interrupted by a second
	// crash does not confuse the next one
	base := 9000
	for _, ch := range tag {
		base += 100 * (int(ch)%7 + 1)
	}
	step := func(name string, err error) error {
		if err != nil {
			return fmt.Errorf("%s: %w", name, err)
		}
		return nil
	}
	// on every existing pool: load into main, predicate delete, branch, merge
	var names []string
	for p := range st.Pools {
		names = append(names, p)
	}
	sort.Strings(names)
	for _, p := range names {
		id, err := l.API.PoolID(ctx, p)
		if err != nil {
			return step("pool id of "+p, err)
		}
		for br := range st.Pools[p] {
			vals, _ := lk.ParseVals(zctx, []string{fmt.Sprintf("{k:100,id:%d,fu:%q}", base+1, tag), fmt.Sprintf("{k:101,id:%d,fu:%q}", base+2, tag)})
			if _, err := l.Load(ctx, zctx, id, br, vals); err != nil {
				return step(fmt.Sprintf("load into %s@%s", p, br), err)
			}
			if _, err := l.API.DeleteWhere(ctx, id, br, fmt.Sprintf("id == %d", base+2), lk.Msg); err != nil {
				return step(fmt.Sprintf("delete -where on %s@%s", p, br), err)
			}
			recs, err := l.Query(ctx, fmt.Sprintf("from %s@%s | id == %d", p, br, base+1))
			if err != nil {
				return step(fmt.Sprintf("query %s@%s", p, br), err)
			}
			if len(recs) != 1 {
				return fmt.Errorf("query %s@%s after follow-up load: %d values with the new id, want 1", p, br, len(recs))
			}
		}
		tip, err := l.API.CommitObject(ctx, id, "main")
		if err != nil {
			return step("commit object of "+p, err)
		}
		bn := "fu" + tag
		if err := l.API.CreateBranch(ctx, id, bn, tip); err != nil {
			return step("create branch on "+p, err)
		}
		vals, _ := lk.ParseVals(zctx, []string{"{k:102,id:9003}"})
		if _, err := l.Load(ctx, zctx, id, bn, vals); err != nil {
			return step("load into new branch of "+p, err)
		}
		if _, err := l.API.MergeBranch(ctx, id, bn, "main", lk.Msg); err != nil {
			return step("merge new branch into main of "+p, err)
		}
	}
	pid, err := l.CreatePool(ctx, lk.PoolSpec{Name: "fupool" + tag, Key: "k", Order: "desc"})
	if err != nil {
		return step("create pool", err)
	}
	vals, _ := lk.ParseVals(zctx, []string{"{k:1,id:1}"})
	if _, err := l.Load(ctx, zctx, pid, "main", vals); err != nil {
		return step("load into new pool", err)
	}
	if err := l.API.RenamePool(ctx, pid, "fupool2"+tag); err != nil {
		return step("rename new pool", err)
	}
	recs, err := l.Query(ctx, "from fupool2"+tag)
	if err != nil {
		return step("query new pool", err)
	}
	if len(recs) != 1 {
		return fmt.Errorf("new pool holds %d values, want 1", len(recs))
	}
	return nil
}

func runC17(c *rt.Ctx) {
	// released zngio buffers are overwritten (H1): lake code that keeps using a
	// value after the reader has moved on reads garbage deterministically
	verifhook.SetPoison(true)
	c.Note("rule", "case = (history, victim operation, storage back end); the victim runs once uncrashed to learn its storage trace and the observable after-state, then once per crash point (every counted storage operation of the victim; on the file-semantics back end also every Write of a Put, the create/fill halves of PutIfNotExists, and half-applied writes); after each crash a cold handle must open the lake, read every pool and branch, see exactly the before- or the after-state, and run a fixed follow-up workload (load, delete-where, query, create branch, merge, create/rename pool); evaluations = crash points; non-trivial = crash point strictly inside the victim's trace; distinct by (case, crash point)")
	c.Note("assumptions", "fail-stop crash model: the crashing operation and everything after it have no effect on storage (optionally the crashing write is half applied); storage itself is durable and ordered\nobject-store back end: Put visible atomically at Close; file back end: truncate at open, each Write visible at once (pkg/storage/file.go)")
	nh := c.N(36, 700)
	for i := 0; i < nh; i++ {
		c.Case("hist", i, func(o *rt.Obs) { c17Case(c, o, false) })
	}
	for i, d := range c17Directed() {
		d := d
		c.Case("directed", i, func(o *rt.Obs) { c17Run(c, o, d.spec, d.fileLike, d.prefix, d.victim, false) })
	}
	nd := c.N(6, 60)
	for i := 0; i < nd; i++ {
		c.Case("double", i, func(o *rt.Obs) { c17Case(c, o, true) })
	}
	// the same enumeration on a real directory through pkg/storage/file.go: the
	// directed victims first, then generated histories
	for i, d := range c17Directed() {
		d := d
		if !d.fileLike || (c.Tier == "quick" && i != 1 && i != 5 && i != 9) {
			continue // quick: a load, lake init, a vector add
		}
		c.Case("realfs-directed", i, func(o *rt.Obs) { c17RunOn(c, o, d.spec, true, true, d.prefix, d.victim, false) })
	}
	nr := c.N(3, 150)
	for i := 0; i < nr; i++ {
		c.Case("realfs", i, func(o *rt.Obs) { c17CaseOn(c, o, false, true) })
	}
}

type c17Dir struct {
	spec     lk.PoolSpec
	fileLike bool
	prefix   []lk.Op
	victim   c17Victim
}

func c17Directed() []c17Dir {
	load1 := lk.Op{Kind: "load", Branch: "main", Vals: []string{"{k:1,id:1}", "{k:2,id:2}"}}
	load2 := lk.Op{Kind: "load", Branch: "main", Vals: []string{"{k:3,id:3}"}}
	spec := lk.PoolSpec{Name: "p", Key: "k", Order: "asc"}
	return []c17Dir{
		{spec, false, []lk.Op{load1}, c17Victim{Kind: "op", Op: load2}},
		{spec, true, []lk.Op{load1}, c17Victim{Kind: "op", Op: load2}},
		{spec, false, []lk.Op{load1}, c17Victim{Kind: "create-pool", Name: "q"}},
		{spec, true, []lk.Op{load1}, c17Victim{Kind: "create-pool", Name: "q"}},
		{spec, false, nil, c17Victim{Kind: "init"}},
		{spec, true, nil, c17Victim{Kind: "init"}},
		{spec, true, []lk.Op{load1, load2}, c17Victim{Kind: "op", Op: lk.Op{Kind: "delete", Branch: "main", Objs: []int{0}}}},
		{spec, false, []lk.Op{load1, {Kind: "create-branch", Branch: "b1", From: "main"}, {Kind: "load", Branch: "b1", Vals: []string{"{k:9,id:9}"}}},
			c17Victim{Kind: "op", Op: lk.Op{Kind: "merge", Branch: "main", Child: "b1"}}},
		// vector objects: added for two data objects at once; added again for one that has one already
		{spec, false, []lk.Op{load1, load2}, c17Victim{Kind: "op", Op: lk.Op{Kind: "add-vectors", Branch: "main", Objs: []int{0, 1}}}},
		{spec, true, []lk.Op{load1, load2}, c17Victim{Kind: "op", Op: lk.Op{Kind: "add-vectors", Branch: "main", Objs: []int{0, 1}}}},
		{spec, false, []lk.Op{load1, load2, {Kind: "add-vectors", Branch: "main", Objs: []int{0}}}, c17Victim{Kind: "op", Op: lk.Op{Kind: "add-vectors", Branch: "main", Objs: []int{0, 1}}}},
		{spec, true, []lk.Op{load1, load2, {Kind: "add-vectors", Branch: "main", Objs: []int{0}}}, c17Victim{Kind: "op", Op: lk.Op{Kind: "add-vectors", Branch: "main", Objs: []int{0, 1}}}},
		{spec, true, []lk.Op{load1, load2}, c17Victim{Kind: "op", Op: lk.Op{Kind: "compact", Branch: "main", Objs: []int{0, 1}, Vectors: true}}},
		{spec, true, []lk.Op{load1, load2, {Kind: "add-vectors", Branch: "main", Objs: []int{0, 1}}}, c17Victim{Kind: "op", Op: lk.Op{Kind: "del-vectors", Branch: "main", Objs: []int{1}}}},
		// a revert persists a commit snapshot on its way: a snapshot file cut short at a frame boundary must not be trusted
		{lk.PoolSpec{Name: "p", Key: "k", Order: "asc", Thresh: 20, Stride: 1}, true, []lk.Op{
			{Kind: "load", Branch: "main", Vals: []string{"{k:9,id:1}", "{k:9,id:2}", "{k:4.,id:3,s:\"\"}", "{k:\"a\",id:4}"}},
			{Kind: "load", Branch: "main", Vals: []string{"{k:2,id:5}"}},
			{Kind: "load", Branch: "main", Vals: []string{"{k:\"b\",id:6,s:\"é\"}"}}},
			c17Victim{Kind: "op", Op: lk.Op{Kind: "revert", Branch: "main", Commit: 6}}},
	}
}

func c17Case(c *rt.Ctx, o *rt.Obs, double bool) { c17CaseOn(c, o, double, false) }

func c17CaseOn(c *rt.Ctx, o *rt.Obs, double, real bool) {
	r := o.R
	spec := genPoolSpec(r, "p")
	if spec.Key == "this" {
		spec.Key = "k"
	}
	fileLike := r.Bool()
	hg := &histGen{r: r, key: spec.Key, branches: []string{"main"}, multi: true, vg: &lakeValGen{r: r, key: spec.Key, noNull: true}}
	n := r.Intn(c.N(4, 8))
	if double {
		n = r.Intn(3)
	}
	var prefix []lk.Op
	if n > 0 {
		prefix = append(prefix, lk.Op{Kind: "load", Branch: "main", Vals: hg.vg.vals(r.Range(2, 6))})
	}
	for len(prefix) < n {
		op := hg.op()
		if op.Kind == "vacuum" {
			continue
		}
		prefix = append(prefix, op)
	}
	var v c17Victim
	switch x := r.Intn(20); {
	case x == 0:
		v = c17Victim{Kind: "init"}
		prefix = nil
	case x == 1:
		v = c17Victim{Kind: "create-pool", Name: "q"}
	case x == 2:
		v = c17Victim{Kind: "rename-pool", Name: "renamed"}
	case x == 3:
		v = c17Victim{Kind: "drop-pool"}
	case x == 4 && len(hg.branches) > 1:
		v = c17Victim{Kind: "drop-branch", Name: hg.branches[len(hg.branches)-1]}
	default:
		op := hg.op()
		v = c17Victim{Kind: "op", Op: op}
	}
	c17RunOn(c, o, spec, fileLike, real, prefix, v, double)
}

func c17Run(c *rt.Ctx, o *rt.Obs, spec lk.PoolSpec, fileLike bool, prefix []lk.Op, v c17Victim, double bool) {
	c17RunOn(c, o, spec, fileLike, false, prefix, v, double)
}

// c17RunOn: with real set the back end is a scratch directory driven through
// the repository's own file engine (store.Dir) instead of the in-memory model.
func c17RunOn(c *rt.Ctx, o *rt.Obs, spec lk.PoolSpec, fileLike, real bool, prefix []lk.Op, v c17Victim, double bool) {
	ctx := context.Background()
	desc := map[string]any{"pool": spec, "file_semantics": fileLike, "real_file_engine": real, "prefix": prefix, "victim": v.String(), "double_crash": double}
	o.Desc(desc)
	if o.Index%50 == 0 {
		o.Sample(desc)
	}
	backing := newBacking(real)
	defer store.Discard(backing)
	if real {
		fileLike = true
		o.Count("cases_on_real_file_engine", 1)
	}
	var m *lk.Model
	if v.Kind != "init" {
		eng := store.New(backing, fileLike)
		l, err := lk.Create(ctx, eng)
		if err != nil {
			o.Violation("setup-failed", err.Error())
			return
		}
		id, err := l.CreatePool(ctx, spec)
		if err != nil {
			o.Violation("setup-failed", err.Error())
			return
		}
		m = lk.NewModel(spec, id)
		for _, op := range prefix {
			m.Exec(ctx, l, backing, op) // errors and skips are fine: whatever state results is the pre-state
		}
	}
	// reference run: uncrashed victim on a clone
	before, _ := observe(ctx, backing.Clone(), fileLike)
	if v.Kind != "init" && before.Err != "" {
		// The pre-state itself is unreadable: that is C14/C15's business, not a crash effect.
		o.Count("prestate_unreadable_skipped", 1)
		return
	}
	refB := backing.Clone()
	refEng := store.New(refB, fileLike)
	var trace []store.Op
	var nops int
	{
		var err error
		if v.Kind == "init" {
			_, err = lk.Create(ctx, refEng)
			nops = refEng.Count()
			trace = refEng.Log.Ops()
		} else {
			l, oerr := lk.Open(ctx, refEng)
			if oerr != nil {
				o.Violation("setup-failed", "open before victim: "+oerr.Error())
				return
			}
			start := refEng.Count()
			logStart := refEng.Log.Len()
			err = runVictim(ctx, l, m.Clone(), refB, v)
			nops = refEng.Count() - start
			trace = refEng.Log.Ops()[logStart:]
		}
		if err == errSkipped {
			o.Count("victims_not_applicable", 1)
			return
		}
		if err != nil {
			// The victim fails even without a crash (e.g. revert of a foreign commit):
			// then before == after and crashes inside it must still be harmless.
			o.Count("victims_failing_uncrashed", 1)
		}
	}
	after, _ := observe(ctx, refB, fileLike)
	if after.Err != "" {
		o.Count("afterstate_unreadable_skipped", 1)
		return
	}
	o.Count("victims_"+v.Kind, 1)
	c.Max("max_victim_trace_len", int64(nops))

	type point struct {
		k       int
		partial bool
	}
	var points []point
	for k := 1; k <= nops; k++ {
		points = append(points, point{k, false})
	}
	if fileLike {
		// half-applied writes: only where the k-th counted op is a write / fill
		cnt := 0
		for _, op := range trace {
			if op.Err == store.ErrCrashed.Error() {
				continue
			}
			cnt++
			if (op.Kind == "write" || op.Kind == "pine-fill") && op.N > 1 {
				points = append(points, point{cnt, true})
			}
		}
	}
	for _, pt := range points {
		b := backing.Clone()
		eng := store.New(b, fileLike)
		var verr error
		var crashOp string
		if v.Kind == "init" {
			eng.CrashAt(pt.k, pt.partial)
			_, verr = lk.Create(ctx, eng)
		} else {
			l, err := lk.Open(ctx, eng)
			if err != nil {
				o.Violation("setup-failed", "open before victim: "+err.Error())
				return
			}
			eng.CrashAt(eng.Count()+pt.k, pt.partial)
			verr = runVictim(ctx, l, m.Clone(), b, v)
		}
		for _, op := range eng.Log.Ops() {
			if op.Err == store.ErrCrashed.Error() {
				crashOp = op.Kind + "(" + op.Class + ")"
				break
			}
		}
		if !eng.Crashed() {
			// the run took a shorter path than the reference run; nothing crashed
			o.Count("crash_points_not_reached", 1)
			continue
		}
		o.Count("crash_points", 1)
		o.AddEvaluations(1)
		if pt.partial {
			o.Count("crash_points_half_applied_write", 1)
			crashOp += "/half"
		}
		if pt.k > 1 && pt.k < nops {
			o.Nontrivial(fmt.Sprintf("%s/%d/%d/%v", o.Kind, o.Index, pt.k, pt.partial))
		}
		where := fmt.Sprintf("crash at storage operation %d of %d of %s, i.e. before %s (victim returned: %v)", pt.k, nops, v, crashOp, verr)
		if real {
			o.Count("crash_points_on_real_file_engine", 1)
		}
		c17Check(c, o, ctx, b, fileLike, v, before, after, verr, crashOp, where, double, 0)
		store.Discard(b)
	}
}

func c17Check(c *rt.Ctx, o *rt.Obs, ctx context.Context, b store.Backing, fileLike bool, v c17Victim, before, after lakeState, verr error, crashOp, where string, double bool, depth int) {
	got, l := observe(ctx, b, fileLike)
	// The signature names the symptom and the primary anomaly the crash left in
	// storage (root cause), not the exact crash position; the position is in the detail.
	pfx := ""
	sfx := "|" + primaryAnomaly(b)
	where += "\nstorage anomalies after the crash: " + strings.Join(storageAnomalies(b), ", ")
	_ = crashOp
	if got.Err != "" {
		if v.Kind == "init" && strings.HasPrefix(got.Err, "open:") {
			// a crash inside init may leave "not a lake"; then Create must work
			l2, err := lk.Create(ctx, store.New(b, fileLike))
			if err != nil {
				o.Violation(pfx+"init-neither-openable-nor-creatable"+sfx, fmt.Sprintf("%s\nlake.Open: %s\nlake.Create: %v", where, got.Err, err))
				return
			}
			if err := followUp(ctx, l2, lakeState{Pools: map[string]map[string]string{}}, fmt.Sprint(depth)); err != nil {
				o.Violation(pfx+"follow-up-failed:"+errClass(err)+"|"+anomalyFor(err, b), fmt.Sprintf("%s\nafter re-creating the lake, follow-up workload failed: %v", where, err))
			}
			return
		}
		o.Violation(pfx+"unreadable:"+errClass(fmt.Errorf("%s", got.Err))+sfx, fmt.Sprintf("%s\nafter reopening: %s", where, got.Err))
		return
	}
	gs := got.String()
	switch {
	case gs == before.String():
		o.Count("recovered_to_before_state", 1)
		if verr == nil && before.String() != after.String() {
			o.Violation(pfx+"acknowledged-effect-lost"+sfx, fmt.Sprintf("%s\nthe operation reported success but the reopened lake shows the before-state\nbefore: %s\nafter:  %s", where, before, after))
		}
	case gs == after.String():
		o.Count("recovered_to_after_state", 1)
	case before.String() == after.String():
		// the operation changes nothing when it runs to completion (it is
		// refused, or has nothing to do), yet its interrupted run did
		o.Violation(pfx+"interrupted-no-op-changed-state"+sfx, fmt.Sprintf("%s\nreopened lake shows: %s\nbefore = after: %s", where, got, before))
		return
	default:
		// which branches are in neither state?  A branch the operation does not
		// touch makes it a different failure.
		if v.Kind == "op" {
			other := false
			for p, brs := range got.Pools {
				for br, dg := range brs {
					if dg != before.Pools[p][br] && dg != after.Pools[p][br] && br != v.Op.Branch {
						other = true
					}
				}
			}
			if other {
				pfx += "uninvolved-branch:"
			}
		}
		o.Violation(pfx+"neither-before-nor-after"+sfx, fmt.Sprintf("%s\nreopened lake shows: %s\nbefore: %s\nafter:  %s", where, got, before, after))
		return
	}
	if double && depth == 0 {
		// crash again inside the follow-up, at a PRNG-chosen operation
		fb := b.Clone()
		feng := store.New(fb, fileLike)
		fl, err := lk.Open(ctx, feng)
		if err == nil {
			feng.CrashAt(feng.Count()+1+o.R.Intn(60), false)
			ferr := followUp(ctx, fl, got, "x")
			if feng.Crashed() {
				o.Count("double_crash_points", 1)
				st2, l2 := observe(ctx, fb, fileLike)
				if st2.Err != "" {
					o.Violation("unreadable:"+errClass(fmt.Errorf("%s", st2.Err))+"|"+primaryAnomaly(fb), fmt.Sprintf("%s\nthen crash inside the follow-up workload (%v); reopening: %s", where, ferr, st2.Err))
				} else if err := followUp(ctx, l2, st2, "y"); err != nil {
					o.Violation("follow-up-failed:"+errClass(err)+"|"+anomalyFor(err, fb), fmt.Sprintf("%s\nthen crash inside the follow-up workload; second follow-up failed: %v\nstorage anomalies after the second crash: %s", where, err, strings.Join(storageAnomalies(fb), ", ")))
				}
			}
		}
	}
	if err := followUp(ctx, l, got, fmt.Sprint(depth)); err != nil {
		o.Violation(pfx+"follow-up-failed:"+errClass(err)+sfx, fmt.Sprintf("%s\nstate after reopening is fine (%s) but the follow-up workload failed: %v", where, got, err))
	}
}

// errClass reduces an error message to a stable class (ids and numbers stripped).
func errClass(err error) string {
	s := err.Error()
	for _, key := range []string{"journal unavailable", "no such journal", "can read but not parse", "does not exist", "not found", "already exists", "write conflict", "empty", "EOF", "corrupt", "crashed"} {
		if strings.Contains(s, key) {
			return strings.ReplaceAll(key, " ", "-")
		}
	}
	var sb strings.Builder
	for _, r := range s {
		if (r >= 'a' && r <= 'z') || r == ' ' {
			sb.WriteRune(r)
		}
	}
	out := strings.Join(strings.Fields(sb.String()), "-")
	if len(out) > 40 {
		out = out[:40]
	}
	return out
}

// storageAnomalies inspects what the crash left behind, in order of priority:
// a journal HEAD that does not parse, a journal entry beyond HEAD, files that
// are empty or do not decode.
func storageAnomalies(b store.Backing) []string {
	var headBad, beyond, broken []string
	paths := b.Paths()
	set := map[string]bool{}
	for _, p := range paths {
		set[p] = true
	}
	for _, p := range paths {
		cls := store.Classify(p)
		data, _ := b.Get(p)
		switch {
		case strings.HasSuffix(cls, "-HEAD"):
			dir := strings.TrimSuffix(p, "HEAD")
			var n uint64
			if _, err := fmt.Sscanf(string(data), "%d", &n); err != nil {
				headBad = append(headBad, "HEAD-unparseable")
				continue
			}
			if set[fmt.Sprintf("%s%d.zng", dir, n+1)] {
				beyond = append(beyond, "journal-entry-beyond-HEAD")
			}
		case strings.HasSuffix(cls, "-TAIL"):
			var n, m uint64
			if _, err := fmt.Sscanf(string(data), "%d %d", &n, &m); err != nil {
				headBad = append(headBad, "TAIL-unparseable")
			}
		case len(data) == 0:
			broken = append(broken, "empty("+cls+")")
		case strings.HasSuffix(p, ".zng"):
			if _, err := lk.ReadZNG(lk.NewZctx(), data); err != nil {
				broken = append(broken, "undecodable("+cls+")")
			} else if strings.HasSuffix(p, ".snap.zng") && data[len(data)-1] != 0xff {
				// decodes, but does not end with the end-of-stream marker: cut short at a frame boundary
				broken = append(broken, "truncated("+cls+")")
			}
		case strings.HasSuffix(p, ".vng"):
			if err := lk.CheckVNG(data); err != nil {
				broken = append(broken, "undecodable("+cls+")")
			}
		}
	}
	sort.Strings(broken)
	out := append(append(headBad, beyond...), broken...)
	var ded []string
	for i, a := range out {
		if i == 0 || a != out[i-1] {
			ded = append(ded, a)
		}
	}
	if len(ded) == 0 {
		return []string{"none"}
	}
	return ded
}

func primaryAnomaly(b store.Backing) string { return storageAnomalies(b)[0] }

// anomalyFor picks the anomaly that goes with the failure: a commit that finds
// the journal unavailable goes with an entry beyond HEAD if there is one (an
// unparseable HEAD of some other journal, left by an earlier crash and
// tolerated, would otherwise be named first).
func anomalyFor(err error, b store.Backing) string {
	an := storageAnomalies(b)
	if err != nil && errClass(err) == "journal-unavailable" {
		for _, a := range an {
			if a == "journal-entry-beyond-HEAD" {
				return a
			}
		}
	}
	return an[0]
}

package main

import (
	"bytes"
	"context"
	"fmt"
	"io"
	"regexp"
	"runtime/debug"
	"sort"
	"strings"
	"time"

	zed "github.com/brimdata/super"
	"github.com/brimdata/super/compiler/optimizer/demand"
	"github.com/brimdata/super/lake"
	"github.com/brimdata/super/lake/branches"
	"github.com/brimdata/super/lake/commits"
	"github.com/brimdata/super/lake/data"
	"github.com/brimdata/super/lake/pools"
	"github.com/brimdata/super/order"
	"github.com/brimdata/super/pkg/field"
	"github.com/brimdata/super/pkg/nano"
	"github.com/brimdata/super/pkg/storage"
	"github.com/brimdata/super/zbuf"
	"github.com/brimdata/super/zcode"
	"github.com/brimdata/super/zio"
	"github.com/brimdata/super/zio/anyio"
	"github.com/brimdata/super/zio/emitter"
	"github.com/brimdata/super/zio/vngio"
	"github.com/brimdata/super/zio/zjsonio"
	"github.com/brimdata/super/zio/zngio"
	"github.com/brimdata/super/zio/zsonio"
	"github.com/brimdata/super/zson"
	"github.com/segmentio/ksuid"

	"verif/internal/gen"
	"verif/internal/rt"
	"verif/internal/sink"
)

func init() { register("C18", runC18) }

// c18Conf is one (format, options, route to the sink, driver) combination.
type c18Conf struct {
	Format      string `json:"format"`
	Path        string `json:"path"`  // anyio | emitter-buffered | emitter-unbuffered | sizesplit | split | data-object | lake-writer
	Drive       string `json:"drive"` // loop | zio.Copy
	ZNGDefault  bool   `json:"zng_default_opts,omitempty"`
	Compress    bool   `json:"compress,omitempty"`
	FrameThresh int    `json:"frame_thresh,omitempty"`
	Pretty      int    `json:"pretty,omitempty"`
	Persist     string `json:"persist,omitempty"`
	SplitSize   int64  `json:"split_size,omitempty"`
	SeekStride  int    `json:"seek_stride,omitempty"`
	PoolThresh  int64  `json:"pool_thresh,omitempty"`
	Order       string `json:"order,omitempty"`
}

type c18Writer interface {
	Write(zed.Value) error
	Close() error
}

// c18Env is what a case sets up once: the lake (for the two lake paths).
type c18Env struct {
	eng  *sink.Engine
	pool *lake.Pool
	path *storage.URI
}

type c18Out struct {
	OpenErr    error
	WriteErr   error
	WriteErrAt int
	CloseErr   error
	Panic      string
	PanicSig   string
}

func (o *c18Out) reported() bool {
	return o.OpenErr != nil || o.WriteErr != nil || o.CloseErr != nil
}

func (o *c18Out) String() string {
	s := ""
	if o.OpenErr != nil {
		s += fmt.Sprintf("open error %q; ", o.OpenErr)
	}
	if o.WriteErr != nil {
		s += fmt.Sprintf("Write #%d returned %q; ", o.WriteErrAt, o.WriteErr)
	} else {
		s += "every Write returned nil; "
	}
	if o.CloseErr != nil {
		s += fmt.Sprintf("Close returned %q", o.CloseErr)
	} else {
		s += "Close returned nil"
	}
	if o.Panic != "" {
		s += "; PANIC " + o.Panic
	}
	return s
}

type dataObjWriter struct {
	w   *data.Writer
	ctx context.Context
}

func (d *dataObjWriter) Write(v zed.Value) error { return d.w.Write(v) }
func (d *dataObjWriter) Close() error            { return d.w.Close(d.ctx) }

func (cf *c18Conf) anyioOpts() anyio.WriterOpts {
	opts := anyio.WriterOpts{Format: cf.Format}
	if cf.Format == "zng" && !cf.ZNGDefault {
		opts.ZNG = &zngio.WriterOpts{Compress: cf.Compress, FrameThresh: cf.FrameThresh}
	}
	opts.JSON.Pretty = cf.Pretty
	opts.ZSON.Pretty = cf.Pretty
	opts.ZSON.ColorDisabled = true
	if cf.Persist != "" {
		opts.ZSON.Persist = regexp.MustCompile(cf.Persist)
	}
	return opts
}

// open builds the writer under test over sinks governed by plan.
func (cf *c18Conf) open(plan *sink.Plan, env *c18Env) (c18Writer, error) {
	ctx := context.Background()
	switch cf.Path {
	case "anyio":
		return anyio.NewWriter(plan.New("out"), cf.anyioOpts())
	case "emitter-buffered", "emitter-unbuffered":
		eng := sink.NewEngine()
		eng.Arm(plan)
		return emitter.NewFileFromURI(ctx, eng, storage.MustParseURI("file:///out/file"), cf.Path == "emitter-unbuffered", cf.anyioOpts())
	case "sizesplit":
		eng := sink.NewEngine()
		eng.Arm(plan)
		return emitter.NewSizeSplitter(ctx, eng, storage.MustParseURI("file:///out"), "p", cf.Drive == "loop", cf.anyioOpts(), cf.SplitSize)
	case "split":
		eng := sink.NewEngine()
		eng.Arm(plan)
		return emitter.NewSplit(ctx, eng, storage.MustParseURI("file:///out"), "p", cf.Drive == "loop", cf.anyioOpts())
	case "data-object":
		env.eng.Arm(plan)
		obj := data.NewObject()
		o := order.Asc
		if cf.Order == "desc" {
			o = order.Desc
		}
		w, err := obj.NewWriter(ctx, env.eng, env.path, order.NewSortKey(o, field.Path{"k"}), cf.SeekStride)
		if err != nil {
			return nil, err
		}
		return &dataObjWriter{w, ctx}, nil
	case "lake-writer":
		env.eng.Arm(plan)
		return lake.NewWriter(ctx, zed.NewContext(), env.pool)
	}
	return nil, fmt.Errorf("c18: unknown path %q", cf.Path)
}

// c18Run drives one writer over vals the way zio.Copy + deferred Close does:
// stop writing at the first error, always Close.
func c18Run(cf *c18Conf, vals []zed.Value, plan *sink.Plan, env *c18Env) (out c18Out) {
	defer func() {
		if r := recover(); r != nil {
			sig, where := rt.PanicSignature(r)
			out.Panic = fmt.Sprintf("%v at %s\n%s", r, where, rt.TrimStack(rt.StackString(), 30))
			out.PanicSig = sig
		}
		if env != nil && env.eng != nil {
			env.eng.Arm(nil)
		}
	}()
	w, err := cf.open(plan, env)
	if err != nil {
		out.OpenErr = err
		return out
	}
	if cf.Drive == "zio.Copy" {
		out.WriteErr = zio.Copy(w, zbuf.NewArray(vals))
		out.WriteErrAt = -1
	} else {
		for i, v := range vals {
			if err := w.Write(v); err != nil {
				out.WriteErr = err
				out.WriteErrAt = i
				break
			}
		}
	}
	out.CloseErr = w.Close()
	return out
}

// c18Signature names the defect from the place where the unreported fault was
// injected: the chain of repo functions on the stack of the failing sink call.
func c18Signature(chain []string) string {
	for len(chain) > 0 && (strings.HasPrefix(chain[0], "zio/emitter.(*countingWriteCloser)") || strings.HasPrefix(chain[0], "pkg/bufwriter.")) {
		chain = chain[1:]
	}
	for _, fn := range chain {
		if fn == "zio/zngio.(*Writer).flush" {
			// the only function on this chain that drops an error on
			// the unchanged tree; a fault below EndStream/Close that
			// does not pass through flush gets the generic name
			return "zng:flush-swallows-sink-error"
		}
	}
	if len(chain) > 0 {
		switch chain[0] {
		case "zio/csvio.(*Writer).Close":
			return "csv:close-ignores-encoder-error"
		case "zio/tableio.(*Writer).flush":
			if len(chain) > 1 && chain[1] == "zio/tableio.(*Writer).Write" {
				return "table:write-ignores-flush-error"
			}
		case "zio/tableio.(*Writer).writeHeader":
			return "table:writeheader-ignores-write-error"
		}
	}
	short := make([]string, 0, 5)
	for i, fn := range chain {
		if i == 5 {
			short = append(short, "…")
			break
		}
		if j := strings.LastIndex(fn, "/"); j >= 0 {
			fn = fn[j+1:]
		}
		short = append(short, fn)
	}
	if len(short) == 0 {
		return "unreported-sink-error@no-repo-frame"
	}
	return "unreported-sink-error@" + strings.Join(short, "<")
}

// ---------------------------------------------------------------- inputs

var c18Formats = []string{"zng", "zson", "zjson", "json", "csv", "tsv", "zeek", "table", "text", "vng", "lake"}

var c18ZeekPrims = []zed.Type{zed.TypeUint8, zed.TypeUint16, zed.TypeUint32, zed.TypeUint64, zed.TypeInt8, zed.TypeInt16,
	zed.TypeInt32, zed.TypeInt64, zed.TypeFloat32, zed.TypeFloat64, zed.TypeIP, zed.TypeNet, zed.TypeDuration, zed.TypeBool,
	zed.TypeString, zed.TypeTime}

var c18TextPrims = []zed.Type{zed.TypeUint8, zed.TypeUint64, zed.TypeInt32, zed.TypeInt64, zed.TypeBool,
	zed.TypeString, zed.TypeBytes, zed.TypeTime, zed.TypeDuration}

var c18JSONPrims = []zed.Type{zed.TypeUint8, zed.TypeUint16, zed.TypeUint32, zed.TypeUint64, zed.TypeInt8, zed.TypeInt16,
	zed.TypeInt32, zed.TypeInt64, zed.TypeIP, zed.TypeNet, zed.TypeDuration, zed.TypeBool, zed.TypeString, zed.TypeBytes,
	zed.TypeTime, zed.TypeType, zed.TypeNull}

var c18FlatFieldNames = []string{"a", "b", "c", "id", "key", "foo", "x", "y", "ts", "name", "val", "s", "n", "v", "_path"}

// c18Values generates an input sequence inside the domain of the format (the
// writers of the text formats reject some inputs by design; those are kept out
// of the generator so that an unfaulted run returns no error).
func c18Values(r *rt.Rand, zctx *zed.Context, format string, n int) []zed.Value {
	switch format {
	case "csv", "tsv":
		// one record type (sometimes a second one with the same field names)
		topts := gen.TypeOpts{NoNamed: true, NoUnion: true, NoError: true, NoTypeType: true, PlainNames: true}
		tg := &gen.TypeGen{Zctx: zctx, R: r, O: topts}
		var t zed.Type
		for {
			t = tg.Record(2)
			if len(zed.TypeRecordOf(t).Fields) > 0 {
				break
			}
		}
		vg := &gen.ValGen{R: r, O: gen.ValOpts{}}
		vals := make([]zed.Value, 0, n)
		for i := 0; i < n; i++ {
			vals = append(vals, vg.Value(t))
		}
		return vals
	case "zeek", "table":
		topts := gen.TypeOpts{NoNamed: true, NoUnion: true, NoEnum: true, NoError: true, NoMap: true, NoTypeType: true, NoNullType: true,
			Prims: c18ZeekPrims, FieldNames: c18FlatFieldNames}
		tg := &gen.TypeGen{Zctx: zctx, R: r, O: topts}
		nt := r.Range(1, 3)
		var types []zed.Type
		for len(types) < nt {
			t := tg.Record(2)
			if len(zed.TypeRecordOf(t).Fields) == 0 {
				continue
			}
			types = append(types, t)
		}
		// no nulls: zeekio.FormatValue panics on a null record nested in a
		// container (formatter defect unrelated to sinks)
		vg := &gen.ValGen{R: r, O: gen.ValOpts{SmallStrings: true, NullNum: 0, NullDen: 1}}
		vals := make([]zed.Value, 0, n)
		cur := rt.Pick(r, types)
		for i := 0; i < n; i++ {
			if r.Chance(1, 4) {
				cur = rt.Pick(r, types)
			}
			vals = append(vals, vg.Value(cur))
		}
		return vals
	case "lake":
		return c18LakeValues(r, zctx, n)
	case "zson", "zjson":
		// C02's open findings (negative zero, NaN payloads, empty containers of
		// implied element type, re-bound type names inside one value) are about
		// the text round trip, not about sink errors: keep them out.
		// (ip/net and floats are left out too: `[[::ffff:10.0.0.1]]` and a map key
		// `+Inf:` are ZSON the formatter emits and the parser rejects.)
		return gen.Sequence(r, zctx, gen.TypeOpts{PlainNames: true, NoNamed: true, NoUnion: true, NoMap: true, Prims: c18TextPrims}, gen.ValOpts{NoNaN: true, NoNegZero: true}, 2, r.Range(1, 4), n)
	case "json":
		// jsonio.Writer panics on NaN/±Inf and zed.Value.Under never returns
		// on a null of union type: formatter defects unrelated to sinks.
		return gen.Sequence(r, zctx, gen.TypeOpts{NoUnion: true, Prims: c18JSONPrims}, gen.ValOpts{}, 3, r.Range(1, 5), n)
	case "text":
		return gen.Sequence(r, zctx, gen.TypeOpts{}, gen.ValOpts{NullNum: 0, NullDen: 1}, 3, r.Range(1, 5), n)
	}
	if format == "vng" {
		// NaN and -0 left out: the VNG round trip changes a NaN payload inside a
		// set and turns +0 into -0 next to a -0 (C03's subject)
		return gen.Sequence(r, zctx, gen.TypeOpts{}, gen.ValOpts{NoNaN: true, NoNegZero: true}, 2, r.Range(1, 3), n)
	}
	return gen.Sequence(r, zctx, gen.TypeOpts{}, gen.ValOpts{}, 3, r.Range(1, 5), n)
}

func c18KSUID(r *rt.Rand) ksuid.KSUID {
	var b [20]byte
	for i := range b {
		b[i] = byte(r.Uint64())
	}
	id, _ := ksuid.FromBytes(b[:])
	return id
}

// c18LakeValues marshals lake metadata structs (what `super db ls/log -f lake`
// prints) plus ordinary values, which the lake writer prints as ZSON.
func c18LakeValues(r *rt.Rand, zctx *zed.Context, n int) []zed.Value {
	m := zson.NewZNGMarshalerWithContext(zctx)
	m.Decorate(zson.StylePackage)
	var vals []zed.Value
	for i := 0; i < n; i++ {
		var v any
		pc := pools.Config{Ts: nano.Ts(1700000000000000000 + int64(r.Intn(1000))), Name: rt.Pick(r, []string{"p", "logs", "a b"}), ID: c18KSUID(r),
			SortKeys: order.SortKeys{order.NewSortKey(order.Asc, field.Path{"k"})}, SeekStride: 1000, Threshold: 5000}
		obj := data.Object{ID: c18KSUID(r), Min: zed.NewInt64(int64(r.Intn(10))), Max: zed.NewInt64(int64(10 + r.Intn(10))), Count: uint64(r.Intn(100)), Size: int64(r.Intn(10000))}
		switch r.Intn(7) {
		case 0:
			v = &pc
		case 1:
			v = &lake.BranchMeta{Pool: pc, Branch: branches.Config{Ts: pc.Ts, Name: "main", Commit: c18KSUID(r)}}
		case 2:
			v = &obj
		case 3:
			v = &commits.Commit{ID: c18KSUID(r), Parent: c18KSUID(r), Author: "a@b", Date: pc.Ts, Message: rt.Pick(r, []string{"", "loaded 1 data object\n\n  xyz", strings.Repeat("word ", 40)}), Meta: zed.Null}
		case 4:
			v = &commits.Add{Commit: c18KSUID(r), Object: obj}
		case 5:
			v = &commits.Delete{Commit: c18KSUID(r), ID: obj.ID}
		default:
			// no unions: the lake writer's unmarshaler recurses forever on a null of union type
			// and only plain shapes: it also panics (reflect.SliceOf(nil)) on some container types
			seq := gen.Sequence(r, zctx, gen.TypeOpts{PlainNames: true, NoUnion: true, NoNamed: true, NoEnum: true, NoError: true, NoMap: true, NoSet: true, NoTypeType: true, NoNullType: true}, gen.ValOpts{}, 1, 1, 1)
			vals = append(vals, seq...)
			continue
		}
		val, err := m.Marshal(v)
		if err != nil {
			continue
		}
		vals = append(vals, val)
	}
	return vals
}

// c18KeyedValues: records with an int64 key "k" (lake paths).
func c18KeyedValues(r *rt.Rand, zctx *zed.Context, n int) []zed.Value {
	tg := &gen.TypeGen{Zctx: zctx, R: r, O: gen.TypeOpts{PlainNames: true}}
	nt := r.Range(1, 3)
	var types []zed.Type
	for i := 0; i < nt; i++ {
		fields := []zed.Field{zed.NewField("k", zed.TypeInt64)}
		if r.Bool() {
			fields = append(fields, zed.NewField("v", tg.Type(2)))
		}
		if r.Bool() {
			fields = append(fields, zed.NewField("s", zed.TypeString))
		}
		types = append(types, zctx.MustLookupTypeRecord(fields))
	}
	// a third of the inputs carry an incompressible pad so that the 4 KiB
	// bufwriter in front of the storage stream flushes before Close
	var padType zed.Type
	if r.Chance(1, 3) {
		padType = zctx.MustLookupTypeRecord([]zed.Field{zed.NewField("k", zed.TypeInt64), zed.NewField("pad", zed.TypeString)})
	}
	vg := &gen.ValGen{R: r, O: gen.ValOpts{}}
	vals := make([]zed.Value, 0, n)
	for i := 0; i < n; i++ {
		if padType != nil && r.Bool() {
			pad := make([]byte, r.Range(1500, 5000))
			for j := range pad {
				pad[j] = byte('!' + r.Intn(90))
			}
			var b zcode.Builder
			b.Append(zed.EncodeInt(int64(r.Intn(100))))
			b.Append(pad)
			vals = append(vals, zed.NewValue(padType, b.Bytes()))
			continue
		}
		vals = append(vals, vg.Value(rt.Pick(r, types)))
	}
	return vals
}

// ---------------------------------------------------------------- read back

func c18ReadAll(zr zio.Reader) ([]gen.Rec, error) {
	var got []gen.Rec
	for {
		v, err := zr.Read()
		if err != nil {
			return got, err
		}
		if v == nil {
			return got, nil
		}
		got = append(got, gen.RecOf(*v))
	}
}

// c18Decode reads b with the reader matching format; ok=false if the format
// has no faithful reader (text formats).
func c18Decode(format string, b []byte) (recs []gen.Rec, ok bool, err error) {
	defer func() {
		if r := recover(); r != nil {
			err = fmt.Errorf("reader panic: %v", r)
		}
	}()
	zctx := zed.NewContext()
	switch format {
	case "zng":
		zr := zngio.NewReaderWithOpts(zctx, bytes.NewReader(b), zngio.ReaderOpts{Validate: true, Threads: 1})
		defer zr.Close()
		recs, err = c18ReadAll(zr)
		return recs, true, err
	case "zson":
		recs, err = c18ReadAll(zsonio.NewReader(zctx, bytes.NewReader(b)))
		return recs, true, err
	case "zjson":
		recs, err = c18ReadAll(zjsonio.NewReader(zctx, bytes.NewReader(b)))
		return recs, true, err
	case "vng":
		if len(b) == 0 {
			return nil, true, nil
		}
		zr, err := vngio.NewReader(zctx, bytes.NewReader(b), demand.All())
		if err != nil {
			return nil, true, err
		}
		recs, err = c18ReadAll(zr)
		return recs, true, err
	}
	return nil, false, nil
}

func c18SinkBytes(plan *sink.Plan) [][]byte {
	var out [][]byte
	for _, s := range plan.Sinks() {
		out = append(out, s.Bytes())
	}
	return out
}

func c18SameBytes(a, b [][]byte) bool {
	if len(a) != len(b) {
		return false
	}
	for i := range a {
		if !bytes.Equal(a[i], b[i]) {
			return false
		}
	}
	return true
}

// ---------------------------------------------------------------- monitor

type c18Agg struct {
	sigs   map[string]string
	counts map[string]int
}

func (a *c18Agg) add(sig, detail string) {
	if a.sigs == nil {
		a.sigs = map[string]string{}
		a.counts = map[string]int{}
	}
	if _, ok := a.sigs[sig]; !ok {
		a.sigs[sig] = detail
	}
	a.counts[sig]++
}

func (a *c18Agg) flush(o *rt.Obs) {
	var sigs []string
	for s := range a.sigs {
		sigs = append(sigs, s)
	}
	sort.Strings(sigs)
	for _, s := range sigs {
		o.Violation(s, fmt.Sprintf("%s\n(%d fault points of this case show this signature)", a.sigs[s], a.counts[s]))
	}
}

func runC18(c *rt.Ctx) {
	c.Note("rule", "case = one (format, writer options, route to the sink, driver, input sequence) combination; the unfaulted run through counting sinks gives the number N of sink Write calls, then EVERY k in 1..N × {one-shot, sticky, short write} × {sink Close ok, sink Close fails} is executed (plus k=0 with a failing Close); a fault point is non-trivial when it is not the last sink call of the stream (k<N: the failing call lies in an internal flush, not in the final one); distinct by (case, k)")
	c.Note("exhaustive", "true")
	c.Note("assumptions", strings.Join([]string{
		"exhaustive means: per generated (format, options, input) combination every fault position k ≤ N, every mode and both Close behaviours are executed; the combinations themselves are sampled",
		"the caller stops writing at the first error a Write returns and always calls Close (the contract of zio.Copy plus a deferred Close)",
		"inputs are kept inside each text writer's documented domain (csv/tsv: records with equal field names; zeek/table: records of zeek-representable types; an input the unfaulted reference run rejects is counted under skipped_unwritable_input and not used)",
		"zson/zjson inputs avoid the C02 open findings (negative zero, NaN payload, named types) because the read-back comparison belongs to C02, not to sink errors",
		"a sink that returns a short count with a nil error (io.Writer contract violation) is not modelled",
		"parquet and arrows writers are third-party encoders outside the property's list and are not driven",
	}, "\n"))
	debug.SetGCPercent(400) // the writers under test allocate 128 KiB lz4 tables per instance
	nrand := c.N(480, 8000)
	// directed reproducers of the genuine defects (also regression cases)
	for i := range c18Directed {
		c.Case("directed", i, func(o *rt.Obs) { c18DirectedCase(c, o, i) })
	}
	for i := 0; i < nrand; i++ {
		c.Case("enum", i, func(o *rt.Obs) { c18Case(c, o, i) })
	}
	// end to end: the `super` executable under strace's write-fault injection
	for i, n := 0, c.N(12, 300); i < n; i++ {
		c.Case("strace", i, func(o *rt.Obs) { c18StraceCase(c, o, i) })
	}
}

var c18Thresh = []int{1, 2, 7, 64, 300, 4096, zngio.DefaultFrameThresh}

func c18GenConf(r *rt.Rand, i int) c18Conf {
	cf := c18Conf{Path: "anyio", Drive: "loop"}
	if r.Chance(1, 3) {
		cf.Drive = "zio.Copy"
	}
	// every format gets the same share; zng a double one for its option space
	pick := i % (len(c18Formats) + 3)
	switch {
	case pick < len(c18Formats):
		cf.Format = c18Formats[pick]
	case pick == len(c18Formats):
		cf.Format = "zng"
	case pick == len(c18Formats)+1:
		cf.Format = "zng"
		cf.Path = "data-object"
	default:
		cf.Format = "zng"
		cf.Path = "lake-writer"
	}
	if cf.Path == "anyio" {
		switch r.Intn(8) {
		case 0:
			cf.Path = "emitter-buffered"
		case 1:
			cf.Path = "emitter-unbuffered"
		case 2:
			cf.Path = "sizesplit"
			cf.SplitSize = int64(rt.Pick(r, []int{1, 50, 400, 5000}))
		case 3:
			cf.Path = "split"
		}
	}
	if (cf.Path == "sizesplit" || cf.Path == "split") && zio.Extension(cf.Format) == "" {
		cf.Path = "anyio" // the splitters refuse formats without a file extension (tsv, lake)
	}
	switch cf.Format {
	case "zng":
		cf.Compress = r.Bool()
		cf.FrameThresh = rt.Pick(r, c18Thresh)
		cf.ZNGDefault = r.Chance(1, 8)
	case "zson":
		cf.Pretty = rt.Pick(r, []int{0, 0, 2, 4})
		if r.Chance(1, 3) {
			cf.Persist = ".*"
		}
	case "json":
		cf.Pretty = rt.Pick(r, []int{0, 0, 2})
	}
	switch cf.Path {
	case "data-object":
		cf.SeekStride = rt.Pick(r, []int{1, 8, 64, 0})
		cf.Order = rt.Pick(r, []string{"asc", "desc"})
	case "lake-writer":
		cf.SeekStride = rt.Pick(r, []int{1, 8, 64, 0})
		cf.PoolThresh = int64(rt.Pick(r, []int{1, 100, 1000, 0}))
	}
	return cf
}

func c18MakeEnv(cf *c18Conf) (*c18Env, error) {
	if cf.Path != "data-object" && cf.Path != "lake-writer" {
		return &c18Env{}, nil
	}
	ctx := context.Background()
	eng := sink.NewEngine()
	env := &c18Env{eng: eng, path: storage.MustParseURI("file:///lake/data")}
	if cf.Path == "lake-writer" {
		root, err := lake.Create(ctx, eng, nil, storage.MustParseURI("file:///lake"))
		if err != nil {
			return nil, err
		}
		pool, err := root.CreatePool(ctx, "p", order.SortKeys{order.NewSortKey(order.Asc, field.Path{"k"})}, cf.SeekStride, cf.PoolThresh)
		if err != nil {
			return nil, err
		}
		env.pool = pool
	}
	return env, nil
}

func c18Case(c *rt.Ctx, o *rt.Obs, i int) {
	r := o.R
	cf := c18GenConf(r, i)
	zctx := zed.NewContext()
	maxVals := 24
	switch cf.Format {
	case "table":
		maxVals = 10
	case "csv", "tsv":
		maxVals = 60
	case "vng":
		maxVals = 8 // every run builds one lz4 compressor per leaf column
	}
	switch cf.Path {
	case "lake-writer":
		maxVals = 6 // with a small pool threshold every value becomes two objects
	case "data-object", "sizesplit":
		maxVals = 14
	}
	if !c.Quick() && r.Chance(1, 10) {
		maxVals *= 3
	}
	n := r.Intn(maxVals + 1)
	var vals []zed.Value
	if cf.Path == "data-object" || cf.Path == "lake-writer" {
		vals = c18KeyedValues(r, zctx, n)
	} else {
		vals = c18Values(r, zctx, cf.Format, n)
	}
	c18Enumerate(c, o, &cf, vals, i%97 == 0)
}

// c18Enumerate is the body shared by generated and directed cases: reference
// runs, no-fault checks, then the full fault enumeration.
func c18Enumerate(c *rt.Ctx, o *rt.Obs, cf *c18Conf, vals []zed.Value, sample bool) {
	t0 := time.Now()
	desc := map[string]any{"conf": cf, "nvals": len(vals), "first_values": fmtVals(vals, 3)}
	o.Desc(desc)
	env, err := c18MakeEnv(cf)
	if err != nil {
		o.Violation("harness:lake-setup", err.Error())
		return
	}
	fmtKey := cf.Format
	if cf.Path == "data-object" || cf.Path == "lake-writer" {
		fmtKey = cf.Path
	}
	var agg c18Agg
	defer agg.flush(o)

	// ---- unfaulted run through counting sinks
	refPlan := &sink.Plan{}
	ref := c18Run(cf, vals, refPlan, env)
	if ref.Panic != "" {
		// a formatter panic without any fault is not a sink-error event;
		// it is reported by name so that it cannot hide
		c.Count("skipped_unfaulted_writer_panic_"+fmtKey, 1)
		if c.Verbose || c.Replaying {
			fmt.Printf("unfaulted writer panic %s/%d: %s\n", o.Kind, o.Index, ref.Panic)
		}
		return
	}
	if ref.reported() {
		c.Count("skipped_unwritable_input_"+fmtKey, 1)
		if c.Verbose {
			fmt.Printf("skip %s/%d: %s\n", o.Kind, o.Index, ref.String())
		}
		return
	}
	N := refPlan.Calls()
	refBytes := c18SinkBytes(refPlan)
	c.Count("combinations_"+fmtKey, 1)
	c.Max("max_sink_write_calls_"+fmtKey, int64(N))
	for _, s := range refPlan.Sinks() {
		if !s.Closed() {
			agg.add("sink-not-closed", fmt.Sprintf("after a clean Close the sink %q was never closed", s.Name))
		}
	}
	if sample {
		o.Sample(map[string]any{"conf": cf, "nvals": len(vals), "sink_write_calls": N, "sinks": len(refBytes), "first_values": fmtVals(vals, 2)})
	}

	// ---- no-fault direction
	c18CheckClean(c, cf, vals, refBytes, &agg, fmtKey)

	// ---- fault enumeration
	closeOnly := &sink.Plan{CloseFails: true}
	c18Judge(c, cf, closeOnly, c18Run(cf, vals, closeOnly, env), refBytes, &agg, fmtKey, N)
	for k := 1; k <= N; k++ {
		for _, mode := range sink.Modes {
			for _, cfail := range []bool{false, true} {
				plan := &sink.Plan{K: k, Mode: mode, CloseFails: cfail}
				out := c18Run(cf, vals, plan, env)
				c18Judge(c, cf, plan, out, refBytes, &agg, fmtKey, N)
			}
		}
		c.Count("fault_points_"+fmtKey, 1)
		if k < N {
			o.Nontrivial(fmt.Sprintf("%s/%d/%d", o.Kind, o.Index, k))
			c.Count("fault_points_internal_"+fmtKey, 1)
		}
	}
	c.Count("faulted_runs", int64(N*6+1))
	if c.Verbose {
		fmt.Printf("timing %s/%d %s %s N=%d nvals=%d %v\n", o.Kind, o.Index, fmtKey, cf.Path, N, len(vals), time.Since(t0))
	}
}

// c18CheckClean: the bytes of the unfaulted run equal those of an independent
// run into a bytes.Buffer and decode back to the input.
func c18CheckClean(c *rt.Ctx, cf *c18Conf, vals []zed.Value, refBytes [][]byte, agg *c18Agg, fmtKey string) {
	want := gen.RecsOf(vals)
	switch cf.Path {
	case "anyio", "emitter-buffered", "emitter-unbuffered":
		var buf bytes.Buffer
		w, err := anyio.NewWriter(nopCloser{&buf}, cf.anyioOpts())
		if err == nil {
			err = zio.Copy(w, zbuf.NewArray(vals))
			if cerr := w.Close(); err == nil {
				err = cerr
			}
		}
		if err != nil {
			agg.add("clean-run-error", fmt.Sprintf("run into bytes.Buffer failed: %v", err))
			return
		}
		if cf.Format != "vng" { // the VNG writer's dictionary order is not promised to be run-stable; it is checked by read-back only
			if len(refBytes) != 1 || !bytes.Equal(refBytes[0], buf.Bytes()) {
				agg.add("clean-run-bytes-differ", fmt.Sprintf("sink accepted %d bytes in %d streams, bytes.Buffer run produced %d bytes", c18Total(refBytes), len(refBytes), buf.Len()))
				return
			}
		}
		c.Count("clean_runs_bytes_compared", 1)
		if len(refBytes) == 1 {
			c18Readback(c, cf.Format, refBytes[0], want, false, agg)
		}
	case "sizesplit":
		// sequentially numbered files: their concatenated decodings are the input
		var got []gen.Rec
		for _, b := range refBytes {
			recs, ok, err := c18Decode(cf.Format, b)
			if !ok {
				return
			}
			if err != nil {
				agg.add("clean-run-unreadable", fmt.Sprintf("%s file of the size splitter unreadable: %v", cf.Format, err))
				return
			}
			got = append(got, recs...)
		}
		if d := c18Compare(cf.Format, want, got, false); d != "" {
			agg.add("clean-run-readback-mismatch", "size splitter: "+d)
		}
		c.Count("clean_runs_read_back", 1)
	case "split":
		var got []gen.Rec
		for _, b := range refBytes {
			recs, ok, err := c18Decode(cf.Format, b)
			if !ok {
				return
			}
			if err != nil {
				agg.add("clean-run-unreadable", fmt.Sprintf("%s file of the type splitter unreadable: %v", cf.Format, err))
				return
			}
			got = append(got, recs...)
		}
		if d := c18Compare(cf.Format, want, got, true); d != "" {
			agg.add("clean-run-readback-mismatch", "type splitter: "+d)
		}
		c.Count("clean_runs_read_back", 1)
	case "data-object":
		// sink 0 = data object, sink 1 = seek index
		if len(refBytes) != 2 {
			agg.add("clean-run-streams", fmt.Sprintf("data object writer opened %d streams, expected 2", len(refBytes)))
			return
		}
		c18Readback(c, "zng", refBytes[0], want, false, agg)
		if _, _, err := c18Decode("zng", refBytes[1]); err != nil {
			agg.add("clean-run-unreadable", fmt.Sprintf("seek index unreadable: %v", err))
		}
	case "lake-writer":
		var got []gen.Rec
		for i, b := range refBytes {
			recs, _, err := c18Decode("zng", b)
			if err != nil {
				agg.add("clean-run-unreadable", fmt.Sprintf("lake writer stream %d unreadable: %v", i, err))
				return
			}
			if i%2 == 0 {
				got = append(got, recs...)
			}
		}
		if d := multisetDiff(want, got); d != "" {
			agg.add("clean-run-readback-mismatch", "lake writer data objects: "+d)
		}
		c.Count("clean_runs_read_back", 1)
	}
}

// c18Compare: binary formats must give back the input exactly; for the text
// formats with a reader (zson, zjson) value fidelity is C02's subject, here
// the stream must be complete: parse without error into as many values as
// were written.
func c18Compare(format string, want, got []gen.Rec, multiset bool) string {
	switch format {
	case "zson", "zjson":
		if len(want) != len(got) {
			return fmt.Sprintf("wrote %d values, read back %d", len(want), len(got))
		}
		return ""
	}
	if multiset {
		return multisetDiff(want, got)
	}
	return diffRecs(want, got)
}

func c18Total(bs [][]byte) int {
	n := 0
	for _, b := range bs {
		n += len(b)
	}
	return n
}

func c18Readback(c *rt.Ctx, format string, b []byte, want []gen.Rec, multiset bool, agg *c18Agg) {
	got, ok, err := c18Decode(format, b)
	if !ok {
		return
	}
	if err != nil {
		agg.add("clean-run-unreadable", fmt.Sprintf("%s stream of %d bytes unreadable: %v", format, len(b), err))
		return
	}
	if d := c18Compare(format, want, got, multiset); d != "" {
		agg.add("clean-run-readback-mismatch", format+": "+d)
		return
	}
	c.Count("clean_runs_read_back", 1)
}

// c18Judge applies the oracle to one faulted run.
func c18Judge(c *rt.Ctx, cf *c18Conf, plan *sink.Plan, out c18Out, refBytes [][]byte, agg *c18Agg, fmtKey string, N int) {
	what := fmt.Sprintf("conf %+v; fault: k=%d of %d sink writes, mode=%s, sink Close fails=%v", *cf, plan.K, N, plan.Mode, plan.CloseFails)
	if out.Panic != "" {
		agg.add("panic:"+out.PanicSig, what+"\n"+out.Panic)
		return
	}
	wf, cfl := plan.WriteFaults(), plan.CloseFaults()
	switch {
	case wf > 0:
		c.Count("runs_with_write_fault", 1)
		if !out.reported() {
			chain := sink.RepoChain(plan.FaultStack())
			agg.add(c18Signature(chain), fmt.Sprintf("%s\nthe sink failed %d Write call(s) but %s\nsink accepted %d bytes, a complete stream has %d\nfailing sink call came from: %s",
				what, wf, out.String(), c18Total(c18SinkBytes(plan)), c18Total(refBytes), strings.Join(plan.FaultStack(), " < ")))
		} else {
			c.Count("write_faults_reported", 1)
		}
	case cfl > 0:
		c.Count("runs_with_close_fault_only", 1)
		if !out.reported() {
			chain := sink.RepoChain(plan.CloseFaultStack())
			sig := "unreported-close-error@"
			if len(chain) > 0 {
				sig += chain[0]
			}
			agg.add(sig, fmt.Sprintf("%s\nthe sink's Close failed but %s", what, out.String()))
		}
	default:
		// the planned fault was never reached: must behave like the clean run
		c.Count("runs_fault_not_reached", 1)
		if out.reported() {
			agg.add("error-without-fault", what+"\nno sink call failed but "+out.String())
		} else if cf.Format != "vng" && cf.Path != "lake-writer" && cf.Path != "data-object" && !c18SameBytes(refBytes, c18SinkBytes(plan)) {
			agg.add("nondeterministic-output", what+"\nno sink call failed but the accepted bytes differ from the reference run")
		}
	}
}

// ---------------------------------------------------------------- directed

type c18DirectedSpec struct {
	name string
	conf c18Conf
	vals func(zctx *zed.Context) []zed.Value
}

func c18ParseZSON(zctx *zed.Context, src string) []zed.Value {
	zr := zsonio.NewReader(zctx, strings.NewReader(src))
	var vals []zed.Value
	for {
		v, err := zr.Read()
		if err != nil || v == nil {
			return vals
		}
		vals = append(vals, v.Copy())
	}
}

var c18Directed = []c18DirectedSpec{
	{ // 0: zngio.Writer.flush returns nil when writeBlock fails
		name: "zng-flush",
		conf: c18Conf{Format: "zng", Path: "anyio", Drive: "loop", FrameThresh: 1},
		vals: func(zctx *zed.Context) []zed.Value { return c18ParseZSON(zctx, "{a:1}\n{a:2}\n{b:\"x\"}\n") },
	},
	{ // 1: csvio.Writer.Close ignores the csv encoder's flush error
		name: "csv-close",
		conf: c18Conf{Format: "csv", Path: "anyio", Drive: "loop"},
		vals: func(zctx *zed.Context) []zed.Value { return c18ParseZSON(zctx, "{a:1,b:\"x\"}\n{a:2,b:\"y\"}\n") },
	},
	{ // 2: tableio.Writer.Write ignores the flush error at a type change
		name: "table-typechange",
		conf: c18Conf{Format: "table", Path: "anyio", Drive: "loop"},
		vals: func(zctx *zed.Context) []zed.Value {
			return c18ParseZSON(zctx, "{a:1,b:\"x\"}\n{a:2,b:\"y\"}\n{c:1.5,d:true}\n{c:2.5,d:false}\n")
		},
	},
	{ // 3: same through tsv
		name: "tsv-close",
		conf: c18Conf{Format: "tsv", Path: "anyio", Drive: "zio.Copy"},
		vals: func(zctx *zed.Context) []zed.Value { return c18ParseZSON(zctx, "{a:1,b:\"x\"}\n") },
	},
	{ // 4: tableio.Writer.writeHeader ignores the error of the tabwriter Write that ends a one-column header
		name: "table-header",
		conf: c18Conf{Format: "table", Path: "anyio", Drive: "loop"},
		vals: func(zctx *zed.Context) []zed.Value { return c18ParseZSON(zctx, "{a:1}\n{a:2}\n") },
	},
}

func c18DirectedCase(c *rt.Ctx, o *rt.Obs, i int) {
	spec := c18Directed[i]
	zctx := zed.NewContext()
	cf := spec.conf
	c18Enumerate(c, o, &cf, spec.vals(zctx), false)
}

var _ io.Writer = (*sink.Sink)(nil)

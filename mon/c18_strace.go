package main

import (
	"bytes"
	"fmt"
	"os"
	"os/exec"
	"path/filepath"
	"strings"

	"verif/internal/rt"
)

// End-to-end confirmation of C18 on the `super` executable (kind "strace"): the
// driver builds cmd/super from the same tree; the case writes an input file,
// runs `super query -f <format> -o <file>` once unfaulted to count the write
// system calls that reach the output file, then once per k under
// `strace -e inject=write:error=…:when=k -P <file>` (strace as an injector:
// only writes to the output file are traced and failed; strace counts `when`
// per thread, so the verdict rests on the trace, not on k).  Oracle: a run
// whose trace shows an injected failure must exit non-zero; a run without an
// injection must exit zero.  This reaches what the in-process sinks cannot:
// the command's own handling of the writer's Close error and its exit status.
var c18StraceFormats = []string{"zng", "zson", "zjson", "json", "csv", "tsv", "zeek", "table", "text", "vng"}

func c18StraceCase(c *rt.Ctx, o *rt.Obs, i int) {
	bin := os.Getenv("VERIF_SUPER_BIN")
	if bin == "" {
		o.Count("strace_skipped_no_super_binary", 1)
		return
	}
	if _, err := exec.LookPath("strace"); err != nil {
		o.Count("strace_skipped_no_strace", 1)
		return
	}
	r := o.R
	format := c18StraceFormats[i%len(c18StraceFormats)]
	errno := rt.Pick(r, []string{"ENOSPC", "EIO", "EDQUOT", "EPIPE"})
	nrec := rt.Pick(r, []int{1, 3, 400, 3000})
	dir, err := os.MkdirTemp("", "c18strace-")
	if err != nil {
		o.Violation("setup-failed", err.Error())
		return
	}
	defer os.RemoveAll(dir)
	var in bytes.Buffer
	for j := 0; j < nrec; j++ {
		fmt.Fprintf(&in, "{a:%d,b:%q,c:%d.5,d:10.0.%d.%d}\n", j, strings.Repeat("x", j%40)+fmt.Sprint(j), j, j/256%256, j%256)
	}
	inPath := filepath.Join(dir, "in.zson")
	os.WriteFile(inPath, in.Bytes(), 0o644)
	outPath := filepath.Join(dir, "out."+format)
	args := []string{"query", "-f", format, "-o", outPath}
	if format == "zng" && r.Bool() {
		args = append(args, "-zng.compress=false")
	}
	args = append(args, inPath)
	desc := map[string]any{"format": format, "records": nrec, "errno": errno, "args": args[:len(args)-1]}
	o.Desc(desc)
	if i%10 == 0 {
		o.Sample(desc)
	}
	run := func(k int) (exit int, injected, writes int, stderr string, ok bool) {
		os.Remove(outPath)
		tr := filepath.Join(dir, fmt.Sprintf("trace.%d", k))
		var cmd *exec.Cmd
		if k == 0 {
			cmd = exec.Command("strace", append([]string{"-f", "-o", tr, "-e", "trace=write", "-P", outPath, bin}, args...)...)
		} else {
			cmd = exec.Command("strace", append([]string{"-f", "-o", tr, "-e", "trace=write", "-e", fmt.Sprintf("inject=write:error=%s:when=%d", errno, k), "-P", outPath, bin}, args...)...)
		}
		var eb bytes.Buffer
		cmd.Stderr = &eb
		err := cmd.Run()
		exit = 0
		if ee, isExit := err.(*exec.ExitError); isExit {
			exit = ee.ExitCode()
		} else if err != nil {
			return 0, 0, 0, err.Error(), false
		}
		t, _ := os.ReadFile(tr)
		return exit, strings.Count(string(t), "(INJECTED)"), strings.Count(string(t), "write("), eb.String(), true
	}
	exit0, _, nwrites, stderr0, ok := run(0)
	if !ok {
		o.Count("strace_not_runnable", 1)
		o.Inconclusive("strace could not be run: " + stderr0)
		return
	}
	if exit0 != 0 {
		o.Violation("strace:unfaulted-run-failed", fmt.Sprintf("super %v exits %d without any injected fault: %s", args, exit0, stderr0))
		return
	}
	o.Count("strace_unfaulted_runs", 1)
	c.Max("strace_max_write_syscalls_on_output", int64(nwrites))
	for k := 1; k <= nwrites+1 && k <= 8; k++ {
		exit, inj, _, stderr, ok := run(k)
		if !ok {
			o.Inconclusive("strace could not be run: " + stderr)
			return
		}
		o.AddEvaluations(1)
		switch {
		case inj > 0 && exit == 0:
			o.Violation("strace:exit-0-after-failed-write@"+format, fmt.Sprintf("super %v: write #%d to the output file failed with %s (injected), yet the command exits 0; stderr: %q", args, k, errno, stderr))
		case inj > 0:
			o.Count("strace_injected_failures_reported", 1)
			if k < nwrites {
				o.Nontrivial(fmt.Sprintf("strace/%d/%d", i, k))
			}
		case exit != 0:
			o.Violation("strace:failure-without-fault@"+format, fmt.Sprintf("super %v exits %d although no write was failed (k=%d): %s", args, exit, k, stderr))
		default:
			o.Count("strace_runs_without_injection", 1)
		}
	}
}

package main

import (
	"bytes"
	"context"
	"encoding/json"
	"fmt"
	"io"
	"net/http"
	"net/http/httptest"
	"os"
	"path/filepath"
	"strings"

	zed "github.com/brimdata/super"
	"github.com/brimdata/super/api"
	"github.com/brimdata/super/api/client"
	"github.com/brimdata/super/compiler/optimizer/demand"
	lakeapi "github.com/brimdata/super/lake/api"
	"github.com/brimdata/super/pkg/storage"
	"github.com/brimdata/super/service"
	"github.com/brimdata/super/zbuf"
	"github.com/brimdata/super/zio"
	"github.com/brimdata/super/zio/anyio"
	"github.com/brimdata/super/zio/vngio"
	"github.com/brimdata/super/zson"
	"github.com/segmentio/ksuid"
	"go.uber.org/zap"

	"verif/internal/gen"
	"verif/internal/lk"
	"verif/internal/rt"
)

func init() { register("C19", runC19) }

var c19LoadTypes = []string{api.MediaTypeZNG, api.MediaTypeZSON, api.MediaTypeZJSON, api.MediaTypeJSON, api.MediaTypeCSV, api.MediaTypeVNG, ""}
var c19RespTypes = []string{api.MediaTypeZNG, api.MediaTypeZSON, api.MediaTypeZJSON, api.MediaTypeJSON, api.MediaTypeCSV}

func c19Format(mediaType string) string {
	f, _ := api.MediaTypeToFormat(mediaType, "zng")
	return f
}

// c19Encode serialises vals in the format of the media type.
func c19Encode(vals []zed.Value, mediaType string) ([]byte, error) {
	var buf bytes.Buffer
	format := c19Format(mediaType)
	if mediaType == "" {
		format = "zson"
	}
	var w zio.WriteCloser
	var err error
	if format == "vng" {
		w = vngio.NewWriter(nopCloser{&buf})
	} else {
		w, err = anyio.NewWriter(nopCloser{&buf}, anyio.WriterOpts{Format: format})
		if err != nil {
			return nil, err
		}
	}
	for _, v := range vals {
		if err := w.Write(v); err != nil {
			return nil, err
		}
	}
	if err := w.Close(); err != nil {
		return nil, err
	}
	return buf.Bytes(), nil
}

type c19Side struct {
	l    *lk.Lake
	m    *lk.Model
	dir  string
	b    lk.DirBacking
	conn *client.Connection // remote only
	url  string
}

func runC19(c *rt.Ctx) {
	c.Note("rule", "case = one lake history (loads, deletes, delete-where, compactions, vector adds, branch create, merges, reverts, vacuum) applied twice: directly to a lake directory, and through the HTTP service (service.Core behind httptest) to a second directory, with the load content type drawn per load from {zng, zson, zjson, json, csv, vng, auto-detect}; per step: same success/failure, both sides agree with the model; after every step the query `from p@main | sort id` is fetched through raw HTTP in every response format {zng, zson, zjson, json, csv} and compared with the local result written by the output layer in the same format (zng is compared as decoded values); errors: compile errors, unknown pools, and late errors (a data object file removed before the query) must reach the remote client as an HTTP error, an in-band control error or through the query status endpoint; non-trivial = history with ≥2 load content types and ≥1 query per response format")
	c.Note("assumptions", "values loaded are records of int/string fields so that json and csv can carry them without loss (format-specific lossiness is C02's business)\nobject and commit ids differ between the two lakes and are never compared")
	n := c.N(24, 500)
	for i := 0; i < n; i++ {
		c.Case("hist", i, func(o *rt.Obs) { c19Case(c, o) })
	}
}

func c19Open(ctx context.Context, o *rt.Obs, spec lk.PoolSpec) (local, remote *c19Side, cleanup func(), err error) {
	base, err := os.MkdirTemp("", "c19-")
	if err != nil {
		return nil, nil, nil, err
	}
	cleanup = func() { os.RemoveAll(base) }
	dirA, dirB := filepath.Join(base, "local"), filepath.Join(base, "served")
	os.MkdirAll(dirA, 0o755)
	os.MkdirAll(dirB, 0o755)
	la, err := lakeapi.CreateLocalLake(ctx, zap.NewNop(), "file://"+dirA)
	if err != nil {
		cleanup()
		return nil, nil, nil, fmt.Errorf("create local lake: %w", err)
	}
	core, err := service.NewCore(ctx, service.Config{Root: storage.MustParseURI("file://" + dirB), Logger: zap.NewNop()})
	if err != nil {
		cleanup()
		return nil, nil, nil, fmt.Errorf("service core: %w", err)
	}
	srv := httptest.NewServer(core)
	old := cleanup
	cleanup = func() { srv.Close(); old() }
	conn := client.NewConnectionTo(srv.URL)
	local = &c19Side{l: lk.FromAPI(la), dir: dirA, b: lk.DirBacking{Dir: dirA}}
	remote = &c19Side{l: &lk.Lake{API: lakeapi.NewRemoteLake(conn)}, dir: dirB, b: lk.DirBacking{Dir: dirB}, conn: conn, url: srv.URL}
	for _, s := range []*c19Side{local, remote} {
		id, err := s.l.CreatePool(ctx, spec)
		if err != nil {
			cleanup()
			return nil, nil, nil, fmt.Errorf("create pool: %w", err)
		}
		s.m = lk.NewModel(spec, id)
	}
	return local, remote, cleanup, nil
}

func c19Case(c *rt.Ctx, o *rt.Obs) {
	ctx := context.Background()
	r := o.R
	spec := lk.PoolSpec{Name: "p", Key: "k", Order: rt.Pick(r, []string{"asc", "desc"}), Thresh: rt.Pick(r, []int64{0, 60})}
	hg := &histGen{r: r, key: "k", branches: []string{"main"}, multi: true, vg: &lakeValGen{r: r, key: "k", noNull: true, intsOnly: true}}
	n := r.Range(3, c.N(7, 14))
	ops := []lk.Op{{Kind: "load", Branch: "main", Vals: c19Vals(r, hg.vg, 3)}}
	var loadTypes []string
	for len(ops) < n {
		op := hg.op()
		if op.Kind == "load" {
			op.Vals = c19Vals(r, hg.vg, r.Range(1, 5))
		}
		if op.Kind == "del-vectors" {
			continue
		}
		ops = append(ops, op)
	}
	for range ops {
		loadTypes = append(loadTypes, rt.Pick(r, c19LoadTypes))
	}
	desc := map[string]any{"pool": spec, "ops": ops, "load_content_types": loadTypes}
	o.Desc(desc)
	if o.Index%10 == 0 {
		o.Sample(desc)
	}
	local, remote, cleanup, err := c19Open(ctx, o, spec)
	if err != nil {
		o.Violation("setup-failed", err.Error())
		return
	}
	defer cleanup()
	usedTypes := map[string]bool{}
	for step, op := range ops {
		ct := loadTypes[step]
		remote.l.LoadVia = func(ctx context.Context, zctx *zed.Context, pool ksuid.KSUID, branch string, vals []zed.Value) (ksuid.KSUID, error) {
			body, err := c19Encode(vals, ct)
			if err != nil {
				return ksuid.Nil, fmt.Errorf("harness: encoding as %q: %w", ct, err)
			}
			res, err := remote.conn.Load(ctx, pool, branch, ct, bytes.NewReader(body), lk.Msg)
			return res.Commit, err
		}
		if op.Kind == "load" {
			// Direct access reads the same bytes with the same reader: what the
			// format can carry (csv has no integers) is not the service's business.
			op2, err := c19ThroughFormat(op, ct)
			if err != nil {
				o.Violation("setup-failed", fmt.Sprintf("step %d: %v", step, err))
				return
			}
			op = op2
		}
		lo := local.m.Exec(ctx, local.l, local.b, op)
		ro := remote.m.Exec(ctx, remote.l, remote.b, op)
		if lo.Skipped != ro.Skipped {
			o.Violation("applicability-differs", fmt.Sprintf("step %d %s: skipped locally=%v remotely=%v", step, op, lo.Skipped, ro.Skipped))
			return
		}
		if lo.Skipped {
			continue
		}
		o.AddEvaluations(1)
		o.Count("ops_"+op.Kind, 1)
		if op.Kind == "load" {
			usedTypes[ct] = true
			o.Count("loads_via_"+strings.ReplaceAll(c19Format(ct)+"|"+ct, "zng|", "auto|"), 1)
		}
		if (lo.Err != nil) != (ro.Err != nil) {
			o.Violation("outcome-differs:"+op.Kind, fmt.Sprintf("step %d %s (load content type %q): direct access returned %v, the service returned %v", step, op, ct, lo.Err, ro.Err))
			return
		}
		problemsToViolations(o, "local:", step, lo.Problems)
		problemsToViolations(o, "remote:", step, ro.Problems)
		problemsToViolations(o, "local:", step, local.m.CheckAll(ctx, local.l))
		problemsToViolations(o, "remote:", step, remote.m.CheckAll(ctx, remote.l))
		if o.Violated() {
			return
		}
		// every response format
		if local.m.NeedsVacuumed(local.m.Branches["main"]) {
			continue
		}
		for _, mt := range c19RespTypes {
			q := "from p@main | sort id"
			if mt == api.MediaTypeCSV {
				q = "from p@main | sort id | cut id, k"
			}
			c19CompareQuery(ctx, o, local, remote, q, mt, step)
		}
	}
	if len(usedTypes) >= 2 {
		o.Nontrivial(fmt.Sprint("hist/", o.Index))
	}
	c19FailingLoad(ctx, o, local, remote)
	c19Errors(ctx, o, local, remote)
}

// failAfter is a zio.Reader that yields n values and then fails.
type failAfter struct {
	vals []zed.Value
	n, i int
}

func (f *failAfter) Read() (*zed.Value, error) {
	if f.i >= f.n || f.i >= len(f.vals) {
		return nil, fmt.Errorf("injected read fault in the load input")
	}
	v := &f.vals[f.i]
	f.i++
	return v, nil
}

// c19FailingLoad: a load whose input fails part-way must fail on both sides
// and change neither lake (both API handles are used as a client would).
func c19FailingLoad(ctx context.Context, o *rt.Obs, local, remote *c19Side) {
	if local.m.NeedsVacuumed(local.m.Branches["main"]) {
		return
	}
	zctx := zed.NewContext()
	vals, _ := lk.ParseVals(zctx, []string{`{k:1,id:7001,s:"x"}`, `{k:2,id:7002,s:"x"}`, `{k:3,id:7003,s:"x"}`, `{k:4,id:7004,s:"x"}`})
	for _, n := range []int{0, 1, 3} {
		_, lerr := local.l.API.Load(ctx, zctx, local.m.PoolID, "main", &failAfter{vals: vals, n: n}, lk.Msg)
		_, rerr := remote.l.API.Load(ctx, zctx, remote.m.PoolID, "main", &failAfter{vals: vals, n: n}, lk.Msg)
		o.Count("failing_input_loads", 1)
		if (lerr != nil) != (rerr != nil) {
			o.Violation("outcome-differs:load-with-failing-input", fmt.Sprintf("load whose input fails after %d values: direct access returned %v, the remote handle returned %v", n, lerr, rerr))
		}
		problemsToViolations(o, "local:after-failed-load:", n, local.m.CheckAll(ctx, local.l))
		problemsToViolations(o, "remote:after-failed-load:", n, remote.m.CheckAll(ctx, remote.l))
	}
}

// c19ThroughFormat rewrites a load's values to what the reader of the load's
// content type yields for their encoding.
func c19ThroughFormat(op lk.Op, mediaType string) (lk.Op, error) {
	zctx := zed.NewContext()
	vals, err := lk.ParseVals(zctx, op.Vals)
	if err != nil {
		return op, err
	}
	body, err := c19Encode(vals, mediaType)
	if err != nil {
		return op, err
	}
	format := c19Format(mediaType)
	if mediaType == "" {
		format = "auto"
	}
	zr, err := anyio.NewReaderWithOpts(zctx, bytes.NewReader(body), demand.All(), anyio.ReaderOpts{Format: format})
	if err != nil {
		return op, err
	}
	defer zr.Close()
	var texts []string
	for {
		v, err := zr.Read()
		if err != nil {
			return op, err
		}
		if v == nil {
			break
		}
		texts = append(texts, zson.FormatValue(*v))
	}
	op.Vals = texts
	return op, nil
}

// c19Vals: records of int/string fields only.
func c19Vals(r *rt.Rand, vg *lakeValGen, n int) []string {
	out := make([]string, n)
	for i := range out {
		vg.nextID++
		out[i] = fmt.Sprintf("{k:%d,id:%d,s:%q}", r.Intn(10), vg.nextID, rt.Pick(r, []string{"x", "foo", "a b", "é"}))
	}
	return out
}

// c19Raw posts a query with the given Accept type and returns status, body and request id.
func c19Raw(url, query, accept string, ctrl bool) (int, []byte, string, error) {
	body, _ := json.Marshal(api.QueryRequest{Query: query})
	u := url + "/query?ctrl=F"
	if ctrl {
		u = url + "/query?ctrl=T"
	}
	req, err := http.NewRequest("POST", u, bytes.NewReader(body))
	if err != nil {
		return 0, nil, "", err
	}
	req.Header.Set("Accept", accept)
	req.Header.Set("Content-Type", "application/json")
	res, err := http.DefaultClient.Do(req)
	if err != nil {
		return 0, nil, "", err
	}
	defer res.Body.Close()
	b, err := io.ReadAll(res.Body)
	return res.StatusCode, b, res.Header.Get("X-Request-ID"), err
}

func c19LocalFormatted(ctx context.Context, l *lk.Lake, query, format string) ([]byte, []gen.Rec, error) {
	q, err := l.API.Query(ctx, nil, query)
	if err != nil {
		return nil, nil, err
	}
	defer q.Pull(true)
	var buf bytes.Buffer
	w, err := anyio.NewWriter(nopCloser{&buf}, anyio.WriterOpts{Format: format})
	if err != nil {
		return nil, nil, err
	}
	var recs []gen.Rec
	for {
		b, err := q.Pull(false)
		if err != nil {
			if _, ok := err.(*zbuf.Control); ok {
				continue
			}
			return nil, nil, err
		}
		if b == nil {
			break
		}
		recs = append(recs, gen.RecsOf(b.Values())...)
		if err := zbuf.WriteBatch(w, b); err != nil {
			return nil, nil, err
		}
		b.Unref()
	}
	if err := w.Close(); err != nil {
		return nil, nil, err
	}
	return buf.Bytes(), recs, nil
}

func c19CompareQuery(ctx context.Context, o *rt.Obs, local, remote *c19Side, query, mediaType string, step int) {
	format := c19Format(mediaType)
	want, wantRecs, lerr := c19LocalFormatted(ctx, local.l, query, format)
	status, got, _, rerr := c19Raw(remote.url, query, mediaType, false)
	o.Count("queries_"+format, 1)
	if rerr != nil {
		o.Violation("http-failure", fmt.Sprintf("after step %d: POST /query (%s): %v", step, mediaType, rerr))
		return
	}
	if lerr != nil {
		if status == 200 {
			o.Violation("error-not-reported-remotely", fmt.Sprintf("after step %d: %q fails locally (%v) but the service answered 200 with %d bytes", step, query, lerr, len(got)))
		}
		return
	}
	if status != 200 {
		o.Violation("remote-query-failed:"+format, fmt.Sprintf("after step %d: %q works locally but the service answered %d: %s", step, query, status, got))
		return
	}
	if format == "zng" {
		vals, err := lk.ReadZNG(zed.NewContext(), got)
		if err != nil {
			o.Violation("remote-output-undecodable:zng", fmt.Sprintf("after step %d: %v", step, err))
			return
		}
		if d := diffRecs(wantRecs, gen.RecsOf(vals)); d != "" {
			o.Violation("remote-output-differs:zng", fmt.Sprintf("after step %d: %q: %s", step, query, d))
		}
		return
	}
	if format == "json" {
		// The service's JSON response is one array; the output layer writes one
		// value per line.  Compare the sequences of JSON values.
		var remoteVals []json.RawMessage
		if err := json.Unmarshal(got, &remoteVals); err != nil {
			o.Violation("remote-output-undecodable:json", fmt.Sprintf("after step %d: %v: %.200q", step, err, got))
			return
		}
		var localVals []json.RawMessage
		dec := json.NewDecoder(bytes.NewReader(want))
		for {
			var m json.RawMessage
			if err := dec.Decode(&m); err != nil {
				break
			}
			localVals = append(localVals, m)
		}
		same := len(localVals) == len(remoteVals)
		for i := 0; same && i < len(localVals); i++ {
			var a, b any
			json.Unmarshal(localVals[i], &a)
			json.Unmarshal(remoteVals[i], &b)
			ab, _ := json.Marshal(a)
			bb, _ := json.Marshal(b)
			same = bytes.Equal(ab, bb)
		}
		if !same {
			o.Violation("remote-output-differs:json", fmt.Sprintf("after step %d: %q as json:\nlocal:  %.400q\nremote: %.400q", step, query, want, got))
		}
		return
	}
	if !bytes.Equal(want, got) {
		o.Violation("remote-output-differs:"+format, fmt.Sprintf("after step %d: %q as %s:\nlocal  (%d bytes): %.400q\nremote (%d bytes): %.400q", step, query, format, len(want), want, len(got), got))
	}
}

func c19StatusEndpointHasError(url, reqID string) bool {
	sreq, _ := http.NewRequest("GET", url+"/query/status/"+reqID, nil)
	sreq.Header.Set("Accept", "application/json")
	sres, err := http.DefaultClient.Do(sreq)
	if err != nil {
		return false
	}
	sb, _ := io.ReadAll(sres.Body)
	sres.Body.Close()
	var qe api.QueryError
	return json.Unmarshal(sb, &qe) == nil && qe.Error != ""
}

// c19Errors: errors direct access reports must reach the remote client.
func c19Errors(ctx context.Context, o *rt.Obs, local, remote *c19Side) {
	for _, q := range []string{"from nosuchpool", "from p@nosuchbranch", "from p | where (", "from p | nosuchop"} {
		_, _, lerr := c19LocalFormatted(ctx, local.l, q, "zson")
		status, body, reqID, _ := c19Raw(remote.url, q, api.MediaTypeZSON, false)
		o.Count("error_queries", 1)
		if lerr != nil && status == 200 && c19StatusEndpointHasError(remote.url, reqID) {
			// the local error arose while the query ran (a history whose branch refers
			// to vacuumed objects), not at compile time: for a response that cannot carry
			// it in band the documented channel is the query status endpoint
			o.Count("errors_reported_by_status_endpoint", 1)
			continue
		}
		if lerr != nil && status == 200 {
			o.Violation("error-not-reported-remotely", fmt.Sprintf("%q fails locally (%v) but the service answered 200: %.200q", q, lerr, body))
		}
		if lerr == nil && status != 200 {
			o.Violation("remote-query-failed:zson", fmt.Sprintf("%q works locally but the service answered %d: %.200q", q, status, body))
		}
	}
	// late error: remove one live data object file on both sides
	if local.m.NeedsVacuumed(local.m.Branches["main"]) {
		return
	}
	remove := func(s *c19Side) bool {
		ids := lk.SortedIDs(s.m.State(s.m.Branches["main"]))
		if len(ids) == 0 {
			return false
		}
		path := filepath.Join(s.dir, s.m.PoolID.String(), "data", ids[len(ids)-1].String()+".zng")
		return os.Remove(path) == nil
	}
	if !remove(local) || !remove(remote) {
		return
	}
	q := "from p@main"
	_, _, lerr := c19LocalFormatted(ctx, local.l, q, "zson")
	if lerr == nil {
		return // direct access does not report it either; nothing to compare
	}
	for _, mt := range c19RespTypes {
		for _, ctrl := range []bool{false, true} {
			status, body, reqID, _ := c19Raw(remote.url, q, mt, ctrl)
			o.Count("late_error_queries", 1)
			if status != 200 {
				continue // reported as an HTTP error
			}
			if bytes.Contains(body, []byte("no such file")) || bytes.Contains(body, []byte("does not exist")) || bytes.Contains(body, []byte("error")) {
				o.Count("late_errors_reported_in_band", 1)
				continue
			}
			// the documented third channel: the query status endpoint
			if c19StatusEndpointHasError(remote.url, reqID) {
				o.Count("late_errors_reported_by_status_endpoint", 1)
				continue
			}
			o.Violation("late-error-dropped:"+c19Format(mt), fmt.Sprintf("direct access reports %v for %q after a data object was removed; the service (format %s, ctrl=%v) answered 200 with %d bytes, no in-band error, and the status endpoint reports none", lerr, q, mt, ctrl, len(body)))
		}
	}
}

package main

import (
	"fmt"
	"runtime/debug"
	"sort"
	"strings"
	"sync"

	zed "github.com/brimdata/super"
	"github.com/brimdata/super/pkg/verifhook"
	fuseop "github.com/brimdata/super/runtime/sam/op/fuse"
	"github.com/brimdata/super/zcode"
	"github.com/brimdata/super/zson"

	"verif/internal/gen"
	"verif/internal/rt"
)

func init() { register("C20", runC20) }

// ---------------------------------------------------------------------------
// leaves: the information content of a value

type c20Leaf struct {
	Path  string
	Type  string
	Bytes string
	Set   bool // some container above the leaf is a set
}

func (l c20Leaf) String() string { return fmt.Sprintf("%s:%s=%x", l.Path, l.Type, l.Bytes) }

// c20Leaves appends the non-null leaves of (t,b).  Named types and union
// tags are transparent; container elements share one path component so that
// they compare as a multiset.
func c20Leaves(path string, t zed.Type, b zcode.Bytes, out *[]c20Leaf) {
	if b == nil {
		return
	}
	switch t := t.(type) {
	case *zed.TypeNamed:
		c20Leaves(path, t.Type, b, out)
	case *zed.TypeRecord:
		it := b.Iter()
		for _, f := range t.Fields {
			if it.Done() {
				*out = append(*out, c20Leaf{Path: path, Type: "malformed-record", Bytes: string(b)})
				return
			}
			c20Leaves(path+"."+fmt.Sprintf("%q", f.Name), f.Type, it.Next(), out)
		}
	case *zed.TypeArray:
		for it := b.Iter(); !it.Done(); {
			c20Leaves(path+"[]", t.Type, it.Next(), out)
		}
	case *zed.TypeSet:
		// below a set, elements that become equal once widened to the fused
		// element type are one element (a set is a set), so leaves are compared
		// by presence there, not by multiplicity (c20LeafDiff); the path
		// component is the array's, because fuse may turn a set into an array
		n0 := len(*out)
		defer func() {
			for i := n0; i < len(*out); i++ {
				(*out)[i].Set = true
			}
		}()
		for it := b.Iter(); !it.Done(); {
			c20Leaves(path+"[]", t.Type, it.Next(), out)
		}
	case *zed.TypeMap:
		for it := b.Iter(); !it.Done(); {
			c20Leaves(path+"{key}", t.KeyType, it.Next(), out)
			if it.Done() {
				*out = append(*out, c20Leaf{Path: path, Type: "malformed-map", Bytes: string(b)})
				return
			}
			c20Leaves(path+"{val}", t.ValType, it.Next(), out)
		}
	case *zed.TypeUnion:
		it := b.Iter()
		tag := int(zed.DecodeInt(it.Next()))
		if tag < 0 || tag >= len(t.Types) || it.Done() {
			*out = append(*out, c20Leaf{Path: path, Type: "malformed-union", Bytes: string(b)})
			return
		}
		c20Leaves(path, t.Types[tag], it.Next(), out)
	case *zed.TypeEnum:
		i := int(zed.DecodeUint(b))
		sym := fmt.Sprintf("?%d", i)
		if i >= 0 && i < len(t.Symbols) {
			sym = t.Symbols[i]
		}
		*out = append(*out, c20Leaf{Path: path, Type: "enum", Bytes: sym})
	case *zed.TypeError:
		c20Leaves(path+"!error", t.Type, b, out)
	default:
		*out = append(*out, c20Leaf{Path: path, Type: fmt.Sprintf("p%d", t.ID()), Bytes: string(b)})
	}
}

func c20LeavesOf(v zed.Value) []c20Leaf {
	var out []c20Leaf
	if v.IsNull() {
		return nil
	}
	c20Leaves("", v.Type(), v.Bytes(), &out)
	sort.Slice(out, func(i, j int) bool {
		a, b := out[i], out[j]
		if a.Path != b.Path {
			return a.Path < b.Path
		}
		if a.Type != b.Type {
			return a.Type < b.Type
		}
		return a.Bytes < b.Bytes
	})
	return out
}

func c20LeafDiff(in, out []c20Leaf) string {
	m := map[c20Leaf]int{}
	nin, nout := map[c20Leaf]int{}, map[c20Leaf]int{}
	underSet := map[c20Leaf]bool{}
	for _, l := range in {
		set := l.Set
		l.Set = false
		underSet[l] = underSet[l] || set
		m[l]++
		nin[l]++
	}
	for _, l := range out {
		set := l.Set
		l.Set = false
		underSet[l] = underSet[l] || set
		m[l]--
		nout[l]++
	}
	var lost, extra []string
	for l, n := range m {
		if underSet[l] || strings.Contains(l.Path, "{key}") || strings.Contains(l.Path, "{val}") {
			// below a set or a map: presence, not multiplicity (elements or keys
			// that coincide after widening collapse, as the data model demands)
			if nin[l] > 0 && nout[l] == 0 {
				lost = append(lost, l.String())
			} else if nout[l] > 0 && nin[l] == 0 {
				extra = append(extra, l.String())
			}
			continue
		}
		if n > 0 {
			lost = append(lost, l.String())
		} else if n < 0 {
			extra = append(extra, l.String())
		}
	}
	if len(lost) == 0 && len(extra) == 0 {
		return ""
	}
	sort.Strings(lost)
	sort.Strings(extra)
	return fmt.Sprintf("leaves lost %v, leaves that were not in the input %v", lost, extra)
}

// c20IllFormed finds a union with fewer than two distinct members anywhere
// inside t (the data model defines a union over two or more unique types).
func c20IllFormed(t zed.Type) string {
	switch t := t.(type) {
	case *zed.TypeNamed:
		return c20IllFormed(t.Type)
	case *zed.TypeRecord:
		for _, f := range t.Fields {
			if s := c20IllFormed(f.Type); s != "" {
				return s
			}
		}
	case *zed.TypeArray:
		return c20IllFormed(t.Type)
	case *zed.TypeSet:
		return c20IllFormed(t.Type)
	case *zed.TypeMap:
		if s := c20IllFormed(t.KeyType); s != "" {
			return s
		}
		return c20IllFormed(t.ValType)
	case *zed.TypeError:
		return c20IllFormed(t.Type)
	case *zed.TypeUnion:
		seen := map[string]bool{}
		for _, m := range t.Types {
			k := gen.TypeString(m)
			if seen[k] {
				return gen.TypeString(t)
			}
			seen[k] = true
			if s := c20IllFormed(m); s != "" {
				return s
			}
		}
		if len(t.Types) < 2 {
			return gen.TypeString(t)
		}
	}
	return ""
}

func c20HasMap(t zed.Type) bool {
	switch t := t.(type) {
	case *zed.TypeNamed:
		return c20HasMap(t.Type)
	case *zed.TypeRecord:
		for _, f := range t.Fields {
			if c20HasMap(f.Type) {
				return true
			}
		}
	case *zed.TypeArray:
		return c20HasMap(t.Type)
	case *zed.TypeSet:
		return c20HasMap(t.Type)
	case *zed.TypeMap:
		return true
	case *zed.TypeError:
		return c20HasMap(t.Type)
	case *zed.TypeUnion:
		for _, m := range t.Types {
			if c20HasMap(m) {
				return true
			}
		}
	}
	return false
}

// ---------------------------------------------------------------------------

const (
	c20SigMaps       = "fuse:maps-of-differing-types->error(cannot yet use maps in shaping functions)"
	c20SigCreateStep = "fuse:union-value-into-wider-union->error(createStep: incompatible types)"
	c20SigUnshaped   = "fuse:value-left-unshaped-where-fused-type-is-a-union-whose-member-was-merged-from-its-type"
	c20SigDupUnion   = "fuse:fused-type-has-union-with-duplicate-members"
)

func c20RunFuse(zctx *zed.Context, q string, batches [][]zed.Value, limit int) ([]zed.Value, int64, error) {
	saved := fuseop.MemMaxBytes
	fuseop.MemMaxBytes = limit
	defer func() { fuseop.MemMaxBytes = saved }()
	before := verifhook.Count("fuse.spill")
	out, err := c06RunQuery(zctx, q, batches)
	return out, verifhook.Count("fuse.spill") - before, err
}

type c20Result struct {
	spilled   bool
	sharedKey bool
}

// c20Check runs fuse over vals (in memory and spilling) and the fuse()
// aggregate, and applies the oracle.
func c20Check(c *rt.Ctx, o *rt.Obs, zctx *zed.Context, vals []zed.Value) c20Result {
	var res c20Result
	r := o.R
	batches := c06Split(r, vals, r.Intn(4))
	total := 0
	for _, v := range vals {
		total += len(v.Bytes())
	}
	vs := newC06Viols(o)
	defer vs.flush()
	defaultLimit := fuseop.MemMaxBytes
	out, nspill, err := c20RunFuse(zctx, "fuse", batches, defaultLimit)
	if err != nil {
		o.Violation("fuse:error", err.Error())
		return res
	}
	c.Count("fuse_spills_at_default_limit", nspill)
	if len(out) != len(vals) {
		o.Violation("fuse:output-count", fmt.Sprintf("%d input values, %d output values", len(vals), len(out)))
		return res
	}
	// the aggregate
	var aggType zed.Type
	aggOut, err := c06RunQuery(zctx, "summarize t:=fuse(this) | yield t", batches)
	switch {
	case err != nil:
		o.Violation("fuse:aggregate-error", err.Error())
	case len(vals) == 0:
		if len(aggOut) > 1 {
			o.Violation("fuse:aggregate-output-count", fmt.Sprintf("%d outputs on empty input", len(aggOut)))
		}
	case len(aggOut) != 1 || aggOut[0].Type() != zed.TypeType || aggOut[0].IsNull():
		o.Violation("fuse:aggregate-output", fmt.Sprintf("fuse(this) gave %v", fmtVals(aggOut, 3)))
	default:
		aggType, err = zctx.LookupByValue(append([]byte{}, aggOut[0].Bytes()...))
		if err != nil {
			o.Violation("fuse:aggregate-type-undecodable", err.Error())
		}
	}
	if aggType != nil {
		if s := c20IllFormed(aggType); s != "" {
			vs.add(c20SigDupUnion, func() string {
				return fmt.Sprintf("fuse(this) reports %s which contains the union %s", gen.TypeString(aggType), s)
			})
		}
	}
	// uniformity, agreement with the aggregate, losslessness
	for i, ov := range out {
		in := vals[i]
		if aggType != nil && ov.Type() != aggType {
			sig := "fuse:output-type-differs-from-fuse()-aggregate"
			where := ""
			switch {
			case c20IsErrorMsg(ov, "cannot yet use maps in shaping functions") && c20HasMap(aggType) && c20HasMap(in.Type()):
				sig = c20SigMaps
			case c20IsErrorMsg(ov, "createStep: incompatible types"):
				sig = c20SigCreateStep
			default:
				// where do the two types part?  The known class: the fused
				// type has a union there, the value kept a type that is not
				// one of the union's members (its type was merged into a
				// wider record/array member), so it was left as it came.
				got, want, path := c20TypeDiff(ov.Type(), aggType, "")
				if u, ok := zed.TypeUnder(want).(*zed.TypeUnion); ok && !zed.IsUnionType(got) && !c20UnionHasExact(u, got) && c20UnionHasSameKind(u, got) {
					sig = c20SigUnshaped
					where = fmt.Sprintf(" (types part at %q: value has %s, fused type has %s)", path, gen.TypeString(got), gen.TypeString(want))
				}
			}
			vs.add(sig, func() string {
				return fmt.Sprintf("output[%d] has type %s, fuse(this) reports %s%s\n in:  %s\n out: %s", i, gen.TypeString(ov.Type()), gen.TypeString(aggType), where, c06Show(in), c06Show(ov))
			})
			if sig == c20SigMaps || sig == c20SigCreateStep {
				continue // the output is an error value, its leaves are not the input's
			}
		}
		if ov.Type() != out[0].Type() && aggType == nil {
			vs.add("fuse:not-uniform", func() string {
				return fmt.Sprintf("output[0] has type %s, output[%d] has type %s", gen.TypeString(out[0].Type()), i, gen.TypeString(ov.Type()))
			})
		}
		if d := c20LeafDiff(c20LeavesOf(in), c20LeavesOf(ov)); d != "" {
			vs.add("fuse:lossy", func() string {
				return fmt.Sprintf("value %d: %s\n in:  %s\n out: %s", i, d, c06Show(in), c06Show(ov))
			})
		}
	}
	// spilling
	outRecs := gen.RecsOf(out)
	limits := []int{1}
	if total > 2 && r.Bool() {
		limits = append(limits, total/2+1)
	} else if total > 8 {
		limits = append(limits, r.Range(2, total))
	}
	for _, lim := range limits {
		sout, n, err := c20RunFuse(zctx, "fuse", batches, lim)
		if err != nil {
			o.Violation("fuse:error-when-spilling", fmt.Sprintf("MemMaxBytes=%d: %v", lim, err))
			continue
		}
		c.Count("fuse_spills_forced", n)
		if n > 0 {
			res.spilled = true
		}
		if d := diffRecs(outRecs, gen.RecsOf(sout)); d != "" {
			vs.add("fuse:spill-changes-output", func() string {
				return fmt.Sprintf("MemMaxBytes=%d (%d spills): %s\n%s", lim, n, d, c06Around(out, sout))
			})
		}
	}
	c.Count("fuse_queries_run", int64(2+len(limits)))
	c.Count("fuse_values", int64(len(vals)))
	res.sharedKey = c20SharedFieldDifferentTypes(vals)
	return res
}

func c20IsErrorMsg(v zed.Value, msg string) bool {
	t, ok := v.Type().(*zed.TypeError)
	return ok && t.Type == zed.TypeString && !v.IsNull() && strings.Contains(string(v.Bytes()), msg)
}

// c20TypeDiff descends got and want in parallel and returns the first pair
// of sub-types at which they differ in kind or cannot be descended further.
func c20TypeDiff(got, want zed.Type, path string) (zed.Type, zed.Type, string) {
	if got == want {
		return got, want, path
	}
	g, w := zed.TypeUnder(got), zed.TypeUnder(want)
	switch g := g.(type) {
	case *zed.TypeRecord:
		if w, ok := w.(*zed.TypeRecord); ok && len(g.Fields) == len(w.Fields) {
			for i := range g.Fields {
				if g.Fields[i].Name != w.Fields[i].Name {
					return got, want, path
				}
			}
			for i := range g.Fields {
				if g.Fields[i].Type != w.Fields[i].Type {
					return c20TypeDiff(g.Fields[i].Type, w.Fields[i].Type, path+"."+g.Fields[i].Name)
				}
			}
		}
	case *zed.TypeArray:
		if w, ok := w.(*zed.TypeArray); ok {
			return c20TypeDiff(g.Type, w.Type, path+"[]")
		}
	case *zed.TypeSet:
		if w, ok := w.(*zed.TypeSet); ok {
			return c20TypeDiff(g.Type, w.Type, path+"[]")
		}
	case *zed.TypeError:
		if w, ok := w.(*zed.TypeError); ok {
			return c20TypeDiff(g.Type, w.Type, path+"!error")
		}
	}
	return got, want, path
}

func c20UnionHasExact(u *zed.TypeUnion, t zed.Type) bool {
	for _, m := range u.Types {
		if m == t || zed.TypeUnder(m) == zed.TypeUnder(t) {
			return true
		}
	}
	return false
}

// c20UnionHasSameKind: the union has a member of t's kind (record, array or
// set, map) that t's type could have been merged into.
func c20UnionHasSameKind(u *zed.TypeUnion, t zed.Type) bool {
	k := t.Kind()
	if k != zed.RecordKind && k != zed.ArrayKind && k != zed.SetKind && k != zed.MapKind {
		return false
	}
	for _, m := range u.Types {
		mk := m.Kind()
		if mk == k || (k != zed.RecordKind && (mk == zed.ArrayKind || mk == zed.SetKind)) {
			return true
		}
	}
	return false
}

// c20SharedFieldDifferentTypes: ≥2 distinct record types that share a
// top-level field name with different types (the non-triviality rule).
func c20SharedFieldDifferentTypes(vals []zed.Value) bool {
	seen := map[string]string{}
	types := map[zed.Type]bool{}
	for _, v := range vals {
		rt := zed.TypeRecordOf(v.Type())
		if rt == nil || types[v.Type()] {
			continue
		}
		types[v.Type()] = true
		for _, f := range rt.Fields {
			ts := gen.TypeString(f.Type)
			if prev, ok := seen[f.Name]; ok && prev != ts {
				return true
			}
			seen[f.Name] = ts
		}
	}
	return false
}

// ---------------------------------------------------------------------------
// alphabet for the exhaustive part

var c20Alphabet = []string{
	`{a:int64}`,
	`{b:string}`,
	`{a:string}`,
	`{a:int64,b:string}`,
	`{b:float64,a:int64,c:ip}`,
	`{a:{x:int64}}`,
	`{a:{y:string,x:string}}`,
	`{a:[int64]}`,
	`{a:[string]}`,
	`{a:|[int64]|}`,
	`{a:[{x:int64}]}`,
	`{a:[{y:int64}]}`,
	`{a:[{z:string}]}`,
	`{a:[({x:int64},{y:int64},{z:string})]}`,
	`[({x:int64},{w:ip})]`,
	`{a:(int64,string)}`,
	`{a:port=uint16}`,
	`{a:null}`,
	`{a:error(string)}`,
	`{a:enum(A,B)}`,
	`rec={a:int64}`,
	`{m:|{string:int64}|}`,
	`{m:|{string:string}|}`,
	`int64`,
	`string`,
	`[int64]`,
	`(int64,{a:int64})`,
}

// indexes of the alphabet members that lead to the known open findings; the
// quick tier's exhaustive pairs include them, the triples sample them.
func c20AlphabetTypes(zctx *zed.Context) []zed.Type {
	c20AlphaOnce.Do(func() {
		tctx := zed.NewContext()
		for _, s := range c20Alphabet {
			t, err := zson.ParseType(tctx, s)
			if err != nil {
				panic(fmt.Sprintf("c20 alphabet: %q: %v", s, err))
			}
			c20AlphaTemplate = append(c20AlphaTemplate, t)
		}
	})
	out := make([]zed.Type, len(c20AlphaTemplate))
	for i, t := range c20AlphaTemplate {
		var err error
		if out[i], err = zctx.TranslateType(t); err != nil {
			panic(fmt.Sprintf("c20 alphabet: translate %q: %v", c20Alphabet[i], err))
		}
	}
	return out
}

var (
	c20AlphaOnce     sync.Once
	c20AlphaTemplate []zed.Type
)

func c20ValGen(r *rt.Rand) *gen.ValGen {
	return &gen.ValGen{R: r, O: gen.ValOpts{NullNum: 1, NullDen: 6, MaxElems: 3, SmallStrings: true}}
}

func runC20(c *rt.Ctx) {
	c.Note("rule", "case = one input sequence run through `fuse` at the default fuse.MemMaxBytes, through `summarize fuse(this)`, and through `fuse` again with MemMaxBytes=1 and a mid-stream limit (spills counted at the fuse.spill hook); oracle: |out|=|in|, every output has the type fuse(this) reports, that type is well-formed, per position the multiset of (path, primitive type, bytes) over non-null leaves is unchanged (named types and union tags transparent, array elements as a multiset, set elements and map entries by presence), spilled output identical. tuple cases enumerate ordered pairs / triples of a 27-type alphabet with 1–2 generated values per type, random cases draw 1–6 generated types of depth ≤3; shapes cases spread 3–6 record shapes over the elements of arrays/sets (top level, under a field, nested) of 2–5 values; non-trivial = input with ≥2 distinct record types sharing a field name at different types; distinct by the sorted set of input type strings")
	c.Note("assumptions", strings.Join([]string{
		"top-level error values are not generated (like every operator, fuse passes them through unshaped — language design); error-typed fields inside records are",
		"the fused type must not contain a union with duplicate members (the data model defines unions over two or more unique types), checked on the type fuse(this) reports",
		"type equality between outputs and the aggregate's type is identity in the query's type context, printed with the harness's structural printer",
		"whether an empty container or an all-null record survives is not demanded (the statement speaks of non-null leaves only)",
	}, "\n"))
	verifhook.SetPoison(true)
	debug.SetGCPercent(400)
	nA := len(c20Alphabet)

	// directed reproducers of the known findings
	directed := [][]string{
		{`{m:|{"a":1}|}`, `{m:|{"a":"x"}|}`},                            // maps of differing value types
		{`{a:1}`, `2`, `{a:"s"}`},                                       // records next to non-records
		{`1((int64,{a:int64}))`, `{a:2}((int64,{a:int64}))`, `{b:"x"}`}, // union -> wider union
		{`{a:["x"]}`, `{a:|["y"]|}`},                                    // array vs set of one element type
	}
	for i, srcs := range directed {
		c.Case("directed", i, func(o *rt.Obs) {
			zctx := zed.NewContext()
			var vals []zed.Value
			for _, s := range srcs {
				vals = append(vals, zson.MustParseValue(zctx, s))
			}
			o.Desc(map[string]any{"values": srcs})
			c20Check(c, o, zctx, vals)
		})
	}

	c20Tuple := func(o *rt.Obs, idx []int) {
		zctx := zed.NewContext()
		types := c20AlphabetTypes(zctx)
		vg := c20ValGen(o.R)
		var vals []zed.Value
		var names []string
		for round := 0; round < 2; round++ {
			for _, k := range idx {
				if round == 1 && o.R.Bool() {
					continue
				}
				vals = append(vals, vg.Value(types[k]))
			}
		}
		for _, k := range idx {
			names = append(names, c20Alphabet[k])
		}
		o.Desc(map[string]any{"types": names, "values": fmtVals(vals, 8)})
		res := c20Check(c, o, zctx, vals)
		c20Mark(c, o, res, vals)
	}
	// ordered pairs: exhaustive in both tiers
	for i := 0; i < nA*nA; i++ {
		c.Case("pair", i, func(o *rt.Obs) { c20Tuple(o, []int{i / nA, i % nA}) })
	}
	// ordered triples: exhaustive when thorough, a seeded sample when quick
	if c.Quick() {
		for i := 0; i < 1200; i++ {
			c.Case("triple-sample", i, func(o *rt.Obs) {
				c20Tuple(o, []int{o.R.Intn(nA), o.R.Intn(nA), o.R.Intn(nA)})
			})
		}
	} else {
		for i := 0; i < nA*nA*nA; i++ {
			c.Case("triple", i, func(o *rt.Obs) { c20Tuple(o, []int{i / (nA * nA), i / nA % nA, i % nA}) })
		}
	}
	for i, n := 0, c.N(1200, 25000); i < n; i++ {
		c.Case("random", i, func(o *rt.Obs) { c20Random(c, o) })
	}
	// containers whose elements have several record shapes: three or more
	// record types meeting in one element union, arriving one value at a time
	for i, n := 0, c.N(500, 10000); i < n; i++ {
		c.Case("shapes", i, func(o *rt.Obs) { c20Shapes(c, o) })
	}
	c.Count("harness_batches_poisoned_on_release", c06Released.Load())
}

func c20Mark(c *rt.Ctx, o *rt.Obs, res c20Result, vals []zed.Value) {
	if res.sharedKey {
		set := map[string]bool{}
		for _, v := range vals {
			set[gen.TypeString(v.Type())] = true
		}
		var keys []string
		for k := range set {
			keys = append(keys, k)
		}
		sort.Strings(keys)
		o.Nontrivial(strings.Join(keys, ";"))
		c.Count("cases_with_shared_field_of_differing_types", 1)
		if res.spilled {
			c.Count("such_cases_that_also_spilled", 1)
		}
	}
}

// c20Shapes: 3–6 distinct record shapes over a few field names (some sharing a
// field at different types), spread over 2–5 values as elements of an array or
// set, at top level, under a field, under a nested record, or as a direct
// union-typed field.
func c20Shapes(c *rt.Ctx, o *rt.Obs) {
	r := o.R
	zctx := zed.NewContext()
	fields := []string{"a", "b", "c", "x", "y"}
	leaves := []string{"1", "2", `"s"`, `"t"`, "1.5", "true", "10.0.0.1", "[1,2]", `{q:1}`, `{q:"u"}`, "null"}
	seen := map[string]bool{}
	var shapes []string
	nshapes := r.Range(3, 6)
	for tries := 0; len(shapes) < nshapes && tries < 100; tries++ {
		nf := r.Range(1, 3)
		perm := r.Perm(len(fields))[:nf]
		var parts, key []string
		for _, fi := range perm {
			v := rt.Pick(r, leaves)
			parts = append(parts, fields[fi]+":"+v)
			key = append(key, fields[fi])
		}
		sort.Strings(key)
		k := strings.Join(key, ",")
		if seen[k] && r.Chance(2, 3) {
			continue // mostly distinct field sets; sometimes the same fields at other types
		}
		seen[k] = true
		shapes = append(shapes, "{"+strings.Join(parts, ",")+"}")
	}
	where := r.Intn(6)
	wrap := func(elems []string) string {
		list := strings.Join(elems, ",")
		switch where {
		case 0:
			return "[" + list + "]"
		case 1:
			return "{r:[" + list + "]}"
		case 2:
			return "{n:1,r:{s:[" + list + "],t:\"x\"}}"
		case 3:
			return "{r:|[" + list + "]|}"
		case 4:
			return "{r:[[" + list + "]]}"
		default:
			return "{r:" + elems[0] + "}" // a field holding one record shape per value
		}
	}
	nvals := r.Range(2, 5)
	var srcs []string
	used := 0
	for i := 0; i < nvals; i++ {
		ne := r.Range(1, 3)
		var elems []string
		for j := 0; j < ne; j++ {
			// walk through the shapes so that every shape occurs, later ones in later values
			k := used % len(shapes)
			if r.Chance(1, 4) {
				k = r.Intn(len(shapes))
			} else {
				used++
			}
			elems = append(elems, shapes[k])
		}
		srcs = append(srcs, wrap(elems))
	}
	var vals []zed.Value
	for _, s := range srcs {
		v, err := zson.ParseValue(zctx, s)
		if err != nil {
			o.Count("shapes_unparseable_skipped", 1)
			return
		}
		vals = append(vals, v)
	}
	o.Desc(map[string]any{"shapes": shapes, "values": srcs})
	if o.Index%100 == 0 {
		o.Sample(map[string]any{"kind": "shapes", "values": srcs})
	}
	o.Count("shapes_cases", 1)
	c.Max("max_record_shapes_in_one_container", int64(len(shapes)))
	res := c20Check(c, o, zctx, vals)
	c20Mark(c, o, res, vals)
}

func c20Random(c *rt.Ctx, o *rt.Obs) {
	r := o.R
	zctx := zed.NewContext()
	depth := 2
	if !c.Quick() || r.Chance(1, 3) {
		depth = 3
	}
	topts := gen.TypeOpts{FewFields: true, PlainNames: r.Chance(2, 3), FieldNames: []string{"a", "b", "c", "x", "type", "a b", ""}}
	if r.Chance(2, 3) {
		topts.NoMap = true // maps of differing types are a known open finding; keep most cases clear of it
	}
	tg := &gen.TypeGen{Zctx: zctx, R: r, O: topts}
	ntypes := r.Range(1, 6)
	var types []zed.Type
	for len(types) < ntypes {
		var t zed.Type
		if r.Chance(3, 4) {
			t = tg.Record(depth)
		} else {
			t = tg.Type(depth)
		}
		if _, isErr := zed.TypeUnder(t).(*zed.TypeError); isErr {
			t = zctx.MustLookupTypeRecord([]zed.Field{zed.NewField("e", t)})
		}
		types = append(types, t)
	}
	vg := c20ValGen(r)
	vg.O.TypeValues = types
	n := r.Range(1, 14)
	var vals []zed.Value
	for i := 0; i < n; i++ {
		vals = append(vals, vg.Value(rt.Pick(r, types)))
	}
	o.Desc(map[string]any{"ntypes": ntypes, "values": fmtVals(vals, 8)})
	if o.Index%251 == 0 {
		o.Sample(map[string]any{"kind": "random", "values": fmtVals(vals, 5)})
	}
	res := c20Check(c, o, zctx, vals)
	c20Mark(c, o, res, vals)
}

package main

import (
	"bytes"
	"fmt"
	"io"
	"runtime"
	"strings"
	"sync"
	"sync/atomic"
	"time"

	zed "github.com/brimdata/super"
	"github.com/brimdata/super/pkg/verifhook"
	"github.com/brimdata/super/zson"

	"verif/internal/gen"
)

type nopCloser struct{ io.Writer }

func (nopCloser) Close() error { return nil }

// fmtVal renders a value for descriptions only (never for deciding).
func fmtVal(v zed.Value) (s string) {
	defer func() {
		if r := recover(); r != nil {
			s = fmt.Sprintf("<unformattable %s %x>", gen.TypeString(v.Type()), v.Bytes())
		}
	}()
	s = zson.FormatValue(v)
	if len(s) > 300 {
		s = s[:300] + "…"
	}
	return s
}

func fmtVals(vals []zed.Value, max int) []string {
	var out []string
	for i, v := range vals {
		if i >= max {
			out = append(out, fmt.Sprintf("… (%d more)", len(vals)-max))
			break
		}
		out = append(out, fmtVal(v))
	}
	return out
}

func fmtRec(r gen.Rec) string {
	if r.Null {
		return fmt.Sprintf("null::%s", r.Type)
	}
	return fmt.Sprintf("%x::%s", r.Bytes, r.Type)
}

// diffRecs returns "" if equal, else a description of the first difference.
func diffRecs(want, got []gen.Rec) string {
	n := len(want)
	if len(got) < n {
		n = len(got)
	}
	for i := 0; i < n; i++ {
		if want[i] != got[i] {
			return fmt.Sprintf("value %d differs:\n want %s\n got  %s", i, fmtRec(want[i]), fmtRec(got[i]))
		}
	}
	if len(want) != len(got) {
		return fmt.Sprintf("length differs: want %d values, got %d", len(want), len(got))
	}
	return ""
}

// multisetDiff compares as multisets.
func multisetDiff(want, got []gen.Rec) string {
	m := map[gen.Rec]int{}
	for _, r := range want {
		m[r]++
	}
	for _, r := range got {
		m[r]--
	}
	var missing, extra []string
	for r, n := range m {
		if n > 0 && len(missing) < 3 {
			missing = append(missing, fmt.Sprintf("%d× %s", n, fmtRec(r)))
		}
		if n < 0 && len(extra) < 3 {
			extra = append(extra, fmt.Sprintf("%d× %s", -n, fmtRec(r)))
		}
	}
	if len(missing) == 0 && len(extra) == 0 {
		return ""
	}
	return fmt.Sprintf("multisets differ (want %d values, got %d): missing %v, unexpected %v", len(want), len(got), missing, extra)
}

// repoGoroutines counts goroutines whose stack mentions the given package
// path fragment (e.g. "zio/zngio.").
func repoGoroutines(fragment string) (int, string) {
	buf := make([]byte, 4<<20)
	n := runtime.Stack(buf, true)
	count := 0
	var sample string
	for _, g := range strings.Split(string(buf[:n]), "\n\n") {
		if strings.Contains(g, fragment) && !strings.Contains(g, "repoGoroutines") {
			count++
			if sample == "" {
				sample = g
			}
		}
	}
	return count, sample
}

// settleGoroutines waits (bounded by scheduler yields, then a short sleep
// ladder) for the process's goroutine count to drop back to base; only if it
// does not are the stacks inspected for goroutines matching fragment.
func settleGoroutines(fragment string, base int) (int, string) {
	for i := 0; i < 600; i++ {
		if runtime.NumGoroutine() <= base {
			return 0, ""
		}
		if i < 200 {
			runtime.Gosched()
		} else {
			time.Sleep(5 * time.Millisecond)
		}
	}
	return repoGoroutines(fragment)
}

// h2 tracks ZNG scanner dispatch/completion order through the verif hooks
// and injects delays in workers so that later frames finish first.
type h2Tracker struct {
	mu        sync.Mutex
	seqOf     map[any]int
	next      int
	maxDone   int
	ooo       int64
	frames    int64
	delayMask uint64 // 0 = no delays
	ctr       atomic.Uint64
}

var h2 = &h2Tracker{seqOf: map[any]int{}}

func (h *h2Tracker) install() {
	verifhook.SetAtObj(func(point string, obj any, n int) {
		switch point {
		case "zngio.dispatch":
			h.mu.Lock()
			h.next++
			h.seqOf[obj] = h.next
			h.mu.Unlock()
		case "zngio.worker.begin":
			if m := atomic.LoadUint64(&h.delayMask); m != 0 {
				x := splitmix(h.ctr.Add(1) ^ m)
				switch x % 4 {
				case 0:
					time.Sleep(time.Duration(x>>8%200) * time.Microsecond)
				case 1:
					for i := 0; i < int(x>>8%20); i++ {
						runtime.Gosched()
					}
				}
			}
		case "zngio.worker.end":
			h.mu.Lock()
			s := h.seqOf[obj]
			h.frames++
			if s < h.maxDone {
				h.ooo++
			} else {
				h.maxDone = s
			}
			h.mu.Unlock()
		}
	})
}

func (h *h2Tracker) snapshot() (frames, ooo int64) {
	h.mu.Lock()
	defer h.mu.Unlock()
	return h.frames, h.ooo
}

func splitmix(z uint64) uint64 {
	z += 0x9e3779b97f4a7c15
	z = (z ^ (z >> 30)) * 0xbf58476d1ce4e5b9
	z = (z ^ (z >> 27)) * 0x94d049bb133111eb
	return z ^ (z >> 31)
}

// oneByteReader returns data in tiny, irregular chunks.
type chunkReader struct {
	r     *bytes.Reader
	sizes []int
	i     int
}

func (c *chunkReader) Read(p []byte) (int, error) {
	n := c.sizes[c.i%len(c.sizes)]
	c.i++
	if n > len(p) {
		n = len(p)
	}
	return c.r.Read(p[:n])
}

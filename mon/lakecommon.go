package main

import (
	"context"
	"fmt"
	"math"
	"os"
	"path/filepath"
	"strings"

	zed "github.com/brimdata/super"
	"github.com/brimdata/super/pkg/field"
	"github.com/segmentio/ksuid"

	"verif/internal/gen"
	"verif/internal/lk"
	"verif/internal/rt"
	"verif/internal/store"
)

// ---- lake value generator ---------------------------------------------------

// lakeValGen produces ZSON texts of values for a pool with the given key.
// Every record carries a unique id so multisets are unambiguous.
type lakeValGen struct {
	r        *rt.Rand
	key      string // "k", "a.k", "this"
	nextID   int
	noNull   bool // no null / missing keys
	intsOnly bool
}

var lakeKeysMixed = []string{"0", "1", "2", "3", "4", "5", "6", "7", "8", "9", "2.5", "4.", "1(uint64)", "7(int32)", `"a"`, `"b"`, `"3"`, "-1", "1e3"}
var lakeKeysInt = []string{"0", "1", "2", "3", "4", "5", "6", "7", "8", "9"}

func (g *lakeValGen) keyText() (string, bool) {
	if !g.noNull {
		switch g.r.Intn(12) {
		case 0:
			return "", false // missing
		case 1:
			return "null", true
		case 2:
			return "null(int64)", true
		}
	}
	if g.intsOnly || g.r.Chance(1, 2) {
		return rt.Pick(g.r, lakeKeysInt), true
	}
	return rt.Pick(g.r, lakeKeysMixed), true
}

func (g *lakeValGen) val() string {
	g.nextID++
	id := g.nextID
	kt, present := g.keyText()
	switch g.key {
	case "this":
		// non-record values; a unique id cannot be attached, duplicates are legal
		if !present {
			return "null"
		}
		return kt
	case "a.k":
		if !present {
			if g.r.Bool() {
				return fmt.Sprintf("{id:%d}", id)
			}
			return fmt.Sprintf("{a:{j:1},id:%d}", id)
		}
		return fmt.Sprintf("{a:{k:%s},id:%d}", kt, id)
	default:
		extra := ""
		if g.r.Chance(1, 4) {
			extra = fmt.Sprintf(",s:%q", rt.Pick(g.r, []string{"x", "foo", "", "é"}))
		}
		if !present {
			return fmt.Sprintf("{id:%d%s}", id, extra)
		}
		return fmt.Sprintf("{k:%s,id:%d%s}", kt, id, extra)
	}
}

func (g *lakeValGen) vals(n int) []string {
	out := make([]string, n)
	for i := range out {
		out[i] = g.val()
	}
	return out
}

// ---- key order oracle ---------------------------------------------------------

// keyClass gives the harness's own view of a pool-key value: rank 0 number,
// 1 string, 2 null/missing (largest).  Only these classes are generated.
type keyClass struct {
	rank int
	num  float64
	str  string
}

func keyOf(v zed.Value, key string) keyClass {
	kv := &v
	if key != "this" {
		kv = v.DerefPath(field.Dotted(key))
	}
	if kv == nil || kv.IsNull() || kv.IsMissing() || kv.IsError() {
		return keyClass{rank: 2}
	}
	t := zed.TypeUnder(kv.Type())
	id := t.ID()
	switch {
	case zed.IsSigned(id):
		return keyClass{rank: 0, num: float64(kv.Int())}
	case zed.IsUnsigned(id):
		return keyClass{rank: 0, num: float64(kv.Uint())}
	case zed.IsFloat(id):
		return keyClass{rank: 0, num: kv.Float()}
	case id == zed.IDString:
		return keyClass{rank: 1, str: string(kv.Bytes())}
	}
	return keyClass{rank: 3}
}

func cmpKey(a, b keyClass) int {
	if a.rank != b.rank {
		if a.rank < b.rank {
			return -1
		}
		return 1
	}
	switch a.rank {
	case 0:
		if math.IsNaN(a.num) || math.IsNaN(b.num) {
			return 0
		}
		if a.num < b.num {
			return -1
		}
		if a.num > b.num {
			return 1
		}
	case 1:
		return strings.Compare(a.str, b.str)
	}
	return 0
}

// checkKeyOrder verifies that vals are in pool-key order.
func checkKeyOrder(vals []zed.Value, key, order string) string {
	for i := 1; i < len(vals); i++ {
		c := cmpKey(keyOf(vals[i-1], key), keyOf(vals[i], key))
		if order == "desc" {
			c = -c
		}
		if c > 0 {
			return fmt.Sprintf("values %d and %d are out of %s pool-key order: %s then %s", i-1, i, order, fmtVal(vals[i-1]), fmtVal(vals[i]))
		}
	}
	return ""
}

// ---- history generator --------------------------------------------------------

type histGen struct {
	r        *rt.Rand
	vg       *lakeValGen
	key      string
	branches []string
	multi    bool // allow branches / merges
}

var lakePredsK = []string{"%s > 3", "%s == 2", "%s <= 2.5", "%s >= 7", "%s < 1", "%s == \"a\"", "%s > 4 and id > 3", "not (%s < 5)", "%s == 4 or %s == 6", "%s != 3", "%s > 100"}

func (h *histGen) pred() string {
	k := h.key
	if h.key != "this" && h.r.Chance(1, 4) {
		return rt.Pick(h.r, []string{"id > 4", "id <= 2", "id == 3 or id == 7", "id > 1000"})
	}
	p := rt.Pick(h.r, lakePredsK)
	return strings.ReplaceAll(p, "%s", k)
}

func (h *histGen) op() lk.Op {
	r := h.r
	br := rt.Pick(r, h.branches)
	x := r.Intn(100)
	switch {
	case x < 38:
		return lk.Op{Kind: "load", Branch: br, Vals: h.vg.vals(r.Range(1, 8))}
	case x < 50:
		n := 1
		if r.Chance(1, 3) {
			n = 2
		}
		objs := make([]int, n)
		for i := range objs {
			objs[i] = r.Intn(8)
		}
		if n == 2 && objs[0] == objs[1] {
			objs[1]++
		}
		// (no extra draw: one delete in eight names objects the branch may no longer hold)
		return lk.Op{Kind: "delete", Branch: br, Objs: objs, Any: objs[0] == 7}
	case x < 64:
		return lk.Op{Kind: "delete-where", Branch: br, Pred: h.pred()}
	case x < 76:
		n := r.Range(2, 4)
		objs := make([]int, n)
		start := r.Intn(8)
		for i := range objs {
			objs[i] = start + i
		}
		return lk.Op{Kind: "compact", Branch: br, Objs: objs, Vectors: r.Chance(1, 3)}
	case x < 82:
		// one vector add/delete in four names an object out of everything the pool
		// has ever held (deleted from the branch, but its file not vacuumed): the
		// request is then refused and must leave everything as it was
		i := r.Intn(8)
		return lk.Op{Kind: "add-vectors", Branch: br, Objs: []int{i}, Any: i >= 6}
	case x < 85:
		i := r.Intn(8)
		return lk.Op{Kind: "del-vectors", Branch: br, Objs: []int{i}, Any: i >= 6}
	case x < 90:
		return lk.Op{Kind: "vacuum", Branch: br}
	case x < 95 || !h.multi:
		return lk.Op{Kind: "revert", Branch: br, Commit: r.Intn(50)}
	default:
		if len(h.branches) < 4 && r.Bool() {
			name := fmt.Sprintf("b%d", len(h.branches))
			op := lk.Op{Kind: "create-branch", Branch: name, From: br, Back: r.Intn(3)}
			h.branches = append(h.branches, name)
			return op
		}
		child := rt.Pick(r, h.branches)
		return lk.Op{Kind: "merge", Branch: br, Child: child}
	}
}

// ---- pool specs ----------------------------------------------------------------

func genPoolSpec(r *rt.Rand, name string) lk.PoolSpec {
	return lk.PoolSpec{
		Name:   name,
		Key:    rt.Pick(r, []string{"k", "k", "k", "a.k", "this"}),
		Order:  rt.Pick(r, []string{"asc", "desc"}),
		Thresh: rt.Pick(r, []int64{1, 20, 30, 45, 60, 200, 0}),
		Stride: rt.Pick(r, []int{1, 1, 16, 100, 0}),
	}
}

// newMemLake creates a lake with one pool on a fresh in-memory engine.
// newBacking returns a fresh in-memory backing store or, with real set, a
// fresh scratch directory (under $TMPDIR, which the driver points below
// /verif/.cache) that engines drive through the repository's file engine.
func newBacking(real bool) store.Backing {
	if !real {
		return store.NewMem()
	}
	d, err := store.NewDir(filepath.Join(os.TempDir(), "realfs"))
	if err != nil {
		panic(err)
	}
	return d
}

func newMemLake(ctx context.Context, fileLike bool, spec lk.PoolSpec) (*store.Engine, *lk.Lake, *lk.Model, error) {
	return newLakeOn(ctx, store.NewMem(), fileLike, spec)
}

// newLakeOn creates a lake with one pool on the given backing store.
func newLakeOn(ctx context.Context, b store.Backing, fileLike bool, spec lk.PoolSpec) (*store.Engine, *lk.Lake, *lk.Model, error) {
	eng := store.New(b, fileLike)
	l, err := lk.Create(ctx, eng)
	if err != nil {
		return nil, nil, nil, fmt.Errorf("lake create: %w", err)
	}
	id, err := l.CreatePool(ctx, spec)
	if err != nil {
		return nil, nil, nil, fmt.Errorf("create pool: %w", err)
	}
	return eng, l, lk.NewModel(spec, id), nil
}

func problemsToViolations(o *rt.Obs, prefix string, step int, probs []lk.Problem) {
	for _, p := range probs {
		o.Violation(prefix+p.Sig, fmt.Sprintf("after step %d: %s", step, p.Detail))
	}
}

// ---- object metadata / seek index oracle ----------------------------------------

// checkObjectMeta verifies, for every object the metadata lists at rev, that
// count and key range equal what the object's file holds, that the file is in
// pool-key order, and that the seek index tiles the file.
func checkObjectMeta(ctx context.Context, l *lk.Lake, b lk.Backing, m *lk.Model, rev string) []lk.Problem {
	var out []lk.Problem
	listing, err := l.Objects(ctx, m.Spec.Name, rev)
	if err != nil {
		return []lk.Problem{{Sig: "unreadable", Detail: fmt.Sprintf("object listing of %s: %v", rev, err)}}
	}
	for _, o := range listing {
		vals, err := lk.ReadObjectFile(m.Zctx, b, m.PoolID, o.ID)
		if err != nil {
			out = append(out, lk.Problem{Sig: "meta:object-file-unreadable", Detail: fmt.Sprintf("%s: %v", o.ID, err)})
			continue
		}
		if int(o.Count) != len(vals) {
			out = append(out, lk.Problem{Sig: "meta:count-wrong", Detail: fmt.Sprintf("object %s: metadata count %d, file holds %d values", o.ID, o.Count, len(vals))})
		}
		if d := checkKeyOrder(vals, m.Spec.Key, m.Spec.Order); d != "" {
			out = append(out, lk.Problem{Sig: "meta:object-not-sorted", Detail: fmt.Sprintf("object %s: %s", o.ID, d)})
		}
		if len(vals) > 0 {
			lo, hi := keyOf(vals[0], m.Spec.Key), keyOf(vals[0], m.Spec.Key)
			for _, v := range vals[1:] {
				k := keyOf(v, m.Spec.Key)
				if cmpKey(k, lo) < 0 {
					lo = k
				}
				if cmpKey(k, hi) > 0 {
					hi = k
				}
			}
			gotLo, gotHi := recKey(o.Min), recKey(o.Max)
			if cmpKey(gotLo, gotHi) > 0 {
				gotLo, gotHi = gotHi, gotLo
			}
			if cmpKey(gotLo, lo) != 0 || cmpKey(gotHi, hi) != 0 {
				out = append(out, lk.Problem{Sig: "meta:key-range-wrong", Detail: fmt.Sprintf("object %s: metadata range [%s, %s] but the file's keys span [%v, %v]", o.ID, fmtRec(o.Min), fmtRec(o.Max), lo, hi)})
			}
		}
		out = append(out, checkSeekIndex(b, m, o.ID, vals)...)
	}
	return out
}

// recKey classifies a key value given as a harness record (type string + bytes).
func recKey(r gen.Rec) keyClass {
	if r.Null {
		return keyClass{rank: 2}
	}
	var t zed.Type
	switch {
	case strings.HasPrefix(r.Type, "p"):
		var id int
		fmt.Sscanf(r.Type, "p%d", &id)
		t, _ = zed.LookupPrimitiveByID(id)
	}
	if t == nil {
		return keyClass{rank: 2}
	}
	return keyOf(zed.NewValue(t, []byte(r.Bytes)), "this")
}

func checkSeekIndex(b lk.Backing, m *lk.Model, id ksuid.KSUID, vals []zed.Value) []lk.Problem {
	var out []lk.Problem
	bad := func(sig, f string, a ...any) {
		out = append(out, lk.Problem{Sig: sig, Detail: fmt.Sprintf("object %s seek index: ", id) + fmt.Sprintf(f, a...)})
	}
	path := strings.TrimSuffix(lk.DataPath(m.PoolID, id), ".zng") + "-seek.zng"
	raw, ok := b.Get(path)
	if !ok {
		bad("meta:seek-index-missing", "no file %s", path)
		return out
	}
	entries, err := lk.ReadZNG(m.Zctx, raw)
	if err != nil {
		bad("meta:seek-index-unreadable", "%v", err)
		return out
	}
	data, _ := b.Get(lk.DataPath(m.PoolID, id))
	var off, valoff uint64
	for i := range entries {
		e := &entries[i]
		get := func(f string) uint64 {
			if v := e.Deref(f); v != nil {
				return v.Uint()
			}
			return math.MaxUint64
		}
		eoff, elen, evo, evc := get("offset"), get("length"), get("val_off"), get("val_cnt")
		if eoff != off || evo != valoff {
			bad("meta:seek-index-gap", "entry %d starts at offset %d / value %d, expected %d / %d", i, eoff, evo, off, valoff)
			return out
		}
		if eoff+elen > uint64(len(data)) || evo+evc > uint64(len(vals)) {
			bad("meta:seek-index-out-of-range", "entry %d covers bytes [%d,%d) values [%d,%d) but the file has %d bytes, %d values", i, eoff, eoff+elen, evo, evo+evc, len(data), len(vals))
			return out
		}
		sect, err := lk.ReadZNG(m.Zctx, data[eoff:eoff+elen])
		if err != nil {
			bad("meta:seek-section-unreadable", "entry %d: %v", i, err)
			return out
		}
		if d := diffRecs(gen.RecsOf(vals[evo:evo+evc]), gen.RecsOf(sect)); d != "" {
			bad("meta:seek-section-wrong-values", "entry %d: section does not decode to values [%d,%d): %s", i, evo, evo+evc, d)
		}
		// range must bound the keys of its values
		if mn, mx := e.Deref("min"), e.Deref("max"); mn != nil && mx != nil {
			lo, hi := keyOf(*mn, "this"), keyOf(*mx, "this")
			if cmpKey(lo, hi) > 0 {
				lo, hi = hi, lo
			}
			for _, v := range sect {
				k := keyOf(v, m.Spec.Key)
				if cmpKey(k, lo) < 0 || cmpKey(k, hi) > 0 {
					bad("meta:seek-range-does-not-bound", "entry %d range [%s,%s] does not contain key of %s", i, fmtVal(*mn), fmtVal(*mx), fmtVal(v))
					break
				}
			}
		}
		off += elen
		valoff += evc
	}
	if off != uint64(len(data)) || valoff != uint64(len(vals)) {
		bad("meta:seek-index-incomplete", "entries cover %d bytes / %d values of %d / %d", off, valoff, len(data), len(vals))
	}
	return out
}

// Command mon is the monitor: one sub-command per property.  It is built by
// the driver from /repo's current working tree with -race -tags verif and run
// as child processes.
package main

import (
	"flag"
	"fmt"
	"os"
	"runtime/pprof"
	"sort"

	"verif/internal/rt"
)

var monitors = map[string]func(*rt.Ctx){}

func register(id string, fn func(*rt.Ctx)) { monitors[id] = fn }

func main() {
	if len(os.Args) < 2 {
		var ids []string
		for id := range monitors {
			ids = append(ids, id)
		}
		sort.Strings(ids)
		fmt.Fprintln(os.Stderr, "usage: mon <ID> [flags]; monitors:", ids)
		os.Exit(2)
	}
	id := os.Args[1]
	fs := flag.NewFlagSet("mon", flag.ExitOnError)
	tier := fs.String("tier", "quick", "")
	seed := fs.Uint64("seed", 1, "")
	batch := fs.Int("batch", 0, "")
	nb := fs.Int("nbatches", 1, "")
	out := fs.String("out", "", "")
	rk := fs.String("replay-kind", "", "")
	ri := fs.Int("replay-index", 0, "")
	verbose := fs.Bool("v", false, "")
	cpuprof := fs.String("cpuprofile", "", "")
	onlyKinds := fs.String("only-kinds", "", "")
	skipKinds := fs.String("skip-kinds", "", "")
	fs.Parse(os.Args[2:])
	fn, ok := monitors[id]
	if !ok {
		fmt.Fprintf(os.Stderr, "no monitor for %s\n", id)
		os.Exit(2)
	}
	c, err := rt.NewCtx(id, *tier, *seed, *batch, *nb, *out)
	if err != nil {
		fmt.Fprintln(os.Stderr, err)
		os.Exit(2)
	}
	c.Verbose = *verbose
	c.OnlyKinds, c.SkipKinds = *onlyKinds, *skipKinds
	if *rk != "" {
		c.Replaying = true
		c.ReplayKind = *rk
		c.ReplayIndex = *ri
	}
	if *cpuprof != "" {
		f, _ := os.Create(*cpuprof)
		pprof.StartCPUProfile(f)
		defer pprof.StopCPUProfile()
	}
	fn(c)
	if err := c.Finish(); err != nil {
		fmt.Fprintln(os.Stderr, err)
		os.Exit(2)
	}
	if c.Verbose {
		fmt.Printf("violations=%d\n", c.ViolationCount())
	}
}

#!/bin/bash
# Runs only some case kinds of one monitor, in N parallel batches, and prints the
# merged counters and violation signatures (no known-finding matching: compare by eye
# with known_findings.json).  For sizing and silence checks of single kinds.
# usage: tools/kindrun.sh <PROP> <tier> <kinds> <nprocs> [seed]
export GOFLAGS=-mod=mod GOPROXY=off GOSUMDB=off GOTOOLCHAIN=local
p=$1; tier=$2; kinds=$3; n=${4:-8}; seed=${5:-1}
d=$(pwd)/.cache/kindrun-$p-$$; mkdir -p $d/tmp
go build -tags verif -gcflags=all=-d=checkptr -o $d/mon ./mon || exit 2
if [ ! -x /verif/.cache/super-C14 ]; then go build -o /verif/.cache/super-C14 github.com/brimdata/super/cmd/super; fi
export TMPDIR=$d/tmp VERIF_SUPER_BIN=/verif/.cache/super-C14
for b in $(seq 0 $((n-1))); do
  mkdir -p $d/out$b; ( $d/mon $p -tier $tier -seed $seed -batch $b -nbatches $n -out $d/out$b -only-kinds $kinds > $d/out$b/log 2>&1 ) &
done
wait
python3 - $d <<'P'
import json,glob,sys,collections
cnt=collections.Counter(); sig=collections.Counter(); ev=0; ex={}
for f in glob.glob(sys.argv[1]+'/out*/result*.json'):
    r=json.load(open(f)); ev+=r['evaluations']
    for k,v in (r.get('counters') or {}).items(): cnt[k]+=v
    for v in r.get('violations') or []:
        sig[v['signature']]+=1; ex.setdefault(v['signature'], (v['kind'],v['index'],v['detail'][:500]))
print('evaluations',ev); print(dict(cnt))
for s,n in sig.most_common(): print(n,s, ex[s][:2])
P
rm -rf $d

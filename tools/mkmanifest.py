#!/usr/bin/env python3
"""Regenerates MANIFEST.json from the table below (kept in one place so the
manifest stays valid while monitors are added)."""
import json, os, subprocess
ENV = "GOFLAGS=-mod=mod GOPROXY=off GOSUMDB=off GOTOOLCHAIN=local"
checks = {
 "C01": dict(level="exploration", design="DESIGN.md §3 C01",
   technique="runtime monitor: differential round-trip oracle over generated streams × reader configurations, Go race detector, poison-on-release hook, injected worker delays",
   text="Held on every generated (stream set × reader configuration) execution of the real ZNG writer/reader built with -race: output sequence equals input sequence position by position on harness-computed type strings and value bytes; the race detector and poison-on-release make stale-buffer use and unsynchronized worker state observable. Exploration is the right level because the quantifier (inputs × configurations × worker schedules) is unbounded.",
   note="trusts the harness generator/printer (internal/gen) and the Go race detector; worker interleavings are those the scheduler plus injected delays produced (counted in evidence), not all of them"),
 "C14": dict(level="exploration", design="DESIGN.md §3 C14",
   technique="runtime monitor: model-based history checker (object-level reference model, independent reads of stored objects and seek indexes) over exhaustive short and random long lake histories on an instrumented in-memory storage engine",
   text="Held on every explored history step: branch query multiset, metadata listing, per-object count/key range/sortedness, seek-index tiling and pool-key order of the scan agree with a reference model that learns object contents straight from storage; checked from the acting handle and a cold one, with object-store and file semantics. Exploration is the right level: histories × inputs × configurations are unbounded; short histories over a 9-op alphabet are enumerated exhaustively.",
   note="trusts the harness model (internal/lk/model.go), its own key order for the generated key domain (numbers < strings < null/missing) and the ZNG reader used to read stored objects (C01); built without -race (single client; see DESIGN.md §2.2)"),
 "C17": dict(level="fault_enumeration", design="DESIGN.md §3 C17",
   technique="runtime fault injection: fail-stop crash enumerated at every storage operation (and every write prefix / half-applied write on file semantics) of the victim operation, on an instrumented storage engine; recovery oracle = cold reopen, before-or-after state, fixed follow-up workload",
   text="For every explored (history, victim operation, back end) the crash point is enumerated over the victim's whole storage trace; after each crash a cold handle must open the lake, read every pool and branch, observe exactly the before- or after-state (as observed on uncrashed clones) and complete a fixed follow-up workload; double crashes are sampled. Fault enumeration is the right level because the quantifier is 'every storage operation of every mutation'.",
   note="fail-stop model (the crashing operation and all later ones have no effect, optionally a half-applied write); durable, ordered storage; the file back end is a model of pkg/storage/file.go (truncate-then-write Put, create-then-fill PutIfNotExists); built without -race"),
 "C08": dict(level="exploration", design="DESIGN.md §3 C08",
   technique="runtime monitor: differential oracle (parallelism 1 vs 2,3,8,16 × GOMAXPROCS 1,2,16) over generated pools and programs with order-aware comparison modes, Go race detector, scan-leg hook counters",
   text="Held on every generated (pool, program, parallelism, GOMAXPROCS) execution: the result at parallelism p equals the result at 1 in the program's comparison mode (exact sequence where the language defines a total order, pool-key order + multiset for ordered scans, multiset with normalised collect/union otherwise); the race detector watches the scan legs. Exploration is right because programs × pools × schedules are unbounded.",
   note="trusts the harness's mode assignment (head/tail only at tie-free boundaries); schedules are those the Go scheduler produced under the listed GOMAXPROCS values"),
 "C09": dict(level="exploration", design="DESIGN.md §3 C09",
   technique="runtime monitor: differential oracle vector runtime vs sequential runtime (lake queries before/after vector add/delete; VectorCompile vs CompileQuery on the VNG encoding of the same values), disagreements classified by operator family and kind",
   text="Compares the vector runtime with the sequential runtime on generated data and programs. On the pinned tree the vector runtime disagrees broadly (see known_findings.json: C09-*); the check holds those as known findings keyed by (operator family, kind of disagreement) and alarms on any family/kind not listed, on a difference after vector delete, or on a hang.",
   note="union/enum columns excluded (C03 findings crash the vector cache); programs the vector compiler rejects are outside the claim; built without -race"),
 "C12": dict(level="exploration", design="DESIGN.md §3 C12",
   technique="runtime monitor: operation-level deterministic scheduler over an instrumented storage engine (exhaustive single-preemption pair schedules + random segment schedules), recorded call/return history checked against the branch's commit chain and a value-level replay, porcupine linearizability check of the pool-name table, mid-schedule cold-handle probes, race detector on a shared-handle stress part",
   text="For every executed schedule: every acknowledged commit is exactly once in main's chain, no commit of an unacknowledged operation is in it, chain order respects real-time order, the final contents equal the replay of the acknowledged operations in chain order, other branches are untouched, every branch is readable from a cold handle at every schedule switch and at the end, and the pool create/rename/drop history is linearizable (porcupine). Exploration with enumerated single-preemption schedules is the right level: the quantifier is over interleavings of storage operations.",
   note="interleavings at storage-operation granularity (not instruction granularity); clients are separate lake handles; starvation of the journal's bounded retry loop counts as a reported failure; scheduled parts run without -race, the shared-handle stress part with it"),
 "C13": dict(level="exploration", design="DESIGN.md §3 C13",
   technique="runtime monitor: model-based re-query of every commit after every later history step; reader/writer schedules under the operation-level scheduler with a chain-position window oracle; race detector on a shared-handle stress part",
   text="(a) every commit created in a history reads the same at every later step (until vacuumed); (b) under every explored reader/writer schedule the reader returns exactly the contents of one commit of main's chain, not older than the last commit acknowledged before it started and not newer than the last started before it returned; (c) free-running readers and writers on one handle under the race detector.",
   note="storage-operation granularity; the reader's caches are warmed by a prior query on its handle"),
 "C15": dict(level="exploration", design="DESIGN.md §3 C15",
   technique="runtime monitor: object-level reference model of merge/revert over exhaustive two-branch histories and random multi-branch histories, every branch re-read from a cold handle after every operation",
   text="After every operation of every explored history every branch is readable and equals the model (merge = parent ∪ child-adds-since-ancestor ∖ child-deletes-since-ancestor; revert = remove the commit's adds still present, restore its deletes still absent; a failed merge/revert changes nothing). Exhaustive over pairs of ≤L-operation sequences on child and parent; random beyond.",
   note="trusts the model in internal/lk/model.go; built without -race"),
 "C16": dict(level="exploration", design="DESIGN.md §3 C16",
   technique="runtime monitor: differential oracle pruned lake query / delete-where vs in-memory filter over all pool values, exhaustive predicate enumeration over a pool with an object for every key range, hook/op-log counters of objects pruned and seek indexes read",
   text="For every enumerated predicate (all atoms, negations, conjunctions with non-key predicates, and pairs; thorough: all pairs) and for random pools/predicates, the lake query and delete -where return/remove exactly the values for which a plain in-memory `where` is true. Exhaustive over the stated predicate grammar in the thorough tier.",
   note="reference semantics = sequential runtime `where` over an in-memory reader; built without -race"),
 "C19": dict(level="exploration", design="DESIGN.md §3 C19",
   technique="runtime monitor: differential oracle direct access vs HTTP service (service.Core behind httptest) over generated histories, all load content types and response formats, raw HTTP for outputs and error channels",
   text="Each history is applied to a local lake and through the service; per step outcomes, model agreement on both sides, and per response format the served bytes equal the locally formatted bytes (zng and json compared as decoded values); compile errors and late errors must reach the client through HTTP status, in-band error or the status endpoint.",
   note="ids are not compared; values are int/string records; loads go through the format's own reader on both sides"),
}
not_built = {
}
for pending in ["C09"]:  # monitors that exist but are not yet through the silence gate
    checks.pop(pending, None)
hooks_commits = subprocess.run(["git","-C","/repo","log","--format=%H %s"],capture_output=True,text=True).stdout.splitlines()
hook_commits = [l.split()[0] for l in hooks_commits if " verif hooks" in l]
m = {
 "version": 1,
 "setup_cmd": f"export {ENV}; mkdir -p bin .cache && go build -o bin/check ./cmd/check && go build -race -tags verif -o .cache/mon-warm ./mon && rm -f .cache/mon-warm",
 "hooks": {
   "guard": "verif",
   "enable": "go build -race -tags verif (done by bin/check for every run, through `replace github.com/brimdata/super => /repo` in /verif/go.mod)",
   "baseline_off_cmd": "cd /repo && go test -mod=mod -json -vet=off -count=1 -timeout 25m ./...",
   "source_commits": hook_commits,
   "add_only": True,
 },
 "engines": [
   {"name":"check","path":"/verif/bin/check","serves_properties":sorted(checks),"kind_free_text":"driver: builds the monitor from /repo's working tree (-race -tags verif), runs it as child processes, merges observations, matches known findings, writes evidence"},
 ],
 "checks": [],
 "not_applicable": [],
 "notes": "Technique family: runtime monitoring and sanitizers. See DESIGN.md. Known findings: known_findings.json.",
}
for pid in sorted(checks):
    c = checks[pid]
    m["checks"].append({
      "property_id": pid,
      "quick_cmd": f"./bin/check {pid} --tier quick",
      "thorough_cmd": f"./bin/check {pid} --tier thorough",
      "evidence_file": f"/verif/evidence/{pid}.json",
      "replay_cmd_template": f"./bin/check {pid} --replay {{path}}",
      "engine": "check",
      "level_claimed": {"category": c["level"], "text": c["text"], "design_ref": c["design"]},
      "level_note": c["note"],
      "technique": c["technique"],
    })
allp = [json.loads(l)["id"] for l in open(os.path.join(os.path.dirname(__file__),"..","properties.jsonl"))]
for pid in allp:
    if pid not in checks:
        m["not_applicable"].append({"property_id": pid, "reason": not_built.get(pid, "monitor under construction in this round; not claimed until it passes the silence and sensitivity gates of DESIGN.md §2.9")})
json.dump(m, open(os.path.join(os.path.dirname(__file__),"..","MANIFEST.json"),"w"), indent=1)
print("claimed:", sorted(checks))

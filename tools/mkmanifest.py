#!/usr/bin/env python3
"""Regenerates MANIFEST.json from the table below (kept in one place so the
manifest stays valid while monitors are added)."""
import json, os, subprocess
ENV = "GOFLAGS=-mod=mod GOPROXY=off GOSUMDB=off GOTOOLCHAIN=local"
checks = {
 "C01": dict(level="exploration", design="DESIGN.md §3 C01",
   technique="runtime monitor: differential round-trip oracle over generated streams × reader configurations, Go race detector, poison-on-release hook, injected worker delays",
   text="Held on every generated (stream set × reader configuration) execution of the real ZNG writer/reader built with -race: output sequence equals input sequence position by position on harness-computed type strings and value bytes; the race detector and poison-on-release make stale-buffer use and unsynchronized worker state observable. Exploration is the right level because the quantifier (inputs × configurations × worker schedules) is unbounded.",
   note="trusts the harness generator/printer (internal/gen) and the Go race detector; worker interleavings are those the scheduler plus injected delays produced (counted in evidence), not all of them"),
 "C14": dict(level="exploration", design="DESIGN.md §3 C14",
   technique="runtime monitor: model-based history checker (object-level reference model, independent reads of stored objects and seek indexes) over exhaustive short and random long lake histories on an instrumented in-memory storage engine, plus histories on a real directory (the repository's own file engine) with `super db manage` steps run through the `super` binary built from the same tree",
   text="Held on every explored history step: branch query multiset, metadata listing, per-object count/key range/sortedness, seek-index tiling and pool-key order of the scan agree with a reference model that learns object contents straight from storage; checked from the acting handle and a cold one, with object-store and file semantics; `super db manage` passes (compaction planner of cmd/super/internal/lakemanage, reachable only through the binary) must leave the values, order and metadata intact. Exploration is the right level: histories × inputs × configurations are unbounded; short histories over a 9-op alphabet are enumerated exhaustively.",
   note="trusts the harness model (internal/lk/model.go), its own key order for the generated key domain (numbers < strings < null/missing) and the ZNG reader used to read stored objects (C01); built without -race (single client; see DESIGN.md §2.2)"),
 "C17": dict(level="fault_enumeration", design="DESIGN.md §3 C17",
   technique="runtime fault injection: fail-stop crash enumerated at every storage operation (and every write prefix / half-applied write on file semantics) of the victim operation, on an instrumented storage engine (two in-memory back ends and the repository's real file engine on a scratch directory); recovery oracle = cold reopen, before-or-after state (row contents per branch plus the vector objects the branch lists, each decoded and compared with its data object), fixed follow-up workload",
   text="For every explored (history, victim operation, back end) the crash point is enumerated over the victim's whole storage trace; after each crash a cold handle must open the lake, read every pool and branch, observe exactly the before- or after-state (as observed on uncrashed clones) and complete a fixed follow-up workload; double crashes are sampled. Fault enumeration is the right level because the quantifier is 'every storage operation of every mutation'.",
   note="fail-stop model (the crashing operation and all later ones have no effect, optionally a half-applied write); durable, ordered storage; the in-memory file back end is a model of pkg/storage/file.go (truncate-then-write Put, create-then-fill PutIfNotExists); the realfs kinds run the same enumeration on a scratch directory through pkg/storage/file.go itself (its PutIfNotExists and DeleteByPrefix are single operations there); built without -race"),
 "C08": dict(level="exploration", design="DESIGN.md §3 C08",
   technique="runtime monitor: differential oracle (parallelism 1 vs 2,3,8,16 × GOMAXPROCS 1,2,16) over generated pools and programs with order-aware comparison modes, Go race detector, scan-leg hook counters",
   text="Held on every generated (pool, program, parallelism, GOMAXPROCS) execution: the result at parallelism p equals the result at 1 in the program's comparison mode (exact sequence where the language defines a total order, pool-key order + multiset for ordered scans, multiset with normalised collect/union otherwise); the race detector watches the scan legs. Exploration is right because programs × pools × schedules are unbounded.",
   note="trusts the harness's mode assignment (head/tail only at tie-free boundaries); schedules are those the Go scheduler produced under the listed GOMAXPROCS values"),
 "C09": dict(level="exploration", design="DESIGN.md §3 C09",
   technique="runtime monitor: differential oracle vector runtime vs sequential runtime (lake queries before/after vector add/delete; VectorCompile vs CompileQuery on the VNG encoding of the same values), disagreements classified by operator family and kind",
   text="Compares the vector runtime with the sequential runtime on generated data and programs. On the pinned tree the vector runtime disagrees broadly (see known_findings.json: C09-*); the check holds those as known findings keyed by (operator family, kind of disagreement) and alarms on any family/kind not listed, on a difference after vector delete, or on a hang.",
   note="union/enum columns excluded (C03 findings crash the vector cache); programs the vector compiler rejects are outside the claim; built without -race"),
 "C12": dict(level="exploration", design="DESIGN.md §3 C12",
   technique="runtime monitor: operation-level deterministic scheduler over an instrumented storage engine (exhaustive single-preemption pair schedules + random segment schedules), recorded call/return history checked against the branch's commit chain and a value-level replay, porcupine linearizability check of the pool-name table, mid-schedule cold-handle probes, race detector on a shared-handle stress part; a sample of the pair schedules runs on a real directory through pkg/storage/file.go (one FileSystem per client)",
   text="For every executed schedule: every acknowledged commit is exactly once in main's chain, no commit of an unacknowledged operation is in it, chain order respects real-time order, the final contents equal the replay of the acknowledged operations in chain order, other branches are untouched, every branch is readable from a cold handle at every schedule switch and at the end, and the pool create/rename/drop history is linearizable (porcupine). Exploration with enumerated single-preemption schedules is the right level: the quantifier is over interleavings of storage operations.",
   note="interleavings at storage-operation granularity (not instruction granularity); clients are separate lake handles; starvation of the journal's bounded retry loop counts as a reported failure; scheduled parts run without -race, the shared-handle stress part with it"),
 "C13": dict(level="exploration", design="DESIGN.md §3 C13",
   technique="runtime monitor: model-based re-query of every commit after every later history step; reader/writer schedules under the operation-level scheduler with a chain-position window oracle; race detector on a shared-handle stress part",
   text="(a) every commit created in a history reads the same at every later step (until vacuumed); (b) under every explored reader/writer schedule the reader returns exactly the contents of one commit of main's chain, not older than the last commit acknowledged before it started (each pair also runs strictly one-after-the-other, so that 'acknowledged before' is established) and not newer than the last started before it returned; (c) free-running readers and writers on one handle under the race detector.",
   note="storage-operation granularity; the reader's caches are warmed by a prior query on its handle"),
 "C15": dict(level="exploration", design="DESIGN.md §3 C15",
   technique="runtime monitor: object-level reference model of merge/revert over exhaustive two-branch histories and random multi-branch histories, every branch re-read from a cold handle after every operation",
   text="After every operation of every explored history every branch is readable and equals the model (merge = parent ∪ child-adds-since-ancestor ∖ child-deletes-since-ancestor; revert = remove the commit's adds still present, restore its deletes still absent; a failed merge/revert changes nothing). Exhaustive over pairs of ≤L-operation sequences on child and parent; random beyond.",
   note="trusts the model in internal/lk/model.go; built without -race"),
 "C16": dict(level="exploration", design="DESIGN.md §3 C16",
   technique="runtime monitor: differential oracle pruned lake query / delete-where vs in-memory filter over all pool values, exhaustive predicate enumeration over a pool with an object for every key range, hook/op-log counters of objects pruned and seek indexes read",
   text="For every enumerated predicate (all atoms, negations, conjunctions with non-key predicates, and pairs; thorough: all pairs) and for random pools/predicates, the lake query and delete -where return/remove exactly the values for which a plain in-memory `where` is true. Exhaustive over the stated predicate grammar in the thorough tier.",
   note="reference semantics = sequential runtime `where` over an in-memory reader; built without -race"),
 "C19": dict(level="exploration", design="DESIGN.md §3 C19",
   technique="runtime monitor: differential oracle direct access vs HTTP service (service.Core behind httptest) over generated histories, all load content types and response formats, raw HTTP for outputs and error channels",
   text="Each history is applied to a local lake and through the service; per step outcomes, model agreement on both sides, and per response format the served bytes equal the locally formatted bytes (zng and json compared as decoded values); compile errors and late errors must reach the client through HTTP status, in-band error or the status endpoint.",
   note="ids are not compared; values are int/string records; loads go through the format's own reader on both sides"),
 "C02": dict(level="exploration", design="DESIGN.md §3 C02",
   technique="runtime monitor: round-trip oracle parse(format(v)) == v over generated values × formatter settings (exhaustive over pairs of type constructors for the decorator rules) and differential oracle ZSON reader vs JSON reader over grammar-generated RFC 8259 documents",
   text="Held on every generated value/sequence and formatter setting: the parsed value has the identical harness type string and bytes (any NaN = any NaN); every generated JSON document is accepted by the ZSON reader with the value the JSON reader produces. Known defects are excused only by the normalise-and-recompare technique, each with a directed reproducer.",
   note="strings are generated in NFC (text readers normalise by design); numeric type names excluded (spec); a union holding (tag,null) is generated as the union's null"),
 "C03": dict(level="exploration", design="DESIGN.md §3 C03",
   technique="runtime monitor: round-trip oracle VNG writer → row reader and → vector cache + materializer, projection oracle against the full read, column-statistics-directed generator, sub-process crash probes, race detector on concurrent Fetch probes",
   text="Held on every generated file: row reader and vector path return the input sequence; every projection agrees with the full read on the requested paths; encodings' thresholds (const/dict at 256/plain, null runs, dynamic tags, unions) are forced by the generator and counted from the file's own metadata.",
   note="vector path skipped (and counted) for files whose metadata matches an open vector-cache crash finding; extra data in a projection is allowed"),
 "C04": dict(level="exploration", design="DESIGN.md §3 C04",
   technique="runtime monitor: differential oracle in-memory reference vs {zson, zjson, vng, zng × writer/reader configurations} per generated (program, input), buffer-filter skip/pass hook counters, poison-on-release, race detector",
   text="For every generated (program, input) the output over each physical encoding equals the output over the in-memory values in the program's comparison mode; the search token is planted in field names and values at every depth and across many small frames, and the monitor counts frames skipped and kept by the pushed-down filter.",
   note="an encoding is compared only if reading it back without a query reproduces the input (C01–C03's business); trusts internal/prog's order-state"),
 "C05": dict(level="exploration", design="DESIGN.md §3 C05",
   technique="runtime monitor: structural-identity oracle over permuted and random type-creation histories through every entry API, type-value stability checks, concurrent histories under the race detector, directed yield at the name-definition hook",
   text="Within a context two returned types are the same object iff their harness structural strings are equal, over all permutations of short histories and long random ones; type values equal an independent encoder's output and never change; translate/decode round trips; the same under 8 concurrent goroutines with the race detector alarming.",
   note="truncated / trailing-garbage encodings are C11's business; concurrent cases use canonical encodings only"),
 "C06": dict(level="exploration", design="DESIGN.md §3 C06",
   technique="runtime monitor: exhaustive antisymmetry/transitivity check on the comparison matrix of a curated universe (all triples), agreement of the four comparison paths, sort operator permutation/order/stability/spill-independence oracle with spill-run hook counts, k-way merge oracle with fast/slow path hook counts",
   text="Exhaustive over all triples of the universe for 8 comparator configurations; sort output is a stable non-decreasing permutation identical for every memory limit (0..k spill runs forced and counted); merge output is sorted and multiset-equal to its inputs under adversarial batch boundaries.",
   note="universe is curated, not all values; keyless sort on records not demanded"),
 "C07": dict(level="exploration", design="DESIGN.md §3 C07",
   technique="runtime monitor: differential oracle as-analyzed plan vs optimized plan over grammar-generated programs with an order-state (file/stream inputs with declared sort keys, and pool scans on an in-memory lake: raw PoolScan vs lister/pruner/slicer/scanner with the pushed filter) and over the repo's ztest/valid.zed corpus; DAG diff classifies which rewrites fired",
   text="For every generated and corpus program the optimized plan's output equals the as-analyzed plan's output in the program's comparison mode, with equal error-ness and termination; non-trivial cases are those whose optimized DAG differs.",
   note="trusts internal/prog's order-state for the comparison mode; lake inputs are single-pool scans of pools keyed on one field (asc/desc) with overlapping objects; a hang is judged by goroutine state, not by time"),
 "C10": dict(level="exploration", design="DESIGN.md §3 C10",
   technique="runtime monitor: reference-model oracle (harness groups rows by key (type,bytes); per-group aggregates from the ungrouped, unspilled, direct aggregate; nested-loop join) across permutations, spill limits (spill-run hook counts), declared sort directions and partials DAGs",
   text="Group-by emits exactly one row per distinct key with the aggregate over exactly that group's rows, and join emits the nested-loop pair set, independently of input order, spilling, declared sortedness and partial composition.",
   note="aggregate arithmetic itself is cross-checked only for count/sum/min/max on integers; rows with a missing join key are outside the claim"),
 "C11": dict(level="exploration", design="DESIGN.md §3 C11",
   technique="runtime monitor: structured mutation of valid encodings and query texts, grammar-generated programs with typed constants in every argument slot and an exhaustive (argument slot × typed constant) sweep, fed to every reader and to the compiler in a helper process; oracles: no panic/fatal, watchdog-confirmed termination, allocation bound, goroutine leak check, independent structural walk of validated values",
   text="Every mutant either decodes or errors: no panic escapes the reader's own calls, no fatal error, the call returns (a hang is confirmed by a solo re-run), allocations stay within the stated bound, no reader goroutine is left, and with Validate on every value passes an independent structural walk.",
   note="recover scope is the reader call only (consumer-side panics are outside the claim); leaf widths are not demanded of Validate"),
 "C18": dict(level="fault_enumeration", design="DESIGN.md §3 C18",
   technique="runtime fault injection: failing sink enumerated over every k-th Write call × {one-shot, sticky, short} × {Close ok/fails} for every writer reachable through the output layer and the lake data-object writers; no-fault direction checked by read-back",
   text="For every (format, options, route, input) the fault position is enumerated over all sink Write calls of the unfaulted run; a faulted run must return an error from some Write or Close; an unfaulted run must deliver bytes that read back to the input.",
   note="a sink returning a short count with nil error breaks io.Writer and is not injected; parquet/arrows are not in the property's list"),
 "C20": dict(level="exploration", design="DESIGN.md §3 C20",
   technique="runtime monitor: leaf-multiset oracle over fuse's output (path, primitive type, bytes), uniform-type and fuse()-aggregate agreement, spill vs memory equality with spill hook counts; exhaustive over pairs and (thorough) triples of a 24-type alphabet",
   text="|out| = |in|, one output type equal to what fuse(this) reports, every non-null leaf of in[i] present in out[i] at the same path with the same type and bytes, identical output with and without spilling.",
   note="top-level error values not generated (pass through every operator by design); named types and union tags transparent"),
}
not_built = {
}
for pending in []:  # monitors that exist but are not yet through the silence gate
    checks.pop(pending, None)
hooks_commits = subprocess.run(["git","-C","/repo","log","--format=%H %s"],capture_output=True,text=True).stdout.splitlines()
hook_commits = [l.split()[0] for l in hooks_commits if " verif hooks" in l]
m = {
 "version": 1,
 "setup_cmd": f"export {ENV}; mkdir -p bin .cache && go build -o bin/check ./cmd/check && go build -race -tags verif -o .cache/mon-warm ./mon && rm -f .cache/mon-warm && go build -o .cache/super-C14 github.com/brimdata/super/cmd/super",
 "hooks": {
   "guard": "verif",
   "enable": "go build -race -tags verif (done by bin/check for every run, through `replace github.com/brimdata/super => /repo` in /verif/go.mod)",
   "baseline_off_cmd": "cd /repo && go test -mod=mod -json -vet=off -count=1 -timeout 25m ./...",
   "source_commits": hook_commits,
   "add_only": True,
 },
 "engines": [
   {"name":"check","path":"/verif/bin/check","serves_properties":sorted(checks),"kind_free_text":"driver: builds the monitor from /repo's working tree (-race -tags verif), runs it as child processes, merges observations, matches known findings, writes evidence"},
 ],
 "checks": [],
 "not_applicable": [],
 "notes": "Technique family: runtime monitoring and sanitizers. See DESIGN.md. Known findings: known_findings.json.",
}
for pid in sorted(checks):
    c = checks[pid]
    m["checks"].append({
      "property_id": pid,
      "quick_cmd": f"./bin/check {pid} --tier quick",
      "thorough_cmd": f"./bin/check {pid} --tier thorough",
      "evidence_file": f"/verif/evidence/{pid}.json",
      "replay_cmd_template": f"./bin/check {pid} --replay {{path}}",
      "engine": "check",
      "level_claimed": {"category": c["level"], "text": c["text"], "design_ref": c["design"]},
      "level_note": c["note"],
      "technique": c["technique"],
    })
allp = [json.loads(l)["id"] for l in open(os.path.join(os.path.dirname(__file__),"..","properties.jsonl"))]
for pid in allp:
    if pid not in checks:
        m["not_applicable"].append({"property_id": pid, "reason": not_built.get(pid, "monitor under construction in this round; not claimed until it passes the silence and sensitivity gates of DESIGN.md §2.9")})
json.dump(m, open(os.path.join(os.path.dirname(__file__),"..","MANIFEST.json"),"w"), indent=1)
print("claimed:", sorted(checks))

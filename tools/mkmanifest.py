#!/usr/bin/env python3
"""Regenerates MANIFEST.json from the table below (kept in one place so the
manifest stays valid while monitors are added)."""
import json, os, subprocess
ENV = "GOFLAGS=-mod=mod GOPROXY=off GOSUMDB=off GOTOOLCHAIN=local"
checks = {
 "C01": dict(level="exploration", design="DESIGN.md §3 C01",
   technique="runtime monitor: differential round-trip oracle over generated streams × reader configurations, Go race detector, poison-on-release hook, injected worker delays",
   text="Held on every generated (stream set × reader configuration) execution of the real ZNG writer/reader built with -race: output sequence equals input sequence position by position on harness-computed type strings and value bytes; the race detector and poison-on-release make stale-buffer use and unsynchronized worker state observable. Exploration is the right level because the quantifier (inputs × configurations × worker schedules) is unbounded.",
   note="trusts the harness generator/printer (internal/gen) and the Go race detector; worker interleavings are those the scheduler plus injected delays produced (counted in evidence), not all of them"),
 "C14": dict(level="exploration", design="DESIGN.md §3 C14",
   technique="runtime monitor: model-based history checker (object-level reference model, independent reads of stored objects and seek indexes) over exhaustive short and random long lake histories on an instrumented in-memory storage engine",
   text="Held on every explored history step: branch query multiset, metadata listing, per-object count/key range/sortedness, seek-index tiling and pool-key order of the scan agree with a reference model that learns object contents straight from storage; checked from the acting handle and a cold one, with object-store and file semantics. Exploration is the right level: histories × inputs × configurations are unbounded; short histories over a 9-op alphabet are enumerated exhaustively.",
   note="trusts the harness model (internal/lk/model.go), its own key order for the generated key domain (numbers < strings < null/missing) and the ZNG reader used to read stored objects (C01); built without -race (single client; see DESIGN.md §2.2)"),
 "C17": dict(level="fault_enumeration", design="DESIGN.md §3 C17",
   technique="runtime fault injection: fail-stop crash enumerated at every storage operation (and every write prefix / half-applied write on file semantics) of the victim operation, on an instrumented storage engine; recovery oracle = cold reopen, before-or-after state, fixed follow-up workload",
   text="For every explored (history, victim operation, back end) the crash point is enumerated over the victim's whole storage trace; after each crash a cold handle must open the lake, read every pool and branch, observe exactly the before- or after-state (as observed on uncrashed clones) and complete a fixed follow-up workload; double crashes are sampled. Fault enumeration is the right level because the quantifier is 'every storage operation of every mutation'.",
   note="fail-stop model (the crashing operation and all later ones have no effect, optionally a half-applied write); durable, ordered storage; the file back end is a model of pkg/storage/file.go (truncate-then-write Put, create-then-fill PutIfNotExists); built without -race"),
}
not_built = {
}
hooks_commits = subprocess.run(["git","-C","/repo","log","--format=%H %s"],capture_output=True,text=True).stdout.splitlines()
hook_commits = [l.split()[0] for l in hooks_commits if " verif hooks" in l]
m = {
 "version": 1,
 "setup_cmd": f"export {ENV}; mkdir -p bin .cache && go build -o bin/check ./cmd/check && go build -race -tags verif -o .cache/mon-warm ./mon && rm -f .cache/mon-warm",
 "hooks": {
   "guard": "verif",
   "enable": "go build -race -tags verif (done by bin/check for every run, through `replace github.com/brimdata/super => /repo` in /verif/go.mod)",
   "baseline_off_cmd": "cd /repo && go test -mod=mod -json -vet=off -count=1 -timeout 25m ./...",
   "source_commits": hook_commits,
   "add_only": True,
 },
 "engines": [
   {"name":"check","path":"/verif/bin/check","serves_properties":sorted(checks),"kind_free_text":"driver: builds the monitor from /repo's working tree (-race -tags verif), runs it as child processes, merges observations, matches known findings, writes evidence"},
 ],
 "checks": [],
 "not_applicable": [],
 "notes": "Technique family: runtime monitoring and sanitizers. See DESIGN.md. Known findings: known_findings.json.",
}
for pid in sorted(checks):
    c = checks[pid]
    m["checks"].append({
      "property_id": pid,
      "quick_cmd": f"./bin/check {pid} --tier quick",
      "thorough_cmd": f"./bin/check {pid} --tier thorough",
      "evidence_file": f"/verif/evidence/{pid}.json",
      "replay_cmd_template": f"./bin/check {pid} --replay {{path}}",
      "engine": "check",
      "level_claimed": {"category": c["level"], "text": c["text"], "design_ref": c["design"]},
      "level_note": c["note"],
      "technique": c["technique"],
    })
allp = [json.loads(l)["id"] for l in open(os.path.join(os.path.dirname(__file__),"..","properties.jsonl"))]
for pid in allp:
    if pid not in checks:
        m["not_applicable"].append({"property_id": pid, "reason": not_built.get(pid, "monitor under construction in this round; not claimed until it passes the silence and sensitivity gates of DESIGN.md §2.9")})
json.dump(m, open(os.path.join(os.path.dirname(__file__),"..","MANIFEST.json"),"w"), indent=1)
print("claimed:", sorted(checks))

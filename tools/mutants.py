#!/usr/bin/env python3
"""Mutation self-test (DESIGN.md §2.9): builds the monitor against /repo with one
source file replaced through `go build -overlay` (nothing in /repo is touched)
and checks that the property's quick check reports a VIOLATION.

usage: tools/mutants.py [name-substring ...]     (results appended to .cache/mutants.log)
"""
import json, os, subprocess, sys, time

V = "/verif"
MUT = V + "/.cache/mut"
os.makedirs(MUT, exist_ok=True)

# (name, property, repo file, old text, new text)
MUTANTS = [
 ("C12-no-parent-check", "C12", "lake/branch.go",
  "\t\t\t\treturn entry.Commit == parent\n", "\t\t\t\treturn entry.Commit == parent || true\n"),
 ("C12-journal-exist-is-success", "C12", "lake/journal/store.go",
  "\t\t\tif os.IsExist(err) {\n\t\t\t\ttime.Sleep(time.Millisecond)\n\t\t\t\tcontinue\n\t\t\t}\n",
  "\t\t\tif os.IsExist(err) {\n\t\t\t\treturn nil\n\t\t\t}\n"),
 ("C13-snapshot-cache-by-parent", "C13", "lake/commits/store.go",
  "\ts.snapshots.Add(leaf, snap)\n\treturn snap, nil\n}\n\nfunc (s *Store) getSnapshot",
  "\tif base != nil {\n\t\ts.snapshots.Add(leaf, base)\n\t} else {\n\t\ts.snapshots.Add(leaf, snap)\n\t}\n\treturn snap, nil\n}\n\nfunc (s *Store) getSnapshot"),
 ("C14-object-max-not-updated", "C14", "lake/data/writer.go",
  "\tw.object.Max.CopyFrom(key)\n\treturn w.writeIndex(key)\n", "\tif w.first {\n\t\tw.object.Max.CopyFrom(key)\n\t}\n\treturn w.writeIndex(key)\n"),
 ("C14-delete-where-keeps-nothing", "C14", "lake/branch.go",
  "\t\tfor _, o := range w.Objects() {\n\t\t\tobj := o\n\t\t\tpatch.AddDataObject(&obj)\n\t\t}\n\t\tif message == \"\" {\n\t\t\tvar deletedObjs",
  "\t\tfor i, o := range w.Objects() {\n\t\t\tif i > 0 {\n\t\t\t\tbreak\n\t\t\t}\n\t\t\tobj := o\n\t\t\tpatch.AddDataObject(&obj)\n\t\t}\n\t\tif message == \"\" {\n\t\t\tvar deletedObjs"),
 ("C15-revert-ignores-tip", "C15", "lake/commits/patch.go",
  "\t\tif Exists(tip, dataObject.ID) {\n\t\t\tobject.appendDelete(dataObject.ID)\n\t\t}\n",
  "\t\tobject.appendDelete(dataObject.ID)\n"),
 ("C15-merge-drops-child-deletes", "C15", "lake/commits/patch.go",
  "\t\t\tif err := p.DeleteObject(id); err != nil {\n\t\t\t\treturn nil, err\n\t\t\t}\n\t\t\tdirty = true\n\t\t} else {\n\t\t\treturn nil, fmt.Errorf(\"delete conflict: %s\", id)",
  "\t\t\tdirty = true\n\t\t} else {\n\t\t\treturn nil, fmt.Errorf(\"delete conflict: %s\", id)"),
 ("C16-pruner-lt-off-by-one", "C16", "compiler/optimizer/optimizer.go",
  "\t\t// key <= CONST\n\t\treturn compare(\"<\", literal, min)\n", "\t\t// key <= CONST\n\t\treturn compare(\"<=\", literal, min)\n"),
 ("C16-pruner-eq-uses-and", "C16", "compiler/optimizer/optimizer.go",
  "\t\treturn dag.NewBinaryExpr(\"or\",\n\t\t\tcompare(\">\", min, literal),\n\t\t\tcompare(\"<\", max, literal))",
  "\t\treturn dag.NewBinaryExpr(\"or\",\n\t\t\tcompare(\">=\", min, literal),\n\t\t\tcompare(\"<\", max, literal))"),
 ("C17-head-before-entry", "C17", "lake/journal/queue.go",
  "\turi := q.uri(at + 1)\n\tif err := q.engine.PutIfNotExists(ctx, uri, b); err != nil {",
  "\turi := q.uri(at + 1)\n\tif err := q.writeHead(ctx, at+1); err != nil {\n\t\treturn err\n\t}\n\tif err := q.engine.PutIfNotExists(ctx, uri, b); err != nil {"),
 ("C17-branch-before-commit-object", "C17", "lake/branch.go",
  "\t\tif err := b.pool.commits.Put(ctx, object); err != nil {\n\t\t\treturn ksuid.Nil, fmt.Errorf(\"branch %q failed to write commit object: %w\", b.Name, err)\n\t\t}\n",
  ""),
 ("C07-lake-no-slicer", "C07", "compiler/optimizer/optimizer.go",
  "\t\t\tif orderRequired {\n\t\t\t\tseq = append(seq, &dag.Slicer{Kind: \"Slicer\"})", "\t\t\tif orderRequired && false {\n\t\t\t\tseq = append(seq, &dag.Slicer{Kind: \"Slicer\"})"),
 ("C07-lake-pushed-filter-lost", "C07", "compiler/optimizer/optimizer.go",
  "\t\t\t\tFilter:    filter,\n\t\t\t\tKeyPruner: lister.KeyPruner,", "\t\t\t\tFilter:    nil,\n\t\t\t\tKeyPruner: lister.KeyPruner,"),
 ("C08-head-not-merged", "C08", "compiler/optimizer/parallelize.go", None, None),
 ("C19-late-error-not-recorded", "C19", "service/handlers.go",
  "\t\twriter.WriteError(err)\n\t\tstatus.setError(err)\n", "\t\twriter.WriteError(err)\n"),
 ("C01-typedef-after-value", "C01", "zio/zngio/writer.go",
  "\tif err := w.writeBlock(TypesFrame, w.types.bytes); err != nil {\n\t\treturn nil\n\t}\n\tif err := w.writeBlock(ValuesFrame, w.values); err != nil {\n\t\treturn nil\n\t}\n",
  "\tif err := w.writeBlock(ValuesFrame, w.values); err != nil {\n\t\treturn nil\n\t}\n\tif err := w.writeBlock(TypesFrame, w.types.bytes); err != nil {\n\t\treturn nil\n\t}\n"),
 ("C01-no-encoder-reset-at-eos", "C01", "zio/zngio/writer.go",
  "\t\tw.flushed = w.position\n\t}\n\tw.types.Reset()\n", "\t\tw.flushed = w.position\n\t}\n"),
 ("C01-free-buffer-early", "C01", "zio/zngio/scanner.go",
  "\tif len(batch.Values()) == 0 {\n\t\tbatch.Unref()\n\t\treturn nil, nil\n\t}\n\treturn batch, nil\n",
  "\tif len(batch.Values()) == 0 {\n\t\tbatch.Unref()\n\t\treturn nil, nil\n\t}\n\tbuf.free()\n\treturn batch, nil\n"),
]

def run(m):
    name, prop, path, old, new = m
    if old is None:
        return None
    src = open("/repo/" + path).read()
    if old not in src:
        return f"{name}: PATTERN-NOT-FOUND in {path}"
    mutated = src.replace(old, new, 1)
    mf = f"{MUT}/{name}.go.txt"
    open(mf, "w").write(mutated)
    ov = f"{MUT}/{name}.json"
    json.dump({"Replace": {"/repo/" + path: mf}}, open(ov, "w"))
    t = time.time()
    env = dict(os.environ, VERIF_SEED=os.environ.get("VERIF_SEED", "1"))
    p = subprocess.run([V + "/bin/check", prop, "--tier", "quick", "--overlay", ov, "--no-evidence"],
                       cwd=V, capture_output=True, text=True, env=env)
    sigs = sorted({l.strip() for l in p.stdout.splitlines() if l.strip().startswith("signature:")})
    status = "FIRED" if "VIOLATION" in p.stdout else ("BUILD-FAILED" if "BUILD-FAILED" in p.stdout else "MISSED")
    return f"{name}: {status} exit={p.returncode} {time.time()-t:.0f}s {sigs[:4]}"

if __name__ == "__main__":
    pats = sys.argv[1:]
    with open(V + "/.cache/mutants.log", "a") as log:
        for m in MUTANTS:
            if pats and not any(p in m[0] for p in pats):
                continue
            r = run(m)
            if r:
                print(r, flush=True)
                log.write(r + "\n")
                log.flush()

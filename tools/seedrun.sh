#!/bin/bash
# Runs the registered quick check(s) against a seeded change: applies
# seeded/<id>/patch.diff to /repo, runs ./bin/check for the given properties,
# undoes the change straight afterwards.  usage: tools/seedrun.sh <seed-id> <PROP> [PROP...]
cd /verif
id=$1; shift
p=/verif/seeded/$id/patch.diff
git -C /repo diff --quiet || { echo "/repo is not clean"; exit 2; }
git -C /repo apply $p || { echo "$id: patch does not apply"; exit 2; }
trap 'git -C /repo checkout -- .' EXIT
for prop in "$@"; do
  out=$(./bin/check $prop --tier quick --no-evidence 2>&1)
  code=$?
  sigs=$(echo "$out" | grep "signature:" | sed 's/^ *signature: //' | head -5 | tr '\n' ';')
  echo "$id vs $prop: exit=$code $(echo "$out" | grep -c '^VIOLATION') violation line(s); $sigs" | tee -a .cache/seedrun.log
done

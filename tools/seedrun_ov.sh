#!/bin/bash
# Like seedrun.sh, but leaves /repo untouched: the files a seeded change edits are
# copied to .cache/seedov/<id>/, patched there, and handed to the check as a
# `go build -overlay` (safe to run while other checks are building from /repo).
# usage: tools/seedrun_ov.sh <seed-id> <PROP> [PROP...]
cd /verif
id=$1; shift
p=/verif/seeded/$id/patch.diff
d=/verif/.cache/seedov/$id
rm -rf $d; mkdir -p $d
files=$(grep '^+++ b/' $p | sed 's,^+++ b/,,')
for f in $files; do mkdir -p $d/$(dirname $f); [ -f /repo/$f ] && cp /repo/$f $d/$f; done
(cd $d && patch -s -p1 < $p) || { echo "$id: patch does not apply"; exit 2; }
python3 - $d $files > $d/overlay.json <<'P'
import json,sys
d=sys.argv[1]
print(json.dumps({"Replace":{"/repo/"+f: d+"/"+f for f in sys.argv[2:]}}))
P
for prop in "$@"; do
  out=$(./bin/check $prop --tier quick --no-evidence --overlay $d/overlay.json 2>&1)
  code=$?
  sigs=$(echo "$out" | grep "signature:" | sed 's/^ *signature: //' | head -5 | tr '\n' ';')
  echo "$id vs $prop (overlay): exit=$code $(echo "$out" | grep -c '^VIOLATION') violation line(s); $sigs" | tee -a .cache/seedrun.log
done

#!/bin/bash
# Confirms a seeded change in its scratch worktree: with the patch the build and the
# repository's suite pass and the demonstration fails; without it the demonstration passes.
# usage: seedverify.sh <ID> <worktree> <seeddir>
export GOFLAGS=-mod=mod GOPROXY=off GOSUMDB=off GOTOOLCHAIN=local
id=$1; wt=$2; sd=$3
cd $wt || exit 2
echo "== $id"
git diff --stat -- . ':!verifdemo' | tail -1
go build ./... || { echo "$id BUILD-FAIL"; exit 1; }
go test -vet=off -count=1 ./verifdemo/ > /tmp/sv-$id-with.txt 2>&1; with=$?
git apply -R $sd/patch.diff || { echo "$id cannot revert"; exit 1; }
go test -vet=off -count=1 ./verifdemo/ > /tmp/sv-$id-without.txt 2>&1; without=$?
git apply $sd/patch.diff
echo "$id demo: with patch exit=$with (want !=0), without exit=$without (want 0)"
go test -vet=off -count=1 $(go list ./... | grep -v verifdemo) > /tmp/sv-$id-suite.txt 2>&1; suite=$?
echo "$id suite with patch: exit=$suite; failures: $(grep -c '^FAIL\|^--- FAIL' /tmp/sv-$id-suite.txt)"
grep '^FAIL\|^--- FAIL' /tmp/sv-$id-suite.txt | head -5

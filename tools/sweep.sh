#!/bin/bash
# usage: tools/sweep.sh <tier> <seed> [props...]   — runs the checks one after another, prints one summary line each
export GOFLAGS=-mod=mod GOPROXY=off GOSUMDB=off GOTOOLCHAIN=local
tier=$1; seed=$2; shift 2
props=${@:-C01 C02 C03 C04 C05 C06 C07 C08 C09 C10 C11 C12 C13 C14 C15 C16 C17 C18 C19 C20}
[ -x bin/check ] || go build -o bin/check ./cmd/check
for p in $props; do
  out=$(VERIF_SEED=$seed ./bin/check $p --tier $tier --no-evidence 2>&1); code=$?
  echo "$p tier=$tier seed=$seed exit=$code :: $(echo "$out" | grep '^property' | cut -d' ' -f4-)"
  echo "$out" | grep "^VIOLATION\|signature:\|^INCONCL\|BUILD-FAILED" | head -8
done
